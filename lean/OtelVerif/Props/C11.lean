import OtelVerif.Model.C11
import OtelVerif.Lemmas.C11Sys
import OtelVerif.Lemmas.C11Mutex
import OtelVerif.Lemmas.C11Inst
import OtelVerif.Lemmas.C11SysEvents
import OtelVerif.Lemmas.C11WLock
/-!
# C11 — component status events always follow the documented state machine

Property theorems only.  `StatusTable.table` is regenerated from `newFSM` on every run, so every
`decide` below is re-checked against what the code says now.
-/
namespace OtelVerif.C11
open OtelVerif.Gen

/-! ## the table satisfies the constraints the property states -/

/-- the property's own elaboration, as constraints on a transition table -/
def DocConstraints (tbl : List (St × List St)) : Prop :=
  (∀ a ∈ St.all, ∀ b ∈ St.all, allowedIn tbl a b = true → b ≠ .none) ∧          -- nothing re-enters None
  (∀ b ∈ St.all, allowedIn tbl .none b = true → b = .starting) ∧                 -- begins with Starting
  (∀ a ∈ St.all, allowedIn tbl a a = false) ∧                                    -- never repeats
  (∀ b ∈ St.all, allowedIn tbl .permanent b = true → b = .stopping) ∧            -- PermanentError only to Stopping
  (∀ b ∈ St.all, allowedIn tbl .fatal b = false ∧ allowedIn tbl .stopped b = false) -- terminal

instance (tbl) : Decidable (DocConstraints tbl) := by unfold DocConstraints; infer_instance

theorem C11_table_constraints : DocConstraints StatusTable.table := by decide

/-- docs/component-status.md, figure: Starting → OK | Recoverable | Permanent; OK ↔ Recoverable;
OK, Recoverable → Permanent; OK, Recoverable → Stopping; Permanent → Stopping; Stopping → Stopped;
"!Stopped → Fatal" (the prose restricts PermanentError to Stopping). -/
def figureTable : List (St × List St) := [
  (.none, [.starting]),
  (.starting, [.ok, .recoverable, .permanent, .fatal]),
  (.ok, [.recoverable, .permanent, .fatal, .stopping]),
  (.recoverable, [.ok, .permanent, .fatal, .stopping]),
  (.permanent, [.stopping]),
  (.stopping, [.permanent, .fatal, .stopped])]

/-- the two edges the code allows beyond the figure (recorded in DESIGN §C11) -/
def extraEdges : List (St × St) := [(.starting, .stopping), (.stopping, .recoverable)]

/-- any *new* edge outside figure ∪ extraEdges breaks this obligation -/
theorem C11_table_vs_figure :
    ∀ a ∈ St.all, ∀ b ∈ St.all, allowed a b = true → (allowedIn figureTable a b = true ∨ (a, b) ∈ extraEdges) := by
  decide

theorem C11_const_order : StatusTable.constOrder = St.all := by decide

/-! ## every delivered sequence is a path (all report sequences, by induction) -/

theorem C11_path (cur : St) (reps : List Report) : isPath cur (run cur reps) = true := by
  induction reps generalizing cur with
  | nil => simp [run, isPath, isPathIn]
  | cons r rs ih =>
    cases r with
    | status s =>
      by_cases h : allowed cur s = true
      · simp only [run, step, transition, h, if_true]
        simp only [isPath, isPathIn, Bool.and_eq_true]
        exact ⟨h, ih s⟩
      · simp only [run, step, transition, h]
        exact ih cur
    | okIfStarting =>
      by_cases hc : cur = .starting
      · subst hc
        have h : allowed .starting .ok = true := by decide
        simp only [run, step, transition, h, if_true]
        simp only [isPath, isPathIn, Bool.and_eq_true]
        exact ⟨h, ih .ok⟩
      · simp only [run, step, hc, if_false]
        exact ih cur

/-- the property's statement on an event sequence, without reference to the table -/
def DocPath : St → List St → Prop
  | _, [] => True
  | cur, e :: es =>
    e ≠ cur ∧ e ≠ .none ∧ (cur = .none → e = .starting) ∧ (cur = .permanent → e = .stopping) ∧
    cur ≠ .fatal ∧ cur ≠ .stopped ∧ DocPath e es

theorem C11_docPathB_iff (cur : St) (evs : List St) : docPathB cur evs = true ↔ DocPath cur evs := by
  induction evs generalizing cur with
  | nil => simp [docPathB, DocPath]
  | cons e es ih =>
    simp only [docPathB, DocPath, Bool.and_eq_true, ih e]
    cases cur <;> cases e <;> simp

theorem allowed_doc {a b : St} (h : allowed a b = true) :
    b ≠ a ∧ b ≠ .none ∧ (a = .none → b = .starting) ∧ (a = .permanent → b = .stopping) ∧ a ≠ .fatal ∧ a ≠ .stopped := by
  obtain ⟨h1, h2, h3, h4, h5⟩ := C11_table_constraints
  have ha := St.mem_all a
  have hb := St.mem_all b
  refine ⟨?_, h1 a ha b hb h, ?_, ?_, ?_, ?_⟩
  · intro e; subst e; have := h3 b hb; simp [allowed] at h; simp [h] at this
  · intro e; subst e; exact h2 b hb h
  · intro e; subst e; exact h4 b hb h
  · intro e; subst e; have := (h5 b hb).1; simp [allowed] at h; simp [h] at this
  · intro e; subst e; have := (h5 b hb).2; simp [allowed] at h; simp [h] at this

/-- soundness of the monitor: whatever trace `isPath` accepts satisfies the property's clauses -/
theorem C11_check_sound (cur : St) (evs : List St) (h : isPath cur evs = true) : DocPath cur evs := by
  induction evs generalizing cur with
  | nil => trivial
  | cons e es ih =>
    simp only [isPath, isPathIn, Bool.and_eq_true] at h
    obtain ⟨d1, d2, d3, d4, d5, d6⟩ := allowed_doc (a := cur) (b := e) h.1
    exact ⟨d1, d2, d3, d4, d5, d6, ih e h.2⟩

/-- main statement: for every report sequence the delivered events satisfy the property's clauses -/
theorem C11_events_doc (reps : List Report) : DocPath .none (run .none reps) :=
  C11_check_sound _ _ (C11_path _ _)

theorem C11_begins_starting (reps : List Report) (e : St) (es : List St) (h : run .none reps = e :: es) :
    e = .starting := by
  have := C11_events_doc reps
  rw [h] at this
  exact this.2.2.1 rfl

/-- nothing follows FatalError or Stopped -/
theorem C11_terminal (cur : St) (evs : List St) (h : DocPath cur evs) (hc : cur = .fatal ∨ cur = .stopped) : evs = [] := by
  cases evs with
  | nil => rfl
  | cons e es => obtain ⟨_, _, _, _, h5, h6, _⟩ := h; rcases hc with rfl | rfl <;> contradiction

/-- whatever a component reports during start, run and shutdown, and whether or not its start or
shutdown fails, the events the service delivers for it follow the documented machine -/
theorem lifecycle_doc (l : Life) : DocPath .none l.events := C11_events_doc l.reports

/-- a well-behaved component that reports nothing itself is seen as Starting, OK, Stopping, Stopped -/
theorem C11_lifecycle_quiet :
    (Life.mk true [] false true [] [] false).events = [.starting, .ok, .stopping, .stopped] := by decide

/-- a component whose start fails is seen as Starting, PermanentError, and is still taken through
Stopping and Stopped by the shutdown that follows -/
theorem C11_lifecycle_start_failure :
    (Life.mk true [] true false [] [] false).events = [.starting, .permanent, .stopping, .stopped] := by decide

/-- a component that was never reached by start-up produces no event at all -/
theorem C11_lifecycle_never_started (fs : Bool) (ds r dstop : List St) (a b : Bool) :
    (Life.mk false ds a b r dstop fs).events = [] := by
  cases fs <;> simp [Life.events, Life.reports, run, step, transition] <;> decide

/-- complete characterisation of what the service delivers for a component that reports nothing itself, for every
combination of "was reached by start-up / its start fails / the whole start-up succeeds / its shutdown fails"
(`Life` is tied to graph.go / extensions.go by the `c11-life` differential) -/
theorem C11_lifecycle_quiet_all (started failStart allStarted failStop : Bool) :
    (Life.mk started [] failStart allStarted [] [] failStop).events =
      if started then
        [.starting, if failStart then .permanent else .ok, .stopping, if failStop then .permanent else .stopped]
      else [] := by
  cases started <;> cases failStart <;> cases allStarted <;> cases failStop <;> decide

/-- a component that was reached by start-up is always shown as `Starting` first, whatever it reports itself -/
theorem C11_lifecycle_begins (l : Life) (h : l.started = true) : l.events.head? = some .starting := by
  have h0 : allowed .none .starting = true := by decide
  simp [Life.events, Life.reports, h, run, step, transition, h0]

/-- a component shared by two instances, driven by the service: whatever the component reports, in
whatever order the instances are started and stopped, and whether or not its shutdown fails, the
events of BOTH instances follow the documented machine -/
theorem shared_life_doc (l : SharedLife) :
    DocPath .none l.eventsX ∧ DocPath .none (l.eventsY StatusTable.ringCap) :=
  ⟨C11_events_doc l.reportsX, C11_events_doc (l.reportsY StatusTable.ringCap)⟩

/-- while the start-up history fits the ring, the late instance is handed exactly the history the first
one saw (every status the component reported is delivered to every instance it represents) -/
theorem C11_shared_life_replay_complete (l : SharedLife) (h : l.duringStart.length + 1 ≤ StatusTable.ringCap) :
    l.ringAtAttach StatusTable.ringCap = St.starting :: l.duringStart := by
  simp only [SharedLife.ringAtAttach, lastN, List.length_cons]
  have : l.duringStart.length + 1 - StatusTable.ringCap = 0 := by omega
  rw [this]; rfl

/-- the instances of one shared component can nevertheless END in different statuses when its shutdown
fails: the instance whose `Shutdown` call did the work keeps `PermanentError`, the other one is taken on
to `Stopped` by the graph's automatic reports because its own `Shutdown` call returned nil.  Every status
the component reported was delivered to both — recorded as an observation, not a violation. -/
theorem C11_shared_life_final_may_differ :
    let l : SharedLife := ⟨true, true, [], true, [], true, [], true, false⟩
    l.eventsX = [.starting, .ok, .stopping, .permanent] ∧
    l.eventsY StatusTable.ringCap = [.starting, .ok, .stopping, .permanent, .stopping, .stopped] := by decide

/-- a shared component whose (single) `Start` fails: the instance that was being started is shown Starting, PermanentError and is
still taken through Stopping to Stopped by the shutdown that follows; the other instance, never reached, is shown nothing -/
theorem C11_shared_life_start_failure :
    let l : SharedLife := ⟨true, false, [], false, [], true, [], false, true⟩
    l.eventsX = [.starting, .permanent, .stopping, .stopped] ∧ l.eventsY StatusTable.ringCap = [] := by decide

/-! ## illegal reports are no-ops; automatic OK only from Starting -/

theorem step_illegal_noop (cur s : St) (h : allowed cur s = false) : step cur (.status s) = (cur, Option.none) := by
  simp [step, transition, h]

theorem step_legal_moves (cur s : St) (h : allowed cur s = true) : step cur (.status s) = (s, some s) := by
  simp [step, transition, h]

theorem step_ok_only_if_starting (cur : St) :
    (cur ≠ .starting → step cur .okIfStarting = (cur, Option.none)) ∧
    (cur = .starting → step cur .okIfStarting = (.ok, some .ok)) := by
  constructor
  · intro h; simp [step, h]
  · intro h; subst h; decide

/-- if nobody reports `OK` explicitly, every delivered `OK` is the automatic one and comes
directly after `Starting` — for every report sequence (and, through `C11_interleaving`, for every
interleaving of concurrent reporters: a report is one atomic step) -/
theorem C11_auto_ok_after_starting (cur : St) (reps : List Report) (h : ∀ r ∈ reps, r ≠ .status .ok) :
    okPred cur (run cur reps) = true := by
  induction reps generalizing cur with
  | nil => simp [run, okPred]
  | cons r rs ih =>
    have hrs : ∀ r ∈ rs, r ≠ .status .ok := fun r hr => h r (by simp [hr])
    cases r with
    | status s =>
      have hs : s ≠ .ok := fun e => h (.status s) (by simp) (by rw [e])
      by_cases ha : allowed cur s = true
      · simp only [run, step, transition, ha, if_true, okPred, Bool.and_eq_true, Bool.or_eq_true, bne_iff_ne, ne_eq]
        exact ⟨Or.inl hs, ih s hrs⟩
      · simp only [run, step, transition, ha]
        exact ih cur hrs
    | okIfStarting =>
      by_cases hc : cur = .starting
      · subst hc
        have ha : allowed .starting .ok = true := by decide
        simp only [run, step, transition, ha, if_true, okPred, Bool.and_eq_true, Bool.or_eq_true]
        exact ⟨Or.inr (by decide), ih .ok hrs⟩
      · simp only [run, step, hc, if_false]
        exact ih cur hrs

/-! ## many instances, any interleaving: each instance's projection is its own sequential run -/

def projRep (i : Inst) (p : Inst × Report) : Option Report := if p.1 = i then some p.2 else Option.none
def projEv (i : Inst) (p : Inst × St) : Option St := if p.1 = i then some p.2 else Option.none

theorem Reporter.cur_set_same (r : Reporter) (i : Inst) (s : St) : (r.set i s).cur i = s := by
  simp [Reporter.cur, Reporter.set, List.lookup]

theorem lookup_filter_ne (l : List (Inst × St)) (i j : Inst) (h : j ≠ i) :
    (l.filter (fun p => p.1 != i)).lookup j = l.lookup j := by
  induction l with
  | nil => rfl
  | cons p ps ih =>
    by_cases hp : p.1 = i
    · have h1 : (j == p.1) = false := by simpa [hp] using h
      have hp' : (p.1 != i) = false := by simpa using hp
      simp only [List.filter, hp', List.lookup, h1, ih]
    · have hp' : (p.1 != i) = true := by simpa using hp
      simp only [List.filter, hp', List.lookup]
      cases hj : (j == p.1) <;> simp [ih]

theorem Reporter.cur_set_other (r : Reporter) (i j : Inst) (s : St) (h : j ≠ i) : (r.set i s).cur j = r.cur j := by
  have hne : (j == i) = false := by simpa using h
  simp only [Reporter.cur, Reporter.set, List.lookup, hne, lookup_filter_ne _ _ _ h]

/-- every concurrent history is a sequence of atomic reports (one mutex); for **any** such sequence,
over any number of instances, what instance `i` sees is exactly the sequential run of the reports
addressed to `i` -/
theorem C11_interleaving (r : Reporter) (ops : List (Inst × Report)) (i : Inst) :
    (r.runAll ops).filterMap (projEv i) = run (r.cur i) (ops.filterMap (projRep i)) := by
  induction ops generalizing r with
  | nil => simp [Reporter.runAll, run]
  | cons op rest ih =>
    obtain ⟨j, rep⟩ := op
    by_cases hji : j = i
    · subst hji
      have hcur : ((r.report j rep).1).cur j = (step (r.cur j) rep).1 := by
        simp [Reporter.report, Reporter.cur_set_same]
      have hev : (r.report j rep).2 = (step (r.cur j) rep).2 := by simp [Reporter.report]
      simp only [Reporter.runAll, List.filterMap_cons, projRep, if_true, run]
      rw [hev]
      cases hs : (step (r.cur j) rep).2 with
      | none => simp only []; rw [ih, hcur]
      | some e => simp only [List.filterMap_cons, projEv, if_true]; rw [ih, hcur]
    · have hcur : ((r.report j rep).1).cur i = r.cur i := by
        simp only [Reporter.report]; exact Reporter.cur_set_other r j i _ (fun h => hji h.symm)
      simp only [Reporter.runAll, List.filterMap_cons, projRep, hji, if_false]
      cases hs : (r.report j rep).2 with
      | none => simp only []; rw [ih, hcur]
      | some e => simp only [List.filterMap_cons, projEv, hji, if_false]; rw [ih, hcur]

/-- corollary: under any interleaving every instance's event sequence satisfies the property -/
theorem C11_interleaving_doc (ops : List (Inst × Report)) (i : Inst) :
    DocPath .none (((Reporter.mk []).runAll ops).filterMap (projEv i)) := by
  rw [C11_interleaving]
  exact C11_check_sound _ _ (C11_path _ _)

/-! ## shared component: delivery to every instance it represents -/

def reportsOf : List WOp → List St
  | [] => []
  | .report e :: r => e :: reportsOf r
  | .attach :: r => reportsOf r

def noAttach : List WOp → Bool
  | [] => true
  | .report _ :: r => noAttach r
  | .attach :: _ => false

theorem reportsOf_append (a b : List WOp) : reportsOf (a ++ b) = reportsOf a ++ reportsOf b := by
  induction a with
  | nil => rfl
  | cons op r ih => cases op <;> simp [reportsOf, ih]

theorem runState_append (cur : St) (a b : List Report) : runState cur (a ++ b) = runState (runState cur a) b := by
  induction a generalizing cur with
  | nil => rfl
  | cons x xs ih => simp [runState, ih]

theorem pushRing_small (cap : Nat) (ring : List St) (e : St) (h : ring.length < cap) : pushRing cap ring e = ring ++ [e] := by
  simp only [pushRing, List.length_append, List.length_cons, List.length_nil]
  have : ring.length + (0 + 1) - cap = 0 := by omega
  simp [this]

/-- full statement: every attached source ends in the same status as every other one, for every
history of reports and attachments beginning with the first attachment -/
def C11_shared_delivery_full : Prop :=
  ∀ ops : List WOp, ∀ s ∈ (Wrapper.runOps StatusTable.ringCap {} (.attach :: ops)).sources,
    s = runState .starting ((reportsOf ops).map Report.status)

/-- invariant while the recorded history still fits the ring -/
theorem shared_inv (cap : Nat) (ops : List WOp) (w : Wrapper) (hist : List St)
    (hne : w.sources ≠ [])
    (hring : w.ring = hist) (hsrc : ∀ s ∈ w.sources, s = runState .starting (hist.map Report.status))
    (hfit : hist.length + (reportsOf ops).length ≤ cap) :
    let w' := Wrapper.runOps cap w ops
    w'.sources ≠ [] ∧ w'.ring = hist ++ reportsOf ops ∧
      ∀ s ∈ w'.sources, s = runState .starting ((hist ++ reportsOf ops).map Report.status) := by
  induction ops generalizing w hist with
  | nil => simpa [Wrapper.runOps, reportsOf] using ⟨hne, hring, hsrc⟩
  | cons op rest ih =>
    cases op with
    | report e =>
      simp only [reportsOf, List.length_cons] at hfit
      subst hring
      have hemp : w.sources.isEmpty = false := by cases h : w.sources <;> simp_all
      have hlt : w.ring.length < cap := by omega
      have := ih (w.report cap e) (w.ring ++ [e])
        (by simp [Wrapper.report]; exact hne)
        (by simp [Wrapper.report, hemp, pushRing_small cap w.ring e hlt])
        (by
          intro s hs
          simp only [Wrapper.report, List.mem_map] at hs
          obtain ⟨s0, hs0, rfl⟩ := hs
          rw [hsrc s0 hs0, List.map_append, runState_append]
          simp [runState, step])
        (by simp; omega)
      simpa [Wrapper.runOps, Wrapper.apply, reportsOf, List.append_assoc] using this
    | attach =>
      simp only [reportsOf] at hfit
      have := ih w.addSource hist
        (by simp [Wrapper.addSource])
        (by simp [Wrapper.addSource, hring])
        (by
          intro s hs
          simp only [Wrapper.addSource, List.mem_append, List.mem_singleton] at hs
          rcases hs with hs | rfl
          · exact hsrc s hs
          · rw [hring])
        hfit
      simpa [Wrapper.runOps, Wrapper.apply, reportsOf] using this

theorem shared_tail (cap : Nat) (post : List WOp) (w : Wrapper) (x : St) (hpost : noAttach post = true)
    (hsrc : ∀ s ∈ w.sources, s = x) :
    ∀ s ∈ (Wrapper.runOps cap w post).sources, s = runState x ((reportsOf post).map Report.status) := by
  induction post generalizing w x with
  | nil => simpa [Wrapper.runOps, reportsOf, runState] using hsrc
  | cons op rest ih =>
    cases op with
    | attach => simp [noAttach] at hpost
    | report e =>
      simp only [noAttach] at hpost
      have := ih (w.report cap e) (transition x e).1 hpost (by
        intro s hs
        simp only [Wrapper.report, List.mem_map] at hs
        obtain ⟨s0, hs0, rfl⟩ := hs
        rw [hsrc s0 hs0])
      simpa [Wrapper.runOps, Wrapper.apply, reportsOf, runState, step] using this

/-- proved part: as long as no more than `ringCap` reports were made before the last attachment,
every source — whenever it attached — ends in the component's last effective status -/
theorem C11_shared_delivery_partial (pre post : List WOp)
    (hfit : (reportsOf pre).length ≤ StatusTable.ringCap) (hpost : noAttach post = true) :
    ∀ s ∈ (Wrapper.runOps StatusTable.ringCap {} (.attach :: (pre ++ post))).sources,
      s = runState .starting ((reportsOf (pre ++ post)).map Report.status) := by
  have h0 := shared_inv StatusTable.ringCap pre ({} : Wrapper).addSource [] (by simp [Wrapper.addSource])
    (by simp [Wrapper.addSource]) (by simp [Wrapper.addSource, runState]) (by simpa using hfit)
  simp only [List.nil_append] at h0
  obtain ⟨_, _, hs⟩ := h0
  have hro : Wrapper.runOps StatusTable.ringCap {} (.attach :: (pre ++ post)) =
      Wrapper.runOps StatusTable.ringCap (Wrapper.runOps StatusTable.ringCap ({} : Wrapper).addSource pre) post := by
    simp [Wrapper.runOps, Wrapper.apply, List.foldl_append]
  rw [hro]
  rw [reportsOf_append, List.map_append, runState_append]
  exact shared_tail _ post _ _ hpost hs

/-- the full statement is false for the pinned code: a sticky status followed by `ringCap` ignored
reports, then a late attachment (reproduced on the real `sharedcomponent`, known finding) -/
def sharedWitness : List WOp :=
  [.report .starting, .report .permanent, .report .ok, .report .recoverable, .report .ok, .report .recoverable, .report .ok, .attach]

theorem C11_shared_full_fails : ¬ C11_shared_delivery_full := by
  intro h
  have := h sharedWitness .ok (by decide)
  revert this
  decide

/-! ## non-vacuity -/

example : run .none [.status .ok, .status .starting, .okIfStarting, .status .ok, .status .permanent, .status .ok, .status .stopping, .status .stopped, .status .starting]
    = [.starting, .ok, .permanent, .stopping, .stopped] := by decide

example : (Wrapper.runOps StatusTable.ringCap {} (.attach :: [.report .starting, .report .recoverable, .attach, .report .ok])).sources = [.ok, .ok] := by decide


/-! ## event-sequence version: every instance's WATCHER is shown the same events -/

theorem run_append (cur : St) (a b : List Report) : run cur (a ++ b) = run cur a ++ run (runState cur a) b := by
  induction a generalizing cur with
  | nil => rfl
  | cons x xs ih =>
    simp only [List.cons_append, run, runState]
    cases (step cur x).2 <;> simp [ih]

theorem run_single (cur e : St) : run cur [Report.status e] = (transition cur e).2.toList := by
  simp only [run, step]
  cases (transition cur e).2 <;> rfl

theorem sharedE_inv (cap : Nat) (ops : List WOp) (w : WrapperE) (hist : List St)
    (hne : w.sources ≠ [])
    (hring : w.ring = hist)
    (hsrc : ∀ s ∈ w.sources, s = (runState .starting (hist.map Report.status), run .starting (hist.map Report.status)))
    (hfit : hist.length + (reportsOf ops).length ≤ cap) :
    let w' := WrapperE.runOps cap w ops
    w'.sources ≠ [] ∧ w'.ring = hist ++ reportsOf ops ∧
      ∀ s ∈ w'.sources, s = (runState .starting ((hist ++ reportsOf ops).map Report.status),
        run .starting ((hist ++ reportsOf ops).map Report.status)) := by
  induction ops generalizing w hist with
  | nil =>
    simp only [WrapperE.runOps, List.foldl_nil, reportsOf, List.append_nil]
    exact ⟨hne, hring, hsrc⟩
  | cons op rest ih =>
    cases op with
    | report e =>
      simp only [reportsOf, List.length_cons] at hfit
      subst hring
      have hemp : w.sources.isEmpty = false := by cases h : w.sources <;> simp_all
      have hlt : w.ring.length < cap := by omega
      have := ih (w.report cap e) (w.ring ++ [e])
        (by simp [WrapperE.report]; exact hne)
        (by simp [WrapperE.report, hemp, pushRing_small cap w.ring e hlt])
        (by
          intro s hs
          simp only [WrapperE.report, List.mem_map] at hs
          obtain ⟨s0, hs0, rfl⟩ := hs
          rw [hsrc s0 hs0, List.map_append, runState_append, run_append]
          simp [runState, step, run_single])
        (by simp; omega)
      simpa [WrapperE.runOps, WrapperE.apply, reportsOf, List.append_assoc] using this
    | attach =>
      simp only [reportsOf] at hfit
      have := ih w.addSource hist
        (by simp [WrapperE.addSource])
        (by simp [WrapperE.addSource, hring])
        (by
          intro s hs
          simp only [WrapperE.addSource, List.mem_append, List.mem_singleton] at hs
          rcases hs with hs | rfl
          · exact hsrc s hs
          · rw [hring])
        hfit
      simpa [WrapperE.runOps, WrapperE.apply, reportsOf] using this

theorem sharedE_tail (cap : Nat) (post : List WOp) (w : WrapperE) (x : St) (evs : List St) (hpost : noAttach post = true)
    (hsrc : ∀ s ∈ w.sources, s = (x, evs)) :
    ∀ s ∈ (WrapperE.runOps cap w post).sources,
      s = (runState x ((reportsOf post).map Report.status), evs ++ run x ((reportsOf post).map Report.status)) := by
  induction post generalizing w x evs with
  | nil =>
    simp only [WrapperE.runOps, List.foldl_nil, reportsOf, List.map_nil, runState, run, List.append_nil]
    exact hsrc
  | cons op rest ih =>
    cases op with
    | attach => simp [noAttach] at hpost
    | report e =>
      simp only [noAttach] at hpost
      have := ih (w.report cap e) (transition x e).1 (evs ++ (transition x e).2.toList) hpost (by
        intro s hs
        simp only [WrapperE.report, List.mem_map] at hs
        obtain ⟨s0, hs0, rfl⟩ := hs
        rw [hsrc s0 hs0])
      have hr : run x (Report.status e :: (reportsOf rest).map Report.status) =
          (transition x e).2.toList ++ run (transition x e).1 ((reportsOf rest).map Report.status) := by
        have := run_append x [Report.status e] ((reportsOf rest).map Report.status)
        simpa [run_single, runState, step] using this
      simpa [WrapperE.runOps, WrapperE.apply, reportsOf, runState, step, hr, List.append_assoc] using this

/-- **event-sequence version of the shared-delivery clause (partial):** as long as no more than `ringCap` reports were made
before the last attachment, the watcher of EVERY instance the shared component represents — whenever that instance attached,
however many there are — has been shown exactly the same events: those of the component's whole report history run from
`Starting`. -/
theorem C11_shared_events_partial (pre post : List WOp)
    (hfit : (reportsOf pre).length ≤ StatusTable.ringCap) (hpost : noAttach post = true) :
    ∀ s ∈ (WrapperE.runOps StatusTable.ringCap {} (.attach :: (pre ++ post))).sources,
      s = (runState .starting ((reportsOf (pre ++ post)).map Report.status),
           run .starting ((reportsOf (pre ++ post)).map Report.status)) := by
  have h0 := sharedE_inv StatusTable.ringCap pre ({} : WrapperE).addSource [] (by simp [WrapperE.addSource])
    (by simp [WrapperE.addSource]) (by simp [WrapperE.addSource, runState, run]) (by simpa using hfit)
  simp only [List.nil_append] at h0
  obtain ⟨_, _, hs⟩ := h0
  have hro : WrapperE.runOps StatusTable.ringCap {} (.attach :: (pre ++ post)) =
      WrapperE.runOps StatusTable.ringCap (WrapperE.runOps StatusTable.ringCap ({} : WrapperE).addSource pre) post := by
    simp [WrapperE.runOps, WrapperE.apply, List.foldl_append]
  rw [hro]
  rw [reportsOf_append, List.map_append, runState_append, run_append]
  exact sharedE_tail _ post _ _ _ hpost hs

example : (WrapperE.runOps StatusTable.ringCap {} (.attach :: [.report .starting, .report .recoverable, .attach, .attach, .report .ok])).sources =
    [(.ok, [.recoverable, .ok]), (.ok, [.recoverable, .ok]), (.ok, [.recoverable, .ok])] := by decide

/-! ## the service's glue as code-shaped programs (`Model/C11Sys.lean`): graph / extensions / service loops, `sharedcomponent.Component`

`Sys.ops` is tied to the real `service.New/Start/Shutdown` by the exact `c11-sys` differential (every instance of every case). -/

/-- the regenerated status skeletons of `graph.StartAll` / `ShutdownAll`, `extensions.Start` / `Shutdown` and the layer order of
`service.Start` / `Shutdown` are the documented ones: Starting before `Start`; PermanentError and ABORT when it fails, else
OK-if-still-starting; Stopping before `Shutdown`; PermanentError and CARRY ON when it fails, else Stopped; pipeline components
are handed a reporting host (`HostWrapper` with their instance id), extensions the bare host; extensions start before and stop
after the pipelines, in reverse -/
theorem C11_glue_skeletons :
    StatusGlue.graphStart = docStart true ∧ StatusGlue.graphStop = docStop ∧
    StatusGlue.extStart = docStart false ∧ StatusGlue.extStop = docStop ∧ StatusGlue.extStopBackwards = true ∧
    StatusGlue.serviceStart = [.extensions, .pipelines] ∧ StatusGlue.serviceStop = [.pipelines, .extensions] := glue_skeletons

/-- … so the interpreted service run equals the run through the hand-readable loops `startAll` / `stopAll` -/
theorem C11_glue_as_documented (cap : Nat) (s : Sys) : s.ops cap = s.opsDoc cap := glue_as_documented cap s

/-- **refinement: `Life` is what the code-shaped loops do to one plain pipeline component.**  In ANY service (any extensions, any
other instances — plain or shared, any number of shared components — before and after it in the start and stop orders, any
scripts), the reports that reach the state machine of a plain pipeline component instance `t` are exactly `Life.reports`, with
`started` = start-up got as far as `t` (no extension and no earlier instance failed to start) and `allStarted` = the whole
start-up succeeded.  (`a`/`b`, `c`/`d`: the instances `StartAll` / `ShutdownAll` visit before / after `t`; instance ids are
distinct.) -/
theorem C11_sys_plain_is_life (cap : Nat) (s : Sys) (t : Inst) (sc : Script) (a b c d : List Node)
    (hS : s.startOrder = a ++ ⟨t, .plain sc⟩ :: b) (hT : s.stopOrder = c ++ ⟨t, .plain sc⟩ :: d)
    (ha : ∀ n ∈ a, n.inst ≠ t) (hb : ∀ n ∈ b, n.inst ≠ t) (hc : ∀ n ∈ c, n.inst ≠ t) (hd : ∀ n ∈ d, n.inst ≠ t)
    (he : ∀ n ∈ s.exts, n.inst ≠ t) :
    (s.ops cap).filterMap (projOp t) =
      (Life.mk (s.reaches cap a) sc.duringStart sc.failStart (s.startedUp cap) sc.running sc.duringStop sc.failStop).reports := by
  rw [C11_glue_as_documented]
  exact sys_plain_is_life_doc cap s t sc a b c d hS hT ha hb hc hd he

/-- … hence its watcher is shown exactly `Life.events` -/
theorem C11_sys_plain_events (cap : Nat) (s : Sys) (t : Inst) (sc : Script) (a b c d : List Node)
    (hS : s.startOrder = a ++ ⟨t, .plain sc⟩ :: b) (hT : s.stopOrder = c ++ ⟨t, .plain sc⟩ :: d)
    (ha : ∀ n ∈ a, n.inst ≠ t) (hb : ∀ n ∈ b, n.inst ≠ t) (hc : ∀ n ∈ c, n.inst ≠ t) (hd : ∀ n ∈ d, n.inst ≠ t)
    (he : ∀ n ∈ s.exts, n.inst ≠ t) :
    s.events cap t =
      (Life.mk (s.reaches cap a) sc.duringStart sc.failStart (s.startedUp cap) sc.running sc.duringStop sc.failStop).events := by
  simp only [Sys.events, Life.events, C11_sys_plain_is_life cap s t sc a b c d hS hT ha hb hc hd he]

/-- the same for an EXTENSION (handed the bare host: whatever it tries to report itself vanishes): its state machine receives
`Life.reports` with no own reports, so by `C11_lifecycle_quiet_all` its watcher is shown exactly Starting, OK | PermanentError,
Stopping, Stopped | PermanentError — or nothing if an earlier extension failed to start -/
theorem C11_sys_extension_events (cap : Nat) (s : Sys) (t : Inst) (sc : Script) (ea eb : List Node)
    (hX : s.exts = ea ++ ⟨t, .plain sc⟩ :: eb) (ha : ∀ n ∈ ea, n.inst ≠ t) (hb : ∀ n ∈ eb, n.inst ≠ t)
    (hS : ∀ n ∈ s.startOrder, n.inst ≠ t) (hT : ∀ n ∈ s.stopOrder, n.inst ≠ t) :
    s.events cap t =
      if (startAll cap false s.g0 ea).2.2 then
        [.starting, if sc.failStart then .permanent else .ok, .stopping, if sc.failStop then .permanent else .stopped]
      else [] := by
  have h := sys_ext_is_life_doc cap s t sc ea eb hX ha hb hS hT
  rw [← C11_glue_as_documented] at h
  have h' : (s.ops cap).filterMap (projOp t) = _ := h
  simp only [Sys.events, h']
  exact C11_lifecycle_quiet_all _ _ _ _

/-- **"a component shared by several pipelines or signals delivers its status to every instance it represents", at service level,
any number of instances, no ring restriction:** in ANY service whose start-up succeeds, every status the inner component of shared
component `k` reports while running is handed to the state machine of EVERY pipeline instance `x` of `k` — whichever other
instances, plain or shared, extensions included, surround it and in whatever order they were started -/
theorem C11_sys_shared_running_delivered (cap : Nat) (s : Sys) (k : Nat) (x : Inst) (a b : List Node)
    (hS : s.startOrder = a ++ ⟨x, .shared k⟩ :: b) (hk : k < s.shared.length) (hup : s.startedUp cap = true)
    (e : St) (he : e ∈ (s.shared.getD k {}).running) :
    (x, Report.status e) ∈ s.ops cap := by
  rw [C11_glue_as_documented]
  exact sys_shared_running_delivered_doc cap s k x a b hS hk hup e he

example :
    let s : Sys := { exts := [⟨9, .plain {}⟩], startOrder := [⟨0, .plain {}⟩, ⟨1, .shared 0⟩, ⟨2, .shared 0⟩, ⟨3, .shared 0⟩],
                     stopOrder := [⟨3, .shared 0⟩, ⟨2, .shared 0⟩, ⟨1, .shared 0⟩, ⟨0, .plain {}⟩],
                     shared := [{ running := [.recoverable] }] }
    s.startedUp 5 = true ∧ s.events 5 1 = [.starting, .ok, .recoverable, .stopping, .stopped] ∧ s.events 5 3 = s.events 5 1 := by
  decide

/-- **replay within the ring, ANY number of instances (code-shaped `sharedcomponent.Component`):** the first instance `x` starts the
inner component; however many further instances attach before `z`, if what the component reported through the wrapper during its
`Start` (regenerated `Starting`, its own reports, `PermanentError` if it fails) fits the ring, the late instance `z` is handed
exactly the reports `x` received — so from the graph's `Starting` on, both watchers are shown the same events -/
theorem C11_shared_replay_complete_N (sc : Script) (x z : Inst) (xs : List Inst) (hzx : z ≠ x) (hz : z ∉ xs) (hx : x ∉ xs)
    (hfit : sc.startHistory.length ≤ StatusTable.ringCap) :
    let ops := (SC.fireAll StatusTable.ringCap { script := sc }
      (SCLabel.start x true :: (xs.map (fun y => SCLabel.start y true) ++ [SCLabel.start z true]))).2
    ops.filterMap (projOp z) = sc.startHistory.map Report.status ∧ ops.filterMap (projOp x) = sc.startHistory.map Report.status ∧
      run .starting (ops.filterMap (projOp z)) = run .starting (ops.filterMap (projOp x)) := by
  obtain ⟨h1, h2⟩ := shared_replay_N StatusTable.ringCap sc x z xs hzx hz hx hfit
  have h1' : _ = sc.startHistory.map Report.status := h1
  have h2' : _ = sc.startHistory.map Report.status := h2
  simp only [pr] at h1' h2'
  exact ⟨h1', h2', by rw [h1', h2']⟩

example : ({ duringStart := [.recoverable, .ok], failStart := true } : Script).startHistory = [.starting, .recoverable, .ok, .permanent] := by decide

/-- non-vacuity of `C11_shared_replay_complete_N`: four instances, the fourth is replayed what the first received -/
example :
    let ops := (SC.fireAll 5 { script := { duringStart := [.recoverable, .ok] } }
      [.start 1 true, .start 2 true, .start 3 true, .start 4 true]).2
    ops.filterMap (projOp 4) = [.status .starting, .status .recoverable, .status .ok] ∧
      ops.filterMap (projOp 1) = ops.filterMap (projOp 4) := by decide

/-- **service level, any number of instances, first or late: every instance of a shared component receives the same reports until
the service starts stopping.**  In any service whose start-up succeeds, if what component `k` reports during its `Start` fits the
ring (and no extension is an instance of `k`), the reports reaching the state machine of ANY pipeline instance `x` of `k` during
`service.Start` and the running phase are `Starting, <start history>, OK-if-starting, <running reports>` — one list, the same for
every instance, whatever other instances (plain, shared, of `k` or not) are started before or after it -/
theorem C11_sys_shared_same_reports (s : Sys) (k : Nat) (x : Inst) (a b : List Node)
    (hS : s.startOrder = a ++ ⟨x, .shared k⟩ :: b) (ha : ∀ n ∈ a, n.inst ≠ x) (hb : ∀ n ∈ b, n.inst ≠ x)
    (he : ∀ n ∈ s.exts, n.inst ≠ x ∧ n.kind ≠ .shared k) (hk : k < s.shared.length)
    (hfit : (s.shared.getD k {}).startHistory.length ≤ StatusTable.ringCap) (hup : s.startedUp StatusTable.ringCap = true) :
    s.ops StatusTable.ringCap = s.upOpsDoc StatusTable.ringCap ++ s.downOpsDoc StatusTable.ringCap ∧
    (s.upOpsDoc StatusTable.ringCap).filterMap (projOp x) =
      Report.status .starting :: ((s.shared.getD k {}).startHistory.map Report.status ++
        Report.okIfStarting :: (s.shared.getD k {}).running.map Report.status) := by
  refine ⟨by rw [C11_glue_as_documented, Sys.opsDoc_split], ?_⟩
  exact sys_shared_up_reports StatusTable.ringCap s k x a b hS ha hb he hk hfit hup

/-- **the proved part of `C11_sys_shared_same_events_full` (below):** in any service whose start-up succeeds, while what the shared
component reports during its `Start` fits the ring (and no extension is an instance of it), the watchers of ANY two pipeline
instances `x`, `y` of the component — first or late, any number of other instances around — are shown the same events before
Stopping.  Hypothesis that cannot be dropped: the ring fit (`C11_sys_shared_same_events_full_fails`). -/
theorem C11_sys_shared_same_events_partial (s : Sys) (k : Nat) (x y : Inst) (a b a' b' : List Node)
    (hSx : s.startOrder = a ++ ⟨x, .shared k⟩ :: b) (hax : ∀ n ∈ a, n.inst ≠ x) (hbx : ∀ n ∈ b, n.inst ≠ x)
    (hSy : s.startOrder = a' ++ ⟨y, .shared k⟩ :: b') (hay : ∀ n ∈ a', n.inst ≠ y) (hby : ∀ n ∈ b', n.inst ≠ y)
    (he : ∀ n ∈ s.exts, n.inst ≠ x ∧ n.inst ≠ y ∧ n.kind ≠ .shared k) (hk : k < s.shared.length)
    (hfit : (s.shared.getD k {}).startHistory.length ≤ StatusTable.ringCap) (hup : s.startedUp StatusTable.ringCap = true) :
    beforeStopping (s.events StatusTable.ringCap x) = beforeStopping (s.events StatusTable.ringCap y) := by
  rw [sys_shared_same_events StatusTable.ringCap s k x a b hSx hax hbx (fun n hn => ⟨(he n hn).1, (he n hn).2.2⟩) hk hfit hup,
      sys_shared_same_events StatusTable.ringCap s k y a' b' hSy hay hby (fun n hn => ⟨(he n hn).2.1, (he n hn).2.2⟩) hk hfit hup]

example :
    let s : Sys := { exts := [⟨9, .plain {}⟩], startOrder := [⟨1, .shared 0⟩, ⟨0, .plain { duringStart := [.ok] }⟩, ⟨2, .shared 0⟩, ⟨3, .shared 0⟩],
                     stopOrder := [⟨3, .shared 0⟩, ⟨0, .plain { duringStart := [.ok] }⟩, ⟨2, .shared 0⟩, ⟨1, .shared 0⟩],
                     shared := [{ duringStart := [.recoverable, .permanent], running := [.ok], failStop := true }] }
    s.startedUp 5 = true ∧ beforeStopping (s.events 5 1) = [.starting, .recoverable, .permanent] ∧
      s.events 5 3 = [.starting, .recoverable, .permanent, .stopping, .permanent] ∧
      s.events 5 1 = [.starting, .recoverable, .permanent, .stopping, .permanent, .stopping, .stopped] := by
  decide

/-- full statement of the shared-delivery clause at service level (the driver's `prop shared` oracle on the implementation's
events): after a successful start-up all instances of one shared component have been shown the same events until the service
starts stopping them -/
def C11_sys_shared_same_events_full : Prop :=
  ∀ (s : Sys) (k : Nat) (x y : Inst), ⟨x, .shared k⟩ ∈ s.startOrder → ⟨y, .shared k⟩ ∈ s.startOrder →
    s.startedUp StatusTable.ringCap = true →
    beforeStopping (s.events StatusTable.ringCap x) = beforeStopping (s.events StatusTable.ringCap y)

/-- … it is FALSE of the code as it is, for the same reason as `C11_shared_full_fails` (the replay ring): a shared receiver in two
signals whose `Start` reports PermanentError and then five more statuses — the first instance stays in PermanentError, the late
one is replayed only the last five and is shown OK (corpus case 0 of the `sysservice` harness replays it on the real service;
open known finding `C11/sharedcomponent/ring-overflow-after-sticky`) -/
theorem C11_sys_shared_same_events_full_fails : ¬ C11_sys_shared_same_events_full := by
  intro h
  have := h { startOrder := [⟨0, .shared 0⟩, ⟨1, .shared 0⟩], stopOrder := [⟨0, .shared 0⟩, ⟨1, .shared 0⟩],
              shared := [{ duringStart := [.permanent, .ok, .recoverable, .ok, .recoverable, .ok] }] } 0 0 1
    (by decide) (by decide) (by decide)
  revert this
  decide

/-- non-vacuity of `C11_sys_extension_events`: the second of three extensions fails to start -/
example :
    let s : Sys := { exts := [⟨7, .plain {}⟩, ⟨8, .plain { duringStart := [.ok], failStart := true }⟩, ⟨9, .plain {}⟩],
                     startOrder := [⟨0, .plain {}⟩], stopOrder := [⟨0, .plain {}⟩] }
    s.events 5 7 = [.starting, .ok, .stopping, .stopped] ∧ s.events 5 8 = [.starting, .permanent, .stopping, .stopped] ∧
      s.events 5 9 = [] ∧ s.events 5 0 = [] := by decide

/-- non-vacuity: a plain exporter between a shared receiver's two instances and a failing processor -/
example :
    let s : Sys := { startOrder := [⟨0, .plain {}⟩, ⟨1, .shared 0⟩, ⟨7, .plain { duringStart := [.recoverable], running := [.ok] }⟩, ⟨2, .shared 0⟩, ⟨3, .plain { failStart := true }⟩],
                     stopOrder := [⟨2, .shared 0⟩, ⟨7, .plain { duringStart := [.recoverable], running := [.ok] }⟩, ⟨1, .shared 0⟩, ⟨0, .plain {}⟩, ⟨3, .plain { failStart := true }⟩],
                     shared := [{ duringStart := [.recoverable] }] }
    s.events 5 7 = [.starting, .recoverable, .stopping, .stopped] ∧ s.reaches 5 [⟨0, .plain {}⟩, ⟨1, .shared 0⟩] = true ∧ s.startedUp 5 = false := by
  decide

/-- the statuses `sharedcomponent.Component` reports on its own through the wrapper (regenerated) -/
theorem C11_shared_skeleton :
    StatusGlue.sharedStartPre = [.starting] ∧ StatusGlue.sharedStartErr = [.permanent] ∧
    StatusGlue.sharedStopPre = [.stopping] ∧ StatusGlue.sharedStopErr = [.permanent] ∧ StatusGlue.sharedStopOk = [.stopped] := by decide

/-- what the watcher is shown for instance `i` in a service run IS the reporter's (atomic model's) output for the glue's reports -/
theorem C11_sys_events_are_reporter_output (cap : Nat) (s : Sys) (i : Inst) :
    ((Reporter.mk []).runAll (s.ops cap)).filterMap (projEv i) = s.events cap i := by
  rw [C11_interleaving]; rfl

/-- every service — any extensions, any pipeline component instances in any start / stop order, any number of shared components
with any number of instances each, whatever every component reports and wherever start-up or shutdown fails —: the events of every
instance satisfy the property's clauses -/
theorem C11_sys_doc (cap : Nat) (s : Sys) (i : Inst) : DocPath .none (s.events cap i) := C11_events_doc _

/-- `startOnce` / `stopOnce`: under ANY sequence of `Start` (by any instance, with or without a reporting host), `Shutdown` and
report calls, the inner component is started at most once and shut down at most once -/
theorem C11_shared_once (cap : Nat) (sc : Script) (ls : List SCLabel) :
    (SC.fireAll cap { script := sc } ls).1.innerStarts ≤ 1 ∧ (SC.fireAll cap { script := sc } ls).1.innerStops ≤ 1 := by
  obtain ⟨_, h2, h3⟩ := SCInv_fireAll cap _ ls (SCInv_fresh sc)
  constructor
  · rw [h2]; split <;> omega
  · rw [h3]; split <;> omega

/-- every instance whose `Start` was called with a status-reporting host is in the fan-out list from then on -/
theorem C11_shared_attaches_every_instance (cap : Nat) (sc : Script) (ls : List SCLabel) :
    (SC.fireAll cap { script := sc } ls).1.sources = attached ls := by
  rw [SC.fireAll_sources cap _ ls (SCInv_fresh sc)]; simp [SC.sources]

/-- … and every status the component reports after that is handed to that instance's reporter -/
theorem C11_shared_delivers_after_attach (cap : Nat) (sc : Script) (pre post : List SCLabel) (e : St) (i : Inst)
    (hi : i ∈ attached pre) :
    (i, Report.status e) ∈ (SC.fireAll cap { script := sc } (pre ++ SCLabel.report e :: post)).2 := by
  rw [SC.fireAll_append]
  simp only [SC.fireAll, List.mem_append]
  right; left
  have hs := C11_shared_attaches_every_instance cap sc pre
  generalize (SC.fireAll cap { script := sc } pre).1 = c at hs
  simp only [SC.fire]
  cases hw : c.hw with
  | none => simp [SC.sources, hw] at hs; rw [hs] at hi; cases hi
  | some h0 =>
    simp only [SC.sources, hw, Option.map_some, Option.getD_some] at hs
    simp only [HW.report, List.mem_map]
    exact ⟨i, by rw [hs]; exact hi, rfl⟩

example : attached [.start 3 true, .report .ok, .start 4 false, .start 5 true, .shutdown] = [3, 5] := by decide

example : (Sys.events 5 { startOrder := [⟨0, .plain {}⟩, ⟨1, .shared 0⟩, ⟨2, .shared 0⟩, ⟨3, .plain { failStart := true }⟩, ⟨4, .plain {}⟩],
                          stopOrder := [⟨2, .shared 0⟩, ⟨1, .shared 0⟩, ⟨0, .plain {}⟩, ⟨3, .plain { failStart := true }⟩, ⟨4, .plain {}⟩],
                          shared := [{ duringStart := [.recoverable], failStop := true }] } 2,
           Sys.events 5 { startOrder := [⟨0, .plain {}⟩, ⟨1, .shared 0⟩, ⟨2, .shared 0⟩, ⟨3, .plain { failStart := true }⟩, ⟨4, .plain {}⟩],
                          stopOrder := [⟨2, .shared 0⟩, ⟨1, .shared 0⟩, ⟨0, .plain {}⟩, ⟨3, .plain { failStart := true }⟩, ⟨4, .plain {}⟩],
                          shared := [{ duringStart := [.recoverable], failStop := true }] } 4)
    = ([.starting, .recoverable, .stopping, .permanent], []) := by decide

/-! ## the reporter mutex: one report IS one atomic step (sub-step LTS of `Model/C11Mutex.lean`)

`C11_interleaving` takes a concurrent history to be a sequence of atomic reports.  That is no longer an assumption: every call is
split into `Lock`, read of the FSM's current status, write, watcher callback, `Unlock`, interleaved at that granularity by an
arbitrary scheduler; `useLock` is regenerated from the source (`reporterLocked`, `callbackSync`). -/

/-- regenerated shape facts: both reporter methods hold `r.mu` from their first statement to their return and the watcher callback
runs synchronously inside -/
theorem C11_reporter_critical_section : (StatusTable.reporterLocked && StatusTable.callbackSync) = true := by decide

/-- at EVERY reachable state of the sub-step system — any number of goroutines, any programs of reports, any scheduler —:
(1) each goroutine's calls pass `Lock` in its program order; (2) whenever the lock is free the delivered events and every FSM are
exactly those of the atomic model run on the calls in `Lock` order; (3) at all times the delivered events are a prefix of them -/
theorem C11_mutex_atomic (progs : List (List (Inst × Report))) (sched : List Nat) (s : Mutex.MState)
    (h : Mutex.runSched (Mutex.init (StatusTable.reporterLocked && StatusTable.callbackSync) progs) sched = some s) :
    (∀ (t : Nat) (th : Mutex.Thread), s.threads[t]? = some th → ∃ done, progs[t]? = some (done ++ th.todo) ∧
        s.taken t = done ++ (if th.phase = Mutex.Phase.idle then [] else th.todo.take 1)) ∧
    (s.holder = Option.none → s.log = Reporter.runAll {} s.ops ∧ ∀ i, s.rep.cur i = (Mutex.after {} s.ops).cur i) ∧
    (∃ k, s.log = (Reporter.runAll {} s.ops).take k) := by
  rw [C11_reporter_critical_section] at h
  exact Mutex.mutex_atomic progs sched s h

theorem DocPath_take (cur : St) (l : List St) (k : Nat) (h : DocPath cur l) : DocPath cur (l.take k) := by
  induction l generalizing cur k with
  | nil => simpa using h
  | cons e es ih =>
    cases k with
    | zero => simp [DocPath]
    | succ k =>
      obtain ⟨h1, h2, h3, h4, h5, h6, h7⟩ := h
      exact ⟨h1, h2, h3, h4, h5, h6, ih e k h7⟩

/-- the property's clauses at sub-step granularity: whatever the goroutines report and however they are scheduled, at every
moment what the watchers have been shown for each instance satisfies the documented machine -/
theorem C11_mutex_doc (progs : List (List (Inst × Report))) (sched : List Nat) (s : Mutex.MState) (i : Inst)
    (h : Mutex.runSched (Mutex.init (StatusTable.reporterLocked && StatusTable.callbackSync) progs) sched = some s) :
    DocPath .none (s.log.filterMap (projEv i)) := by
  obtain ⟨_, _, k, hk⟩ := C11_mutex_atomic progs sched s h
  obtain ⟨k', hk'⟩ := Mutex.filterMap_take_exists (projEv i) (Reporter.runAll {} s.ops) k
  rw [hk, hk']
  exact DocPath_take _ _ _ (C11_interleaving_doc s.ops i)

/-- the lock is what makes it true: without it two goroutines reporting `Starting` for the same instance can both read `None`, and
the watcher is shown `Starting` twice -/
theorem C11_mutex_needed :
    ∃ sched s, Mutex.runSched (Mutex.init false [[(0, Report.status St.starting)], [(0, Report.status St.starting)]]) sched = some s ∧
      ¬ DocPath .none (s.log.filterMap (projEv 0)) := by
  obtain ⟨sched, s, h1, h2⟩ := Mutex.mutex_unlocked_breaks
  refine ⟨sched, s, h1, ?_⟩
  rw [h2]
  intro hd
  have := (C11_docPathB_iff _ _).mpr hd
  revert this
  decide

/-- a goroutine that wants the lock while another one is inside the critical section cannot move -/
example : (Mutex.runSched (Mutex.init true [[(0, .status .starting), (0, .okIfStarting)], [(0, .status .recoverable)]])
    [0, 0, 0, 0, 0, 1, 1, 1, 1, 1, 0, 0, 0, 0, 0]).map (·.log) = some [(0, .starting), (0, .recoverable)] ∧
  (Mutex.runSched (Mutex.init true [[(0, .status .starting)], [(0, .status .recoverable)]]) [0, 0, 1]).isNone = true := by
  constructor <;> decide

/-! ## the wrapper's lock: `hostWrapper.Report` / `addSource` ARE atomic w.r.t. each other (sub-step LTS of `Model/C11WLock.lean`)

The shared-component models (`Wrapper`, `WrapperE`, `HW`) treat a `Report` (remember + fan-out to every source) and an `addSource`
(replay + append) as one step each.  That is a theorem about the sub-step system — Lock, ring update / loop start, ONE sub-step per
delivery, append, Unlock; the component reporting from any number of goroutines while the graph attaches late instances. -/

/-- regenerated shape fact: both wrapper methods hold `h.lock` from their first statement to their return -/
theorem C11_wrapper_critical_section : StatusGlue.wrapperLocked = true := by decide

/-- at EVERY reachable state — any goroutines, any programs of `Report` / `addSource` calls, any scheduler, any initial wrapper —:
whenever the lock is free the wrapper (sources, ring) and the sequence of deliveries are exactly what the atomic model yields for the
calls in `Lock` order; at all times the deliveries made so far are a prefix of it -/
theorem C11_wlock_atomic (cap : Nat) (hw0 : HW) (progs : List (List WLock.WCall)) (sched : List Nat) (s : WLock.WState)
    (h : WLock.runSched (WLock.init StatusGlue.wrapperLocked cap hw0 progs) sched = some s) :
    (s.holder = Option.none → (s.hw, s.out) = WLock.applyCalls cap (hw0, []) s.calls) ∧
    (∃ k, s.out = (WLock.applyCalls cap (hw0, []) s.calls).2.take k) := by
  rw [C11_wrapper_critical_section] at h
  exact WLock.wlock_atomic cap hw0 progs sched s h

/-- the lock is what makes it true: without it a late instance can end attached and yet have missed a report for good (neither
replayed nor fanned out), which no sequential order of the two calls allows -/
theorem C11_wlock_needed :
    ∃ sched s, WLock.runSched (WLock.init false 5 { sources := [0] } [[.report .ok], [.attach 1]]) sched = some s ∧
      (∀ th ∈ s.threads, th.todo = []) ∧ s.hw.sources = [0, 1] ∧ s.out = [(0, Report.status .ok)] ∧
      (WLock.applyCalls 5 ({ sources := [0] }, []) [.report .ok, .attach 1]).2 = [(0, .status .ok), (1, .status .ok)] ∧
      (WLock.applyCalls 5 ({ sources := [0] }, []) [.attach 1, .report .ok]).2 = [(0, .status .ok), (1, .status .ok)] := by
  obtain ⟨sched, s, h1, h2, h3, h4⟩ := WLock.wlock_unlocked_breaks
  exact ⟨sched, s, h1, h2, h3, h4, by decide, by decide⟩

example : (WLock.runSched (WLock.init true 5 { sources := [0] } [[.report .ok], [.attach 1]]) [1, 1, 0]).isNone = true ∧
    ((WLock.runSched (WLock.init true 5 { sources := [0] } [[.report .ok], [.attach 1]]) [1, 1, 1, 1, 0, 0, 0, 0, 0, 0]).map (·.out)) =
      some [(0, .status .ok), (1, .status .ok)] ∧
    ((WLock.runSched (WLock.init true 5 { sources := [0] } [[.report .ok], [.attach 1]]) [0, 0, 0, 0, 0, 1, 1, 1, 1, 1]).map (·.out)) =
      some [(0, .status .ok), (1, .status .ok)] := by
  refine ⟨by decide, by decide, by decide⟩

/-! ## instance ids (`component/componentstatus/instance.go`, tied by the exact `c11-inst` differential) -/

/-- an instance id depends only on the SET of pipelines it was given: the order (`graph.Build` walks a Go map), duplicates and the
grouping into `NewInstanceID` / `WithPipelines` calls are immaterial — one component instance has one id, hence one state machine
and one event stream at the watchers -/
theorem C11_instance_pipelines_canonical (comp kind : Nat) (l1 l2 : List Nat) (h : ∀ x, x ∈ l1 ↔ x ∈ l2) :
    IID.new comp kind l1 = IID.new comp kind l2 := by
  simp only [IID.new, normPipes_canonical l1 l2 h]

theorem C11_instance_with_pipelines (comp kind : Nat) (a b c : List Nat) (h : ∀ x, x ∈ c ↔ x ∈ a ∨ x ∈ b) :
    (IID.new comp kind a).withPipelines b = IID.new comp kind c := by
  simp only [IID.new, IID.withPipelines]
  congr 1
  apply normPipes_canonical
  intro x
  rw [List.mem_append, mem_normPipes, h]

/-- what `AllPipelineIDs` enumerates: exactly the pipelines given, each once, in increasing order -/
theorem C11_instance_enumeration (comp kind : Nat) (l : List Nat) :
    (IID.new comp kind l).pipes.Pairwise (· < ·) ∧ ∀ x, x ∈ (IID.new comp kind l).pipes ↔ x ∈ l :=
  ⟨normPipes_sorted l, fun x => mem_normPipes x l⟩

example : (IID.new 1 2 [5, 3, 5]).withPipelines [3, 9, 0] = IID.new 1 2 [0, 9, 5, 3] := by decide

end OtelVerif.C11
