import OtelVerif.Model.C11
/-!
# C11 — component status events always follow the documented state machine

Property theorems only.  `StatusTable.table` is regenerated from `newFSM` on every run, so every
`decide` below is re-checked against what the code says now.
-/
namespace OtelVerif.C11
open OtelVerif.Gen

/-! ## the table satisfies the constraints the property states -/

/-- the property's own elaboration, as constraints on a transition table -/
def DocConstraints (tbl : List (St × List St)) : Prop :=
  (∀ a ∈ St.all, ∀ b ∈ St.all, allowedIn tbl a b = true → b ≠ .none) ∧          -- nothing re-enters None
  (∀ b ∈ St.all, allowedIn tbl .none b = true → b = .starting) ∧                 -- begins with Starting
  (∀ a ∈ St.all, allowedIn tbl a a = false) ∧                                    -- never repeats
  (∀ b ∈ St.all, allowedIn tbl .permanent b = true → b = .stopping) ∧            -- PermanentError only to Stopping
  (∀ b ∈ St.all, allowedIn tbl .fatal b = false ∧ allowedIn tbl .stopped b = false) -- terminal

instance (tbl) : Decidable (DocConstraints tbl) := by unfold DocConstraints; infer_instance

theorem C11_table_constraints : DocConstraints StatusTable.table := by decide

/-- docs/component-status.md, figure: Starting → OK | Recoverable | Permanent; OK ↔ Recoverable;
OK, Recoverable → Permanent; OK, Recoverable → Stopping; Permanent → Stopping; Stopping → Stopped;
"!Stopped → Fatal" (the prose restricts PermanentError to Stopping). -/
def figureTable : List (St × List St) := [
  (.none, [.starting]),
  (.starting, [.ok, .recoverable, .permanent, .fatal]),
  (.ok, [.recoverable, .permanent, .fatal, .stopping]),
  (.recoverable, [.ok, .permanent, .fatal, .stopping]),
  (.permanent, [.stopping]),
  (.stopping, [.permanent, .fatal, .stopped])]

/-- the two edges the code allows beyond the figure (recorded in DESIGN §C11) -/
def extraEdges : List (St × St) := [(.starting, .stopping), (.stopping, .recoverable)]

/-- any *new* edge outside figure ∪ extraEdges breaks this obligation -/
theorem C11_table_vs_figure :
    ∀ a ∈ St.all, ∀ b ∈ St.all, allowed a b = true → (allowedIn figureTable a b = true ∨ (a, b) ∈ extraEdges) := by
  decide

theorem C11_const_order : StatusTable.constOrder = St.all := by decide

/-! ## every delivered sequence is a path (all report sequences, by induction) -/

theorem C11_path (cur : St) (reps : List Report) : isPath cur (run cur reps) = true := by
  induction reps generalizing cur with
  | nil => simp [run, isPath, isPathIn]
  | cons r rs ih =>
    cases r with
    | status s =>
      by_cases h : allowed cur s = true
      · simp only [run, step, transition, h, if_true]
        simp only [isPath, isPathIn, Bool.and_eq_true]
        exact ⟨h, ih s⟩
      · simp only [run, step, transition, h]
        exact ih cur
    | okIfStarting =>
      by_cases hc : cur = .starting
      · subst hc
        have h : allowed .starting .ok = true := by decide
        simp only [run, step, transition, h, if_true]
        simp only [isPath, isPathIn, Bool.and_eq_true]
        exact ⟨h, ih .ok⟩
      · simp only [run, step, hc, if_false]
        exact ih cur

/-- the property's statement on an event sequence, without reference to the table -/
def DocPath : St → List St → Prop
  | _, [] => True
  | cur, e :: es =>
    e ≠ cur ∧ e ≠ .none ∧ (cur = .none → e = .starting) ∧ (cur = .permanent → e = .stopping) ∧
    cur ≠ .fatal ∧ cur ≠ .stopped ∧ DocPath e es

theorem C11_docPathB_iff (cur : St) (evs : List St) : docPathB cur evs = true ↔ DocPath cur evs := by
  induction evs generalizing cur with
  | nil => simp [docPathB, DocPath]
  | cons e es ih =>
    simp only [docPathB, DocPath, Bool.and_eq_true, ih e]
    cases cur <;> cases e <;> simp

theorem allowed_doc {a b : St} (h : allowed a b = true) :
    b ≠ a ∧ b ≠ .none ∧ (a = .none → b = .starting) ∧ (a = .permanent → b = .stopping) ∧ a ≠ .fatal ∧ a ≠ .stopped := by
  obtain ⟨h1, h2, h3, h4, h5⟩ := C11_table_constraints
  have ha := St.mem_all a
  have hb := St.mem_all b
  refine ⟨?_, h1 a ha b hb h, ?_, ?_, ?_, ?_⟩
  · intro e; subst e; have := h3 b hb; simp [allowed] at h; simp [h] at this
  · intro e; subst e; exact h2 b hb h
  · intro e; subst e; exact h4 b hb h
  · intro e; subst e; have := (h5 b hb).1; simp [allowed] at h; simp [h] at this
  · intro e; subst e; have := (h5 b hb).2; simp [allowed] at h; simp [h] at this

/-- soundness of the monitor: whatever trace `isPath` accepts satisfies the property's clauses -/
theorem C11_check_sound (cur : St) (evs : List St) (h : isPath cur evs = true) : DocPath cur evs := by
  induction evs generalizing cur with
  | nil => trivial
  | cons e es ih =>
    simp only [isPath, isPathIn, Bool.and_eq_true] at h
    obtain ⟨d1, d2, d3, d4, d5, d6⟩ := allowed_doc (a := cur) (b := e) h.1
    exact ⟨d1, d2, d3, d4, d5, d6, ih e h.2⟩

/-- main statement: for every report sequence the delivered events satisfy the property's clauses -/
theorem C11_events_doc (reps : List Report) : DocPath .none (run .none reps) :=
  C11_check_sound _ _ (C11_path _ _)

theorem C11_begins_starting (reps : List Report) (e : St) (es : List St) (h : run .none reps = e :: es) :
    e = .starting := by
  have := C11_events_doc reps
  rw [h] at this
  exact this.2.2.1 rfl

/-- nothing follows FatalError or Stopped -/
theorem C11_terminal (cur : St) (evs : List St) (h : DocPath cur evs) (hc : cur = .fatal ∨ cur = .stopped) : evs = [] := by
  cases evs with
  | nil => rfl
  | cons e es => obtain ⟨_, _, _, _, h5, h6, _⟩ := h; rcases hc with rfl | rfl <;> contradiction

/-- whatever a component reports during start, run and shutdown, and whether or not its start or
shutdown fails, the events the service delivers for it follow the documented machine -/
theorem lifecycle_doc (l : Life) : DocPath .none l.events := C11_events_doc l.reports

/-- a well-behaved component that reports nothing itself is seen as Starting, OK, Stopping, Stopped -/
theorem C11_lifecycle_quiet :
    (Life.mk true [] false true [] [] false).events = [.starting, .ok, .stopping, .stopped] := by decide

/-- a component whose start fails is seen as Starting, PermanentError, and is still taken through
Stopping and Stopped by the shutdown that follows -/
theorem C11_lifecycle_start_failure :
    (Life.mk true [] true false [] [] false).events = [.starting, .permanent, .stopping, .stopped] := by decide

/-- a component that was never reached by start-up produces no event at all -/
theorem C11_lifecycle_never_started (fs : Bool) (ds r dstop : List St) (a b : Bool) :
    (Life.mk false ds a b r dstop fs).events = [] := by
  cases fs <;> simp [Life.events, Life.reports, run, step, transition] <;> decide

/-- complete characterisation of what the service delivers for a component that reports nothing itself, for every
combination of "was reached by start-up / its start fails / the whole start-up succeeds / its shutdown fails"
(`Life` is tied to graph.go / extensions.go by the `c11-life` differential) -/
theorem C11_lifecycle_quiet_all (started failStart allStarted failStop : Bool) :
    (Life.mk started [] failStart allStarted [] [] failStop).events =
      if started then
        [.starting, if failStart then .permanent else .ok, .stopping, if failStop then .permanent else .stopped]
      else [] := by
  cases started <;> cases failStart <;> cases allStarted <;> cases failStop <;> decide

/-- a component that was reached by start-up is always shown as `Starting` first, whatever it reports itself -/
theorem C11_lifecycle_begins (l : Life) (h : l.started = true) : l.events.head? = some .starting := by
  have h0 : allowed .none .starting = true := by decide
  simp [Life.events, Life.reports, h, run, step, transition, h0]

/-- a component shared by two instances, driven by the service: whatever the component reports, in
whatever order the instances are started and stopped, and whether or not its shutdown fails, the
events of BOTH instances follow the documented machine -/
theorem shared_life_doc (l : SharedLife) :
    DocPath .none l.eventsX ∧ DocPath .none (l.eventsY StatusTable.ringCap) :=
  ⟨C11_events_doc l.reportsX, C11_events_doc (l.reportsY StatusTable.ringCap)⟩

/-- while the start-up history fits the ring, the late instance is handed exactly the history the first
one saw (every status the component reported is delivered to every instance it represents) -/
theorem C11_shared_life_replay_complete (l : SharedLife) (h : l.duringStart.length + 1 ≤ StatusTable.ringCap) :
    l.ringAtAttach StatusTable.ringCap = St.starting :: l.duringStart := by
  simp only [SharedLife.ringAtAttach, lastN, List.length_cons]
  have : l.duringStart.length + 1 - StatusTable.ringCap = 0 := by omega
  rw [this]; rfl

/-- the instances of one shared component can nevertheless END in different statuses when its shutdown
fails: the instance whose `Shutdown` call did the work keeps `PermanentError`, the other one is taken on
to `Stopped` by the graph's automatic reports because its own `Shutdown` call returned nil.  Every status
the component reported was delivered to both — recorded as an observation, not a violation. -/
theorem C11_shared_life_final_may_differ :
    let l : SharedLife := ⟨true, true, [], true, [], true, [], true, false⟩
    l.eventsX = [.starting, .ok, .stopping, .permanent] ∧
    l.eventsY StatusTable.ringCap = [.starting, .ok, .stopping, .permanent, .stopping, .stopped] := by decide

/-- a shared component whose (single) `Start` fails: the instance that was being started is shown Starting, PermanentError and is
still taken through Stopping to Stopped by the shutdown that follows; the other instance, never reached, is shown nothing -/
theorem C11_shared_life_start_failure :
    let l : SharedLife := ⟨true, false, [], false, [], true, [], false, true⟩
    l.eventsX = [.starting, .permanent, .stopping, .stopped] ∧ l.eventsY StatusTable.ringCap = [] := by decide

/-! ## illegal reports are no-ops; automatic OK only from Starting -/

theorem step_illegal_noop (cur s : St) (h : allowed cur s = false) : step cur (.status s) = (cur, Option.none) := by
  simp [step, transition, h]

theorem step_legal_moves (cur s : St) (h : allowed cur s = true) : step cur (.status s) = (s, some s) := by
  simp [step, transition, h]

theorem step_ok_only_if_starting (cur : St) :
    (cur ≠ .starting → step cur .okIfStarting = (cur, Option.none)) ∧
    (cur = .starting → step cur .okIfStarting = (.ok, some .ok)) := by
  constructor
  · intro h; simp [step, h]
  · intro h; subst h; decide

/-- if nobody reports `OK` explicitly, every delivered `OK` is the automatic one and comes
directly after `Starting` — for every report sequence (and, through `C11_interleaving`, for every
interleaving of concurrent reporters: a report is one atomic step) -/
theorem C11_auto_ok_after_starting (cur : St) (reps : List Report) (h : ∀ r ∈ reps, r ≠ .status .ok) :
    okPred cur (run cur reps) = true := by
  induction reps generalizing cur with
  | nil => simp [run, okPred]
  | cons r rs ih =>
    have hrs : ∀ r ∈ rs, r ≠ .status .ok := fun r hr => h r (by simp [hr])
    cases r with
    | status s =>
      have hs : s ≠ .ok := fun e => h (.status s) (by simp) (by rw [e])
      by_cases ha : allowed cur s = true
      · simp only [run, step, transition, ha, if_true, okPred, Bool.and_eq_true, Bool.or_eq_true, bne_iff_ne, ne_eq]
        exact ⟨Or.inl hs, ih s hrs⟩
      · simp only [run, step, transition, ha]
        exact ih cur hrs
    | okIfStarting =>
      by_cases hc : cur = .starting
      · subst hc
        have ha : allowed .starting .ok = true := by decide
        simp only [run, step, transition, ha, if_true, okPred, Bool.and_eq_true, Bool.or_eq_true]
        exact ⟨Or.inr (by decide), ih .ok hrs⟩
      · simp only [run, step, hc, if_false]
        exact ih cur hrs

/-! ## many instances, any interleaving: each instance's projection is its own sequential run -/

def projRep (i : Inst) (p : Inst × Report) : Option Report := if p.1 = i then some p.2 else Option.none
def projEv (i : Inst) (p : Inst × St) : Option St := if p.1 = i then some p.2 else Option.none

theorem Reporter.cur_set_same (r : Reporter) (i : Inst) (s : St) : (r.set i s).cur i = s := by
  simp [Reporter.cur, Reporter.set, List.lookup]

theorem lookup_filter_ne (l : List (Inst × St)) (i j : Inst) (h : j ≠ i) :
    (l.filter (fun p => p.1 != i)).lookup j = l.lookup j := by
  induction l with
  | nil => rfl
  | cons p ps ih =>
    by_cases hp : p.1 = i
    · have h1 : (j == p.1) = false := by simpa [hp] using h
      have hp' : (p.1 != i) = false := by simpa using hp
      simp only [List.filter, hp', List.lookup, h1, ih]
    · have hp' : (p.1 != i) = true := by simpa using hp
      simp only [List.filter, hp', List.lookup]
      cases hj : (j == p.1) <;> simp [ih]

theorem Reporter.cur_set_other (r : Reporter) (i j : Inst) (s : St) (h : j ≠ i) : (r.set i s).cur j = r.cur j := by
  have hne : (j == i) = false := by simpa using h
  simp only [Reporter.cur, Reporter.set, List.lookup, hne, lookup_filter_ne _ _ _ h]

/-- every concurrent history is a sequence of atomic reports (one mutex); for **any** such sequence,
over any number of instances, what instance `i` sees is exactly the sequential run of the reports
addressed to `i` -/
theorem C11_interleaving (r : Reporter) (ops : List (Inst × Report)) (i : Inst) :
    (r.runAll ops).filterMap (projEv i) = run (r.cur i) (ops.filterMap (projRep i)) := by
  induction ops generalizing r with
  | nil => simp [Reporter.runAll, run]
  | cons op rest ih =>
    obtain ⟨j, rep⟩ := op
    by_cases hji : j = i
    · subst hji
      have hcur : ((r.report j rep).1).cur j = (step (r.cur j) rep).1 := by
        simp [Reporter.report, Reporter.cur_set_same]
      have hev : (r.report j rep).2 = (step (r.cur j) rep).2 := by simp [Reporter.report]
      simp only [Reporter.runAll, List.filterMap_cons, projRep, if_true, run]
      rw [hev]
      cases hs : (step (r.cur j) rep).2 with
      | none => simp only []; rw [ih, hcur]
      | some e => simp only [List.filterMap_cons, projEv, if_true]; rw [ih, hcur]
    · have hcur : ((r.report j rep).1).cur i = r.cur i := by
        simp only [Reporter.report]; exact Reporter.cur_set_other r j i _ (fun h => hji h.symm)
      simp only [Reporter.runAll, List.filterMap_cons, projRep, hji, if_false]
      cases hs : (r.report j rep).2 with
      | none => simp only []; rw [ih, hcur]
      | some e => simp only [List.filterMap_cons, projEv, hji, if_false]; rw [ih, hcur]

/-- corollary: under any interleaving every instance's event sequence satisfies the property -/
theorem C11_interleaving_doc (ops : List (Inst × Report)) (i : Inst) :
    DocPath .none (((Reporter.mk []).runAll ops).filterMap (projEv i)) := by
  rw [C11_interleaving]
  exact C11_check_sound _ _ (C11_path _ _)

/-! ## shared component: delivery to every instance it represents -/

def reportsOf : List WOp → List St
  | [] => []
  | .report e :: r => e :: reportsOf r
  | .attach :: r => reportsOf r

def noAttach : List WOp → Bool
  | [] => true
  | .report _ :: r => noAttach r
  | .attach :: _ => false

theorem reportsOf_append (a b : List WOp) : reportsOf (a ++ b) = reportsOf a ++ reportsOf b := by
  induction a with
  | nil => rfl
  | cons op r ih => cases op <;> simp [reportsOf, ih]

theorem runState_append (cur : St) (a b : List Report) : runState cur (a ++ b) = runState (runState cur a) b := by
  induction a generalizing cur with
  | nil => rfl
  | cons x xs ih => simp [runState, ih]

theorem pushRing_small (cap : Nat) (ring : List St) (e : St) (h : ring.length < cap) : pushRing cap ring e = ring ++ [e] := by
  simp only [pushRing, List.length_append, List.length_cons, List.length_nil]
  have : ring.length + (0 + 1) - cap = 0 := by omega
  simp [this]

/-- full statement: every attached source ends in the same status as every other one, for every
history of reports and attachments beginning with the first attachment -/
def C11_shared_delivery_full : Prop :=
  ∀ ops : List WOp, ∀ s ∈ (Wrapper.runOps StatusTable.ringCap {} (.attach :: ops)).sources,
    s = runState .starting ((reportsOf ops).map Report.status)

/-- invariant while the recorded history still fits the ring -/
theorem shared_inv (cap : Nat) (ops : List WOp) (w : Wrapper) (hist : List St)
    (hne : w.sources ≠ [])
    (hring : w.ring = hist) (hsrc : ∀ s ∈ w.sources, s = runState .starting (hist.map Report.status))
    (hfit : hist.length + (reportsOf ops).length ≤ cap) :
    let w' := Wrapper.runOps cap w ops
    w'.sources ≠ [] ∧ w'.ring = hist ++ reportsOf ops ∧
      ∀ s ∈ w'.sources, s = runState .starting ((hist ++ reportsOf ops).map Report.status) := by
  induction ops generalizing w hist with
  | nil => simpa [Wrapper.runOps, reportsOf] using ⟨hne, hring, hsrc⟩
  | cons op rest ih =>
    cases op with
    | report e =>
      simp only [reportsOf, List.length_cons] at hfit
      subst hring
      have hemp : w.sources.isEmpty = false := by cases h : w.sources <;> simp_all
      have hlt : w.ring.length < cap := by omega
      have := ih (w.report cap e) (w.ring ++ [e])
        (by simp [Wrapper.report]; exact hne)
        (by simp [Wrapper.report, hemp, pushRing_small cap w.ring e hlt])
        (by
          intro s hs
          simp only [Wrapper.report, List.mem_map] at hs
          obtain ⟨s0, hs0, rfl⟩ := hs
          rw [hsrc s0 hs0, List.map_append, runState_append]
          simp [runState, step])
        (by simp; omega)
      simpa [Wrapper.runOps, Wrapper.apply, reportsOf, List.append_assoc] using this
    | attach =>
      simp only [reportsOf] at hfit
      have := ih w.addSource hist
        (by simp [Wrapper.addSource])
        (by simp [Wrapper.addSource, hring])
        (by
          intro s hs
          simp only [Wrapper.addSource, List.mem_append, List.mem_singleton] at hs
          rcases hs with hs | rfl
          · exact hsrc s hs
          · rw [hring])
        hfit
      simpa [Wrapper.runOps, Wrapper.apply, reportsOf] using this

theorem shared_tail (cap : Nat) (post : List WOp) (w : Wrapper) (x : St) (hpost : noAttach post = true)
    (hsrc : ∀ s ∈ w.sources, s = x) :
    ∀ s ∈ (Wrapper.runOps cap w post).sources, s = runState x ((reportsOf post).map Report.status) := by
  induction post generalizing w x with
  | nil => simpa [Wrapper.runOps, reportsOf, runState] using hsrc
  | cons op rest ih =>
    cases op with
    | attach => simp [noAttach] at hpost
    | report e =>
      simp only [noAttach] at hpost
      have := ih (w.report cap e) (transition x e).1 hpost (by
        intro s hs
        simp only [Wrapper.report, List.mem_map] at hs
        obtain ⟨s0, hs0, rfl⟩ := hs
        rw [hsrc s0 hs0])
      simpa [Wrapper.runOps, Wrapper.apply, reportsOf, runState, step] using this

/-- proved part: as long as no more than `ringCap` reports were made before the last attachment,
every source — whenever it attached — ends in the component's last effective status -/
theorem C11_shared_delivery_partial (pre post : List WOp)
    (hfit : (reportsOf pre).length ≤ StatusTable.ringCap) (hpost : noAttach post = true) :
    ∀ s ∈ (Wrapper.runOps StatusTable.ringCap {} (.attach :: (pre ++ post))).sources,
      s = runState .starting ((reportsOf (pre ++ post)).map Report.status) := by
  have h0 := shared_inv StatusTable.ringCap pre ({} : Wrapper).addSource [] (by simp [Wrapper.addSource])
    (by simp [Wrapper.addSource]) (by simp [Wrapper.addSource, runState]) (by simpa using hfit)
  simp only [List.nil_append] at h0
  obtain ⟨_, _, hs⟩ := h0
  have hro : Wrapper.runOps StatusTable.ringCap {} (.attach :: (pre ++ post)) =
      Wrapper.runOps StatusTable.ringCap (Wrapper.runOps StatusTable.ringCap ({} : Wrapper).addSource pre) post := by
    simp [Wrapper.runOps, Wrapper.apply, List.foldl_append]
  rw [hro]
  rw [reportsOf_append, List.map_append, runState_append]
  exact shared_tail _ post _ _ hpost hs

/-- the full statement is false for the pinned code: a sticky status followed by `ringCap` ignored
reports, then a late attachment (reproduced on the real `sharedcomponent`, known finding) -/
def sharedWitness : List WOp :=
  [.report .starting, .report .permanent, .report .ok, .report .recoverable, .report .ok, .report .recoverable, .report .ok, .attach]

theorem C11_shared_full_fails : ¬ C11_shared_delivery_full := by
  intro h
  have := h sharedWitness .ok (by decide)
  revert this
  decide

/-! ## non-vacuity -/

example : run .none [.status .ok, .status .starting, .okIfStarting, .status .ok, .status .permanent, .status .ok, .status .stopping, .status .stopped, .status .starting]
    = [.starting, .ok, .permanent, .stopping, .stopped] := by decide

example : (Wrapper.runOps StatusTable.ringCap {} (.attach :: [.report .starting, .report .recoverable, .attach, .report .ok])).sources = [.ok, .ok] := by decide


/-! ## event-sequence version: every instance's WATCHER is shown the same events -/

theorem run_append (cur : St) (a b : List Report) : run cur (a ++ b) = run cur a ++ run (runState cur a) b := by
  induction a generalizing cur with
  | nil => rfl
  | cons x xs ih =>
    simp only [List.cons_append, run, runState]
    cases (step cur x).2 <;> simp [ih]

theorem run_single (cur e : St) : run cur [Report.status e] = (transition cur e).2.toList := by
  simp only [run, step]
  cases (transition cur e).2 <;> rfl

theorem sharedE_inv (cap : Nat) (ops : List WOp) (w : WrapperE) (hist : List St)
    (hne : w.sources ≠ [])
    (hring : w.ring = hist)
    (hsrc : ∀ s ∈ w.sources, s = (runState .starting (hist.map Report.status), run .starting (hist.map Report.status)))
    (hfit : hist.length + (reportsOf ops).length ≤ cap) :
    let w' := WrapperE.runOps cap w ops
    w'.sources ≠ [] ∧ w'.ring = hist ++ reportsOf ops ∧
      ∀ s ∈ w'.sources, s = (runState .starting ((hist ++ reportsOf ops).map Report.status),
        run .starting ((hist ++ reportsOf ops).map Report.status)) := by
  induction ops generalizing w hist with
  | nil =>
    simp only [WrapperE.runOps, List.foldl_nil, reportsOf, List.append_nil]
    exact ⟨hne, hring, hsrc⟩
  | cons op rest ih =>
    cases op with
    | report e =>
      simp only [reportsOf, List.length_cons] at hfit
      subst hring
      have hemp : w.sources.isEmpty = false := by cases h : w.sources <;> simp_all
      have hlt : w.ring.length < cap := by omega
      have := ih (w.report cap e) (w.ring ++ [e])
        (by simp [WrapperE.report]; exact hne)
        (by simp [WrapperE.report, hemp, pushRing_small cap w.ring e hlt])
        (by
          intro s hs
          simp only [WrapperE.report, List.mem_map] at hs
          obtain ⟨s0, hs0, rfl⟩ := hs
          rw [hsrc s0 hs0, List.map_append, runState_append, run_append]
          simp [runState, step, run_single])
        (by simp; omega)
      simpa [WrapperE.runOps, WrapperE.apply, reportsOf, List.append_assoc] using this
    | attach =>
      simp only [reportsOf] at hfit
      have := ih w.addSource hist
        (by simp [WrapperE.addSource])
        (by simp [WrapperE.addSource, hring])
        (by
          intro s hs
          simp only [WrapperE.addSource, List.mem_append, List.mem_singleton] at hs
          rcases hs with hs | rfl
          · exact hsrc s hs
          · rw [hring])
        hfit
      simpa [WrapperE.runOps, WrapperE.apply, reportsOf] using this

theorem sharedE_tail (cap : Nat) (post : List WOp) (w : WrapperE) (x : St) (evs : List St) (hpost : noAttach post = true)
    (hsrc : ∀ s ∈ w.sources, s = (x, evs)) :
    ∀ s ∈ (WrapperE.runOps cap w post).sources,
      s = (runState x ((reportsOf post).map Report.status), evs ++ run x ((reportsOf post).map Report.status)) := by
  induction post generalizing w x evs with
  | nil =>
    simp only [WrapperE.runOps, List.foldl_nil, reportsOf, List.map_nil, runState, run, List.append_nil]
    exact hsrc
  | cons op rest ih =>
    cases op with
    | attach => simp [noAttach] at hpost
    | report e =>
      simp only [noAttach] at hpost
      have := ih (w.report cap e) (transition x e).1 (evs ++ (transition x e).2.toList) hpost (by
        intro s hs
        simp only [WrapperE.report, List.mem_map] at hs
        obtain ⟨s0, hs0, rfl⟩ := hs
        rw [hsrc s0 hs0])
      have hr : run x (Report.status e :: (reportsOf rest).map Report.status) =
          (transition x e).2.toList ++ run (transition x e).1 ((reportsOf rest).map Report.status) := by
        have := run_append x [Report.status e] ((reportsOf rest).map Report.status)
        simpa [run_single, runState, step] using this
      simpa [WrapperE.runOps, WrapperE.apply, reportsOf, runState, step, hr, List.append_assoc] using this

/-- **event-sequence version of the shared-delivery clause (partial):** as long as no more than `ringCap` reports were made
before the last attachment, the watcher of EVERY instance the shared component represents — whenever that instance attached,
however many there are — has been shown exactly the same events: those of the component's whole report history run from
`Starting`. -/
theorem C11_shared_events_partial (pre post : List WOp)
    (hfit : (reportsOf pre).length ≤ StatusTable.ringCap) (hpost : noAttach post = true) :
    ∀ s ∈ (WrapperE.runOps StatusTable.ringCap {} (.attach :: (pre ++ post))).sources,
      s = (runState .starting ((reportsOf (pre ++ post)).map Report.status),
           run .starting ((reportsOf (pre ++ post)).map Report.status)) := by
  have h0 := sharedE_inv StatusTable.ringCap pre ({} : WrapperE).addSource [] (by simp [WrapperE.addSource])
    (by simp [WrapperE.addSource]) (by simp [WrapperE.addSource, runState, run]) (by simpa using hfit)
  simp only [List.nil_append] at h0
  obtain ⟨_, _, hs⟩ := h0
  have hro : WrapperE.runOps StatusTable.ringCap {} (.attach :: (pre ++ post)) =
      WrapperE.runOps StatusTable.ringCap (WrapperE.runOps StatusTable.ringCap ({} : WrapperE).addSource pre) post := by
    simp [WrapperE.runOps, WrapperE.apply, List.foldl_append]
  rw [hro]
  rw [reportsOf_append, List.map_append, runState_append, run_append]
  exact sharedE_tail _ post _ _ _ hpost hs

example : (WrapperE.runOps StatusTable.ringCap {} (.attach :: [.report .starting, .report .recoverable, .attach, .attach, .report .ok])).sources =
    [(.ok, [.recoverable, .ok]), (.ok, [.recoverable, .ok]), (.ok, [.recoverable, .ok])] := by decide

end OtelVerif.C11
