import OtelVerif.Model.C12
/-! C12 property theorems (stub) -/
namespace OtelVerif.C12
end OtelVerif.C12
