import OtelVerif.Lemmas.C12
/-!
# C12 — config resolution: right-biased merge; exact, escapable, terminating expansion

Property theorems about the model in `Model/C12.lean` (the *repaired* `confmap/expand.go`; `Mode.pinned`
keeps the two pinned behaviours so that the defects are kernel-checked counterexamples).  Termination needs
no theorem of its own: every function of the model is structurally recursive (Lean accepted them as total),
the only loop, `expandRec`, recurses on the loop bound, and `C12_cycle_error` shows what the bound reports.
-/
namespace OtelVerif.C12

/-! ## merge -/

theorem C12_merge_lookup : ∀ (a b : KVs) (k : Str), a.keys.Nodup →
    (mergeKVs a b).lookup k = mergeAt (a.lookup k) (b.lookup k)
  | .nil, b, k, _ => by simp [mergeKVs, KVs.lookup, mergeAt]
  | .cons k0 v rest, b, k, hnd => by
    simp only [KVs.keys, List.nodup_cons] at hnd
    rw [mergeKVs_cons, C12_merge_lookup rest _ k hnd.2]
    by_cases hk : k0 = k
    · subst hk
      rw [KVs.lookup_not_mem rest hnd.1, KVs.lookup_set_same]
      simp only [KVs.lookup, if_true]
      cases hb : b.lookup k0 with
      | none => cases v <;> simp [mergeAt, mergeOne]
      | some bv => cases v <;> cases bv <;> simp [mergeAt, mergeOne]
    · have hk' : k ≠ k0 := fun e => hk e.symm
      rw [KVs.lookup_set_other _ hk']
      simp [KVs.lookup, hk]

theorem C12_merge_empty_source (b : KVs) : mergeKVs .nil b = b := by simp [mergeKVs]

/-- `Resolve` merges the URI list AS GIVEN, one entry after the other: no hypothesis on `srcs` — the same source may
occur any number of times, adjacent or not, and is merged again each time (the resolver must not de-duplicate) -/
theorem C12_merge_sources_snoc (srcs : List KVs) (s : KVs) :
    mergeSources (srcs ++ [s]) = mergeKVs s (mergeSources srcs) := mergeSources_snoc srcs s

/-- … so whatever came before (including an earlier occurrence of the same source and anything merged in between),
the scalars, lists and nils of the last entry win again -/
theorem C12_merge_last_source_wins (srcs : List KVs) (s : KVs) (k : Str) (v : Val) (hk : s.keys.Nodup)
    (hv : s.lookup k = some v) (hm : ∀ m, v ≠ .map m) :
    (mergeSources (srcs ++ [s])).lookup k = some v := by
  rw [C12_merge_sources_snoc, C12_merge_lookup s _ k hk, hv]
  cases v <;> first | rfl | exact absurd rfl (hm _)

theorem C12_merge_sources_empty (srcs : List KVs) : mergeSources (srcs ++ [.nil]) = mergeSources srcs := by
  rw [mergeSources_snoc, C12_merge_empty_source]

/-! ## string search: what `findURI` returns is a real occurrence -/

/-- `findURI` returns a genuine decomposition of its input around a `${…}` occurrence; the (repaired)
replacement is positional, so only that occurrence is rewritten -/
theorem C12_findURI_sound {mode : Mode} {hd : Bool} {s b body a : Str}
    (h : findURI mode hd s = some (b, body, a)) : s = b ++ '$' :: '{' :: body ++ '}' :: a := findURI_sound h

/-- **the heart of the escaping clause**: on the rendering of any well-formed token list, the (repaired)
`findURI` returns exactly the first real reference token — with its exact position — no matter how many
escaped look-alikes, stray braces or `$` runs precede it; and nothing if there is no reference token -/
theorem C12_findURI_first_ref (env : Env) (ts : List Tok) (h : tokOK env ts = true) :
    findURI .fixed env.defaultScheme.isSome (render ts) =
      (splitFirstRef ts).map (fun r => (render r.1, Tok.body r.2.1 r.2.2.1, render r.2.2.2)) :=
  findURI_first_ref env ts h

/-! ## text with neither `$$` nor a complete reference is unchanged -/

theorem C12_literal_unchanged (env : Env) (s : Str) (hfuel : 0 < env.fuel)
    (hesc : hasEsc s = false) (href : ¬ HasCompleteRef s) :
    resolveValue env (.str s) = .ok (.str s) := by
  unfold resolveValue
  obtain ⟨n, hn⟩ : ∃ n, env.fuel = n + 1 := ⟨env.fuel - 1, by omega⟩
  rw [hn, expandRec, expandValue, expandStr_of_noRef env s href]
  simp [escapeDollarSigns, unescape_of_noEsc s hesc]

/-! ## a whole-value reference -/

/-! ## `expandURI` on a well-formed reference -/

/-! ## typed whole values, string targets, cycles, `$` in a name -/

/-- a reference that is the whole value yields the provider's *typed* value, with the original text kept
for string targets -/
theorem C12_typed_whole (env : Env) (body : Str) (r : Retrieved) (v : Str)
    (hb : hasDollar body = false) (hc : hasClose body = false)
    (hs : env.defaultScheme.isSome = true ∨ hasColon body = true)
    (hexp : expandURI env body = .ok r) (hstr : r.asString = some v) (hv : hasDollar v = false)
    (hraw : r.raw.isScalar = true) (hfuel : 2 ≤ env.fuel) :
    resolveValue env (.str ('$' :: '{' :: body ++ ['}'])) = .ok (.expanded r.raw v) := by
  obtain ⟨n, hn⟩ : ∃ n, env.fuel = n + 2 := ⟨env.fuel - 2, by omega⟩
  unfold resolveValue
  rw [hn, expandRec, expandValue, expandStr_whole env body r hb hc hs hexp, hstr]
  simp only
  rw [expandRec, expandValue]
  have hu : unescape v = v := unescape_of_noEsc v (hasEsc_of_noDollar v hv)
  cases hr : r.raw <;> simp_all [Val.isScalar, expandValue, expandStr_noDollar, escapeDollarSigns]

/-- … so a Go `string` field receives the original text and an `int` field the parsed number -/
theorem C12_string_target_gets_original (env : Env) (body : Str) (r : Retrieved) (v : Str) (i : Int)
    (hb : hasDollar body = false) (hc : hasClose body = false)
    (hs : env.defaultScheme.isSome = true ∨ hasColon body = true)
    (hexp : expandURI env body = .ok r) (hstr : r.asString = some v) (hv : hasDollar v = false)
    (hraw : r.raw = .int i) (hfuel : 2 ≤ env.fuel) :
    ∃ res, resolveValue env (.str ('$' :: '{' :: body ++ ['}'])) = .ok res ∧
      decodeString res = some v ∧ decodeInt res = some i ∧ sanitize false res = .int i := by
  refine ⟨_, C12_typed_whole env body r v hb hc hs hexp hstr hv (by simp [hraw, Val.isScalar]) hfuel, ?_⟩
  simp [hraw, decodeString, decodeInt, sanitize]

/-- a provider that answers a reference with the same reference never converges: reported as an error,
for every value of the loop bound -/
theorem C12_cycle_error (env : Env) (body : Str) (r : Retrieved)
    (hb : hasDollar body = false) (hc : hasClose body = false)
    (hs : env.defaultScheme.isSome = true ∨ hasColon body = true)
    (hexp : expandURI env body = .ok r)
    (hraw : r.raw = .str ('$' :: '{' :: body ++ ['}'])) (hstr : r.asString = some ('$' :: '{' :: body ++ ['}'])) :
    resolveValue env (.str ('$' :: '{' :: body ++ ['}'])) = .error [.tooMany] := by
  have h1 := expandStr_whole env body r hb hc hs hexp
  rw [hstr, hraw] at h1
  have hloop : ∀ n, expandRec env n (.expanded (.str ('$' :: '{' :: body ++ ['}'])) ('$' :: '{' :: body ++ ['}']))
      = .error [.tooMany] := by
    intro n
    induction n with
    | zero => rfl
    | succ n ih =>
      rw [expandRec, expandValue, expandValue, h1]
      simpa using ih
  unfold resolveValue
  cases hf : env.fuel with
  | zero => rfl
  | succ n =>
    rw [expandRec, expandValue, h1]
    have h2 := hloop n
    simp only [List.cons_append] at h2 ⊢
    rw [h2]

/-- a reference whose name contains `$` is an error -/
theorem C12_dollar_in_name_error (env : Env) (s b a sc nm : Str) (hfuel : 0 < env.fuel)
    (hf : findURI env.mode env.defaultScheme.isSome s = some (b, sc ++ ':' :: nm, a))
    (hv : validScheme sc = true) (hd : hasDollar nm = true) :
    resolveValue env (.str s) = .error [.dollarInName] := by
  have hdec := C12_findURI_sound hf
  have ho : hasOpen s = true := by
    rw [hdec]
    simpa [List.append_assoc] using hasOpen_append_open b ((sc ++ ':' :: nm) ++ '}' :: a)
  have hcl : hasClose s = true := by rw [hdec]; simp [hasClose]
  have hexp : expandURI env (sc ++ ':' :: nm) = .error .dollarInName := by
    unfold expandURI
    have hcol : hasColon (sc ++ ':' :: nm) = true := by simp [hasColon]
    simp only [hcol, if_true, splitColon_append sc nm (hasColon_of_validScheme sc hv)]
    simp [hv, hd]
  have hes : expandStr env s = .error [.dollarInName] := by
    unfold expandStr
    simp only [ho, hcl, Bool.not_true, Bool.or_self, Bool.false_eq_true, if_false]
    unfold findAndExpandURI
    rw [hf]
    simp only [hexp, ite_self]
  obtain ⟨n, hn⟩ : ∃ n, env.fuel = n + 1 := ⟨env.fuel - 1, by omega⟩
  unfold resolveValue
  rw [hn, expandRec, expandValue, hes]

/-! ## `findURI` on a well-formed token string returns exactly the first real reference -/

/-! ## one round of expansion, and the final un-escaping -/

/-- one round on a well-formed token string with an embedded first reference: exactly that occurrence is
replaced by the provider's string, everything before and after it (escaped look-alikes included) is kept -/
theorem C12_tokens_round (env : Env) (hmode : env.mode = .fixed) (ts pre post : List Tok) (sc : Option Str) (nm : Str)
    (h : tokOK env ts = true) (hs : splitFirstRef ts = some (pre, sc, nm, post))
    (hne : (render pre).isEmpty = false ∨ (render post).isEmpty = false) :
    ∃ v, refString env sc nm = some v ∧
      expandStr env (render ts) = .ok (.str (render pre ++ v ++ render post), true) := by
  obtain ⟨hts, -⟩ := splitFirstRef_eq ts pre post sc nm hs
  have hsuf : tokOK env (.ref sc nm :: post) = true := tokOK_suffix env _ pre (by rw [← hts]; exact h)
  obtain ⟨-, -, -, -, -, -, r, v, hexp, hstr, hrs, -⟩ := ref_facts hsuf
  have hf := C12_findURI_first_ref env ts h
  rw [hs] at hf
  simp only [Option.map_some] at hf
  have hdec := C12_findURI_sound hf
  have ho : hasOpen (render ts) = true := by
    rw [hdec]
    simpa [List.append_assoc] using hasOpen_append_open (render pre) (Tok.body sc nm ++ '}' :: render post)
  have hcl : hasClose (render ts) = true := by rw [hdec]; simp [hasClose]
  refine ⟨v, hrs, ?_⟩
  unfold expandStr
  simp only [ho, hcl, Bool.not_true, Bool.or_self, Bool.false_eq_true, if_false]
  unfold findAndExpandURI
  rw [hmode, hf]
  have hw : ((render pre).isEmpty && (render post).isEmpty) = false := by
    rcases hne with h1 | h1 <;> simp [h1]
  simp only [hw, Bool.false_eq_true, if_false, hexp, hstr]

/-- full statement for strings without reference tokens (escapes, escaped references, stray braces, lone `$`):
the resolved value is the meaning of the token list -/
theorem C12_tokens_noref (env : Env) (hmode : env.mode = .fixed) (hfuel : 0 < env.fuel) (ts : List Tok) (w : Str)
    (h : tokOK env ts = true) (hn : numRefs ts = 0) (hs : sem env ts = some w) :
    resolveValue env (.str (render ts)) = .ok (.str w) := by
  obtain ⟨n, hfn⟩ : ∃ n, env.fuel = n + 1 := ⟨env.fuel - 1, by omega⟩
  unfold resolveValue
  rw [hfn, expandRec, expandValue, expandStr_noref env hmode ts h hn]
  simp [escapeDollarSigns, unescape_tokens env ts w h hn hs]

/-! ## the full token statement, what is proved of it, and the pinned code's counterexamples -/

/-- what a string field sees of a resolution result -/
def resStr : Except Errs Val → Option Str
  | .ok v => decodeString v
  | .error _ => none

/-- FULL statement of the expansion clause on the unambiguous token fragment: every reference replaced by the
provider's string, `$$` ↦ `$` protecting what follows, for every well-formed token list whose number of
references is below the loop bound -/
def C12_tokens_full (mode : Mode) : Prop :=
  ∀ (env : Env) (toks : List Tok) (w : Str), env.mode = mode → tokOK env toks = true →
    numRefs toks < env.fuel → sem env toks = some w →
    resStr (resolveValue env (.str (render toks))) = some w

/-- what is proved of `C12_tokens_full .fixed` for ALL well-formed token lists: (i) the full statement when the
list has no reference token (any mix of `$$`, escaped references, stray braces, lone `$`); (ii) with references,
one round replaces exactly the first real reference, in place, by the provider's string.  NOT proved: the
composition of (ii) over all rounds followed by the un-escaping (re-tokenising the substituted text); that part
of the full statement is checked by the differential and by the `tokens` oracle on every run. -/
theorem C12_tokens_partial (env : Env) (hmode : env.mode = .fixed) (hfuel : 0 < env.fuel) (toks : List Tok) (w : Str)
    (h : tokOK env toks = true) (hs : sem env toks = some w) :
    (numRefs toks = 0 → resStr (resolveValue env (.str (render toks))) = some w) ∧
    (∀ pre sc nm post, splitFirstRef toks = some (pre, sc, nm, post) →
      ((render pre).isEmpty = false ∨ (render post).isEmpty = false) →
      ∃ v, refString env sc nm = some v ∧
        expandValue env (.str (render toks)) = .ok (.str (render pre ++ v ++ render post), true)) := by
  refine ⟨fun hn => ?_, fun pre sc nm post hsp hne => ?_⟩
  · rw [C12_tokens_noref env hmode hfuel toks w h hn hs]; rfl
  · obtain ⟨v, hv, he⟩ := C12_tokens_round env hmode toks pre post sc nm h hsp hne
    exact ⟨v, hv, by rw [expandValue]; exact he⟩

def exEnv (mode : Mode) : Env :=
  { mode := mode, schemes := [['e', 'n', 'v']], fuel := 10,
    prov := fun sc nm =>
      if sc = ['e', 'n', 'v'] ∧ nm = ['X'] then some ⟨.str ['f', 'o', 'o'], some ['f', 'o', 'o']⟩
      else if sc = ['e', 'n', 'v'] ∧ nm = ['P'] then some ⟨.int 8080, some ['8', '0', '8', '0']⟩
      else if sc = ['e', 'n', 'v'] ∧ nm = ['A'] then
        some ⟨.str ['$', '{', 'e', 'n', 'v', ':', 'A', '}'], some ['$', '{', 'e', 'n', 'v', ':', 'A', '}']⟩
      else none }

def refX : Tok := .ref (some ['e', 'n', 'v']) ['X']

/-- `$${env:X} ${env:X}` (DESIGN finding 1) -/
def wit1 : List Tok := [.esc, .lit ['{', 'e', 'n', 'v', ':', 'X'], .close, .lit [' '], refX]

/-- `${env:X} $${env:X}` (DESIGN finding 2) -/
def wit2 : List Tok := [refX, .lit [' '], .esc, .lit ['{', 'e', 'n', 'v', ':', 'X'], .close]

/-- the code at the pinned commit violates the full statement: an escaped reference stops the search … -/
theorem C12_tokens_full_pinned_fails : ¬ C12_tokens_full .pinned := by
  intro h
  have := h (exEnv .pinned) wit1 ['$', '{', 'e', 'n', 'v', ':', 'X', '}', ' ', 'f', 'o', 'o'] rfl (by decide) (by decide) (by decide)
  revert this
  decide

/-- … and `ReplaceAll` also rewrites the escaped occurrence -/
theorem C12_tokens_full_pinned_fails_replaceAll :
    resStr (resolveValue (exEnv .pinned) (.str (render wit2))) = some ['f', 'o', 'o', ' ', '$', 'f', 'o', 'o'] ∧
    sem (exEnv .pinned) wit2 = some ['f', 'o', 'o', ' ', '$', '{', 'e', 'n', 'v', ':', 'X', '}'] := by
  decide

/-- the repaired code resolves both witnesses to their meaning (kernel evaluation of the model) -/
theorem C12_tokens_witnesses_fixed :
    resStr (resolveValue (exEnv .fixed) (.str (render wit1))) = sem (exEnv .fixed) wit1 ∧
    resStr (resolveValue (exEnv .fixed) (.str (render wit2))) = sem (exEnv .fixed) wit2 := by
  decide

/-! non-vacuity of the hypotheses used above -/

example : tokOK (exEnv .fixed) wit1 = true ∧ tokOK (exEnv .fixed) wit2 = true := by decide

example : splitFirstRef wit1 = some ([.esc, .lit ['{', 'e', 'n', 'v', ':', 'X'], .close, .lit [' ']], some ['e', 'n', 'v'], ['X'], []) := by
  decide

example : findURI .fixed false (render wit1) = some (render (wit1.take 4), ['e', 'n', 'v', ':', 'X'], []) :=
  C12_findURI_first_ref (exEnv .fixed) wit1 (by decide)

example : resolveValue (exEnv .fixed) (.str ['$', '{', 'e', 'n', 'v', ':', 'P', '}']) = .ok (.expanded (.int 8080) ['8', '0', '8', '0']) :=
  C12_typed_whole (exEnv .fixed) ['e', 'n', 'v', ':', 'P'] ⟨.int 8080, some ['8', '0', '8', '0']⟩ _
    (by decide) (by decide) (by decide) rfl rfl (by decide) rfl (by decide)

example : resolveValue (exEnv .fixed) (.str ['$', '{', 'e', 'n', 'v', ':', 'A', '}']) = .error [.tooMany] :=
  C12_cycle_error (exEnv .fixed) ['e', 'n', 'v', ':', 'A']
    ⟨.str ['$', '{', 'e', 'n', 'v', ':', 'A', '}'], some ['$', '{', 'e', 'n', 'v', ':', 'A', '}']⟩
    (by decide) (by decide) (by decide) rfl rfl rfl

example : resolveValue (exEnv .fixed) (.str ['a', '$', '{', 'e', 'n', 'v', ':', 'a', '$', 'b', '}']) = .error [.dollarInName] :=
  C12_dollar_in_name_error (exEnv .fixed) _ ['a'] [] ['e', 'n', 'v'] ['a', '$', 'b'] (by decide) (by decide) (by decide) (by decide)

example : hasEsc ['a', '$', '{', 'x', ' ', '$', 'b'] = false ∧ ¬ HasCompleteRef ['a', '$', '{', 'x', ' ', '$', 'b'] := by
  refine ⟨by decide, ?_⟩
  rintro ⟨a, body, c, h⟩
  have : hasClose ['a', '$', '{', 'x', ' ', '$', 'b'] = true := by rw [h]; simp [hasClose]
  revert this; decide

example : (mergeKVs (.cons ['a'] (.map (.cons ['y'] (.int 2) .nil)) .nil)
            (.cons ['a'] (.map (.cons ['x'] (.int 1) .nil)) (.cons ['b'] (.str ['k']) .nil))).lookup ['b'] = some (.str ['k']) := by
  rw [C12_merge_lookup _ _ _ (by decide)]; rfl

/-! ## soundness of the "no known reference is left" oracle -/

theorem refBodyAt_sound {s body : Str} (h : refBodyAt s = some body) :
    ∃ rest, s = '$' :: '{' :: body ++ '}' :: rest := by
  match s, h with
  | c :: d :: r, h =>
    simp only [refBodyAt] at h
    by_cases hc : c = '$' ∧ d = '{'
    · simp only [hc, and_self, if_true] at h
      have hj := joinClose_split r
      cases hs : (splitOnClose r).2 with
      | nil => simp [hs] at h
      | cons t ts =>
        simp only [hs, Option.some.injEq] at h
        rw [hs, joinClose, h] at hj
        exact ⟨joinClose t ts, by rw [hc.1, hc.2, ← hj]; rfl⟩
    · simp [hc] at h

/-- whatever the leftover oracle flags is a complete reference that really occurs in the output string (and names a
key the provider has, by `knownRef`): a flagged output violates "every reference is replaced" -/
theorem C12_leftover_sound (env : Env) : ∀ (s : Str) (k : Str × Str), leftoverRef env s = some k → HasCompleteRef s
  | [], _, h => by simp [leftoverRef] at h
  | c :: r, k, h => by
    have lift : HasCompleteRef r → HasCompleteRef (c :: r) := fun ⟨a, b, d, e⟩ => ⟨c :: a, b, d, by rw [e]; rfl⟩
    rw [leftoverRef] at h
    cases hb : refBodyAt (c :: r) with
    | none => simp only [hb] at h; exact lift (C12_leftover_sound env r k h)
    | some body =>
      obtain ⟨rest, hr⟩ := refBodyAt_sound hb
      simp only [hb] at h
      by_cases hd : hasDollar body = true
      · simp only [hd, if_true] at h; exact lift (C12_leftover_sound env r k h)
      · simp only [hd] at h
        cases hk : knownRef env body with
        | some k' => exact ⟨[], body, rest, by rw [hr]; rfl⟩
        | none => simp only [hk] at h; exact lift (C12_leftover_sound env r k h)

example : leftoverRef (exEnv .fixed) ['a', '$', '{', 'e', 'n', 'v', ':', 'X', '}'] = some (['e', 'n', 'v'], ['X']) := by decide

/-- `[A, B, A]` is not `[A, B]`: the repeated location restores A's scalar -/
example :
    let a : KVs := .cons ['s'] (.int 1) .nil
    let b : KVs := .cons ['s'] (.int 2) .nil
    (mergeSources [a, b, a]).lookup ['s'] = some (.int 1) ∧ (mergeSources [a, b]).lookup ['s'] = some (.int 2) :=
  ⟨rfl, rfl⟩

end OtelVerif.C12
