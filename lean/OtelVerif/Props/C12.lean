import OtelVerif.Lemmas.C12
import OtelVerif.Lemmas.C12Append
import OtelVerif.Lemmas.C12Loc
/-!
# C12 — config resolution: right-biased merge; exact, escapable, terminating expansion

Property theorems about the model in `Model/C12.lean` (the *repaired* `confmap/expand.go`; `Mode.pinned`
keeps the two pinned behaviours so that the defects are kernel-checked counterexamples).  Termination needs
no theorem of its own: every function of the model is structurally recursive (Lean accepted them as total),
the only loop, `expandRec`, recurses on the loop bound, and `C12_cycle_error` shows what the bound reports.
-/
namespace OtelVerif.C12

/-! ## merge -/

theorem C12_merge_lookup : ∀ (a b : KVs) (k : Str), a.keys.Nodup →
    (mergeKVs a b).lookup k = mergeAt (a.lookup k) (b.lookup k)
  | .nil, b, k, _ => by simp [mergeKVs, KVs.lookup, mergeAt]
  | .cons k0 v rest, b, k, hnd => by
    simp only [KVs.keys, List.nodup_cons] at hnd
    rw [mergeKVs_cons, C12_merge_lookup rest _ k hnd.2]
    by_cases hk : k0 = k
    · subst hk
      rw [KVs.lookup_not_mem rest hnd.1, KVs.lookup_set_same]
      simp only [KVs.lookup, if_true]
      cases hb : b.lookup k0 with
      | none => cases v <;> simp [mergeAt, mergeOne]
      | some bv => cases v <;> cases bv <;> simp [mergeAt, mergeOne]
    · have hk' : k ≠ k0 := fun e => hk e.symm
      rw [KVs.lookup_set_other _ hk']
      simp [KVs.lookup, hk]

theorem C12_merge_empty_source (b : KVs) : mergeKVs .nil b = b := by simp [mergeKVs]

/-- `Resolve` merges the URI list AS GIVEN, one entry after the other: no hypothesis on `srcs` — the same source may
occur any number of times, adjacent or not, and is merged again each time (the resolver must not de-duplicate) -/
theorem C12_merge_sources_snoc (srcs : List KVs) (s : KVs) :
    mergeSources (srcs ++ [s]) = mergeKVs s (mergeSources srcs) := mergeSources_snoc srcs s

/-- … so whatever came before (including an earlier occurrence of the same source and anything merged in between),
the scalars, lists and nils of the last entry win again -/
theorem C12_merge_last_source_wins (srcs : List KVs) (s : KVs) (k : Str) (v : Val) (hk : s.keys.Nodup)
    (hv : s.lookup k = some v) (hm : ∀ m, v ≠ .map m) :
    (mergeSources (srcs ++ [s])).lookup k = some v := by
  rw [C12_merge_sources_snoc, C12_merge_lookup s _ k hk, hv]
  cases v <;> first | rfl | exact absurd rfl (hm _)

theorem C12_merge_sources_empty (srcs : List KVs) : mergeSources (srcs ++ [.nil]) = mergeSources srcs := by
  rw [mergeSources_snoc, C12_merge_empty_source]

/-! ## string search: what `findURI` returns is a real occurrence -/

/-- `findURI` returns a genuine decomposition of its input around a `${…}` occurrence; the (repaired)
replacement is positional, so only that occurrence is rewritten -/
theorem C12_findURI_sound {mode : Mode} {hd : Bool} {s b body a : Str}
    (h : findURI mode hd s = some (b, body, a)) : s = b ++ '$' :: '{' :: body ++ '}' :: a := findURI_sound h

/-- **the heart of the escaping clause**: on the rendering of any well-formed token list, the (repaired)
`findURI` returns exactly the first real reference token — with its exact position — no matter how many
escaped look-alikes, stray braces or `$` runs precede it; and nothing if there is no reference token -/
theorem C12_findURI_first_ref (env : Env) (ts : List Tok) (h : tokOK env ts = true) :
    findURI .fixed env.defaultScheme.isSome (render ts) =
      (splitFirstRef ts).map (fun r => (render r.1, Tok.body r.2.1 r.2.2.1, render r.2.2.2)) :=
  findURI_first_ref env ts h

/-! ## text with neither `$$` nor a complete reference is unchanged -/

theorem C12_literal_unchanged (env : Env) (s : Str) (hfuel : 0 < env.fuel)
    (hesc : hasEsc s = false) (href : ¬ HasCompleteRef s) :
    resolveValue env (.str s) = .ok (.str s) := by
  unfold resolveValue
  obtain ⟨n, hn⟩ : ∃ n, env.fuel = n + 1 := ⟨env.fuel - 1, by omega⟩
  rw [hn, expandRec, expandValue, expandStr_of_noRef env s href]
  simp [escapeDollarSigns, unescape_of_noEsc s hesc]

/-! ## a whole-value reference -/

/-! ## `expandURI` on a well-formed reference -/

/-! ## typed whole values, string targets, cycles, `$` in a name -/

/-- a reference that is the whole value yields the provider's *typed* value, with the original text kept
for string targets -/
theorem C12_typed_whole (env : Env) (body : Str) (r : Retrieved) (v : Str)
    (hb : hasDollar body = false) (hc : hasClose body = false)
    (hs : env.defaultScheme.isSome = true ∨ hasColon body = true)
    (hexp : expandURI env body = .ok r) (hstr : r.asString = some v) (hv : hasDollar v = false)
    (hraw : r.raw.isScalar = true) (hfuel : 2 ≤ env.fuel) :
    resolveValue env (.str ('$' :: '{' :: body ++ ['}'])) = .ok (.expanded r.raw v) := by
  obtain ⟨n, hn⟩ : ∃ n, env.fuel = n + 2 := ⟨env.fuel - 2, by omega⟩
  unfold resolveValue
  rw [hn, expandRec, expandValue, expandStr_whole env body r hb hc hs hexp, hstr]
  simp only
  rw [expandRec, expandValue]
  have hu : unescape v = v := unescape_of_noEsc v (hasEsc_of_noDollar v hv)
  cases hr : r.raw <;> simp_all [Val.isScalar, expandValue, expandStr_noDollar, escapeDollarSigns]

/-- … so a Go `string` field receives the original text and an `int` field the parsed number -/
theorem C12_string_target_gets_original (env : Env) (body : Str) (r : Retrieved) (v : Str) (i : Int)
    (hb : hasDollar body = false) (hc : hasClose body = false)
    (hs : env.defaultScheme.isSome = true ∨ hasColon body = true)
    (hexp : expandURI env body = .ok r) (hstr : r.asString = some v) (hv : hasDollar v = false)
    (hraw : r.raw = .int i) (hfuel : 2 ≤ env.fuel) :
    ∃ res, resolveValue env (.str ('$' :: '{' :: body ++ ['}'])) = .ok res ∧
      decodeString res = some v ∧ decodeInt res = some i ∧ sanitize false res = .int i := by
  refine ⟨_, C12_typed_whole env body r v hb hc hs hexp hstr hv (by simp [hraw, Val.isScalar]) hfuel, ?_⟩
  simp [hraw, decodeString, decodeInt, sanitize]

/-- a provider that answers a reference with the same reference never converges: reported as an error,
for every value of the loop bound -/
theorem C12_cycle_error (env : Env) (body : Str) (r : Retrieved)
    (hb : hasDollar body = false) (hc : hasClose body = false)
    (hs : env.defaultScheme.isSome = true ∨ hasColon body = true)
    (hexp : expandURI env body = .ok r)
    (hraw : r.raw = .str ('$' :: '{' :: body ++ ['}'])) (hstr : r.asString = some ('$' :: '{' :: body ++ ['}'])) :
    resolveValue env (.str ('$' :: '{' :: body ++ ['}'])) = .error [.tooMany] := by
  have h1 := expandStr_whole env body r hb hc hs hexp
  rw [hstr, hraw] at h1
  have hloop : ∀ n, expandRec env n (.expanded (.str ('$' :: '{' :: body ++ ['}'])) ('$' :: '{' :: body ++ ['}']))
      = .error [.tooMany] := by
    intro n
    induction n with
    | zero => rfl
    | succ n ih =>
      rw [expandRec, expandValue, expandValue, h1]
      simpa using ih
  unfold resolveValue
  cases hf : env.fuel with
  | zero => rfl
  | succ n =>
    rw [expandRec, expandValue, h1]
    have h2 := hloop n
    simp only [List.cons_append] at h2 ⊢
    rw [h2]

/-- a reference whose name contains `$` is an error -/
theorem C12_dollar_in_name_error (env : Env) (s b a sc nm : Str) (hfuel : 0 < env.fuel)
    (hf : findURI env.mode env.defaultScheme.isSome s = some (b, sc ++ ':' :: nm, a))
    (hv : validScheme sc = true) (hd : hasDollar nm = true) :
    resolveValue env (.str s) = .error [.dollarInName] := by
  have hdec := C12_findURI_sound hf
  have ho : hasOpen s = true := by
    rw [hdec]
    simpa [List.append_assoc] using hasOpen_append_open b ((sc ++ ':' :: nm) ++ '}' :: a)
  have hcl : hasClose s = true := by rw [hdec]; simp [hasClose]
  have hexp : expandURI env (sc ++ ':' :: nm) = .error .dollarInName := by
    unfold expandURI
    have hcol : hasColon (sc ++ ':' :: nm) = true := by simp [hasColon]
    simp only [hcol, if_true, splitColon_append sc nm (hasColon_of_validScheme sc hv)]
    simp [hv, hd]
  have hes : expandStr env s = .error [.dollarInName] := by
    unfold expandStr
    simp only [ho, hcl, Bool.not_true, Bool.or_self, Bool.false_eq_true, if_false]
    unfold findAndExpandURI
    rw [hf]
    simp only [hexp, ite_self]
  obtain ⟨n, hn⟩ : ∃ n, env.fuel = n + 1 := ⟨env.fuel - 1, by omega⟩
  unfold resolveValue
  rw [hn, expandRec, expandValue, hes]

/-- the same for a reference without scheme (`${a$b}`) under a default scheme -/
theorem C12_dollar_in_name_error_default (env : Env) (s b a d nm : Str) (hfuel : 0 < env.fuel)
    (hf : findURI env.mode env.defaultScheme.isSome s = some (b, nm, a))
    (hdflt : env.defaultScheme = some d) (hnc : hasColon nm = false)
    (hv : validScheme d = true) (hd : hasDollar nm = true) :
    resolveValue env (.str s) = .error [.dollarInName] := by
  have hdec := C12_findURI_sound hf
  have ho : hasOpen s = true := by
    rw [hdec]
    simpa [List.append_assoc] using hasOpen_append_open b (nm ++ '}' :: a)
  have hcl : hasClose s = true := by rw [hdec]; simp [hasClose]
  have hexp : expandURI env nm = .error .dollarInName := by
    unfold expandURI
    have hsp := splitColon_append d nm (hasColon_of_validScheme d hv)
    simp only [hnc, hdflt, Option.getD_some]
    simp [hsp, hv, hd]
  have hes : expandStr env s = .error [.dollarInName] := by
    unfold expandStr
    simp only [ho, hcl, Bool.not_true, Bool.or_self, Bool.false_eq_true, if_false]
    unfold findAndExpandURI
    rw [hf]
    simp only [hexp, ite_self]
  obtain ⟨n, hn⟩ : ∃ n, env.fuel = n + 1 := ⟨env.fuel - 1, by omega⟩
  unfold resolveValue
  rw [hn, expandRec, expandValue, hes]

/-! ## one round of expansion, and the final un-escaping -/

/-- one round on a well-formed token string with an embedded first reference: exactly that occurrence is
replaced by the provider's string, everything before and after it (escaped look-alikes included) is kept -/
theorem C12_tokens_round (env : Env) (hmode : env.mode = .fixed) (ts pre post : List Tok) (sc : Option Str) (nm : Str)
    (h : tokOK env ts = true) (hs : splitFirstRef ts = some (pre, sc, nm, post))
    (hne : (render pre).isEmpty = false ∨ (render post).isEmpty = false) :
    ∃ v, refString env sc nm = some v ∧
      expandStr env (render ts) = .ok (.str (render pre ++ v ++ render post), true) := by
  obtain ⟨hts, -⟩ := splitFirstRef_eq ts pre post sc nm hs
  have hsuf : tokOK env (.ref sc nm :: post) = true := tokOK_suffix env _ pre (by rw [← hts]; exact h)
  obtain ⟨-, -, -, -, -, -, r, v, hexp, hstr, hrs, -⟩ := ref_facts hsuf
  have hf := C12_findURI_first_ref env ts h
  rw [hs] at hf
  simp only [Option.map_some] at hf
  have hdec := C12_findURI_sound hf
  have ho : hasOpen (render ts) = true := by
    rw [hdec]
    simpa [List.append_assoc] using hasOpen_append_open (render pre) (Tok.body sc nm ++ '}' :: render post)
  have hcl : hasClose (render ts) = true := by rw [hdec]; simp [hasClose]
  refine ⟨v, hrs, ?_⟩
  unfold expandStr
  simp only [ho, hcl, Bool.not_true, Bool.or_self, Bool.false_eq_true, if_false]
  unfold findAndExpandURI
  rw [hmode, hf]
  have hw : ((render pre).isEmpty && (render post).isEmpty) = false := by
    rcases hne with h1 | h1 <;> simp [h1]
  simp only [hw, Bool.false_eq_true, if_false, hexp, hstr]

/-- full statement for strings without reference tokens (escapes, escaped references, stray braces, lone `$`):
the resolved value is the meaning of the token list -/
theorem C12_tokens_noref (env : Env) (hmode : env.mode = .fixed) (hfuel : 0 < env.fuel) (ts : List Tok) (w : Str)
    (h : tokOK env ts = true) (hn : numRefs ts = 0) (hs : sem env ts = some w) :
    resolveValue env (.str (render ts)) = .ok (.str w) := by
  obtain ⟨n, hfn⟩ : ∃ n, env.fuel = n + 1 := ⟨env.fuel - 1, by omega⟩
  unfold resolveValue
  rw [hfn, expandRec, expandValue, expandStr_noref env hmode ts h hn]
  simp [escapeDollarSigns, unescape_tokens env ts w h hn hs]

/-! ## the full token statement, what is proved of it, and the pinned code's counterexamples -/

/-- what a string field sees of a resolution result -/
def resStr : Except Errs Val → Option Str
  | .ok v => decodeString v
  | .error _ => none

/-- FULL statement of the expansion clause on the unambiguous token fragment: every reference replaced by the
provider's string, `$$` ↦ `$` protecting what follows, for every well-formed token list whose number of
references is below the loop bound -/
def C12_tokens_full (mode : Mode) : Prop :=
  ∀ (env : Env) (toks : List Tok) (w : Str), env.mode = mode → tokOK env toks = true →
    numRefs toks < env.fuel → 0 < nonRefLen toks → sem env toks = some w →
    resStr (resolveValue env (.str (render toks))) = some w

def exEnv (mode : Mode) : Env :=
  { mode := mode, schemes := [['e', 'n', 'v']], fuel := 10,
    prov := fun sc nm =>
      if sc = ['e', 'n', 'v'] ∧ nm = ['X'] then some ⟨.str ['f', 'o', 'o'], some ['f', 'o', 'o']⟩
      else if sc = ['e', 'n', 'v'] ∧ nm = ['P'] then some ⟨.int 8080, some ['8', '0', '8', '0']⟩
      else if sc = ['e', 'n', 'v'] ∧ nm = ['A'] then
        some ⟨.str ['$', '{', 'e', 'n', 'v', ':', 'A', '}'], some ['$', '{', 'e', 'n', 'v', ':', 'A', '}']⟩
      else if sc = ['e', 'n', 'v'] ∧ nm = ['M'] then
        some ⟨.map (.cons ['a'] (.int 1) (.cons ['l'] (.list (.cons (.str ['x']) .nil)) .nil)), some ['{', 'a', ':', ' ', '1', '}']⟩
      else none }

def refX : Tok := .ref (some ['e', 'n', 'v']) ['X']

/-- `$${env:X} ${env:X}` (DESIGN finding 1) -/
def wit1 : List Tok := [.esc, .lit ['{', 'e', 'n', 'v', ':', 'X'], .close, .lit [' '], refX]

/-- `${env:X} $${env:X}` (DESIGN finding 2) -/
def wit2 : List Tok := [refX, .lit [' '], .esc, .lit ['{', 'e', 'n', 'v', ':', 'X'], .close]

/-- the code at the pinned commit violates the full statement: an escaped reference stops the search … -/
theorem pinned_tokens_full_fails : ¬ C12_tokens_full .pinned := by
  intro h
  have := h (exEnv .pinned) wit1 ['$', '{', 'e', 'n', 'v', ':', 'X', '}', ' ', 'f', 'o', 'o'] rfl (by decide) (by decide) (by decide) (by decide)
  revert this
  decide

/-- … and `ReplaceAll` also rewrites the escaped occurrence -/
theorem pinned_replaceAll_witness :
    resStr (resolveValue (exEnv .pinned) (.str (render wit2))) = some ['f', 'o', 'o', ' ', '$', 'f', 'o', 'o'] ∧
    sem (exEnv .pinned) wit2 = some ['f', 'o', 'o', ' ', '$', '{', 'e', 'n', 'v', ':', 'X', '}'] := by
  decide

/-- the repaired code resolves both witnesses to their meaning (kernel evaluation of the model) -/
theorem fixed_tokens_witnesses :
    resStr (resolveValue (exEnv .fixed) (.str (render wit1))) = sem (exEnv .fixed) wit1 ∧
    resStr (resolveValue (exEnv .fixed) (.str (render wit2))) = sem (exEnv .fixed) wit2 := by
  decide

/-! non-vacuity of the hypotheses used above -/

example : tokOK (exEnv .fixed) wit1 = true ∧ tokOK (exEnv .fixed) wit2 = true := by decide

example : splitFirstRef wit1 = some ([.esc, .lit ['{', 'e', 'n', 'v', ':', 'X'], .close, .lit [' ']], some ['e', 'n', 'v'], ['X'], []) := by
  decide

example : findURI .fixed false (render wit1) = some (render (wit1.take 4), ['e', 'n', 'v', ':', 'X'], []) :=
  C12_findURI_first_ref (exEnv .fixed) wit1 (by decide)

example : resolveValue (exEnv .fixed) (.str ['$', '{', 'e', 'n', 'v', ':', 'P', '}']) = .ok (.expanded (.int 8080) ['8', '0', '8', '0']) :=
  C12_typed_whole (exEnv .fixed) ['e', 'n', 'v', ':', 'P'] ⟨.int 8080, some ['8', '0', '8', '0']⟩ _
    (by decide) (by decide) (by decide) rfl rfl (by decide) rfl (by decide)

example : resolveValue (exEnv .fixed) (.str ['$', '{', 'e', 'n', 'v', ':', 'A', '}']) = .error [.tooMany] :=
  C12_cycle_error (exEnv .fixed) ['e', 'n', 'v', ':', 'A']
    ⟨.str ['$', '{', 'e', 'n', 'v', ':', 'A', '}'], some ['$', '{', 'e', 'n', 'v', ':', 'A', '}']⟩
    (by decide) (by decide) (by decide) rfl rfl rfl

example : resolveValue (exEnv .fixed) (.str ['a', '$', '{', 'e', 'n', 'v', ':', 'a', '$', 'b', '}']) = .error [.dollarInName] :=
  C12_dollar_in_name_error (exEnv .fixed) _ ['a'] [] ['e', 'n', 'v'] ['a', '$', 'b'] (by decide) (by decide) (by decide) (by decide)

example : hasEsc ['a', '$', '{', 'x', ' ', '$', 'b'] = false ∧ ¬ HasCompleteRef ['a', '$', '{', 'x', ' ', '$', 'b'] := by
  refine ⟨by decide, ?_⟩
  rintro ⟨a, body, c, h⟩
  have : hasClose ['a', '$', '{', 'x', ' ', '$', 'b'] = true := by rw [h]; simp [hasClose]
  revert this; decide

example : (mergeKVs (.cons ['a'] (.map (.cons ['y'] (.int 2) .nil)) .nil)
            (.cons ['a'] (.map (.cons ['x'] (.int 1) .nil)) (.cons ['b'] (.str ['k']) .nil))).lookup ['b'] = some (.str ['k']) := by
  rw [C12_merge_lookup _ _ _ (by decide)]; rfl

/-! ## soundness of the "no known reference is left" oracle -/

theorem refBodyAt_sound {s body : Str} (h : refBodyAt s = some body) :
    ∃ rest, s = '$' :: '{' :: body ++ '}' :: rest := by
  match s, h with
  | c :: d :: r, h =>
    simp only [refBodyAt] at h
    by_cases hc : c = '$' ∧ d = '{'
    · simp only [hc, and_self, if_true] at h
      have hj := joinClose_split r
      cases hs : (splitOnClose r).2 with
      | nil => simp [hs] at h
      | cons t ts =>
        simp only [hs, Option.some.injEq] at h
        rw [hs, joinClose, h] at hj
        exact ⟨joinClose t ts, by rw [hc.1, hc.2, ← hj]; rfl⟩
    · simp [hc] at h

/-- whatever the leftover oracle flags is a complete reference that really occurs in the output string (and names a
key the provider has, by `knownRef`): a flagged output violates "every reference is replaced" -/
theorem C12_leftover_sound (env : Env) : ∀ (s : Str) (k : Str × Str), leftoverRef env s = some k → HasCompleteRef s
  | [], _, h => by simp [leftoverRef] at h
  | c :: r, k, h => by
    have lift : HasCompleteRef r → HasCompleteRef (c :: r) := fun ⟨a, b, d, e⟩ => ⟨c :: a, b, d, by rw [e]; rfl⟩
    rw [leftoverRef] at h
    cases hb : refBodyAt (c :: r) with
    | none => simp only [hb] at h; exact lift (C12_leftover_sound env r k h)
    | some body =>
      obtain ⟨rest, hr⟩ := refBodyAt_sound hb
      simp only [hb] at h
      by_cases hd : hasDollar body = true
      · simp only [hd, if_true] at h; exact lift (C12_leftover_sound env r k h)
      · simp only [hd] at h
        cases hk : knownRef env body with
        | some k' => exact ⟨[], body, rest, by rw [hr]; rfl⟩
        | none => simp only [hk] at h; exact lift (C12_leftover_sound env r k h)

example : leftoverRef (exEnv .fixed) ['a', '$', '{', 'e', 'n', 'v', ':', 'X', '}'] = some (['e', 'n', 'v'], ['X']) := by decide

/-- `[A, B, A]` is not `[A, B]`: the repeated location restores A's scalar -/
example :
    let a : KVs := .cons ['s'] (.int 1) .nil
    let b : KVs := .cons ['s'] (.int 2) .nil
    (mergeSources [a, b, a]).lookup ['s'] = some (.int 1) ∧ (mergeSources [a, b]).lookup ['s'] = some (.int 2) :=
  ⟨rfl, rfl⟩


/-! # audit follow-up -/

/-! ## all rounds: substituting the first reference keeps the token list well formed -/

/-- all rounds: a well-formed token string that is not a bare reference is expanded to a reference-free
well-formed token string with the same meaning -/
theorem expandRec_tokens (env : Env) (hmode : env.mode = .fixed) : ∀ (n : Nat) (ts : List Tok) (fuel : Nat),
    numRefs ts = n → n < fuel → tokOK env ts = true → 0 < nonRefLen ts →
    ∃ ts', tokOK env ts' = true ∧ numRefs ts' = 0 ∧ sem env ts' = sem env ts ∧
      expandRec env fuel (.str (render ts)) = .ok (.str (render ts'))
  | 0, ts, fuel, hn, hf, hok, _ => by
    obtain ⟨k, rfl⟩ : ∃ k, fuel = k + 1 := ⟨fuel - 1, by omega⟩
    refine ⟨ts, hok, hn, rfl, ?_⟩
    rw [expandRec, expandValue, expandStr_noref env hmode ts hok hn]
  | n + 1, ts, fuel, hn, hf, hok, hlen => by
    obtain ⟨k, rfl⟩ : ∃ k, fuel = k + 1 := ⟨fuel - 1, by omega⟩
    have hsome := splitFirstRef_some_of_numRefs ts (by omega)
    cases hs : splitFirstRef ts with
    | none => simp [hs] at hsome
    | some r =>
      obtain ⟨pre, sc, nm, post⟩ := r
      obtain ⟨hts, hpre⟩ := splitFirstRef_eq ts pre post sc nm hs
      have hsuf : tokOK env (.ref sc nm :: post) = true := tokOK_suffix env _ pre (by rw [← hts]; exact hok)
      obtain ⟨-, -, hpost, -, -, -, r, v, -, -, hrs, hvd⟩ := ref_facts hsuf
      have hne : (render pre).isEmpty = false ∨ (render post).isEmpty = false := by
        have h1 : nonRefLen ts = nonRefLen pre + nonRefLen post := by
          rw [hts, nonRefLen_append]; simp [nonRefLen]
        have h2 := nonRefLen_le_render pre
        have h3 := nonRefLen_le_render post
        by_cases hp : (render pre).length = 0
        · right
          have : 0 < (render post).length := by omega
          cases hrp : render post with
          | nil => simp [hrp] at this
          | cons _ _ => rfl
        · left
          cases hrp : render pre with
          | nil => simp [hrp] at hp
          | cons _ _ => rfl
      obtain ⟨v', hv', hround⟩ := C12_tokens_round env hmode ts pre post sc nm hok hs hne
      have hvv : v' = v := by rw [hrs] at hv'; exact (Option.some.inj hv').symm
      subst hvv
      let ts2 := pre ++ (litToks v' ++ post)
      have hok2 : tokOK env ts2 = true :=
        tokOK_replace env sc nm post _ (tokOK_litToks env post hpost v' hvd) pre (by rw [← hts]; exact hok)
      have hn2 : numRefs ts2 = n := by
        have : numRefs ts = numRefs pre + (numRefs post + 1) := by rw [hts, numRefs_append]; simp [numRefs]
        simp only [ts2, numRefs_append, numRefs_litToks]; omega
      have hlen2 : 0 < nonRefLen ts2 := by
        have h1 : nonRefLen ts = nonRefLen pre + nonRefLen post := by
          rw [hts, nonRefLen_append]; simp [nonRefLen]
        simp only [ts2, nonRefLen_append]; omega
      have hsem2 : sem env ts2 = sem env ts := by
        rw [hts]
        apply sem_append_congr
        rw [sem_litToks]
        simp only [sem, hrs]
        cases sem env post <;> rfl
      have hr2 : render ts2 = render pre ++ v' ++ render post := by
        simp [ts2, render_append, render_litToks]
      obtain ⟨ts', h1, h2, h3, h4⟩ := expandRec_tokens env hmode n ts2 k hn2 (by omega) hok2 hlen2
      refine ⟨ts', h1, h2, h3.trans hsem2, ?_⟩
      rw [expandRec, expandValue, hround, ← hr2]
      exact h4


theorem C12_tokens_full_fixed : C12_tokens_full .fixed := by
  intro env toks w hmode hok hfuel hlen hsem
  obtain ⟨ts', h1, h2, h3, h4⟩ := expandRec_tokens env hmode (numRefs toks) toks env.fuel rfl hfuel hok hlen
  unfold resolveValue
  rw [h4]
  simp only [escapeDollarSigns, resStr, decodeString]
  rw [unescape_tokens env ts' w h1 h2 (h3.trans hsem)]

/-! ## embedded references in general: innermost first, provider text subject to the same expansion -/

/-- NESTED references are resolved innermost first: in `pre ++ "${" ++ outer ++ "${body}" ++ post` (`outer` without `}`
and not ending in an odd run of `$`), `findURI` returns the inner reference -/
theorem C12_nested_innermost_first (mode : Mode) (hd : Bool) (pre outer body post : Str)
    (hpc : hasClose pre = false) (hoc : hasClose outer = false)
    (hodd : oddDollarRun (pre ++ '$' :: '{' :: outer) = false)
    (hb : hasDollar body = false) (hc : hasClose body = false) (hs : hd = true ∨ hasColon body = true) :
    findURI mode hd (pre ++ '$' :: '{' :: outer ++ '$' :: '{' :: body ++ '}' :: post) =
      some (pre ++ '$' :: '{' :: outer, body, post) := by
  have hseg : hasClose ((pre ++ '$' :: '{' :: outer) ++ '$' :: '{' :: body) = false := by
    rw [hasClose_append, hasClose_append, hpc]
    have h1 : hasClose ('$' :: '{' :: outer) = false := by simpa [hasClose] using hoc
    have h2 : hasClose ('$' :: '{' :: body) = false := by simpa [hasClose] using hc
    simp [h1, h2]
  have e : pre ++ '$' :: '{' :: outer ++ '$' :: '{' :: body ++ '}' :: post =
      ((pre ++ '$' :: '{' :: outer) ++ '$' :: '{' :: body) ++ '}' :: post := by simp
  unfold findURI
  rw [e, splitOnClose_append _ _ hseg, splitOnClose_close]
  simp only [List.append_nil, findInSegs, candidate, lastOpen_append_open (pre ++ '$' :: '{' :: outer) body hb]
  have hcond : (!hd && !hasColon body) = false := by
    rcases hs with h | h <;> simp [h]
  simp only [hcond, hodd, joinClose_split]
  cases mode <;> simp

/-- an EMBEDDED reference is replaced, in place, by the provider's string **whatever that string contains** (references,
escapes, braces): the round reports `changed`, and the rest of the resolution is the resolution of the substituted string —
so the provider's text is itself subject to the same expansion and un-escaping (and an unchanged-looking result is still a
change: a self-reference cannot be mistaken for a fixed point) -/
theorem C12_embedded_substituted (env : Env) (hmode : env.mode = .fixed) (s before body after v : Str) (r : Retrieved)
    (hf : findURI env.mode env.defaultScheme.isSome s = some (before, body, after))
    (hemb : (before.isEmpty && after.isEmpty) = false)
    (hexp : expandURI env body = .ok r) (hstr : r.asString = some v) :
    expandValue env (.str s) = .ok (.str (before ++ v ++ after), true) ∧
    ∀ n, expandRec env (n + 1) (.str s) = expandRec env n (.str (before ++ v ++ after)) := by
  have hdec := findURI_sound hf
  have ho : hasOpen s = true := by
    rw [hdec]; simpa [List.append_assoc] using hasOpen_append_open before (body ++ '}' :: after)
  have hcl : hasClose s = true := by rw [hdec]; simp [hasClose]
  have h1 : expandValue env (.str s) = .ok (.str (before ++ v ++ after), true) := by
    rw [expandValue]
    unfold expandStr
    simp only [ho, hcl, Bool.not_true, Bool.or_self, Bool.false_eq_true, if_false]
    unfold findAndExpandURI
    rw [hf]
    simp only [hemb, Bool.false_eq_true, if_false, hexp, hstr, hmode]
  refine ⟨h1, fun n => ?_⟩
  rw [expandRec, h1]

/-! ## cycles -/

/-- if every round reports `changed`, resolution ends with "too many recursive expansions", for every loop bound -/
theorem C12_always_changed_error (env : Env) (P : Val → Prop)
    (hstep : ∀ v, P v → ∃ v', expandValue env v = .ok (v', true) ∧ P v') :
    ∀ (n : Nat) (v : Val), P v → expandRec env n v = .error [.tooMany]
  | 0, _, _ => rfl
  | n + 1, v, hv => by
    obtain ⟨v', h1, h2⟩ := hstep v hv
    rw [expandRec, h1]
    exact C12_always_changed_error env P hstep n v' h2

/-- an EMBEDDED self-reference (`http://${env:H}:4317` with `H = ${env:H}`, `HOST = host-${env:HOST}`, …): the provider's
text contains the reference again, so every round finds it again and reports `changed`: always the cycle error, never a
fixed point, never a hang -/
theorem C12_embedded_cycle_error (env : Env) (hmode : env.mode = .fixed) (body vpre vpost : Str) (r : Retrieved)
    (hb : hasDollar body = false) (hc : hasClose body = false)
    (hs : env.defaultScheme.isSome = true ∨ hasColon body = true)
    (hexp : expandURI env body = .ok r)
    (hstr : r.asString = some (vpre ++ '$' :: '{' :: body ++ '}' :: vpost))
    (hvp : hasDollar vpre = false) (hvc : hasClose vpre = false)
    (pre post : Str) (hp : hasDollar pre = false) (hpc : hasClose pre = false)
    (hemb : (pre.isEmpty && post.isEmpty) = false) :
    resolveValue env (.str (pre ++ '$' :: '{' :: body ++ '}' :: post)) = .error [.tooMany] := by
  let P : Val → Prop := fun v => ∃ pre post, v = .str (pre ++ '$' :: '{' :: body ++ '}' :: post) ∧
    hasDollar pre = false ∧ hasClose pre = false ∧ (pre.isEmpty && post.isEmpty) = false
  have hstep : ∀ v, P v → ∃ v', expandValue env v = .ok (v', true) ∧ P v' := by
    rintro v ⟨p, q, rfl, h1, h2, h3⟩
    have hf := findURI_at env.mode env.defaultScheme.isSome p body q h1 h2 hb hc hs
    have := (C12_embedded_substituted env hmode _ p body q _ r hf h3 hexp hstr).1
    refine ⟨_, this, p ++ vpre, vpost ++ q, by simp, ?_, ?_, ?_⟩
    · rw [hasDollar_append, h1, hvp]; rfl
    · rw [hasClose_append, h2, hvc]; rfl
    · cases p <;> cases q <;> simp_all
  unfold resolveValue
  rw [C12_always_changed_error env P hstep env.fuel _ ⟨pre, post, rfl, hp, hpc, hemb⟩]

/-! ## whole-value references to ANY provider value without `$` (maps and lists included) -/

/-- `${body}` as the whole value, for ANY provider value `raw` without `$` that is not a string — scalars of every YAML
type, null, maps, lists (the `${file:…}` / `${yaml:…}` case): the result is `expandedValue{raw, original text}`; every
string-kind target (string, named string, `*string`) receives the original text, an `any` target / `ToStringMap` the
typed value -/
theorem C12_typed_whole_any (env : Env) (body : Str) (r : Retrieved) (v : Str)
    (hb : hasDollar body = false) (hc : hasClose body = false)
    (hs : env.defaultScheme.isSome = true ∨ hasColon body = true)
    (hexp : expandURI env body = .ok r) (hstr : r.asString = some v) (hv : hasDollar v = false)
    (hraw : noDollarVal r.raw = true) (hns : ∀ s, r.raw ≠ .str s) (hfuel : 2 ≤ env.fuel) :
    resolveValue env (.str ('$' :: '{' :: body ++ ['}'])) = .ok (.expanded r.raw v) ∧
    decodeString (.expanded r.raw v) = some v ∧ decodePtrString (.expanded r.raw v) = some (some v) ∧
    decodeAny (.expanded r.raw v) = r.raw := by
  obtain ⟨n, hn⟩ : ∃ n, env.fuel = n + 2 := ⟨env.fuel - 2, by omega⟩
  have hu : unescape v = v := unescape_of_noEsc v (hasEsc_of_noDollar v hv)
  have hin := expandValue_inert env r.raw hraw
  have hsan : sanitize false r.raw = r.raw := sanitize_inert false r.raw hraw
  refine ⟨?_, rfl, rfl, ?_⟩
  · unfold resolveValue
    rw [hn, expandRec, expandValue, expandStr_whole env body r hb hc hs hexp, hstr]
    simp only
    rw [expandRec, expandValue, hin]
    rw [expandStr_noDollar env v hv]
    cases hr : r.raw <;> simp_all [noDollarVal, escapeDollarSigns, escVals_inert, escKVs_inert]
  · simp [decodeAny, sanitize, hsan]

/-! ## statements about `resolve` (the model of `Resolver.Resolve`) itself -/

/-- what `Resolve` returns, in terms of its stages: every source is a map (or null), the leaves of the merged sources are
taken in sorted key order (a permutation of the flattened merge), each leaf value is `resolveValue` of the merged value
under the same path, and the result is the un-flattening of these leaves -/
theorem C12_resolve_ok (env : Env) (srcs : List Val) (m : KVs) (h : resolve env srcs = .ok m) :
    ∃ ms leaves, srcs.mapM asConf = some ms ∧
      (sortedLeaves (mergeSources ms)).Perm (flatten [] (mergeSources ms)) ∧
      Pointwise (fun l o => o.1 = l.1 ∧ resolveValue env l.2 = .ok o.2) (sortedLeaves (mergeSources ms)) leaves ∧
      m = unflatten leaves := by
  unfold resolve at h
  cases hm : srcs.mapM asConf with
  | none => simp [hm] at h
  | some ms =>
    simp only [hm] at h
    cases hl : resolveLeaves env (sortedLeaves (mergeSources ms)) with
    | error e => simp [hl] at h
    | ok leaves =>
      simp only [hl, Except.ok.injEq] at h
      exact ⟨ms, leaves, rfl, List.mergeSort_perm _ _, resolveLeaves_ok env _ _ hl, h.symm⟩

/-- a source that is not a map (and not null) makes `Resolve` fail; it never silently drops it -/
theorem C12_resolve_not_map (env : Env) (srcs : List Val) (h : srcs.mapM asConf = none) :
    resolve env srcs = .error [.notMap] := by
  simp [resolve, h]

/-- sources whose merged leaves need no expansion (no `$$`, no complete reference — `C12_literal_unchanged` — or
non-string values) resolve to the un-flattened sorted leaves of the right-biased merge of the URI list -/
theorem C12_resolve_plain (env : Env) (srcs : List Val) (ms : List KVs) (hm : srcs.mapM asConf = some ms)
    (hplain : ∀ l ∈ flatten [] (mergeSources ms), resolveValue env l.2 = .ok l.2) :
    resolve env srcs = .ok (unflatten (sortedLeaves (mergeSources ms))) := by
  have hp : ∀ l ∈ sortedLeaves (mergeSources ms), resolveValue env l.2 = .ok l.2 := fun l hl =>
    hplain l ((List.mergeSort_perm _ _).mem_iff.1 hl)
  simp [resolve, hm, resolveLeaves_id env _ hp]

/-- a null (empty document) or empty source appended to the URI list changes nothing, at the level of `Resolve` -/
theorem C12_resolve_null_source (env : Env) (srcs : List Val) :
    resolve env (srcs ++ [.null]) = resolve env srcs ∧ resolve env (srcs ++ [.map .nil]) = resolve env srcs := by
  have hnull : asConf .null = some .nil := rfl
  have hemp : asConf (.map .nil) = some .nil := rfl
  constructor <;>
  · unfold resolve
    rw [List.mapM_append]
    cases hm : srcs.mapM asConf with
    | none => simp [hm]
    | some ms =>
      simp [hm, hnull, hemp, C12_merge_sources_empty]

/-! non-vacuity of the audit follow-up theorems -/
example : resStr (resolveValue (exEnv .fixed) (.str (render wit1))) =
    some ['$', '{', 'e', 'n', 'v', ':', 'X', '}', ' ', 'f', 'o', 'o'] :=
  C12_tokens_full_fixed (exEnv .fixed) wit1 _ rfl (by decide) (by decide) (by decide) (by decide)
/-- `x${env:A}` with `A = ${env:A}`: an embedded one-element cycle -/
example : resolveValue (exEnv .fixed) (.str ['x', '$', '{', 'e', 'n', 'v', ':', 'A', '}']) = .error [.tooMany] :=
  C12_embedded_cycle_error (exEnv .fixed) rfl ['e', 'n', 'v', ':', 'A'] [] []
    ⟨.str ['$', '{', 'e', 'n', 'v', ':', 'A', '}'], some ['$', '{', 'e', 'n', 'v', ':', 'A', '}']⟩
    (by decide) (by decide) (by decide) rfl rfl (by decide) (by decide) ['x'] [] (by decide) (by decide) (by decide)
/-- `${env:${env:X}}`: the inner reference is found first -/
example : findURI .fixed false ['$', '{', 'e', 'n', 'v', ':', '$', '{', 'e', 'n', 'v', ':', 'X', '}', '}'] =
    some (['$', '{', 'e', 'n', 'v', ':'], ['e', 'n', 'v', ':', 'X'], ['}']) :=
  C12_nested_innermost_first .fixed false [] ['e', 'n', 'v', ':'] ['e', 'n', 'v', ':', 'X'] ['}']
    (by decide) (by decide) (by decide) (by decide) (by decide) (by decide)
/-- a map-valued provider result as the whole value -/
example : decodeString (.expanded (.map (.cons ['a'] (.int 1) (.cons ['l'] (.list (.cons (.str ['x']) .nil)) .nil)))
    ['{', 'a', ':', ' ', '1', '}']) = some ['{', 'a', ':', ' ', '1', '}'] ∧
    resolveValue (exEnv .fixed) (.str ['$', '{', 'e', 'n', 'v', ':', 'M', '}']) =
      .ok (.expanded (.map (.cons ['a'] (.int 1) (.cons ['l'] (.list (.cons (.str ['x']) .nil)) .nil))) ['{', 'a', ':', ' ', '1', '}']) :=
  ⟨rfl, (C12_typed_whole_any (exEnv .fixed) ['e', 'n', 'v', ':', 'M'] ⟨_, _⟩ _
    (by decide) (by decide) (by decide) rfl rfl (by decide) (by decide) (by intro s h; cases h) (by decide)).1⟩
example : resolve (exEnv .fixed) [.map (.cons ['k'] (.str ['v']) .nil), .null] =
    .ok (unflatten (sortedLeaves (mergeSources [.cons ['k'] (.str ['v']) .nil, .nil]))) :=
  C12_resolve_plain (exEnv .fixed) _ _ rfl (by
    intro l hl
    simp [mergeSources, mergeKVs, KVs.lookup, KVs.set, flatten] at hl
    subst hl
    exact C12_literal_unchanged _ _ (by decide) (by decide) (by
      rintro ⟨a, b, c, h⟩
      have : hasClose ['v'] = true := by rw [h]; simp [hasClose]
      revert this; decide))

example : resolveValue { exEnv .fixed with defaultScheme := some ['e', 'n', 'v'] } (.str ['$', '{', 'a', '$', 'b', '}']) =
    .error [.dollarInName] :=
  C12_dollar_in_name_error_default _ _ [] [] ['e', 'n', 'v'] ['a', '$', 'b'] (by decide) (by decide) rfl (by decide)
    (by decide) (by decide)


/-! # audit issue 2: the flatten/unflatten round trip and `resolve` end to end -/

/-- AUDIT ISSUE 2: un-flattening the flattened leaves of a tree with unique keys — **in any order** (`Resolve` uses the
sorted key order) — gives a tree that holds, under every leaf path, exactly what the original tree holds there -/
theorem C12_unflatten_flatten_lookup (m : KVs) (hn : HNK m) (L : List Leaf) (hp : L.Perm (flatten [] m)) :
    ∀ a ∈ flatten [] m, lookupPath a.1 (unflatten L) = some a.2 ∧ lookupPath a.1 m = some a.2 := by
  intro a ha
  have hsym : ∀ {x y : Leaf}, Incomp x.1 y.1 → Incomp y.1 x.1 := fun h => h.symm
  have hpw : L.Pairwise (fun a b => Incomp a.1 b.1) :=
    (hp.pairwise_iff hsym).2 (flatten_pairwise m hn)
  have hne : ∀ b ∈ L, b.1 ≠ [] := by
    intro b hb
    obtain ⟨k, p, h, -, -⟩ := flatten_leaf m hn b (hp.mem_iff.1 hb)
    rw [h]; simp
  obtain ⟨_, _, _, _, hl⟩ := flatten_leaf m hn a ha
  exact ⟨unflatten_lookup L hpw hne a (hp.mem_iff.2 ha), hl⟩

/-- `Resolve` END TO END: if it succeeds with `m`, then for every leaf `(path, v)` of the right-biased merge of the URI list,
`m` holds under the same path exactly `resolveValue v` (expansion to a fixed point + un-escaping of the merged value) —
through `asConf`, flatten, the sorted key order, the per-key loop and unflatten -/
theorem C12_resolve_lookup (env : Env) (srcs : List Val) (ms : List KVs) (m : KVs)
    (h : resolve env srcs = .ok m) (hm : srcs.mapM asConf = some ms) (hs : ∀ s ∈ ms, HNK s) :
    ∀ a ∈ flatten [] (mergeSources ms), ∃ v', resolveValue env a.2 = .ok v' ∧ lookupPath a.1 m = some v' := by
  obtain ⟨ms', leaves, hm', hperm, hpt, rfl⟩ := C12_resolve_ok env srcs m h
  rw [hm] at hm'
  obtain rfl : ms = ms' := Option.some.inj hm'
  have hn := HNK_mergeSources ms hs
  intro a ha
  have hsym : ∀ {x y : Leaf}, Incomp x.1 y.1 → Incomp y.1 x.1 := fun h => h.symm
  have hpwS : (sortedLeaves (mergeSources ms)).Pairwise (fun a b => Incomp a.1 b.1) :=
    (hperm.pairwise_iff hsym).2 (flatten_pairwise _ hn)
  have hpwO := pointwise_pairwise env _ _ hpt hpwS
  obtain ⟨t1, t2⟩ := pointwise_transfer env _ _ hpt
  have hneO : ∀ o ∈ leaves, o.1 ≠ [] := by
    intro o ho
    obtain ⟨l, hl, e⟩ := t1 o ho
    obtain ⟨k, p, hkp, -, -⟩ := flatten_leaf _ hn l (hperm.mem_iff.1 hl)
    rw [e, hkp]; simp
  obtain ⟨o, ho, e1, e2⟩ := t2 a (hperm.mem_iff.2 ha)
  refine ⟨o.2, e2, ?_⟩
  rw [← e1]
  exact unflatten_lookup leaves hpwO hneO o ho

def exTree : KVs :=
  .cons ['b'] (.int 1) (.cons ['a'] (.map (.cons ['y'] (.str ['v']) (.cons ['x'] (.map .nil) .nil))) .nil)

/-- the sorted order differs from the original order; the lookups agree -/
example : ∀ a ∈ flatten [] exTree, lookupPath a.1 (unflatten (sortedLeaves exTree)) = some a.2 := fun a ha =>
  (C12_unflatten_flatten_lookup exTree (by simp [exTree, HNK, HN, KVs.keys]) _ (List.mergeSort_perm _ _) a ha).1
example : (flatten [] exTree).map (·.1) = [[['b']], [['a'], ['y']], [['a'], ['x']]] := by decide

/-! # merge FIRST, then expand: what an overridden reference can and cannot do -/

theorem resolveLeaves_error (env : Env) : ∀ (ls : List Leaf) (e : Errs), resolveLeaves env ls = .error e →
    ∃ l ∈ ls, resolveValue env l.2 = .error e
  | [], e, h => by simp [resolveLeaves] at h
  | (p, v) :: rest, e, h => by
    rw [resolveLeaves] at h
    cases hv : resolveValue env v with
    | error e' =>
      simp only [hv, Except.error.injEq] at h
      exact ⟨(p, v), List.mem_cons_self .., by rw [hv, h]⟩
    | ok v' =>
      simp only [hv] at h
      cases hr : resolveLeaves env rest with
      | error e' =>
        simp only [hr, Except.error.injEq] at h
        obtain ⟨l, hl, he⟩ := resolveLeaves_error env rest e' hr
        exact ⟨l, List.mem_cons_of_mem _ hl, by rw [he, h]⟩
      | ok r => simp [hr] at h

/-- `Resolve` can only fail because a source is not a map or because a value that SURVIVES the merge fails to resolve:
a reference that a later source replaces is never looked at — an unknown scheme, a failing provider, a cycle or a `$` in
the name of an overridden reference cannot fail the resolution (and, by `C12_resolve_lookup`, what it refers to cannot
leak into the result) -/
theorem C12_resolve_error_from_merged_leaf (env : Env) (srcs : List Val) (e : Errs) (h : resolve env srcs = .error e) :
    srcs.mapM asConf = none ∨
    ∃ ms, srcs.mapM asConf = some ms ∧ ∃ l ∈ flatten [] (mergeSources ms), resolveValue env l.2 = .error e := by
  unfold resolve at h
  cases hm : srcs.mapM asConf with
  | none => exact Or.inl rfl
  | some ms =>
    right
    simp only [hm] at h
    cases hl : resolveLeaves env (sortedLeaves (mergeSources ms)) with
    | ok leaves => simp [hl] at h
    | error e' =>
      simp only [hl, Except.error.injEq] at h
      obtain ⟨l, hmem, he⟩ := resolveLeaves_error env _ e' hl
      exact ⟨ms, rfl, l, (List.mergeSort_perm _ _).mem_iff.1 hmem, by rw [he, h]⟩

/-- an earlier `k: ${zz:A}` (unknown scheme) replaced by a later `k: 1`: resolution succeeds, with the merged leaves -/
example : resolve (exEnv .fixed) [.map (.cons ['k'] (.str ['$', '{', 'z', 'z', ':', 'A', '}']) .nil),
    .map (.cons ['k'] (.int 1) .nil)] =
    .ok (unflatten (sortedLeaves (mergeSources [.cons ['k'] (.str ['$', '{', 'z', 'z', ':', 'A', '}']) .nil,
      .cons ['k'] (.int 1) .nil]))) :=
  C12_resolve_plain (exEnv .fixed) _ _ rfl (by
    intro l hl
    simp [mergeSources, mergeKVs, KVs.lookup, KVs.set, flatten] at hl
    subst hl
    rfl)
/-- … while the same reference in a value that survives fails it -/
example : resolveValue (exEnv .fixed) (.str ['$', '{', 'z', 'z', ':', 'A', '}']) = .error [.unsupportedScheme] := rfl

/-! # Round 2 (second session): the feature-gated list-merge path (`confmap.enableMergeAppendOption`, `confmap/merge.go`) -/

/-- key-wise characterisation of `mergeAppend(src = a, dest = b)`: untouched keys survive; two lists are combined by
`mergeSlice`; two maps merge key by key; everything else (scalars, nil, different kinds) is replaced by the later source -/
theorem C12_mergeAppend_lookup : ∀ (a b : KVs) (k : Str), a.keys.Nodup →
    (mergeAppendKVs a b).lookup k = appendAt (a.lookup k) (b.lookup k)
  | .nil, b, k, _ => by simp [mergeAppendKVs, KVs.lookup, appendAt]
  | .cons k0 v rest, b, k, hnd => by
    simp only [KVs.keys, List.nodup_cons] at hnd
    rw [mergeAppendKVs_cons, C12_mergeAppend_lookup rest _ k hnd.2]
    by_cases hk : k0 = k
    · subst hk
      rw [KVs.lookup_not_mem rest hnd.1, KVs.lookup_set_same]
      simp only [KVs.lookup, if_true]
      cases hb : b.lookup k0 with
      | none => cases v <;> simp [appendAt, appendOne]
      | some bv => cases v <;> cases bv <;> simp [appendAt, appendOne]
    · have hk' : k ≠ k0 := fun e => hk e.symm
      rw [KVs.lookup_set_other _ hk']
      simp [KVs.lookup, hk]

/-- `mergeSlice(src, dest)` for ALL lists: the old list survives as a prefix, in order; what is appended is a sub-list of
`src` in `src`'s order; every appended element is new with respect to everything before it (old elements and the ones
appended earlier — duplicates inside `src` are dropped too); and no element of `src` is lost: it is appended or was present -/
theorem C12_mergeSlice_spec (src dest : List Val) :
    ∃ t, mergeSlice src dest = dest ++ t ∧ t.Sublist src ∧ distinctFrom dest t ∧
      ∀ v ∈ src, isPresent (dest ++ t) v = true ∨ v ∈ t :=
  foldl_appendNew_spec src dest

/-- merging a list whose elements are all present already changes nothing (the same source given twice is harmless) … -/
theorem C12_mergeSlice_all_present (src dest : List Val) (h : ∀ v ∈ src, isPresent dest v = true) :
    mergeSlice src dest = dest := foldl_appendNew_present src dest h

/-- … and a list of pairwise different, new elements is appended as it is -/
theorem C12_mergeSlice_all_new (src dest : List Val) (h : distinctFrom dest src) :
    mergeSlice src dest = dest ++ src := foldl_appendNew_distinct src dest h

/-- the URI list is folded as given also with the gate on; an empty source changes nothing -/
theorem C12_mergeAppend_sources (srcs : List KVs) (s : KVs) :
    mergeSourcesAppend (srcs ++ [s]) = mergeAppendKVs s (mergeSourcesAppend srcs) ∧
    mergeSourcesAppend (srcs ++ [.nil]) = mergeSourcesAppend srcs := by
  refine ⟨mergeSourcesAppend_snoc srcs s, ?_⟩
  rw [mergeSourcesAppend_snoc]; simp [mergeAppendKVs]

/-- with the gate on, scalars and nils of the last source still win; a list of the last source wins over a non-list -/
theorem C12_mergeAppend_last_source_wins (srcs : List KVs) (s : KVs) (k : Str) (v : Val) (hk : s.keys.Nodup)
    (hv : s.lookup k = some v) (hm : ∀ m, v ≠ .map m) (hl : ∀ l, v ≠ .list l) :
    (mergeSourcesAppend (srcs ++ [s])).lookup k = some v := by
  rw [mergeSourcesAppend_snoc, C12_mergeAppend_lookup s _ k hk, hv]
  cases v <;> first | rfl | exact absurd rfl (hm _) | exact absurd rfl (hl _)

/-- `Resolve` END TO END with the gate on: under every leaf path of the `mergeAppend`-merged sources the result holds
`resolveValue` of the merged value (same flatten / sorted order / per-key loop / unflatten as with the gate off) -/
theorem C12_resolveAppend_lookup (env : Env) (srcs : List Val) (ms : List KVs) (m : KVs)
    (h : resolveAppend env srcs = .ok m) (hm : srcs.mapM asConf = some ms) (hs : ∀ s ∈ ms, HNK s) :
    ∀ a ∈ flatten [] (mergeSourcesAppend ms), ∃ v', resolveValue env a.2 = .ok v' ∧ lookupPath a.1 m = some v' := by
  unfold resolveAppend at h
  simp only [hm] at h
  cases hl : resolveLeaves env (sortedLeaves (mergeSourcesAppend ms)) with
  | error e => simp [hl] at h
  | ok leaves =>
    simp only [hl, Except.ok.injEq] at h
    subst h
    exact resolved_leaves_lookup env _ (HNK_mergeSourcesAppend ms hs) leaves hl

/-- … and it can only fail because a source is not a map or because a value that survives the merge fails to resolve -/
theorem C12_resolveAppend_error_from_merged_leaf (env : Env) (srcs : List Val) (e : Errs)
    (h : resolveAppend env srcs = .error e) :
    srcs.mapM asConf = none ∨
    ∃ ms, srcs.mapM asConf = some ms ∧ ∃ l ∈ flatten [] (mergeSourcesAppend ms), resolveValue env l.2 = .error e := by
  unfold resolveAppend at h
  cases hm : srcs.mapM asConf with
  | none => exact .inl rfl
  | some ms =>
    right
    simp only [hm] at h
    cases hl : resolveLeaves env (sortedLeaves (mergeSourcesAppend ms)) with
    | ok leaves => simp [hl] at h
    | error e' =>
      simp only [hl, Except.error.injEq] at h
      subst h
      obtain ⟨l, hl1, hl2⟩ := resolveLeaves_error env _ _ hl
      exact ⟨ms, rfl, l, (List.mergeSort_perm _ _).mem_iff.1 hl1, hl2⟩

/-! non-vacuity: `extensions: [a, b]` + `extensions: [a, {m: 1}, c, c]` under the gate -/
def exListD : Vals := .cons (.str ['a']) (.cons (.str ['b']) .nil)
def exListS : Vals := .cons (.str ['a']) (.cons (.map (.cons ['m'] (.int 1) .nil)) (.cons (.str ['c']) (.cons (.str ['c']) .nil)))
example : mergeSlice exListS.toList exListD.toList =
    [.str ['a'], .str ['b'], .map (.cons ['m'] (.int 1) .nil), .str ['c']] := by rfl
example : (mergeAppendKVs (.cons ['e'] (.list exListS) (.cons ['x'] (.int 2) .nil))
    (.cons ['e'] (.list exListD) (.cons ['x'] (.list exListD) .nil))).lookup ['e'] =
    some (.list (Vals.ofList [.str ['a'], .str ['b'], .map (.cons ['m'] (.int 1) .nil), .str ['c']])) := by rfl
example : distinctFrom exListD.toList [.str ['c'], .int 1] := by
  simp [distinctFrom, exListD, Vals.toList, isPresent, valEq]
example : ∀ v ∈ [Val.str ['a'], .str ['b']], isPresent exListD.toList v = true := by decide
/-- map elements compare key-wise, whatever the key order -/
example : valEq (.map (.cons ['a'] (.int 1) (.cons ['b'] .null .nil))) (.map (.cons ['b'] .null (.cons ['a'] (.int 1) .nil))) = true := by
  decide
example : mergeSourcesAppend [.cons ['l'] (.list exListD) .nil, .cons ['l'] (.list exListS) .nil] =
    .cons ['l'] (.list (Vals.ofList [.str ['a'], .str ['b'], .map (.cons ['m'] (.int 1) .nil), .str ['c']])) .nil := by rfl
example : [Val.map (.cons ['l'] (.list exListD) .nil), .map (.cons ['l'] (.list exListS) .nil)].mapM asConf =
    some [.cons ['l'] (.list exListD) .nil, .cons ['l'] (.list exListS) .nil] ∧
    ∀ s ∈ [KVs.cons ['l'] (.list exListD) .nil, .cons ['l'] (.list exListS) .nil], HNK s := by
  refine ⟨rfl, ?_⟩
  intro s hs
  simp only [List.mem_cons, List.not_mem_nil, or_false] at hs
  rcases hs with rfl | rfl <;> simp [HNK, HN, KVs.keys]

/-! # Round 2 (second session): `NewResolver` — locations of the URI list -/

open OtelVerif.Gen

/-- TIE of the hand-written scheme test to the source: `validScheme` is the anchored match of the `schemePattern`
classes regenerated from `confmap/expand.go` by `translators/cmd/c12consts` (a change of the pattern breaks this proof) -/
theorem C12_validScheme_is_schemePattern (s : Str) : validScheme s = matchClasses C12Consts.schemeClasses s :=
  validScheme_eq_gen s

/-- the shapes of the straight-line code the model mirrors, as regenerated from the source on every run: loop bound,
type-switch cases of `expandValue` / `escapeDollarSigns`, the `$$ → $` replacement, first-`}` / last-`${` search, the odd-count
escape test, the `:` / `$` tests of `expandURI`, unanchored provider-scheme check, `mergeAppend`'s Kind switch, `DeepEqual` -/
theorem gen_source_shape :
    C12Consts.loopBound = 1000 ∧ C12Consts.uriRegexpAnchored = true ∧
    C12Consts.expandValueCases = ["expandedValue", "string", "[]any", "map[string]any"] ∧
    C12Consts.escapeDollarSignsCases = ["string", "expandedValue", "[]any", "map[string]any", "default"] ∧
    C12Consts.escapeDollarSignsCalls = ["ReplaceAll:$$:$", "ReplaceAll:$$:$"] ∧
    C12Consts.expandValueCalls = ["Contains:${", "Contains:}"] ∧
    C12Consts.findURICalls = ["Index:}", "LastIndex:${", "Contains::", "Contains:}", "Contains:}"] ∧
    C12Consts.expandURICalls = ["Contains::", "Contains:$"] ∧
    C12Consts.findURIParity = "count%2==1;" ∧
    C12Consts.providerSchemeCheck = "MatchString;" ∧
    C12Consts.mergeAppendKinds = ["reflect.Array,reflect.Slice", "reflect.Map", "default"] ∧
    C12Consts.isPresentCompare = "DeepEqual;" ∧
    C12Consts.fileScheme = ['f', 'i', 'l', 'e'] ∧ C12Consts.driverLetterRanges = [(65, 122)] := by decide

/-- a URI with a `:` that is not a drive-letter path is handed to its provider VERBATIM (`location.asString` gives the URI
back), its scheme is a valid scheme (the text before the FIRST `:`) and is registered — or `NewResolver` fails -/
theorem C12_location_verbatim (provs : List Str) (uri : Str) (l : Loc)
    (hd : driverLetter uri = false) (hc : hasColon uri = true) (h : uriLocation provs uri = .ok l) :
    l.asString = uri ∧ validScheme l.scheme = true ∧ provs.contains l.scheme = true := by
  unfold uriLocation at h
  simp only [hd, hc, Bool.not_true, Bool.or_self, Bool.false_eq_true, if_false] at h
  unfold newLocation at h
  cases hs : splitColon uri with
  | none => simp [hs] at h
  | some p =>
    obtain ⟨sc, op⟩ := p
    simp only [hs] at h
    by_cases hv : validScheme sc = true
    · simp only [hv, if_true] at h
      by_cases hp : sc ∈ provs
      · simp only [List.contains_iff_mem, hp, if_true, Except.ok.injEq] at h
        subst h
        exact ⟨(splitColon_join uri sc op hs).symm, hv, by simpa using hp⟩
      · simp [hp] at h
    · simp [hv] at h

/-- a location without `:` or with a drive letter (`C:\…`) becomes `file:<the whole text>`; `NewResolver` never rejects it -/
theorem C12_location_file (provs : List Str) (uri : Str) (h : driverLetter uri = true ∨ hasColon uri = false) :
    uriLocation provs uri = .ok ⟨C12Consts.fileScheme, uri⟩ ∧
    (Loc.mk C12Consts.fileScheme uri).asString = C12Consts.fileScheme ++ ':' :: uri := by
  refine ⟨?_, rfl⟩
  unfold uriLocation
  rcases h with h | h <;> simp [h]

/-- the backwards-compatibility rule `^[A-z]:` never shadows a URI that has a scheme: whatever it captures (the class also
holds `[ \ ] ^ _` and the back-quote) could not have been parsed by `newLocation` — a scheme has at least two characters -/
theorem C12_driveletter_never_shadows_scheme (uri : Str) (h : driverLetter uri = true) : newLocation uri = none := by
  match uri, h with
  | c :: d :: r, h =>
    simp only [driverLetter, Bool.and_eq_true, beq_iff_eq] at h
    obtain ⟨h1, rfl⟩ := h
    have hc : c ≠ ':' := by
      rintro rfl
      rw [colon_not_driverLetter] at h1; cases h1
    simp [newLocation, splitColon, hc, validScheme]

/-- `NewResolver` keeps the URI list as given: one location per URI, in order (no de-duplication, no re-ordering) -/
theorem uriLocations_pointwise (provs : List Str) : ∀ (uris : List Str) (locs : List Loc),
    uriLocations provs uris = .ok locs → Pointwise (fun u l => uriLocation provs u = .ok l) uris locs
  | [], locs, h => by simp [uriLocations] at h; subst h; exact .nil
  | u :: us, locs, h => by
    simp only [uriLocations] at h
    cases h1 : uriLocation provs u with
    | error e => simp [h1] at h
    | ok l =>
      simp only [h1] at h
      cases h2 : uriLocations provs us with
      | error e => simp [h2] at h
      | ok ls =>
        simp only [h2, Except.ok.injEq] at h
        subst h
        exact .cons h1 (uriLocations_pointwise provs us ls h2)

theorem C12_newResolver_locations (set : Settings) (locs : List Loc) (h : newResolver set = .ok locs) :
    Pointwise (fun u l => uriLocation set.provSchemes u = .ok l) set.uris locs ∧
    set.uris ≠ [] ∧ set.provSchemes ≠ [] ∧
    (set.defaultScheme = [] ∨ set.provSchemes.contains set.defaultScheme = true) := by
  unfold newResolver at h
  by_cases h1 : set.uris.isEmpty = true
  · simp [h1] at h
  by_cases h2 : set.provSchemes.isEmpty = true
  · simp [h1, h2] at h
  simp only [h1, h2, Bool.false_eq_true, if_false] at h
  cases h3 : checkProviders [] set.provSchemes with
  | some e => simp [h3] at h
  | none =>
    simp only [h3] at h
    by_cases h4 : set.defaultScheme = []
    · simp only [h4, List.isEmpty_nil, Bool.not_true, Bool.false_and, Bool.false_eq_true, if_false] at h
      exact ⟨uriLocations_pointwise _ _ _ h, by intro e; simp [e] at h1, by intro e; simp [e] at h2, .inl h4⟩
    · by_cases h5 : set.defaultScheme ∈ set.provSchemes
      · have h6 : (!set.defaultScheme.isEmpty && !set.provSchemes.contains set.defaultScheme) = false := by simp [h5]
        simp only [h6, Bool.false_eq_true, if_false] at h
        exact ⟨uriLocations_pointwise _ _ _ h, by intro e; simp [e] at h1, by intro e; simp [e] at h2,
          .inr (by simpa using h5)⟩
      · simp [h4, h5] at h

/-- `Resolve` retrieves the locations in the given order, each with its `asString`, none skipped, while their schemes are
registered (only a `file` location can lack a provider: `NewResolver` does not check it) -/
theorem C12_retrieveAll_in_order (provs : List Str) : ∀ (locs : List Loc),
    (∀ l ∈ locs, provs.contains l.scheme = true) → retrieveAll provs locs = (locs.map Loc.asString, true)
  | [], _ => rfl
  | l :: ls, h => by
    have h1 := h l (List.mem_cons_self ..)
    simp only [retrieveAll, h1, if_true, List.map_cons]
    rw [C12_retrieveAll_in_order provs ls (fun x hx => h x (List.mem_cons_of_mem _ hx))]

/-! # Round 2 (second session): the `closers` bookkeeping — every retrieved value's `Close` is called exactly once -/

/-- for EVERY sequence of `Resolve` (succeeding, failing half-way, or failing to close) and `Shutdown` calls: the ids of all
successful `Retrieve` calls so far are `closed ++ pending`, each exactly once and in retrieval order — no `Close` is called
twice, none before its value was retrieved, none is forgotten -/
theorem C12_closers_exactly_once (ls : List LifeLabel) :
    let s := Life.run {} ls
    s.closed ++ s.pending = List.range s.next ∧ (s.closed ++ s.pending).Nodup := by
  have h := Life.inv_run ls {} Life.inv_init
  unfold Life.Inv at h
  exact ⟨h, h ▸ List.nodup_range⟩

/-- after `Shutdown` nothing is pending: every value retrieved during the resolver's life was closed exactly once -/
theorem C12_closers_after_shutdown (ls : List LifeLabel) :
    let s := Life.run {} (ls ++ [.shutdown])
    s.pending = [] ∧ s.closed = List.range s.next := by
  have h := Life.inv_run (ls ++ [.shutdown]) {} Life.inv_init
  unfold Life.Inv at h
  have hp : (Life.run {} (ls ++ [.shutdown])).pending = [] := by
    simp [Life.run, List.foldl_append, Life.fire, Life.closeAll]
  refine ⟨hp, ?_⟩
  rw [hp, List.append_nil] at h
  exact h

/-- a re-`Resolve` first closes everything the previous calls retrieved (before it retrieves anything), and what is pending
afterwards are exactly its own `n` retrievals (none when closing failed) -/
theorem C12_closers_reresolve (ls : List LifeLabel) (cf : Bool) (n : Nat) :
    let s := Life.run {} ls
    let s' := s.fire (.resolve cf n)
    s'.closed = List.range s.next ∧ s'.pending = if cf then [] else (List.range n).map (s.next + ·) := by
  have h := Life.inv_run ls {} Life.inv_init
  unfold Life.Inv at h
  cases cf <;> simp [Life.fire, Life.closeAll, h]

/-! non-vacuity -/
example : uriLocation [['e', 'n', 'v'], ['f', 'i', 'l', 'e']] ['e', 'n', 'v', ':', 'A', ':', 'b'] = .ok ⟨['e', 'n', 'v'], ['A', ':', 'b']⟩ := by rfl
example : driverLetter ['C', ':', '\\', 'x'] = true ∧ driverLetter ['_', ':', 'x'] = true ∧ driverLetter ['e', 'n', 'v', ':'] = false := by decide
example : newResolver ⟨[['C', ':', '\\', 'x'], ['c', 'f', 'g'], ['e', 'n', 'v', ':', 'A']], [['e', 'n', 'v']], []⟩ =
    .ok [⟨['f', 'i', 'l', 'e'], ['C', ':', '\\', 'x']⟩, ⟨['f', 'i', 'l', 'e'], ['c', 'f', 'g']⟩, ⟨['e', 'n', 'v'], ['A']⟩] := by rfl
/-- the unanchored provider-scheme check: `1ab` passes (it contains `ab`), `a` does not -/
example : checkProviders [] [['1', 'a', 'b']] = none ∧ checkProviders [] [['a']] = some .invalidProviderScheme := by decide
example : Life.run {} [.resolve false 2, .resolve false 3, .resolve true 1, .resolve false 1, .shutdown] =
    { next := 6, pending := [], closed := [0, 1, 2, 3, 4, 5] } := by decide

/-! # Round 2 (second session): the public entry point end to end — `NewResolver(settings)` then `Resolve` refines `resolve` -/

/-- END-TO-END REFINEMENT: whenever `NewResolver(settings)` + `Resolve` (gate off or on) succeeds with `m`, the URI list was turned
into locations one by one in the given order (`C12_newResolver_locations`: verbatim or the `file` fall-back), every location was
retrieved from a registered provider with `location.asString`, and `m` is `resolve` / `resolveAppend` of the values retrieved, in
that order — so every clause proved about `resolve` (`C12_resolve_lookup`, `C12_resolve_error_from_merged_leaf`, the merge and
expansion theorems) holds for what the public API returns -/
theorem C12_resolveSettings_refines (gate : Bool) (set : Settings) (fetch : Str → Option Val) (env : Env) (m : KVs)
    (h : resolveSettings gate set fetch env = .ok m) :
    ∃ locs srcs, newResolver set = .ok locs ∧ locs.mapM (fun l => fetch l.asString) = some srcs ∧
      (∀ l ∈ locs, set.provSchemes.contains l.scheme = true) ∧ resolveGate gate env srcs = .ok m := by
  unfold resolveSettings at h
  cases hn : newResolver set with
  | error e => simp [hn] at h
  | ok locs =>
    simp only [hn] at h
    cases hr : retrieveMerge gate set.provSchemes fetch locs .nil with
    | error e => simp [hr] at h
    | ok merged =>
      simp only [hr] at h
      obtain ⟨srcs, ms, h1, h2, h3, h4⟩ := retrieveMerge_ok gate _ fetch locs .nil merged hr
      refine ⟨locs, srcs, rfl, h1, h3, ?_⟩
      cases hl : resolveLeaves env (sortedLeaves merged) with
      | error e => simp [hl] at h
      | ok leaves =>
        simp only [hl, Except.ok.injEq] at h
        cases gate with
        | true =>
          have hm : merged = mergeSourcesAppend ms := by simpa [mergeSourcesAppend] using h4
          simp [resolveGate, resolveAppend, h2, ← hm, hl, h]
        | false =>
          have hm : merged = mergeSources ms := by simpa [mergeSources] using h4
          simp [resolveGate, resolve, h2, ← hm, hl, h]

def exSet : Settings := ⟨[['s', 'r', ':', 'x'], ['c', 'f', 'g']], [['s', 'r'], ['f', 'i', 'l', 'e']], []⟩
def exFetch : Str → Option Val := fun u => if u = ['s', 'r', ':', 'x'] then some (.map (.cons ['k'] (.int 1) .nil)) else some .null
example : resolveSettings true exSet exFetch (exEnv .fixed) = .ok (.cons ['k'] (.int 1) .nil) := by
  have h1 : newResolver exSet = .ok [⟨['s', 'r'], ['x']⟩, ⟨['f', 'i', 'l', 'e'], ['c', 'f', 'g']⟩] := by rfl
  have h2 : retrieveMerge true exSet.provSchemes exFetch [⟨['s', 'r'], ['x']⟩, ⟨['f', 'i', 'l', 'e'], ['c', 'f', 'g']⟩] .nil =
      .ok (.cons ['k'] (.int 1) .nil) := by rfl
  have h3 : sortedLeaves (.cons ['k'] (.int 1) .nil) = [([['k']], .int 1)] := by
    simp [sortedLeaves, flatten]
  simp only [resolveSettings, h1, h2, h3]
  rfl
/-- `s:x` looks like a drive letter: it becomes `file:s:x`, and without a `file` provider `Resolve` cannot retrieve it -/
example : resolveSettings false ⟨[['s', ':', 'x']], [['s', 'r']], []⟩ (fun _ => some .null) (exEnv .fixed) =
    .error .cannotRetrieve := by rfl

/-! # Round 2 (second session): reference cycles of ANY length (A → B → … → A), whole-value and embedded -/

def refStr (body : Str) : Str := '$' :: '{' :: body ++ ['}']

/-- reference CYCLES OF ANY LENGTH through whole values -/
theorem C12_whole_value_chain_error (env : Env) (b : Nat → Str)
    (hb : ∀ j, hasDollar (b j) = false ∧ hasClose (b j) = false ∧
      (env.defaultScheme.isSome = true ∨ hasColon (b j) = true))
    (hexp : ∀ j, ∃ r, expandURI env (b j) = .ok r ∧ r.raw = .str (refStr (b (j + 1))) ∧
      r.asString = some (refStr (b (j + 1)))) :
    resolveValue env (.str (refStr (b 0))) = .error [.tooMany] := by
  let P : Val → Prop := fun v => ∃ j, v = .str (refStr (b j)) ∨ v = .expanded (.str (refStr (b j))) (refStr (b j))
  have hstr : ∀ j, expandValue env (.str (refStr (b j))) =
      .ok (.expanded (.str (refStr (b (j + 1)))) (refStr (b (j + 1))), true) := by
    intro j
    obtain ⟨r, h1, h2, h3⟩ := hexp j
    have := expandStr_whole env (b j) r (hb j).1 (hb j).2.1 (hb j).2.2 h1
    rw [h3, h2] at this
    rw [expandValue]; exact this
  have hstep : ∀ v, P v → ∃ v', expandValue env v = .ok (v', true) ∧ P v' := by
    rintro v ⟨j, rfl | rfl⟩
    · exact ⟨_, hstr j, j + 1, .inr rfl⟩
    · refine ⟨.expanded (.str (refStr (b (j + 1)))) (refStr (b (j + 1))), ?_, j + 1, .inr rfl⟩
      rw [expandValue, hstr j]
  unfold resolveValue
  rw [C12_always_changed_error env P hstep env.fuel _ ⟨0, .inl rfl⟩]

/-- … and through EMBEDDED references -/
theorem C12_embedded_chain_error (env : Env) (hmode : env.mode = .fixed) (b vpre vpost : Nat → Str)
    (hb : ∀ j, hasDollar (b j) = false ∧ hasClose (b j) = false ∧
      (env.defaultScheme.isSome = true ∨ hasColon (b j) = true))
    (hexp : ∀ j, ∃ r, expandURI env (b j) = .ok r ∧
      r.asString = some (vpre j ++ refStr (b (j + 1)) ++ vpost j))
    (hv : ∀ j, hasDollar (vpre j) = false ∧ hasClose (vpre j) = false)
    (pre post : Str) (hp : hasDollar pre = false) (hpc : hasClose pre = false)
    (hemb : (pre.isEmpty && post.isEmpty) = false) :
    resolveValue env (.str (pre ++ refStr (b 0) ++ post)) = .error [.tooMany] := by
  let P : Val → Prop := fun v => ∃ j p q, v = .str (p ++ '$' :: '{' :: b j ++ '}' :: q) ∧
    hasDollar p = false ∧ hasClose p = false ∧ (p.isEmpty && q.isEmpty) = false
  have hstep : ∀ v, P v → ∃ v', expandValue env v = .ok (v', true) ∧ P v' := by
    rintro v ⟨j, p, q, rfl, h1, h2, h3⟩
    obtain ⟨r, hr1, hr2⟩ := hexp j
    have hf := findURI_at env.mode env.defaultScheme.isSome p (b j) q h1 h2 (hb j).1 (hb j).2.1 (hb j).2.2
    have := (C12_embedded_substituted env hmode _ p (b j) q _ r hf h3 hr1 hr2).1
    refine ⟨_, this, j + 1, p ++ vpre j, vpost j ++ q, by simp [refStr], ?_, ?_, ?_⟩
    · rw [hasDollar_append, h1, (hv j).1]; rfl
    · rw [hasClose_append, h2, (hv j).2]; rfl
    · cases p <;> cases q <;> simp_all
  unfold resolveValue
  rw [C12_always_changed_error env P hstep env.fuel _ ⟨0, pre, post, by simp [refStr], hp, hpc, hemb⟩]

/-- non-vacuity: the 2-cycle A → B → A, through whole values and embedded -/
def cycB (j : Nat) : Str := if j % 2 = 0 then ['e', 'e', ':', 'A'] else ['e', 'e', ':', 'B']
def cycEnv (emb : Bool) : Env :=
  { schemes := [['e', 'e']], defaultScheme := none,
    prov := fun _ nm =>
      let w := fun (s : Str) => if emb then 'x' :: s ++ ['y'] else s
      if nm = ['A'] then some ⟨.str (w (refStr (cycB 1))), some (w (refStr (cycB 1)))⟩
      else if nm = ['B'] then some ⟨.str (w (refStr (cycB 0))), some (w (refStr (cycB 0)))⟩
      else none }

theorem cycB_succ (j : Nat) : (j % 2 = 0 ∧ cycB j = cycB 0 ∧ cycB (j + 1) = cycB 1) ∨
    (j % 2 = 1 ∧ cycB j = cycB 1 ∧ cycB (j + 1) = cycB 0) := by
  rcases Nat.mod_two_eq_zero_or_one j with h | h
  · left; have h' : (j + 1) % 2 = 1 := by omega
    simp [cycB, h, h']
  · right; have h' : (j + 1) % 2 = 0 := by omega
    simp [cycB, h, h']

example : resolveValue (cycEnv false) (.str (refStr ['e', 'e', ':', 'A'])) = .error [.tooMany] :=
  C12_whole_value_chain_error (cycEnv false) cycB
    (fun j => by rcases cycB_succ j with ⟨_, h, _⟩ | ⟨_, h, _⟩ <;> rw [h] <;> decide)
    (fun j => by
      rcases cycB_succ j with ⟨_, h1, h2⟩ | ⟨_, h1, h2⟩ <;> rw [h1, h2] <;> exact ⟨_, rfl, rfl, rfl⟩)

example : resolveValue (cycEnv true) (.str ('h' :: refStr ['e', 'e', ':', 'A'] ++ [])) = .error [.tooMany] :=
  C12_embedded_chain_error (cycEnv true) rfl cycB (fun _ => ['x']) (fun _ => ['y'])
    (fun j => by rcases cycB_succ j with ⟨_, h, _⟩ | ⟨_, h, _⟩ <;> rw [h] <;> decide)
    (fun j => by
      rcases cycB_succ j with ⟨_, h1, h2⟩ | ⟨_, h1, h2⟩ <;> rw [h1, h2] <;> exact ⟨_, rfl, rfl⟩)
    (fun _ => by decide) ['h'] [] (by decide) (by decide) (by decide)

end OtelVerif.C12
