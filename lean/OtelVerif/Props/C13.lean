import OtelVerif.Model.C13
/-! C13 property theorems (stub) -/
namespace OtelVerif.C13
end OtelVerif.C13
