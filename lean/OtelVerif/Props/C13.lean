import OtelVerif.Model.C13
import OtelVerif.Lemmas.C13Faithful
import OtelVerif.Lemmas.C13Hooks
import OtelVerif.Gen.UnmarshalHooks
import OtelVerif.Gen.ConfigSchemas
import OtelVerif.Lemmas.C13Validate
import OtelVerif.Model.C13HooksGen
import OtelVerif.Lemmas.C13Walk
import OtelVerif.Lemmas.C13Load
/-!
# C13 — configuration loading is faithful and strict

Property theorems only.

* `C13_validate_complete` — the validation walk reports exactly the failing `Validate()`s reachable
  from the root, each with its path; a parent's validity is irrelevant.
* `C13_refs`, `C13_shape`, `C13_refs_names_entry` — `Config.Validate`/`PipelineConfig.Validate` accept
  exactly the configurations without dangling references, id clashes, empty or duplicated pipeline
  parts, and every error names an offending entry.
* `C13_strict` — a key that no field accepts, at any depth (through fields, pointers, slice elements,
  map values), makes strict decoding fail.
* `C13_faithful_written`, `C13_faithful_unwritten`, `C13_effective` — decoding onto defaults reflects
  exactly the written keys, in the typed and in the effective configuration (opaque leaves redacted),
  for every schema; instantiated on the regenerated built-in schemas.  Partial: positions with a
  custom `Unmarshal` (`C13_builtin_custom_positions`) and the text round trip of `MarshalText` are
  covered by the differential only.
-/
namespace OtelVerif.C13

/-! ## (a) validation walk -/

theorem mem_pre {seg : String} {l : List (Path × Nat)} {p : Path} {n : Nat} :
    (p, n) ∈ pre seg l ↔ ∃ q, p = seg :: q ∧ (q, n) ∈ l := by
  unfold pre
  simp only [List.mem_map, Prod.mk.injEq]
  constructor
  · rintro ⟨⟨q, m⟩, hm, rfl, rfl⟩; exact ⟨q, rfl, hm⟩
  · rintro ⟨q, rfl, hm⟩; exact ⟨(q, n), hm, rfl, rfl⟩

theorem mem_own {e : Option Nat} {p : Path} {n : Nat} : (p, n) ∈ own e ↔ p = [] ∧ e = some n := by
  cases e with
  | none => simp [own]
  | some m => simp [own, eq_comm]

mutual
theorem validate_iff : ∀ (t : VT) (p : Path) (n : Nat), (p, n) ∈ validate t ↔ Fails t p n
  | .leaf e, p, n => by
    simp only [validate, mem_own]
    constructor
    · rintro ⟨rfl, rfl⟩; exact .leaf
    · intro h; cases h; exact ⟨rfl, rfl⟩
  | .nilv, p, n => by
    simp only [validate, List.not_mem_nil, false_iff]
    intro h; cases h
  | .ptr v, p, n => by
    simp only [validate, validate_iff v p n]
    constructor
    · exact .ptr
    · intro h; cases h; assumption
  | .struct e fs, p, n => by
    simp only [validate, List.mem_append, mem_own, validateF_iff fs p n]
    constructor
    · rintro (⟨rfl, rfl⟩ | ⟨name, v, q, hm, rfl, hf⟩)
      · exact .structOwn
      · exact .structField hm hf
    · intro h
      cases h with
      | structOwn => exact .inl ⟨rfl, rfl⟩
      | structField hm hf => exact .inr ⟨_, _, _, hm, rfl, hf⟩
  | .seq e vs, p, n => by
    simp only [validate, List.mem_append, mem_own, validateL_iff vs 0 p n]
    constructor
    · rintro (⟨rfl, rfl⟩ | ⟨j, v, q, hm, rfl, hf⟩)
      · exact .seqOwn
      · rw [Nat.zero_add]; exact .seqElem hm hf
    · intro h
      cases h with
      | seqOwn => exact .inl ⟨rfl, rfl⟩
      | seqElem hm hf => exact .inr ⟨_, _, _, hm, by rw [Nat.zero_add], hf⟩
  | .map e kvs, p, n => by
    simp only [validate, List.mem_append, mem_own, validateKV_iff kvs p n]
    constructor
    · rintro (⟨rfl, rfl⟩ | ⟨k, kv, v, q, hm, rfl, hf | hf⟩)
      · exact .mapOwn
      · exact .mapKey hm hf
      · exact .mapVal hm hf
    · intro h
      cases h with
      | mapOwn => exact .inl ⟨rfl, rfl⟩
      | mapKey hm hf => exact .inr ⟨_, _, _, _, hm, rfl, .inl hf⟩
      | mapVal hm hf => exact .inr ⟨_, _, _, _, hm, rfl, .inr hf⟩
theorem validateF_iff : ∀ (fs : List (String × Bool × VT)) (p : Path) (n : Nat),
    (p, n) ∈ validateF fs ↔ ∃ name v q, (name, true, v) ∈ fs ∧ p = name :: q ∧ Fails v q n
  | [], p, n => by simp [validateF]
  | (name, exported, v) :: fs, p, n => by
    simp only [validateF, List.mem_append, validateF_iff fs p n]
    constructor
    · rintro (h | ⟨nm, w, q, hm, rfl, hf⟩)
      · cases exported with
        | false => simp at h
        | true =>
          simp only [if_true, mem_pre] at h
          obtain ⟨q, rfl, hq⟩ := h
          exact ⟨name, v, q, List.mem_cons_self .., rfl, (validate_iff v q n).mp hq⟩
      · exact ⟨nm, w, q, List.mem_cons_of_mem _ hm, rfl, hf⟩
    · rintro ⟨nm, w, q, hm, rfl, hf⟩
      cases hm with
      | head => exact .inl (by simp only [if_true, mem_pre]; exact ⟨q, rfl, (validate_iff _ q n).mpr hf⟩)
      | tail _ hm' => exact .inr ⟨nm, w, q, hm', rfl, hf⟩
theorem validateL_iff : ∀ (vs : List VT) (i : Nat) (p : Path) (n : Nat),
    (p, n) ∈ validateL i vs ↔ ∃ (j : Nat) (v : VT) (q : Path), vs[j]? = some v ∧ p = toString (i + j) :: q ∧ Fails v q n
  | [], i, p, n => by simp [validateL]
  | v :: vs, i, p, n => by
    simp only [validateL, List.mem_append, mem_pre, validateL_iff vs (i + 1) p n]
    constructor
    · rintro (⟨q, rfl, hq⟩ | ⟨j, w, q, hm, rfl, hf⟩)
      · exact ⟨0, v, q, rfl, rfl, (validate_iff v q n).mp hq⟩
      · exact ⟨j + 1, w, q, by simpa using hm, by rw [Nat.add_assoc, Nat.add_comm 1 j], hf⟩
    · rintro ⟨j, w, q, hm, rfl, hf⟩
      cases j with
      | zero =>
        simp only [List.getElem?_cons_zero, Option.some.injEq] at hm
        subst hm
        exact .inl ⟨q, rfl, (validate_iff _ q n).mpr hf⟩
      | succ j =>
        exact .inr ⟨j, w, q, by simpa using hm, by rw [Nat.add_assoc, Nat.add_comm 1 j], hf⟩
theorem validateKV_iff : ∀ (kvs : List (String × VT × VT)) (p : Path) (n : Nat),
    (p, n) ∈ validateKV kvs ↔ ∃ k kv v q, (k, kv, v) ∈ kvs ∧ p = k :: q ∧ (Fails kv q n ∨ Fails v q n)
  | [], p, n => by simp [validateKV]
  | (k, kv, v) :: kvs, p, n => by
    simp only [validateKV, List.mem_append, mem_pre, validateKV_iff kvs p n]
    constructor
    · rintro ((⟨q, rfl, hq⟩ | ⟨q, rfl, hq⟩) | ⟨k', kv', v', q, hm, rfl, hf⟩)
      · exact ⟨k, kv, v, q, List.mem_cons_self .., rfl, .inl ((validate_iff kv q n).mp hq)⟩
      · exact ⟨k, kv, v, q, List.mem_cons_self .., rfl, .inr ((validate_iff v q n).mp hq)⟩
      · exact ⟨k', kv', v', q, List.mem_cons_of_mem _ hm, rfl, hf⟩
    · rintro ⟨k', kv', v', q, hm, rfl, hf⟩
      cases hm with
      | head =>
        rcases hf with hf | hf
        · exact .inl (.inl ⟨q, rfl, (validate_iff _ q n).mpr hf⟩)
        · exact .inl (.inr ⟨q, rfl, (validate_iff _ q n).mpr hf⟩)
      | tail _ hm' => exact .inr ⟨k', kv', v', q, hm', rfl, hf⟩
end

/-- **Every validation rule of every nested value is evaluated**: the walk reports `(path, n)` exactly
when the node at `path` — reached through exported fields, slice/array elements, map keys and
values, pointers and interfaces, *whatever its ancestors' own `Validate()` returned* — fails with `n`. -/
theorem C13_validate_complete (t : VT) (p : Path) (n : Nat) : (p, n) ∈ validate t ↔ Fails t p n :=
  validate_iff t p n

/-- non-vacuity: an invalid leaf below a valid struct, inside a slice below a *failing* map entry -/
example : validate (.struct none [("a", true, .map (some 7) [("k", .leaf none, .seq none [.ptr (.struct none [("x", true, .leaf (some 9))])])])])
    = [(["a"], 7), (["a", "k", "0", "x"], 9)] := by decide

/-- what the walk does not reach: unexported fields (kept explicit) -/
theorem C13_validate_skips_unexported (e : Option Nat) (name : String) (v : VT) :
    validate (.struct e [(name, false, v)]) = own e := by
  simp [validate, validateF]

/-! ## (b) references, ambiguity, pipeline shape -/

def RefsOk (c : Top) : Prop :=
  ¬ (c.receivers = [] ∧ c.exporters = [] ∧ c.processors = [] ∧ c.connectors = [] ∧ c.extensions = []) ∧
  c.receivers ≠ [] ∧ c.exporters ≠ [] ∧
  (∀ conn ∈ c.connectors, conn ∉ c.exporters ∧ conn ∉ c.receivers) ∧
  (∀ r ∈ c.svcExtensions, configured c.extensions r = true) ∧
  (∀ p ∈ c.pipelines,
    (∀ r ∈ p.2.recv, r ∈ c.receivers ∨ r ∈ c.connectors) ∧
    (∀ r ∈ p.2.procs, configured c.processors r = true) ∧
    (∀ r ∈ p.2.exps, r ∈ c.exporters ∨ r ∈ c.connectors))

theorem connErr_none {c : Top} {conn : Id} : connErr c conn = none ↔ conn ∉ c.exporters ∧ conn ∉ c.receivers := by
  unfold connErr
  by_cases a : conn ∈ c.exporters <;> by_cases b : conn ∈ c.receivers <;> simp [a, b]

theorem pipeRefErr_none {c : Top} {pid : Nat} {p : Pipe} : pipeRefErr c pid p = none ↔
    (∀ r ∈ p.recv, r ∈ c.receivers ∨ r ∈ c.connectors) ∧ (∀ r ∈ p.procs, configured c.processors r = true) ∧
    (∀ r ∈ p.exps, r ∈ c.exporters ∨ r ∈ c.connectors) := by
  unfold pipeRefErr
  cases h1 : p.recv.find? (fun r => !(c.receivers.contains r || c.connectors.contains r)) with
  | some r =>
    have := List.find?_some h1
    have hm := List.mem_of_find?_eq_some h1
    simp only [reduceCtorEq, false_iff]
    intro ⟨h, _, _⟩
    have := h r hm
    simp_all
  | none =>
    cases h2 : p.procs.find? (fun r => !configured c.processors r) with
    | some r =>
      have := List.find?_some h2
      have hm := List.mem_of_find?_eq_some h2
      simp only [reduceCtorEq, false_iff]
      intro ⟨_, h, _⟩
      have := h r hm
      simp_all
    | none =>
      cases h3 : p.exps.find? (fun r => !(c.exporters.contains r || c.connectors.contains r)) with
      | some r =>
        have := List.find?_some h3
        have hm := List.mem_of_find?_eq_some h3
        simp only [reduceCtorEq, false_iff]
        intro ⟨_, _, h⟩
        have := h r hm
        simp_all
      | none =>
        simp only [true_iff]
        rw [List.find?_eq_none] at h1 h2 h3
        refine ⟨fun r hr => ?_, fun r hr => ?_, fun r hr => ?_⟩
        · have := h1 r hr
          by_cases hx : r ∈ c.receivers
          · exact .inl hx
          · right; simp_all
        · have := h2 r hr; simp_all
        · have := h3 r hr
          by_cases hx : r ∈ c.exporters
          · exact .inl hx
          · right; simp_all

/-- **References and ambiguity**: `Config.Validate` returns nil exactly for configurations with at least
one receiver and exporter, no connector id shared with a receiver or exporter, no service extension
and no pipeline receiver/processor/exporter that is not defined. -/
theorem C13_refs (c : Top) : rootErrs c = [] ↔ RefsOk c := by
  unfold rootErrs RefsOk
  by_cases h0 : (c.receivers.isEmpty && c.exporters.isEmpty && c.processors.isEmpty && c.connectors.isEmpty && c.extensions.isEmpty) = true
  · simp only [h0, if_true, reduceCtorEq, false_iff]
    simp only [Bool.and_eq_true, List.isEmpty_iff] at h0
    intro h; exact h.1 ⟨h0.1.1.1.1, h0.1.1.1.2, h0.1.1.2, h0.1.2, h0.2⟩
  · have h0' : ¬ (c.receivers = [] ∧ c.exporters = [] ∧ c.processors = [] ∧ c.connectors = [] ∧ c.extensions = []) := by
      intro ⟨a, b, d, e, f⟩; simp [a, b, d, e, f] at h0
    simp only [h0, Bool.false_eq_true, if_false]
    by_cases h1 : c.receivers.isEmpty = true
    · simp only [h1, if_true, reduceCtorEq, false_iff]
      intro h; exact h.2.1 (List.isEmpty_iff.mp h1)
    · have h1' : c.receivers ≠ [] := fun h => h1 (by simp [h])
      simp only [h1, Bool.false_eq_true, if_false]
      by_cases h2 : c.exporters.isEmpty = true
      · simp only [h2, if_true, reduceCtorEq, false_iff]
        intro h; exact h.2.2.1 (List.isEmpty_iff.mp h2)
      · have h2' : c.exporters ≠ [] := fun h => h2 (by simp [h])
        simp only [h2, Bool.false_eq_true, if_false]
        cases hc : c.connectors.filterMap (connErr c) with
        | cons e es =>
          simp only [reduceCtorEq, false_iff]
          intro ⟨_, _, _, h, _⟩
          have : e ∈ c.connectors.filterMap (connErr c) := by rw [hc]; exact List.mem_cons_self ..
          obtain ⟨conn, hm, he⟩ := List.mem_filterMap.mp this
          have := connErr_none.mpr (h conn hm)
          simp [this] at he
        | nil =>
          have hconn : ∀ conn ∈ c.connectors, conn ∉ c.exporters ∧ conn ∉ c.receivers := by
            intro conn hm
            apply connErr_none.mp
            cases hce : connErr c conn with
            | none => rfl
            | some e =>
              have : e ∈ c.connectors.filterMap (connErr c) := List.mem_filterMap.mpr ⟨conn, hm, hce⟩
              rw [hc] at this; simp at this
          simp only []
          cases he : c.svcExtensions.find? (fun r => !configured c.extensions r) with
          | some r =>
            have hp := List.find?_some he
            have hm := List.mem_of_find?_eq_some he
            simp only [reduceCtorEq, false_iff]
            intro ⟨_, _, _, _, h, _⟩
            have := h r hm
            simp_all
          | none =>
            rw [List.find?_eq_none] at he
            have hext : ∀ r ∈ c.svcExtensions, configured c.extensions r = true := by
              intro r hr; have := he r hr; simp_all
            simp only [List.filterMap_eq_nil_iff]
            constructor
            · intro h
              exact ⟨h0', h1', h2', hconn, hext, fun p hp => pipeRefErr_none.mp (h p hp)⟩
            · intro ⟨_, _, _, _, _, h⟩ p hp
              exact pipeRefErr_none.mpr (h p hp)

/-- non-vacuity: a configuration that passes, and one with a dangling exporter that does not -/
example : rootErrs { receivers := [1], exporters := [2], connectors := [3], processors := [(4, true)], extensions := [(5, true)],
                     svcExtensions := [5], pipelines := [(0, ⟨[1], [4], [3]⟩), (1, ⟨[3], [], [2]⟩)] } = [] := by decide
example : rootErrs { receivers := [1], exporters := [2], connectors := [], processors := [], extensions := [],
                     svcExtensions := [], pipelines := [(0, ⟨[1], [], [9]⟩)] } = [.danglingExporter 0 9] := by decide

/-- every reported reference error names an entry that is really offending -/
theorem C13_refs_names_entry (c : Top) (pid : Nat) (ref : Id) :
    (RErr.danglingReceiver pid ref ∈ rootErrs c → ∃ p, (pid, p) ∈ c.pipelines ∧ ref ∈ p.recv ∧ ref ∉ c.receivers ∧ ref ∉ c.connectors) ∧
    (RErr.danglingExporter pid ref ∈ rootErrs c → ∃ p, (pid, p) ∈ c.pipelines ∧ ref ∈ p.exps ∧ ref ∉ c.exporters ∧ ref ∉ c.connectors) ∧
    (RErr.danglingProcessor pid ref ∈ rootErrs c → ∃ p, (pid, p) ∈ c.pipelines ∧ ref ∈ p.procs ∧ configured c.processors ref = false) := by
  have key : ∀ e, e ∈ rootErrs c → (∀ a b, e = RErr.danglingReceiver a b ∨ e = RErr.danglingExporter a b ∨ e = RErr.danglingProcessor a b →
      ∃ p, (a, p) ∈ c.pipelines ∧ pipeRefErr c a p = some e) := by
    intro e he a b hk
    unfold rootErrs at he
    split at he
    · simp at he; rcases hk with h | h | h <;> simp [h] at he
    · split at he
      · simp at he; rcases hk with h | h | h <;> simp [h] at he
      · split at he
        · simp at he; rcases hk with h | h | h <;> simp [h] at he
        · split at he
          · rename_i e' es hce
            have : e ∈ c.connectors.filterMap (connErr c) := by rw [hce]; exact he
            obtain ⟨conn, _, hcc⟩ := List.mem_filterMap.mp this
            unfold connErr at hcc
            split at hcc
            · simp at hcc; rcases hk with h | h | h <;> simp [h] at hcc
            · split at hcc
              · simp at hcc; rcases hk with h | h | h <;> simp [h] at hcc
              · simp at hcc
          · split at he
            · simp at he; rcases hk with h | h | h <;> simp [h] at he
            · obtain ⟨⟨a', p⟩, hm, hp⟩ := List.mem_filterMap.mp he
              simp only at hp
              have ha : a' = a := by
                unfold pipeRefErr at hp
                split at hp
                · simp at hp; rcases hk with h | h | h <;> simp [h] at hp <;> exact hp.1
                · split at hp
                  · simp at hp; rcases hk with h | h | h <;> simp [h] at hp <;> exact hp.1
                  · split at hp
                    · simp at hp; rcases hk with h | h | h <;> simp [h] at hp <;> exact hp.1
                    · simp at hp
              subst ha
              exact ⟨p, hm, hp⟩
  refine ⟨fun h => ?_, fun h => ?_, fun h => ?_⟩
  · obtain ⟨p, hm, hp⟩ := key _ h pid ref (.inl rfl)
    refine ⟨p, hm, ?_⟩
    unfold pipeRefErr at hp
    split at hp
    · rename_i r hf
      simp only [Option.some.injEq, RErr.danglingReceiver.injEq, true_and] at hp
      subst hp
      have := List.find?_some hf
      exact ⟨List.mem_of_find?_eq_some hf, by simp_all, by simp_all⟩
    · split at hp
      · simp at hp
      · split at hp <;> simp at hp
  · obtain ⟨p, hm, hp⟩ := key _ h pid ref (.inr (.inl rfl))
    refine ⟨p, hm, ?_⟩
    unfold pipeRefErr at hp
    split at hp
    · simp at hp
    · split at hp
      · simp at hp
      · split at hp
        · rename_i r hf
          simp only [Option.some.injEq, RErr.danglingExporter.injEq, true_and] at hp
          subst hp
          have := List.find?_some hf
          exact ⟨List.mem_of_find?_eq_some hf, by simp_all, by simp_all⟩
        · simp at hp
  · obtain ⟨p, hm, hp⟩ := key _ h pid ref (.inr (.inr rfl))
    refine ⟨p, hm, ?_⟩
    unfold pipeRefErr at hp
    split at hp
    · simp at hp
    · split at hp
      · rename_i r hf
        simp only [Option.some.injEq, RErr.danglingProcessor.injEq, true_and] at hp
        subst hp
        have := List.find?_some hf
        exact ⟨List.mem_of_find?_eq_some hf, by simp_all⟩
      · split at hp <;> simp at hp

theorem firstDup_none (seen xs : List Id) : firstDup seen xs = none ↔ xs.Nodup ∧ ∀ x ∈ xs, x ∉ seen := by
  induction xs generalizing seen with
  | nil => simp [firstDup]
  | cons x xs ih =>
    simp only [firstDup]
    by_cases h : seen.contains x = true
    · simp only [h, if_true, reduceCtorEq, false_iff]
      intro ⟨_, h2⟩
      exact h2 x (List.mem_cons_self ..) (by simpa using h)
    · simp only [h, Bool.false_eq_true, if_false, ih, List.nodup_cons, List.mem_cons]
      have hx : x ∉ seen := by simpa using h
      constructor
      · rintro ⟨hn, hs⟩
        refine ⟨⟨fun hm => (hs x hm) (.inl rfl), hn⟩, ?_⟩
        rintro y (rfl | hy)
        · exact hx
        · intro hys; exact hs y hy (.inr hys)
      · rintro ⟨⟨hnx, hn⟩, hs⟩
        refine ⟨hn, fun y hy => ?_⟩
        rintro (rfl | hys)
        · exact hnx hy
        · exact hs y (.inr hy) hys

/-- **Pipeline shape**: no shape error exactly when there is a pipeline and every pipeline has at least
one receiver, one exporter, and no processor listed twice. -/
theorem C13_shape (c : Top) : shapeErrs c = [] ↔
    c.pipelines ≠ [] ∧ ∀ p ∈ c.pipelines, p.2.recv ≠ [] ∧ p.2.exps ≠ [] ∧ p.2.procs.Nodup := by
  unfold shapeErrs
  simp only [List.append_eq_nil_iff, List.filterMap_eq_nil_iff]
  have hp : ∀ (pid : Nat) (p : Pipe), pipeErr pid p = none ↔ p.recv ≠ [] ∧ p.exps ≠ [] ∧ p.procs.Nodup := by
    intro pid p
    unfold pipeErr
    by_cases h1 : p.recv.isEmpty = true
    · simp only [h1, if_true, reduceCtorEq, false_iff]; intro h; exact h.1 (List.isEmpty_iff.mp h1)
    · by_cases h2 : p.exps.isEmpty = true
      · simp only [h1, h2, Bool.false_eq_true, if_false, if_true, reduceCtorEq, false_iff]
        intro h; exact h.2.1 (List.isEmpty_iff.mp h2)
      · simp only [h1, h2, Bool.false_eq_true, if_false, Option.map_eq_none_iff, firstDup_none]
        have a : p.recv ≠ [] := fun h => h1 (by simp [h])
        have b : p.exps ≠ [] := fun h => h2 (by simp [h])
        simp [a, b]
  constructor
  · rintro ⟨h1, h2⟩
    refine ⟨fun h => by simp [h] at h1, fun p hm => (hp p.1 p.2).mp (h2 p hm)⟩
  · rintro ⟨h1, h2⟩
    refine ⟨by simp [h1], fun p hm => (hp p.1 p.2).mpr (h2 p hm)⟩

example : shapeErrs { receivers := [], exporters := [], connectors := [], processors := [], extensions := [], svcExtensions := [],
                      pipelines := [(0, ⟨[1], [4, 5, 4], [2]⟩), (1, ⟨[], [], [2]⟩)] } = [.dupProcessor 0 4, .pipeNoReceivers 1] := by decide

/-! ## (d) several instances in one section -/

def AddrInv (s : LoadSt) : Prop := ∀ id a, s.out.lookup id = some a → a < s.next

theorem step_result_new (d : String → Obj) (s : LoadSt) (e : CId × List (String × String)) :
    (loadStep d s e).result e.1 = some (overlay (d e.1.1) e.2) := by
  simp [loadStep, LoadSt.result, List.lookup_cons]

theorem step_result_old (d : String → Obj) (s : LoadSt) (e : CId × List (String × String)) (id : CId)
    (hne : id ≠ e.1) (hinv : AddrInv s) : (loadStep d s e).result id = s.result id := by
  have h1 : (id == e.1) = false := by simpa using hne
  simp only [loadStep, LoadSt.result, List.lookup_cons, h1]
  cases h : s.out.lookup id with
  | none => rfl
  | some a =>
    have := hinv id a h
    have h2 : (a == s.next) = false := by simp; omega
    simp [h2]

theorem step_inv (d : String → Obj) (s : LoadSt) (e : CId × List (String × String)) (hinv : AddrInv s) :
    AddrInv (loadStep d s e) := by
  intro id a h
  simp only [loadStep, List.lookup_cons] at h ⊢
  by_cases hq : (id == e.1) = true
  · simp [hq] at h; omega
  · simp [hq] at h; have := hinv id a h; omega

theorem fold_load (d : String → Obj) : ∀ (entries : List (CId × List (String × String))) (s : LoadSt),
    AddrInv s → (entries.map (·.1)).Nodup →
    (∀ e ∈ entries, (entries.foldl (loadStep d) s).result e.1 = some (overlay (d e.1.1) e.2)) ∧
    (∀ id, id ∉ entries.map (·.1) → (entries.foldl (loadStep d) s).result id = s.result id)
  | [], s, _, _ => ⟨fun e h => (by cases h), fun _ _ => rfl⟩
  | e :: es, s, hinv, hnd => by
    simp only [List.map_cons, List.nodup_cons] at hnd
    obtain ⟨ih1, ih2⟩ := fold_load d es (loadStep d s e) (step_inv d s e hinv) hnd.2
    simp only [List.foldl_cons]
    refine ⟨fun e' he' => ?_, fun id hid => ?_⟩
    · cases he' with
      | head => rw [ih2 e.1 hnd.1]; exact step_result_new d s e
      | tail _ h => exact ih1 e' h
    · simp only [List.map_cons, List.mem_cons, not_or] at hid
      rw [ih2 id hid.2]; exact step_result_old d s e id hid.1 hinv

/-- **Instances are independent**: for every section (any number of instances, any iteration order
of the Go map, several instances of the same type), every instance ends up with the factory defaults
of its type overlaid by exactly *its own* written keys — what its neighbours write is irrelevant.
Rests on `loadStep` allocating a fresh default object per id (differentially checked against the real
`otelcol.ConfigProvider.Get` with the built-in factories). -/
theorem C13_instances_independent (defaults : String → Obj) (entries : List (CId × List (String × String)))
    (hnd : (entries.map (·.1)).Nodup) :
    ∀ e ∈ entries, (loadAll defaults entries).result e.1 = some (overlay (defaults e.1.1) e.2) :=
  (fold_load defaults entries {} (fun _ _ h => by simp at h) hnd).1

theorem lookup_map_set (k v : String) : ∀ d : Obj, d.any (fun p => p.1 == k) = true →
    (d.map (fun p => if p.1 == k then (k, v) else p)).lookup k = some v
  | [], h => by simp at h
  | (a, b) :: ps, h => by
    by_cases hk : a = k
    · simp [List.lookup_cons, hk]
    · have hf : (k == a) = false := beq_eq_false_iff_ne.mpr (Ne.symm hk)
      have hf' : (a == k) = false := beq_eq_false_iff_ne.mpr hk
      simp only [List.map_cons, hf', Bool.false_eq_true, if_false, List.lookup_cons, hf]
      apply lookup_map_set k v ps
      simpa [List.any_cons, hf'] using h

theorem lookup_append_new (k v : String) : ∀ d : Obj, d.any (fun p => p.1 == k) = false →
    (d ++ [(k, v)]).lookup k = some v
  | [], _ => by simp [List.lookup_cons]
  | (a, b) :: ps, h => by
    simp only [List.any_cons, Bool.or_eq_false_iff] at h
    have hk : a ≠ k := by simpa using h.1
    have hf : (k == a) = false := beq_eq_false_iff_ne.mpr (Ne.symm hk)
    simp only [List.cons_append, List.lookup_cons, hf]
    exact lookup_append_new k v ps h.2

/-- a written key is reflected in the result -/
theorem C13_overlay_reflects (d : Obj) (k v : String) : (setKey d k v).lookup k = some v := by
  unfold setKey
  by_cases h : d.any (fun p => p.1 == k) = true
  · simp only [h, if_true]; exact lookup_map_set k v d h
  · simp only [h, Bool.false_eq_true, if_false]; exact lookup_append_new k v d (by simpa only [Bool.not_eq_true] using h)

/-- non-vacuity: two exporters of the same type writing different keys -/
example : (loadAll (fun _ => [("endpoint", ""), ("timeout", "30")])
            [(("otlphttp", "a"), [("endpoint", "x")]), (("otlphttp", "b"), [("timeout", "5")])]).result ("otlphttp", "b")
          = some [("endpoint", ""), ("timeout", "5")] := by decide

/-! ## (c) strict decode -/

/-- the value contains, at some depth, a key that the schema position it sits at does not accept -/
inductive Bad : Schema → Val → Prop
  | here {fs kvs k x} : (k, x) ∈ kvs → k ∉ structKeys fs → Bad (.struct fs) (.map kvs)
  | field {fs kvs k s v} : (k, false, s) ∈ fs → lookupVal kvs k = some v → Bad s v → Bad (.struct fs) (.map kvs)
  /-- below a field of a SQUASHED struct (`tls::bogus` under a squashed client configuration) -/
  | squashField {fs kvs sq gs k s v} : (sq, true, .struct gs) ∈ fs → (k, false, s) ∈ gs → lookupVal kvs k = some v → Bad s v →
      Bad (.struct fs) (.map kvs)
  | ptr {s v} : Bad s v → Bad (.ptr s) v
  | elem {s vs v} : v ∈ vs → Bad s v → Bad (.slice s) (.list vs)
  | mapVal {s kvs k v} : (k, v) ∈ kvs → Bad s v → Bad (.map s) (.map kvs)

theorem decodeFields_false {fs : List (String × Bool × Schema)} {kvs : List (String × Val)} {k : String} {s : Schema} {v : Val}
    (hm : (k, false, s) ∈ fs) (hl : lookupVal kvs k = some v) (hd : decodeOk s v = false) : decodeFields fs kvs = false := by
  induction fs with
  | nil => cases hm
  | cons f fs ih =>
    obtain ⟨k', sq, s'⟩ := f
    cases hm with
    | head => unfold decodeFields; simp [hl, hd]
    | tail _ hm' => unfold decodeFields; simp [ih hm']

theorem decodeFields_false_squash {fs : List (String × Bool × Schema)} {kvs : List (String × Val)} {sq : String}
    {gs : List (String × Bool × Schema)} (hm : (sq, true, Schema.struct gs) ∈ fs) (hd : decodeFields gs kvs = false) :
    decodeFields fs kvs = false := by
  induction fs with
  | nil => cases hm
  | cons f fs ih =>
    obtain ⟨k', q, s'⟩ := f
    cases hm with
    | head => unfold decodeFields; simp [hd]
    | tail _ hm' => unfold decodeFields; simp [ih hm']

theorem decodeAll_false {s : Schema} {vs : List Val} {v : Val} (hm : v ∈ vs) (hd : decodeOk s v = false) : decodeAll s vs = false := by
  induction vs with
  | nil => cases hm
  | cons w ws ih =>
    cases hm with
    | head => simp [decodeAll, hd]
    | tail _ hm' => simp [decodeAll, ih hm']

theorem decodeVals_false {s : Schema} {kvs : List (String × Val)} {k : String} {v : Val} (hm : (k, v) ∈ kvs) (hd : decodeOk s v = false) :
    decodeVals s kvs = false := by
  induction kvs with
  | nil => cases hm
  | cons w ws ih =>
    obtain ⟨k', v'⟩ := w
    cases hm with
    | head => simp [decodeVals, hd]
    | tail _ hm' => simp [decodeVals, ih hm']

/-- **Strictness**: a key that no field accepts — in the component's own map or at any depth below it,
through fields, pointers used as optionals, slice elements and map values — makes the strict
decode fail instead of being ignored.  (Keys below a *squashed* struct are judged at the level of
the embedding struct: `structKeys` flattens them.) -/
theorem C13_strict {S : Schema} {v : Val} (h : Bad S v) : decodeOk S v = false := by
  induction h with
  | here hm hk =>
    rename_i fs kvs k x
    simp only [decodeOk, Bool.and_eq_false_iff]
    left
    rw [List.all_eq_false]
    exact ⟨(k, x), hm, by simpa using hk⟩
  | field hm hl _ ih =>
    simp only [decodeOk, Bool.and_eq_false_iff]
    right
    exact decodeFields_false hm hl ih
  | squashField hq hm hl _ ih =>
    simp only [decodeOk, Bool.and_eq_false_iff]
    right
    exact decodeFields_false_squash hq (decodeFields_false hm hl ih)
  | ptr _ ih => simp only [decodeOk, ih]
  | elem hm _ ih => simp only [decodeOk]; exact decodeAll_false hm ih
  | mapVal hm _ ih => simp only [decodeOk]; exact decodeVals_false hm ih

/-- non-vacuity: `sending_queue: {queue_size: 1, bogus: 2}` inside an exporter with a squashed client config -/
example : Bad (.struct [("timeout", false, .scalar), ("", true, .struct [("endpoint", false, .scalar)]),
                        ("sending_queue", false, .ptr (.struct [("queue_size", false, .scalar)]))])
              (.map [("endpoint", .scalar 1), ("sending_queue", .map [("queue_size", .scalar 1), ("bogus", .scalar 2)])]) :=
  .field (k := "sending_queue") (s := .ptr (.struct [("queue_size", false, .scalar)]))
    (v := .map [("queue_size", .scalar 1), ("bogus", .scalar 2)]) (by simp) (by simp [lookupVal])
    (.ptr (.here (fs := [("queue_size", false, .scalar)]) (kvs := [("queue_size", .scalar 1), ("bogus", .scalar 2)])
      (k := "bogus") (x := .scalar 2) (by simp) (by simp [structKeys])))

example : decodeOk (.struct [("timeout", false, .scalar), ("", true, .struct [("endpoint", false, .scalar)])])
            (.map [("endpoint", .scalar 1), ("timeout", .scalar 3)]) = true := by
  simp [decodeOk, decodeFields, structKeys, squashKeys, lookupVal]

/-! ## (e) faithfulness: typed and effective configuration reflect exactly the written keys

`decodeV` / `encodeV` (Model/C13Faithful.lean) over key-space schemas `KS`; the schemas and factory
defaults of the built-in components are **regenerated by reflection** (`Gen/ConfigSchemas.lean`). -/

/-- **Typed configuration**: a key written at a leaf position (scalar, text kind, opaque string, slice,
map — through any nesting of structs and optionals, squashed structs inlined) holds exactly the
written value after decoding onto any defaults of the right shape. -/
theorem C13_faithful_written (S : KS) (d : TV) (v : Val) (t : TV) (p : List String) (x : Val)
    (hs : shape S d = true) (hd : decodeV S d v = some t) (hv : valGet v p = some x)
    (hk : (kindAt S p).map isLeafKind = some true) : getS S t p = some (.atom x) :=
  written_reflected S d v t p x hs hd hv hk

/-- **Siblings**: a position at or above which nothing is written keeps its default (a nil optional
counts as the zero value of its type): writing one setting never changes another one. -/
theorem C13_faithful_unwritten (S : KS) (d : TV) (v : Val) (t : TV) (p : List String)
    (hs : shape S d = true) (hd : decodeV S d v = some t) (hu : untouched v p = true) :
    getPath S t p = getPath S d p :=
  untouched_unchanged S d v t p hs hd hu

/-- **Effective configuration**: at every written leaf the marshalled typed configuration shows what the
encoder shows for a leaf of that kind holding the written value (`shownAs`): the value itself for plain
kinds, the redaction marker for an opaque string, and for a map / slice of opaque strings (headers) the
written keys with every VALUE redacted — see the three corollaries below. -/
theorem C13_effective (S : KS) (d : TV) (v : Val) (t : TV) (p : List String) (x : Val)
    (hs : shape S d = true) (hd : decodeV S d v = some t) (hv : valGet v p = some x)
    (hk : (kindAt S p).map isLeafKind = some true) :
    evGet (encodeV S t) p = shownAs (kindAt S p) x :=
  effective_shows S t p x (decode_shape S d v t hs hd) (written_reflected S d v t p x hs hd hv hk) hk

/-- non-vacuity: writing `tls::key_pem` and `endpoint` below a nil optional; `read_buffer_size` untouched -/
example :
    let S : KS := .struct [("grpc", .ptr (.struct [("endpoint", .scalar), ("read_buffer_size", .scalar),
                    ("tls", .ptr (.struct [("key_pem", .opaque), ("min_version", .scalar)]))]))]
    let d : TV := .struct [("grpc", .struct [("endpoint", .atom (.scalar 1)), ("read_buffer_size", .atom (.scalar 2)), ("tls", .nilp)])]
    let v : Val := .map [("grpc", .map [("tls", .map [("key_pem", .scalar 77)]), ("endpoint", .scalar 5)])]
    (decodeV S d v).map (fun t => (evGet (encodeV S t) ["grpc", "tls", "key_pem"], evGet (encodeV S t) ["grpc", "endpoint"],
                                    getPath S t ["grpc", "read_buffer_size"]))
      = some (some .redacted, some (.val (.scalar 5)), some (.atom (.scalar 2))) := by
  simp [decodeV, decodeFs, lookupVal, zero, zeroF, encodeV, encodeF, evGet, getPath, getF]

/-! ### regenerated obligations over the built-in components -/

open OtelVerif.Gen in
/-- every factory default has the shape of its schema (the hypothesis of the theorems above) -/
theorem C13_builtin_defaults_shaped : ∀ c ∈ ConfigSchemas.components, shape c.2.1 c.2.2 = true := by decide

open OtelVerif.Gen in
/-- no struct level of a built-in configuration (squashed structs inlined) has two fields with the same
key: a written key never feeds two settings -/
theorem C13_builtin_keys_unique : ∀ c ∈ ConfigSchemas.components, keysUnique c.2.1 = true := by decide

open OtelVerif.Gen in
/-- no built-in configuration has a map keyed by an opaque string (the JSON-map-key leak of C14 is not reachable) -/
theorem C13_builtin_no_opaque_map_key : ∀ c ∈ ConfigSchemas.components, noOpaqueKey c.2.1 = true := by decide

/-! ### strictness on the regenerated key-space schemas (`decodeV` / `decodeC`) -/

/-- the written configuration contains, at some depth (through struct fields and optionals; squashed structs are inlined
in `KS`), a key that the struct at that position does not accept -/
inductive BadK : KS → Val → Prop
  | here {fs kvs k x} : (k, x) ∈ kvs → (fs.map (·.1)).contains k = false → BadK (.struct fs) (.map kvs)
  | field {fs kvs k s v} : (k, s) ∈ fs → lookupVal kvs k = some v → BadK s v → BadK (.struct fs) (.map kvs)
  | ptr {s v} : BadK s v → BadK (.ptr s) v

theorem decodeFs_none {fs : List (String × KS)} {kvs : List (String × Val)} {k : String} {s : KS} {v : Val}
    (hm : (k, s) ∈ fs) (hl : lookupVal kvs k = some v) (hd : ∀ d, decodeV s d v = none) :
    ∀ dfs, decodeFs fs dfs kvs = none := by
  induction fs with
  | nil => cases hm
  | cons f fs ih =>
    obtain ⟨k', s'⟩ := f
    intro dfs
    cases dfs with
    | nil => simp [decodeFs]
    | cons dh dt =>
      obtain ⟨kd, dv⟩ := dh
      cases hm with
      | head => simp [decodeFs, hl, hd dv]
      | tail _ hm' =>
        simp only [decodeFs]
        cases lookupVal kvs k' with
        | none => simp [ih hm' dt]
        | some v' => cases decodeV s' dv v' <;> simp [ih hm' dt]

/-- **Strictness on the regenerated schemas**: an unknown key at any depth makes the generic decode fail, for every default -/
theorem C13_strict_ks {S : KS} {v : Val} (h : BadK S v) : ∀ d, decodeV S d v = none := by
  induction h with
  | here hm hk =>
    rename_i fs kvs k x
    intro d
    cases d with
    | struct dfs =>
      simp only [decodeV]
      have : kvs.all (fun p => (fs.map (·.1)).contains p.1) = false := by
        rw [List.all_eq_false]; exact ⟨(k, x), hm, by rw [hk]; simp⟩
      rw [if_neg (by rw [this]; simp)]
    | atom a => simp [decodeV]
    | nilp => simp [decodeV]
  | field hm hl _ ih =>
    rename_i fs kvs k s v
    intro d
    cases d with
    | struct dfs =>
      simp only [decodeV]
      split
      · simp [decodeFs_none hm hl ih dfs]
      · rfl
    | atom a => simp [decodeV]
    | nilp => simp [decodeV]
  | ptr _ ih =>
    intro d
    cases d <;> simp only [decodeV] <;> exact ih _

/-- … and so does every component's own `Unmarshal` (fix-ups around the generic decode), on every built-in schema -/
theorem C13_strict_builtin (hooks : List Hook) (S : KS) (d : TV) (v : Val) (h : BadK S v) : decodeC hooks S d v = none := by
  simp [decodeC, C13_strict_ks h]

/-- non-vacuity: `tls::bogus` below an optional section -/
example : BadK (.struct [("endpoint", .scalar), ("tls", .ptr (.struct [("insecure", .scalar)]))])
    (.map [("tls", .map [("bogus", .scalar 1)])]) :=
  .field (k := "tls") (s := .ptr (.struct [("insecure", .scalar)])) (v := .map [("bogus", .scalar 1)]) (by simp) rfl
    (.ptr (.here (fs := [("insecure", .scalar)]) (kvs := [("bogus", .scalar 1)]) (k := "bogus") (x := .scalar 1) (by simp) (by decide)))

/-- … and evaluated on the regenerated OTLP/HTTP exporter schema and default (`tls` sits in a squash-inlined client configuration) -/
example : decodeV Gen.ConfigSchemas.exporters_otlphttp_schema Gen.ConfigSchemas.exporters_otlphttp_default
    (.map [("tls", .map [("bogus", .scalar 1)])]) = none := by decide

/-! ### custom `Unmarshal` methods: inside the theorems -/

/-- **Typed configuration through a component's own `Unmarshal`** (generic decode with the fix-ups of
`hooksOfType`): a key written at a leaf position holds exactly the written value, unless a fix-up that
fires for this configuration rewrites that very position (`Hook.compatible`; the only such cases in the
built-in components are the `*_url_path` normalisation of the OTLP receiver). -/
theorem C13_faithful_written_hooked (hooks : List Hook) (S : KS) (d : TV) (v : Val) (t : TV) (p : List String) (x : Val)
    (hs : shape S d = true) (hd : decodeC hooks S d v = some t) (hv : valGet v p = some x)
    (hk : (kindAt S p).map isLeafKind = some true) (hc : ∀ h ∈ hooks, h.compatible v p = true) :
    getS S t p = some (.atom x) :=
  written_reflected_hooked hooks S d v t p x hs hd hv hk hc

/-- what `shownAs` is, kind by kind: secrets are redacted also as elements of maps and slices -/
theorem C13_effective_opaque_redacted (x : Val) : shownAs (some .opaque) x = some .redacted := rfl

theorem C13_effective_opaque_map_elements_redacted (ko : Bool) (kvs : List (String × Val)) :
    shownAs (some (.map ko .opaque)) (.map kvs) = some (.map (kvs.map (fun p => (p.1, EV.redacted)))) := rfl

theorem C13_effective_opaque_slice_elements_redacted (vs : List Val) :
    shownAs (some (.slice .opaque)) (.list vs) = some (.list (vs.map (fun _ => EV.redacted))) := rfl

theorem C13_effective_plain_verbatim (x : Val) :
    shownAs (some .scalar) x = some (.val x) ∧ (∀ n, shownAs (some (.text n)) x = some (.val x)) ∧
    shownAs (some (.slice .scalar)) x = some (.val x) ∧ (∀ ko, shownAs (some (.map ko .scalar)) x = some (.val x)) :=
  ⟨rfl, fun _ => rfl, rfl, fun _ => rfl⟩

/-- … and the effective configuration shows it (redacted where opaque). -/
theorem C13_effective_hooked (hooks : List Hook) (S : KS) (d : TV) (v : Val) (t : TV) (p : List String) (x : Val)
    (hs : shape S d = true) (hw : ∀ h ∈ hooks, h.wellPlaced S = true) (hd : decodeC hooks S d v = some t)
    (hv : valGet v p = some x) (hk : (kindAt S p).map isLeafKind = some true)
    (hc : ∀ h ∈ hooks, h.compatible v p = true) :
    evGet (encodeV S t) p = shownAs (kindAt S p) x :=
  effective_shows S t p x (decodeC_shape hooks S d v t hs hw hd)
    (written_reflected_hooked hooks S d v t p x hs hd hv hk hc) hk

/-- the repaired precedence of the deprecated `blocking`: a written `block_on_overflow` is what the typed
configuration holds, whatever `blocking` says; an unwritten one takes the alias -/
example :
    let S : KS := .struct [("sending_queue", .struct [("block_on_overflow", .scalar), ("blocking", .scalar)])]
    let d : TV := .struct [("sending_queue", .struct [("block_on_overflow", .atom (.scalar 0)), ("blocking", .atom (.scalar 0))])]
    let hooks := [Hook.aliasIfUnset ["sending_queue"] "blocking" "block_on_overflow"]
    ((decodeC hooks S d (.map [("sending_queue", .map [("block_on_overflow", .scalar 1), ("blocking", .scalar 0)])])).bind
        (fun t => getS S t ["sending_queue", "block_on_overflow"]),
     (decodeC hooks S d (.map [("sending_queue", .map [("blocking", .scalar 1)])])).bind
        (fun t => getS S t ["sending_queue", "block_on_overflow"]))
      = (some (.atom (.scalar 1)), some (.atom (.scalar 1))) := by
  simp [decodeC, decodeV, decodeFs, lookupVal, preHook, postHook, isSet, valGet, getS, getSF, setPath, setF]

open OtelVerif.Gen in
/-- the positions decoded by a type's own `Unmarshal` (regenerated).  A new custom `Unmarshal` in a
built-in configuration changes the list and this obligation stops checking until it has been modelled. -/
theorem C13_builtin_custom_positions : ConfigSchemas.customPositions =
    [("exporters/otlp", [], "otlpexporter.Config"),
     ("exporters/otlp", ["sending_queue"], "queuebatch.Config"),
     ("exporters/otlphttp", ["sending_queue"], "queuebatch.Config"),
     ("receivers/otlp", [], "otlpreceiver.Config")] := by decide

open OtelVerif.Gen in
/-- every one of them has a hand-modelled fix-up, placed on positions of the kinds it expects in the
regenerated schema: the hooked theorems apply to every built-in component -/
theorem C13_builtin_hooks_modelled : ∀ c ∈ ConfigSchemas.components,
    (componentHooks ConfigSchemas.customPositions c.1).elim false (fun hooks => hooks.all (fun h => h.wellPlaced c.2.1)) = true := by
  decide

/-- the bodies of those `Unmarshal` methods are the ones that were modelled (fingerprints regenerated
by `translators/cmd/unmarshalhooks`; a changed body has to be re-modelled) -/
theorem C13_hook_bodies_as_modelled : Gen.UnmarshalHooks.bodies =
    [("queuebatch.Config", "3777169255574fb5d81fac26ddfab4057e5ec4f4401a9fa6a2427885c74534a2"),
     ("otlpreceiver.Config", "9a8d8bb2dace14b923772a9a4c9e1027a4268861d3f5e71003168db0f577066b"),
     ("otlpexporter.Config", "5c336cc63ed79c6d70b775bf8a0756cca9543546da5e7f0c1339a5c17f7b08f5"),
     -- service section: fingerprints only (these four are NOT modelled; their strictness and faithfulness are probed by the harness)
     ("telemetry.Config", "1fa71947749faef6b73cfa5c1c80075db6875beac1f913a72034c014b105e186"),
     ("migration.TracesConfigV030", "1ba9a87292570564fe821ce801dbd5a51eb81d66bb413d6a0792b8989ac382f3"),
     ("migration.MetricsConfigV030", "13f5d6c5c194abe01fc46134145b8748d89af054cd2896416249c80bb9c76c4e"),
     ("migration.LogsConfigV030", "b909d8abf8984fa5a97e34987d10badd1f96955e360f3f91318e9d51ac1908c9")] := by decide

/-- the named exceptions: the key paths a fix-up may rewrite although they are not written (`blocking`
alias target, unwritten OTLP receiver protocols, the subtree of a written deprecated `batcher`) and the
written leaves it may normalise (`*_url_path`) -/
example : (componentHooks Gen.ConfigSchemas.customPositions "receivers/otlp").map (fun hs => hs.flatMap Hook.targets)
    = some [["protocols", "grpc"], ["protocols", "http"], ["protocols", "http", "traces_url_path"],
            ["protocols", "http", "metrics_url_path"], ["protocols", "http", "logs_url_path"]] := by decide

/-! ### every reported reference / shape error names a real offending entry (remaining classes) -/

theorem firstDup_some {seen xs : List Id} {r : Id} (h : firstDup seen xs = some r) : r ∈ xs := by
  induction xs generalizing seen with
  | nil => simp [firstDup] at h
  | cons x xs ih =>
    simp only [firstDup] at h
    split at h
    · simp at h; subst h; exact List.mem_cons_self ..
    · exact List.mem_cons_of_mem _ (ih h)

/-- a reported duplicate processor names a pipeline that really lists that processor more than once -/
theorem C13_shape_names_duplicate (c : Top) (pid : Nat) (r : Id) (h : RErr.dupProcessor pid r ∈ shapeErrs c) :
    ∃ p, (pid, p) ∈ c.pipelines ∧ r ∈ p.procs ∧ ¬ p.procs.Nodup := by
  unfold shapeErrs at h
  rw [List.mem_append] at h
  rcases h with h | h
  · split at h <;> simp at h
  · obtain ⟨⟨pid', p⟩, hm, hp⟩ := List.mem_filterMap.mp h
    simp only at hp
    unfold pipeErr at hp
    split at hp
    · simp at hp
    · split at hp
      · simp at hp
      · cases hd : firstDup [] p.procs with
        | none => simp [hd] at hp
        | some r' =>
          simp only [hd, Option.map_some, Option.some.injEq, RErr.dupProcessor.injEq] at hp
          obtain ⟨rfl, rfl⟩ := hp
          refine ⟨p, hm, firstDup_some hd, ?_⟩
          intro hn
          have := (firstDup_none [] p.procs).mpr ⟨hn, by simp⟩
          simp [hd] at this

/-- a reported dangling service extension is listed under `service::extensions` and is not configured;
a reported ambiguous id is a connector id that is also an exporter (resp. receiver) id -/
theorem C13_refs_names_extension_and_ambiguous (c : Top) (r : Id) :
    (RErr.danglingExtension r ∈ rootErrs c → r ∈ c.svcExtensions ∧ configured c.extensions r = false) ∧
    (RErr.ambiguousExporter r ∈ rootErrs c → r ∈ c.connectors ∧ r ∈ c.exporters) ∧
    (RErr.ambiguousReceiver r ∈ rootErrs c → r ∈ c.connectors ∧ r ∈ c.receivers) := by
  have conn : ∀ e conn, connErr c conn = some e →
      (e = .ambiguousExporter r → conn = r ∧ r ∈ c.exporters) ∧ (e = .ambiguousReceiver r → conn = r ∧ r ∈ c.receivers) ∧
      e ≠ .danglingExtension r := by
    intro e conn h
    unfold connErr at h
    split at h
    · rename_i h1
      simp at h; subst h
      refine ⟨fun he => ?_, fun he => by simp at he, by simp⟩
      simp at he; subst he; exact ⟨rfl, by simpa using h1⟩
    · split at h
      · rename_i h2
        simp at h; subst h
        refine ⟨fun he => by simp at he, fun he => ?_, by simp⟩
        simp at he; subst he; exact ⟨rfl, by simpa using h2⟩
      · simp at h
  have pipeNot : ∀ pid p e, pipeRefErr c pid p = some e →
      e ≠ .danglingExtension r ∧ e ≠ .ambiguousExporter r ∧ e ≠ .ambiguousReceiver r := by
    intro pid p e h
    unfold pipeRefErr at h
    split at h
    · simp at h; subst h; simp
    · split at h
      · simp at h; subst h; simp
      · split at h
        · simp at h; subst h; simp
        · simp at h
  have key : ∀ e, e ∈ rootErrs c →
      (e = .danglingExtension r → r ∈ c.svcExtensions ∧ configured c.extensions r = false) ∧
      (e = .ambiguousExporter r → r ∈ c.connectors ∧ r ∈ c.exporters) ∧
      (e = .ambiguousReceiver r → r ∈ c.connectors ∧ r ∈ c.receivers) := by
    intro e he
    unfold rootErrs at he
    split at he
    · simp at he; subst he; simp
    · split at he
      · simp at he; subst he; simp
      · split at he
        · simp at he; subst he; simp
        · split at he
          · rename_i e' es hce
            have : e ∈ c.connectors.filterMap (connErr c) := by rw [hce]; exact he
            obtain ⟨cn, hcm, hcc⟩ := List.mem_filterMap.mp this
            obtain ⟨h1, h2, h3⟩ := conn e cn hcc
            refine ⟨fun h => absurd h h3, fun h => ?_, fun h => ?_⟩
            · obtain ⟨rfl, hx⟩ := h1 h; exact ⟨hcm, hx⟩
            · obtain ⟨rfl, hx⟩ := h2 h; exact ⟨hcm, hx⟩
          · split at he
            · rename_i r' hf
              simp at he; subst he
              refine ⟨fun h => ?_, fun h => by simp at h, fun h => by simp at h⟩
              simp at h; subst h
              have := List.find?_some hf
              exact ⟨List.mem_of_find?_eq_some hf, by simpa using this⟩
            · obtain ⟨⟨pid, p⟩, _, hp⟩ := List.mem_filterMap.mp he
              obtain ⟨n1, n2, n3⟩ := pipeNot pid p e hp
              exact ⟨fun h => absurd h n1, fun h => absurd h n2, fun h => absurd h n3⟩
  exact ⟨fun h => (key _ h).1 rfl, fun h => (key _ h).2.1 rfl, fun h => (key _ h).2.2 rfl⟩

/-! ## (b') the reference checks as the source states them today (`Gen/ConfigValidate.lean`, go/ast translation)

`translators/cmd/configvalidate` translates the bodies of `otelcol.Config.Validate` and `pipelines.PipelineConfig.Validate`
statement by statement (source order) into `Phase` / `PPhase`; `evalPhases` / `evalPipe` interpret them.  The theorems
below transfer the characterisations from the hand model to the interpreter of the REGENERATED statements: a removed,
reordered or rewritten check changes `Gen.ConfigValidate.rootPhases` and these proofs are re-checked against it. -/

/-- the interpreter of the regenerated statement list of `otelcol.Config.Validate` is the hand model -/
theorem C13_root_phases_regenerated (c : Top) : evalPhases c Gen.ConfigValidate.rootPhases = rootErrs c := root_regen c

/-- … and of `pipelines.PipelineConfig.Validate` / `pipelines.Config.Validate` (the `len(cfg) == 0` test) -/
theorem C13_pipe_phases_regenerated (c : Top) :
    (∀ pid p, evalPipe pid p Gen.ConfigValidate.pipePhases = pipeErr pid p) ∧
    evalShape c Gen.ConfigValidate.noPipelines.2 Gen.ConfigValidate.pipePhases = shapeErrs c :=
  ⟨pipe_regen, shape_regen c⟩

/-- what the source accepts today: exactly the configurations without a reference defect (`C13_refs` on the regenerated statements) -/
theorem C13_refs_regenerated (c : Top) : evalPhases c Gen.ConfigValidate.rootPhases = [] ↔ RefsOk c := by
  rw [C13_root_phases_regenerated]; exact C13_refs c

/-- … and without a pipeline-shape defect (`C13_shape` on the regenerated statements) -/
theorem C13_shape_regenerated (c : Top) :
    evalShape c Gen.ConfigValidate.noPipelines.2 Gen.ConfigValidate.pipePhases = [] ↔
      c.pipelines ≠ [] ∧ ∀ p ∈ c.pipelines, p.2.recv ≠ [] ∧ p.2.exps ≠ [] ∧ p.2.procs.Nodup := by
  rw [(C13_pipe_phases_regenerated c).2]; exact C13_shape c

/-- every regenerated error message of a loop names the offending entry: each loop variable (connector id; service
extension reference; pipeline id AND reference) is the root of one of the `fmt.Errorf` arguments, and no verb lacks its argument -/
theorem C13_messages_name_entry :
    (∀ ph ∈ Gen.ConfigValidate.rootPhases, ph.namesEntry = true) ∧ (∀ ph ∈ Gen.ConfigValidate.pipePhases, ph.namesEntry = true) := by
  constructor <;> decide

/-- the signal switch of `pipelines.Config.Validate` (outside the property: which signals exist) still has the reviewed
clauses — (labels, number of returns); an alarm, not semantics -/
theorem C13_signal_switch_as_reviewed : Gen.ConfigValidate.signalSwitch =
    [("pipeline.SignalTraces,pipeline.SignalMetrics,pipeline.SignalLogs", 0), ("xpipeline.SignalProfiles", 1), ("default", 1)] := by decide

/-- both entry points of package otelcol that judge a configuration — start-up / reload (`setupConfigurationComponents`) and the
`validate` sub-command (`DryRun`) — go through the walk `xconfmap.Validate` (every nested `Validate()`), and nothing in the package calls
a top-level `Validate()` method directly; the harness additionally runs every corpus mistake and generated documents through BOTH -/
theorem C13_validation_entry_points :
    Gen.ConfigValidate.validationCalls =
      [("otelcol/collector.go", "Collector.setupConfigurationComponents", "xconfmap.Validate(cfg)"),
       ("otelcol/collector.go", "Collector.DryRun", "xconfmap.Validate(cfg)")] := by decide

example : evalPhases { receivers := [1], exporters := [2], connectors := [3], processors := [(4, true)], extensions := [(5, true)],
                       svcExtensions := [5], pipelines := [(0, ⟨[1], [4, 9], [2, 3]⟩)] } Gen.ConfigValidate.rootPhases
    = [.danglingProcessor 0 9] := by decide

/-! ## (a') the components' own `Unmarshal` fix-ups as the source states them today (`Gen/UnmarshalHooks.lean` `hooks`)

`translators/cmd/unmarshalhooks` now TRANSLATES the bodies of `queuebatch.Config.Unmarshal`, `otlpreceiver.Config.Unmarshal`
and `otlpexporter.Config.Unmarshal` into the `Hook` language (Go fields resolved to mapstructure keys through the struct
tags; every `IsSet` guard must guard the field with that key); the fingerprints stay as a second alarm. -/

/-- the regenerated translation of the three `Unmarshal` bodies, placed at any position, is the reviewed hand table: the
hooked faithfulness / strictness theorems (`C13_faithful_written_hooked`, `C13_effective_hooked`, `C13_strict_builtin`)
and the driver's `decodeC` are about the fix-ups of today's source -/
theorem C13_hooks_regenerated (t : String) (q : List String) : hooksOfTypeG t q = hooksOfType t q := by
  simp only [hooksOfTypeG, hooksOfType, Gen.UnmarshalHooks.hooks, List.lookup]
  by_cases h1 : (t == "queuebatch.Config") = true
  · simp [h1, Hook.placed]
  · by_cases h2 : (t == "otlpreceiver.Config") = true
    · simp [h1, h2, Hook.placed]
    · by_cases h3 : (t == "otlpexporter.Config") = true
      · simp [h1, h2, h3, Hook.placed]
      · simp [h1, h2, h3]

/-- the v0.2.0 → v0.3.0 migration of `service::telemetry` (taken when the strict v0.3.0 decode of a section fails, e.g. OTLP `headers`
written as a mapping): every field-to-field assignment / composite-literal entry of the `…V02ToV03` functions (regenerated list) copies
the source field OF THE SAME NAME — a written legacy-shaped setting lands in its own v0.3.0 field, not in a sibling's -/
theorem C13_migration_fields_correspond : ∀ r ∈ Gen.UnmarshalHooks.migrationAssigns, (r.2.1 == r.2.2) = true := by decide

example : ("logsConfigV02ToV03", "ErrorOutputPaths", "ErrorOutputPaths") ∈ Gen.UnmarshalHooks.migrationAssigns ∧
    ("otlpV02ToV03", "Headers", "Headers") ∈ Gen.UnmarshalHooks.migrationAssigns ∧ Gen.UnmarshalHooks.migrationAssigns.length ≥ 60 := by decide

/-- … hence per component, from the regenerated custom positions -/
theorem C13_component_hooks_regenerated (custom : List (String × List String × String)) (comp : String) :
    componentHooksG custom comp = componentHooks custom comp := by
  simp only [componentHooksG, componentHooks, C13_hooks_regenerated]

open OtelVerif.Gen in
/-- every custom position of every built-in component has a REGENERATED fix-up list, well placed on the regenerated
schema (both sides regenerated: positions and kinds by reflection, fix-ups by go/ast) -/
theorem C13_builtin_hooks_regenerated_well_placed : ∀ c ∈ ConfigSchemas.components,
    (componentHooksG ConfigSchemas.customPositions c.1).elim false (fun hooks => hooks.all (fun h => h.wellPlaced c.2.1)) = true := by
  decide

/-- the regenerated fix-ups of the OTLP exporter at work on its regenerated schema and default: `blocking` written alone
is copied to `block_on_overflow`; written together, `block_on_overflow` keeps what was written -/
example :
    (((componentHooksG Gen.ConfigSchemas.customPositions "exporters/otlp").bind (fun hooks =>
        decodeC hooks Gen.ConfigSchemas.exporters_otlp_schema Gen.ConfigSchemas.exporters_otlp_default
          (.map [("sending_queue", .map [("blocking", .scalar 777)])]))).bind
      (fun t => getS Gen.ConfigSchemas.exporters_otlp_schema t ["sending_queue", "block_on_overflow"])).elim false
        (fun t => match t with | .atom (.scalar n) => n == 777 | _ => false) = true := by
  decide

/-! ## (i') the validation walk as the source states it today (`Gen/ValidateWalk.lean`, go/ast translation of `switch v.Kind()`) -/

/-- the interpreter of the regenerated clause table of `xconfmap.validate` is the hand model, on every tree -/
theorem C13_walk_regenerated (t : VT) : walkG Gen.ValidateWalk.cases t = validate t := walkG_eq t

/-- clause (i) on the regenerated table: the walk that today's source prescribes reports exactly the failing `Validate()`
of every reachable nested value, with its path, whatever the parents return -/
theorem C13_validate_complete_regenerated (t : VT) (p : Path) (n : Nat) :
    (p, n) ∈ walkG Gen.ValidateWalk.cases t ↔ Fails t p n := by
  rw [C13_walk_regenerated]; exact C13_validate_complete t p n

/-- `VT.seq` stands for slices and arrays, `VT.ptr` for pointers and interfaces: the regenerated table treats each pair alike -/
theorem C13_walk_table_paired : tablePaired Gen.ValidateWalk.cases = true := by decide

example : walkG Gen.ValidateWalk.cases (.struct none [("a", true, .map (some 7) [("k", .leaf none, .seq none [.ptr (.struct none [("x", true, .leaf (some 9))])])])])
    = [(["a"], 7), (["a", "k", "0", "x"], 9)] := by decide

/-! ## (d') loading a section as the source states it today (`Gen/ConfigsLoad.lean`: go/ast translation of `Configs.Unmarshal`) -/

/-- the interpreter of the regenerated statements of `configunmarshaler.Configs.Unmarshal` (before the loop / loop body, over
local registers and the heap) is the hand model: every id gets a NEW default object of its type overlaid by its own keys -/
theorem C13_load_regenerated (defaults : String → Obj) (entries : List (CId × List (String × String))) :
    runLoad Gen.ConfigsLoad.before Gen.ConfigsLoad.body defaults entries = loadAll defaults entries := load_eq defaults entries

/-- `C13_instances_independent` on the regenerated statements: whatever the number of instances and the iteration order, each
instance shows the default of its type overlaid by exactly its own keys -/
theorem C13_instances_independent_regenerated (defaults : String → Obj) (entries : List (CId × List (String × String)))
    (hnd : (entries.map (·.1)).Nodup) (id : CId) (w : List (String × String)) (hm : (id, w) ∈ entries) :
    (runLoad Gen.ConfigsLoad.before Gen.ConfigsLoad.body defaults entries).result id = some (overlay (defaults id.1) w) := by
  rw [C13_load_regenerated]; exact C13_instances_independent defaults entries hnd (id, w) hm

/-- successive loads in one process: whatever state an earlier load left (`s0`: its result map, its objects), the next
`Unmarshal` shows no id that the new document does not write (`c.cfgs = make(…)` before the loop) -/
theorem C13_reload_forgets (defaults : String → Obj) (s0 : LoadSt) (entries : List (CId × List (String × String))) (id : CId)
    (h : id ∉ entries.map (·.1)) :
    (runLoadFrom Gen.ConfigsLoad.before Gen.ConfigsLoad.body defaults s0 entries).result id = none :=
  reload_forgets defaults s0 entries id h

example : ((runLoadFrom Gen.ConfigsLoad.before Gen.ConfigsLoad.body (fun _ => [("endpoint", "")])
    { heap := [(0, [("endpoint", "old")])], next := 1, out := [(("otlp", "a"), 0)] } [(("otlp", "b"), [("endpoint", "x")])]).result ("otlp", "a"),
    (runLoadFrom Gen.ConfigsLoad.before Gen.ConfigsLoad.body (fun _ => [("endpoint", "")])
    { heap := [(0, [("endpoint", "old")])], next := 1, out := [(("otlp", "a"), 0)] } [(("otlp", "b"), [("endpoint", "x")])]).result ("otlp", "b"))
    = (none, some [("endpoint", "x")]) := by decide

end OtelVerif.C13
