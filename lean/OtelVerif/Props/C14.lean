import OtelVerif.Model.C14
/-! C14 property theorems (stub) -/
namespace OtelVerif.C14
end OtelVerif.C14
