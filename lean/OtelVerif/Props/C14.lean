import OtelVerif.Model.C14
import OtelVerif.Lemmas.C14Census
import OtelVerif.Model.C14Exp
import OtelVerif.Lemmas.C14Exp
/-!
# C14 — opaque (secret) configuration values never appear in any rendering

Property theorems only.  `Gen.Opaque.methods` is regenerated from `config/configopaque/opaque.go`
on every run, so every statement about `realTD` is re-checked against what the code says now.

Non-interference is the statement used throughout: a rendering computed for two different secret
environments `ρ₁ ρ₂` is the same (a secret that happens to be a substring of the marker cannot be
told apart by substring search; non-interference does not have that blind spot).
-/
namespace OtelVerif.C14
open OtelVerif.Gen

/-- the method table of the real type -/
def realTD : TD := Opaque.methods

/-- every method returns an expression that does not mention the receiver -/
def TD.Const (td : TD) : Prop := ∀ m ∈ td, m.result.usesRecv = false

instance (td : TD) : Decidable td.Const := by unfold TD.Const; infer_instance

/-! ## the methods -/

theorem eval_const {e : MExpr} (h : e.usesRecv = false) (s₁ s₂ : String) : e.eval s₁ = e.eval s₂ := by
  induction e with
  | recv => simp [MExpr.usesRecv] at h
  | lit c => rfl
  | goQuote e ih => simp only [MExpr.usesRecv] at h; simp only [MExpr.eval, ih h]
  | cat a b iha ihb =>
    simp only [MExpr.usesRecv, Bool.or_eq_false_iff] at h
    simp only [MExpr.eval, iha h.1, ihb h.2]

/-- regenerated obligation: no method of `configopaque.String` looks at the receiver -/
theorem C14_methods_recv_free : realTD.Const := by decide

/-- every method (String, GoString, MarshalText, MarshalBinary, Format's operand, and any method
added later) returns the same bytes for every two secrets -/
theorem C14_methods_const : ∀ m ∈ realTD, ∀ s₁ s₂ : String, m.result.eval s₁ = m.result.eval s₂ :=
  fun m hm s₁ s₂ => eval_const (C14_methods_recv_free m hm) s₁ s₂

/-- … and what they return is the marker (`GoString`: the Go-quoted marker), on values (value receivers) -/
theorem C14_methods_marker (s : String) :
    (realTD.find "String" false).map (·.result.eval s) = some Opaque.marker ∧
    (realTD.find "MarshalText" false).map (·.result.eval s) = some Opaque.marker ∧
    (realTD.find "MarshalBinary" false).map (·.result.eval s) = some Opaque.marker ∧
    (realTD.find "GoString" false).map (·.result.eval s) = some ("\"" ++ Opaque.marker ++ "\"") ∧
    (realTD.find "Format" false).map (·.result.eval s) = some Opaque.marker := by
  refine ⟨rfl, rfl, rfl, rfl, rfl⟩

/-- the type implements `fmt.Formatter` on values, as a delegation (`fmt.FormatString`) -/
theorem C14_formatter_present : (realTD.find "Format" false).map (·.kind) = some MKind.formatDelegate := by decide

/-! ## fmt: non-interference for every verb and flag over plain containers -/

theorem find_mono {td : TD} {n : String} (h : (td.find n false).isSome = true) : (td.find n true).isSome = true := by
  unfold TD.find at *
  rw [List.find?_isSome] at h ⊢
  obtain ⟨x, hx, hp⟩ := h
  refine ⟨x, hx, ?_⟩
  simp only [Bool.or_false, Bool.and_eq_true] at hp
  simp [hp.1]

theorem find_mem {td : TD} {n : String} {p : Bool} {m : Method} (h : td.find n p = some m) : m ∈ td := by
  unfold TD.find at h
  exact List.mem_of_find?_eq_some h

theorem methodsOf_const {td : TD} (hc : td.Const) (c : FmtCtx) (p : Bool) (s₁ s₂ : String) :
    methodsOf td c p s₁ = methodsOf td c p s₂ := by
  have key : ∀ n m, td.find n p = some m → m.result.eval s₁ = m.result.eval s₂ :=
    fun n m h => eval_const (hc m (find_mem h)) s₁ s₂
  unfold methodsOf
  cases hF : td.find "Format" p with
  | some m => simp only [key _ _ hF]
  | none =>
    cases hG : td.find "GoString" p <;> cases hE : td.find "Error" p <;> cases hS : td.find "String" p <;>
      simp only [] <;> (try rw [key _ _ hG]) <;> (try rw [key _ _ hE]) <;> (try rw [key _ _ hS])

theorem methodsOf_isSome {td : TD} {p : Bool} (hF : (td.find "Format" p).isSome = true) (c : FmtCtx) (s : String) :
    (methodsOf td c p s).isSome = true := by
  unfold methodsOf
  cases h : td.find "Format" p with
  | some m => rfl
  | none => simp [h] at hF

theorem isOpq_some {v : GV} (h : v.isOpq.isSome = true) : ∃ i, v = .opq i := by
  cases v <;> simp [GV.isOpq] at h ⊢

section fmtNI
set_option linter.unusedSectionVars false
variable {td : TD} (hc : td.Const) (hF : (td.find "Format" false).isSome = true)
variable (c : FmtCtx) (hw : (c.verb == 'w') = false) (ρ₁ ρ₂ : Nat → String)
include hc hF hw

theorem opq_leaf_ni (p : Bool) (hp : (td.find "Format" p).isSome = true) (i : Nat) (d₁ d₂ : List Leaf) :
    (methodsOf td c p (ρ₁ i)).getD d₁ = (methodsOf td c p (ρ₂ i)).getD d₂ := by
  have h1 := methodsOf_isSome hp c (ρ₁ i)
  have h2 := methodsOf_const hc c p (ρ₁ i) (ρ₂ i)
  rw [← h2]
  cases h : methodsOf td c p (ρ₁ i) with
  | none => simp [h] at h1
  | some l => rfl

mutual
theorem pv_ni : ∀ v : GV, v.plainIn = true → pv td c ρ₁ false true v = pv td c ρ₂ false true v
  | .opq i, _ => by
    simp only [pv, hw, Bool.not_false, Bool.and_self, Bool.false_and, if_true]
    exact opq_leaf_ni hc hF c hw ρ₁ ρ₂ false hF i _ _
  | .str _, _ => rfl
  | .num _, _ => rfl
  | .nilv, _ => rfl
  | .nilSlice, _ => rfl
  | .nilMap, _ => rfl
  | .ptr v, h => by
    simp only [GV.plainIn] at h
    obtain ⟨i, rfl⟩ := isOpq_some h
    have hne : (c.verb != 'w') = true := by simp [bne, hw]
    have h1 := methodsOf_isSome (find_mono hF) c (ρ₁ i)
    have h2 := methodsOf_const hc c true (ρ₁ i) (ρ₂ i)
    simp only [pv, GV.isOpq, hne, Bool.not_false, Bool.and_self, if_true]
    rw [← h2]
    cases h : methodsOf td c true (ρ₁ i) with
    | none => simp [h] at h1
    | some l => rfl
  | .iface v, h => by
    simp only [GV.plainIn] at h
    simp only [pv]; exact pv_ni v h
  | .slice vs, h => by
    simp only [GV.plainIn] at h
    simp only [pv, hw, Bool.and_false, Bool.false_eq_true, if_false]; exact pvL_ni vs h
  | .array vs, h => by
    simp only [GV.plainIn] at h
    simp only [pv, hw, Bool.and_false, Bool.false_eq_true, if_false]; exact pvL_ni vs h
  | .map kvs, h => by
    simp only [GV.plainIn, Bool.and_eq_true] at h
    simp only [pv, hw, Bool.and_false, Bool.false_eq_true, if_false]; exact pvKV_ni kvs h.2
  | .struct fs, h => by
    simp only [GV.plainIn] at h
    simp only [pv, hw, Bool.and_false, Bool.false_eq_true, if_false]; exact pvF_ni fs h
  | .tm _ _ fs, h => by
    simp only [GV.plainIn] at h
    simp only [pv, hw, Bool.and_false, Bool.false_eq_true, if_false]; exact pvF_ni fs h
  | .sh _ fs, h => by
    simp only [GV.plainIn] at h
    simp only [pv, hw, Bool.and_false, Bool.false_eq_true, if_false]; exact pvF_ni fs h
theorem pvL_ni : ∀ vs : List GV, GV.plainInL vs = true → pvL td c ρ₁ true vs = pvL td c ρ₂ true vs
  | [], _ => rfl
  | v :: vs, h => by
    simp only [GV.plainInL, Bool.and_eq_true] at h
    simp only [pvL, pv_ni v h.1, pvL_ni vs h.2]
theorem pvKV_ni : ∀ kvs : List (GV × GV), GV.plainInKV kvs = true → pvKV td c ρ₁ true kvs = pvKV td c ρ₂ true kvs
  | [], _ => rfl
  | (k, v) :: kvs, h => by
    simp only [GV.plainInKV, Bool.and_eq_true] at h
    simp only [pvKV, pv_ni k h.1.1, pv_ni v h.1.2, pvKV_ni kvs h.2]
theorem pvF_ni : ∀ fs : List (FieldInfo × GV), GV.plainInF fs = true → pvF td c ρ₁ true fs = pvF td c ρ₂ true fs
  | [], _ => rfl
  | (fi, v) :: fs, h => by
    simp only [GV.plainInF, Bool.and_eq_true] at h
    simp only [pvF, h.1.1, Bool.and_self, pv_ni v h.1.2, pvF_ni fs h.2]
end

/-- `printArg` level: every verb except `w` and `p`, every flag, every plain operand -/
theorem pa_ni (hp : (c.verb == 'p') = false) (v0 : GV) (h : v0.plainTop = true) :
    pa td c ρ₁ v0 = pa td c ρ₂ v0 := by
  unfold pa
  simp only [hw, hp, Bool.false_and, Bool.false_eq_true, if_false]
  by_cases hT : (c.verb == 'T') = true
  · simp only [hT, if_true]
  · simp only [hT]
    unfold GV.plainTop at h
    generalize v0.dyn = v at h ⊢
    cases v with
    | opq i => exact opq_leaf_ni hc hF c hw ρ₁ ρ₂ false hF i _ _
    | ptr w =>
      simp only at h
      cases hq : w.isOpq with
      | some i =>
        have : w = .opq i := by cases w <;> simp_all [GV.isOpq]
        subst this
        simp only []
        exact opq_leaf_ni hc hF c hw ρ₁ ρ₂ true (find_mono hF) i _ _
      | none =>
        simp only [hq, Option.isSome_none, Bool.false_or, Bool.and_eq_true] at h
        simp only [pv, hq, h.1, Bool.not_true, Bool.false_and, Bool.true_and, Bool.false_eq_true, if_false, if_true]
        exact pv_ni hc hF c hw ρ₁ ρ₂ w h.2
    | str _ => rfl
    | num _ => rfl
    | nilv => rfl
    | nilSlice => rfl
    | nilMap => rfl
    | iface v => simp only [GV.plainIn] at h; simp only [pv]; exact pv_ni hc hF c hw ρ₁ ρ₂ v h
    | slice vs =>
      simp only [GV.plainIn] at h
      simp only [pv, Bool.not_true, Bool.false_and, Bool.false_eq_true, if_false]; exact pvL_ni hc hF c hw ρ₁ ρ₂ vs h
    | array vs =>
      simp only [GV.plainIn] at h
      simp only [pv, Bool.not_true, Bool.false_and, Bool.false_eq_true, if_false]; exact pvL_ni hc hF c hw ρ₁ ρ₂ vs h
    | map kvs =>
      simp only [GV.plainIn, Bool.and_eq_true] at h
      simp only [pv, Bool.not_true, Bool.false_and, Bool.false_eq_true, if_false]; exact pvKV_ni hc hF c hw ρ₁ ρ₂ kvs h.2
    | struct fs =>
      simp only [GV.plainIn] at h
      simp only [pv, Bool.not_true, Bool.false_and, Bool.false_eq_true, if_false]; exact pvF_ni hc hF c hw ρ₁ ρ₂ fs h
    | tm o vv fs =>
      simp only [GV.plainIn] at h
      simp only [pv, Bool.not_true, Bool.false_and, Bool.false_eq_true, if_false]; exact pvF_ni hc hF c hw ρ₁ ρ₂ fs h
    | sh k fs =>
      simp only [GV.plainIn] at h
      simp only [pv, Bool.not_true, Bool.false_and, Bool.false_eq_true, if_false]; exact pvF_ni hc hF c hw ρ₁ ρ₂ fs h

end fmtNI

/-- **fmt, general form.**  For any type of string kind whose methods do not look at the receiver and
which implements `fmt.Formatter` on values: for every verb other than `w`/`p` (any rune), every flag
set (`sharpV`; the other flags, width and precision only reach the library's string formatter, which
is applied to the leaf text), value alone or inside slices, arrays, maps (keys and values), interfaces,
exported struct fields at any depth, pointers to the value and a top-level pointer to a container:
the texts that reach the output are the same for any two secret environments. -/
theorem C14_fmt_noninterference (td : TD) (hc : td.Const) (hF : (td.find "Format" false).isSome = true)
    (c : FmtCtx) (hw : (c.verb == 'w') = false) (hp : (c.verb == 'p') = false)
    (v : GV) (hv : v.plainTop = true) (ρ₁ ρ₂ : Nat → String) : pa td c ρ₁ v = pa td c ρ₂ v :=
  pa_ni hc hF c hw ρ₁ ρ₂ hp v hv

/-- … instantiated on the regenerated method table of `configopaque.String`.  This is the
obligation that stops checking when the type loses `Format` (or a method starts using the receiver). -/
theorem C14_fmt_noninterference_partial (c : FmtCtx) (hw : (c.verb == 'w') = false) (hp : (c.verb == 'p') = false)
    (v : GV) (hv : v.plainTop = true) (ρ₁ ρ₂ : Nat → String) : pa realTD c ρ₁ v = pa realTD c ρ₂ v :=
  C14_fmt_noninterference realTD C14_methods_recv_free (by decide) c hw hp v hv ρ₁ ρ₂

/-- non-vacuity: `%d` of a struct holding a map of opaque headers and a slice of pointers to opaque strings -/
example : (GV.struct [({ name := "headers" }, .map [(.str "k", .opq 0)]), ({ name := "l" }, .slice [.ptr (.opq 1)])]).plainTop = true := by
  decide
example : pa realTD { verb := 'd' } (fun _ => "s3cr3t") (.slice [.opq 0]) = [⟨.formatter, Opaque.marker⟩] := by decide

/-- every leaf text under those hypotheses is the marker: "all of these render the fixed redaction marker" -/
theorem C14_fmt_value_renders_marker (c : FmtCtx) (hw : (c.verb == 'w') = false) (hp : (c.verb == 'p') = false)
    (hT : (c.verb == 'T') = false) (ρ : Nat → String) (i : Nat) :
    pa realTD c ρ (.opq i) = [⟨.formatter, Opaque.marker⟩] := by
  simp only [pa, GV.dyn, hw, hp, hT, Bool.false_and, Bool.false_eq_true, if_false]
  rfl

/-- the full statement: every verb, every operand tree -/
def C14_fmt_full : Prop :=
  ∀ (c : FmtCtx) (v : GV) (ρ₁ ρ₂ : Nat → String), pa realTD c ρ₁ v = pa realTD c ρ₂ v

def ρa : Nat → String := fun _ => "s3cr3t"
def ρb : Nat → String := fun _ => "0ther"

/-- `fmt` handles `%p` before it looks for any method: `Sprintf("%p", configopaque.String("s3cr3t"))`
is `%!p(configopaque.String=s3cr3t)` whatever the type implements.  Not repairable inside the type. -/
theorem C14_fmt_full_fails : ¬ C14_fmt_full := by
  intro h
  have := h { verb := 'p' } (.opq 0) ρa ρb
  revert this; decide

/-- the other ways into `badVerb` that no method of the operand can intercept (all four are replayed
on the real library by the harness; signatures `C14/fmt/…`) -/
theorem C14_fmt_residual_leaks :
    pa realTD { verb := 'w' } ρa (.opq 0) ≠ pa realTD { verb := 'w' } ρb (.opq 0) ∧                      -- %w on a non-error
    pa realTD { verb := 'p' } ρa (.struct [({ name := "s" }, .opq 0)])
      ≠ pa realTD { verb := 'p' } ρb (.struct [({ name := "s" }, .opq 0)]) ∧                               -- %p on a struct
    pa realTD { verb := 's' } ρa (.slice [.ptr (.struct [({ name := "s" }, .opq 0)])])
      ≠ pa realTD { verb := 's' } ρb (.slice [.ptr (.struct [({ name := "s" }, .opq 0)])]) ∧               -- %s of []*struct
    pa realTD { verb := 'v' } ρa (.struct [({ name := "s", exported := false }, .opq 0)])
      ≠ pa realTD { verb := 'v' } ρb (.struct [({ name := "s", exported := false }, .opq 0)]) := by        -- unexported field
  decide

/-- why the repair was needed: a type of string kind *without* `Format` leaks under every verb that is
not valid for strings, whatever else it implements (`erroring` suppresses `String`/`GoString`) -/
theorem C14_fmt_needs_formatter (td : TD) (h0 : td.find "Format" false = none) (c : FmtCtx)
    (hs : c.sharpV = false) (hv : stringVerbs.contains c.verb = false)
    (hw : (c.verb == 'w') = false) (hp : (c.verb == 'p') = false) (hT : (c.verb == 'T') = false)
    (ρ : Nat → String) (i : Nat) : pa td c ρ (.opq i) = [⟨.badVerbRaw, ρ i⟩] := by
  simp only [pa, GV.dyn, hw, hp, hT, Bool.false_and, Bool.false_eq_true, if_false, methodsOf, h0, hs, hv,
    rawString, Option.getD_none]

example : stringVerbs.contains 'd' = false := by decide

/-! ## marshalling libraries -/

/-- every known marshalling path except the JSON map key consults a method of the type, and that
method returns the marker: the bytes written do not depend on the secret -/
theorem C14_paths : ∀ p ∈ knownPaths, p ≠ ("json", Pos.mapKey) →
    ∀ s : String, pathText realTD p.1 p.2 s = Opaque.marker := by
  intro p hp hne s
  simp only [knownPaths, List.mem_cons, List.mem_nil_iff, or_false] at hp
  rcases hp with rfl | rfl | rfl | rfl | rfl | rfl | rfl | rfl | rfl | rfl | rfl | rfl | rfl | rfl | rfl | rfl <;>
    first | rfl | exact absurd rfl hne

/-- `encoding/json` takes a map key of string kind from the raw string before it looks for
`TextMarshaler` (encode.go `resolveKeyName`): an opaque string used as a JSON object key is written raw,
whatever the type implements.  (No built-in configuration uses an opaque key.) -/
-- (definitional: a row of the hand table `pathConsult`; not counted as an obligation)
theorem def_json_mapkey_raw (td : TD) (s : String) : pathText td "json" .mapKey s = s := rfl

def C14_paths_full : Prop := ∀ p ∈ knownPaths, ∀ s₁ s₂ : String, pathText realTD p.1 p.2 s₁ = pathText realTD p.1 p.2 s₂

theorem C14_paths_full_fails : ¬ C14_paths_full := by
  intro h
  have := h ("json", .mapKey) (by decide) "s3cr3t" "0ther"
  revert this; decide

/-- the explicit conversion still returns the secret -/
-- (definitional: `pathConsult "conv" = [none]`; the clause is observed by the harness, `string(s)`; not counted)
theorem def_conversion_returns_secret (td : TD) (s : String) : pathText td "conv" .value s = s := rfl

/-- unmarshalling stores the written string unchanged: the type has no `UnmarshalText` (mapstructure
then assigns by kind), on values or pointers -/
theorem C14_unmarshal_keeps : (realTD.find "UnmarshalText" true) = none ∧ (realTD.find "UnmarshalJSON" true) = none := by
  decide

/-- plain positions (field, pointer, map value, slice element, nested or plainly squashed struct, a
nested struct with its own `Unmarshal`) keep the secret -/
-- (definitional: `plainStored s := s`; there is no model of the decode path — the clause is carried by the `op unm` differential; not counted)
theorem def_unmarshal_plain (s : String) : plainStored s = s := rfl

/-- regenerated fact: `unmarshalerEmbeddedStructsHookFunc` no longer feeds the marshalled (redacted)
form of a squashed struct back into the map (fails on a tree where it does) -/
theorem C14_squash_hook_keeps_fields : SquashHook.remarshals = false := by decide

/-- **unmarshalling stores the secret unchanged**, including through a field tagged `,squash` whose
struct implements `confmap.Unmarshaler` -/
theorem C14_unmarshal_squash_keeps (s : String) : squashHookStored SquashHook.remarshals realTD s = s := by
  simp [squashHookStored, C14_squash_hook_keeps_fields, plainStored]

/-- why the repair was needed: a hook that re-decodes from the marshalled form stores the marker,
whatever was written (even the empty string) -/
theorem def_unmarshal_remarshal_stores_marker (s : String) : squashHookStored true realTD s = Opaque.marker := rfl

/-! ## config-map encoder (`confmap.Conf.Marshal`) -/

theorem pathText_yaml_const {td : TD} (hc : td.Const) (hT : (td.find "MarshalText" false).isSome = true) (s₁ s₂ : String) :
    pathText td "yaml" .value s₁ = pathText td "yaml" .value s₂ := by
  simp only [pathText, pathConsult, resolve]
  cases h1 : td.find "MarshalYAML" false with
  | some m => simp only [eval_const (hc m (find_mem h1)) s₁ s₂]
  | none =>
    cases h2 : td.find "MarshalText" false with
    | some m => simp only [eval_const (hc m (find_mem h2)) s₁ s₂]
    | none => simp [h2] at hT

theorem yamlF_ni {td : TD} (hc : td.Const) (hT : (td.find "MarshalText" false).isSome = true) (ρ₁ ρ₂ : Nat → String) :
    ∀ fs : List (FieldInfo × GV), yamlF td ρ₁ fs = yamlF td ρ₂ fs
  | [] => rfl
  | (fi, v) :: fs => by
    simp only [yamlF, yamlF_ni hc hT ρ₁ ρ₂ fs]
    cases v with
    | opq i => simp only [pathText_yaml_const hc hT (ρ₁ i) (ρ₂ i)]
    | _ => rfl

section encNI
variable {td : TD} (hc : td.Const) (hT : (td.find "MarshalText" false).isSome = true)
variable (ρ₁ ρ₂ : Nat → String) (he : ∀ i, (ρ₁ i == "") = (ρ₂ i == ""))
set_option linter.unusedSectionVars false
include hc hT he

mutual
theorem isZero_ni : ∀ v : GV, isZero ρ₁ v = isZero ρ₂ v
  | .opq i => by simp only [isZero, he i]
  | .str _ => rfl
  | .num _ => rfl
  | .nilv => rfl
  | .ptr _ => rfl
  | .iface _ => rfl
  | .slice _ => rfl
  | .nilSlice => rfl
  | .array vs => by simp only [isZero, isZeroL_ni vs]
  | .map _ => rfl
  | .nilMap => rfl
  | .struct fs => by simp only [isZero, isZeroF_ni fs]
  | .tm _ _ fs => by simp only [isZero, isZeroF_ni fs]
  | .sh _ fs => by simp only [isZero, isZeroF_ni fs]
theorem isZeroL_ni : ∀ vs : List GV, isZeroL ρ₁ vs = isZeroL ρ₂ vs
  | [] => rfl
  | v :: vs => by simp only [isZeroL, isZero_ni v, isZeroL_ni vs]
theorem isZeroF_ni : ∀ fs : List (FieldInfo × GV), isZeroF ρ₁ fs = isZeroF ρ₂ fs
  | [] => rfl
  | (_, v) :: fs => by simp only [isZeroF, isZero_ni v, isZeroF_ni fs]
end

mutual
theorem enc_ni : ∀ v : GV, enc td ρ₁ v = enc td ρ₂ v
  | .opq i => by
    simp only [enc]
    cases h : td.find "MarshalText" false with
    | none => simp [h] at hT
    | some m => simp only [eval_const (hc m (find_mem h)) (ρ₁ i) (ρ₂ i)]
  | .str _ => rfl
  | .num _ => rfl
  | .nilv => rfl
  | .ptr v => by simp only [enc]; exact enc_ni v
  | .iface v => by simp only [enc]; exact enc_ni v
  | .slice vs => by simp only [enc, encL_ni vs]
  | .nilSlice => rfl
  | .array _ => rfl
  | .map kvs => by simp only [enc, encKV_ni kvs []]
  | .nilMap => rfl
  | .struct fs => by simp only [enc, encF_ni fs []]
  | .tm _ vv fs => by cases vv <;> simp only [enc, encF_ni fs [], if_true, Bool.false_eq_true, if_false]
  | .sh .marshaler fs => by simp only [enc, encF_ni fs []]
  | .sh .yaml fs => by simp only [enc, yamlF_ni hc hT ρ₁ ρ₂ fs]
theorem encL_ni : ∀ vs : List GV, encL td ρ₁ vs = encL td ρ₂ vs
  | [] => rfl
  | v :: vs => by simp only [encL, enc_ni v, encL_ni vs]
theorem encKV_ni : ∀ (kvs : List (GV × GV)) (acc : List (String × Any)), encKV td ρ₁ kvs acc = encKV td ρ₂ kvs acc
  | [], _ => rfl
  | (k, v) :: kvs, acc => by
    simp only [encKV, enc_ni k, enc_ni v]
    cases enc td ρ₂ k with
    | error e => rfl
    | ok ek =>
      simp only [bind, Except.bind]
      cases keyString ek with
      | none => rfl
      | some key =>
        simp only []
        split
        · rfl
        · cases enc td ρ₂ v with
          | error e => rfl
          | ok ev => simp only [encKV_ni kvs]
theorem encF_ni : ∀ (fs : List (FieldInfo × GV)) (acc : List (String × Any)), encF td ρ₁ fs acc = encF td ρ₂ fs acc
  | [], _ => rfl
  | (fi, v) :: fs, acc => by
    simp only [encF, enc_ni v, isZero_ni hc hT ρ₁ ρ₂ he v]
    split
    · exact encF_ni fs acc
    · split
      · exact encF_ni fs acc
      · cases enc td ρ₂ v with
        | error e => rfl
        | ok e =>
          simp only [bind, Except.bind]
          split
          · split
            · exact encF_ni fs _
            · exact encF_ni fs _
          · exact encF_ni fs _
end

end encNI

/-- **confmap.Marshal.**  For every value tree — any nesting of maps (opaque strings as values or keys),
slices, pointers, interfaces, structs with `omitempty`/`squash`/`-`/unexported fields — the encoded
configuration map (or the encoding error) is the same for any two secret environments that agree on
which secrets are empty (`omitempty` on an opaque field reveals emptiness, nothing else).  Arrays are
handed on as typed Go values (`Any.typed`, still of the opaque type), which is explicit in the model. -/
theorem C14_encode_noninterference (td : TD) (hc : td.Const) (hT : (td.find "MarshalText" false).isSome = true)
    (ρ₁ ρ₂ : Nat → String) (he : ∀ i, (ρ₁ i == "") = (ρ₂ i == "")) (v : GV) : enc td ρ₁ v = enc td ρ₂ v :=
  enc_ni hc hT ρ₁ ρ₂ he v

/-- on the regenerated method table an opaque leaf encodes to the marker string (the `TextMarshaler` hook fires) -/
theorem C14_encode_leaf_marker (ρ : Nat → String) (i : Nat) : enc realTD ρ (.opq i) = .ok (.str Opaque.marker) := rfl

theorem C14_encode_noninterference_real (ρ₁ ρ₂ : Nat → String) (he : ∀ i, (ρ₁ i == "") = (ρ₂ i == "")) (v : GV) :
    enc realTD ρ₁ v = enc realTD ρ₂ v :=
  C14_encode_noninterference realTD C14_methods_recv_free (by decide) ρ₁ ρ₂ he v

theorem yamlF_typed (td : TD) (ρ : Nat → String) : ∀ fs : List (FieldInfo × GV), Any.typedAreArraysKV (yamlF td ρ fs) = true
  | [] => rfl
  | (fi, v) :: fs => by
    simp only [yamlF, Any.typedAreArraysKV, yamlF_typed td ρ fs, Bool.and_true]
    cases v <;> rfl

theorem taKV_append (a b : List (String × Any)) :
    Any.typedAreArraysKV (a ++ b) = (Any.typedAreArraysKV a && Any.typedAreArraysKV b) := by
  induction a with
  | nil => simp [Any.typedAreArraysKV]
  | cons p ps ih => obtain ⟨k, v⟩ := p; simp [Any.typedAreArraysKV, ih, Bool.and_assoc]

theorem taKV_mapset (k : String) (v : Any) (hv : v.typedAreArrays = true) : ∀ m : List (String × Any),
    Any.typedAreArraysKV m = true → Any.typedAreArraysKV (m.map (fun p => if p.1 == k then (k, v) else p)) = true
  | [], _ => rfl
  | (k', v') :: ps, hm => by
    simp only [Any.typedAreArraysKV, Bool.and_eq_true] at hm
    simp only [List.map_cons]
    split
    · simp only [Any.typedAreArraysKV, hv, Bool.true_and]; exact taKV_mapset k v hv ps hm.2
    · simp only [Any.typedAreArraysKV, hm.1, Bool.true_and]; exact taKV_mapset k v hv ps hm.2

theorem taKV_insert (m : List (String × Any)) (k : String) (v : Any)
    (hm : Any.typedAreArraysKV m = true) (hv : v.typedAreArrays = true) : Any.typedAreArraysKV (insertKV m k v) = true := by
  unfold insertKV
  split
  · exact taKV_mapset k v hv m hm
  · rw [taKV_append]; simp [hm, Any.typedAreArraysKV, hv]

theorem taKV_merge (m : List (String × Any)) : ∀ (n : List (String × Any)),
    Any.typedAreArraysKV m = true → Any.typedAreArraysKV n = true → Any.typedAreArraysKV (mergeKVs m n) = true
  | [], hm, _ => by simpa [mergeKVs] using hm
  | (k, v) :: rest, hm, hn => by
    simp only [Any.typedAreArraysKV, Bool.and_eq_true] at hn
    simp only [mergeKVs]
    exact taKV_merge (insertKV m k v) rest (taKV_insert m k v hm hn.1) hn.2

section
variable {td : TD} (hT : (td.find "MarshalText" false).isSome = true) (ρ : Nat → String)
include hT
set_option linter.unusedSectionVars false

mutual
theorem enc_typed : ∀ (v : GV) (a : Any), enc td ρ v = .ok a → a.typedAreArrays = true
  | .opq i, a, h => by
    simp only [enc] at h
    cases hf : td.find "MarshalText" false with
    | none => simp [hf] at hT
    | some m => simp only [hf, Except.ok.injEq] at h; subst h; rfl
  | .str _, a, h => by simp only [enc, Except.ok.injEq] at h; subst h; rfl
  | .num _, a, h => by simp only [enc, Except.ok.injEq] at h; subst h; rfl
  | .nilv, a, h => by simp only [enc, Except.ok.injEq] at h; subst h; rfl
  | .ptr v, a, h => by simp only [enc] at h; exact enc_typed v a h
  | .iface v, a, h => by simp only [enc] at h; exact enc_typed v a h
  | .nilSlice, a, h => by simp only [enc, Except.ok.injEq] at h; subst h; rfl
  | .array _, a, h => by simp only [enc, Except.ok.injEq] at h; subst h; rfl
  | .nilMap, a, h => by simp only [enc, Except.ok.injEq] at h; subst h; rfl
  | .slice vs, a, h => by
    simp only [enc] at h
    cases hl : encL td ρ vs with
    | error e => simp [hl, bind, Except.bind] at h
    | ok xs =>
      simp only [hl, bind, Except.bind, pure, Except.pure, Except.ok.injEq] at h
      subst h
      simp only [Any.typedAreArrays]; exact encL_typed vs xs hl
  | .map kvs, a, h => by
    simp only [enc] at h
    cases hl : encKV td ρ kvs [] with
    | error e => simp [hl, bind, Except.bind] at h
    | ok m =>
      simp only [hl, bind, Except.bind, pure, Except.pure, Except.ok.injEq] at h
      subst h
      simp only [Any.typedAreArrays]; exact encKV_typed kvs [] m rfl hl
  | .struct fs, a, h => by
    simp only [enc] at h
    cases hl : encF td ρ fs [] with
    | error e => simp [hl, bind, Except.bind] at h
    | ok m =>
      simp only [hl, bind, Except.bind, pure, Except.pure, Except.ok.injEq] at h
      subst h
      simp only [Any.typedAreArrays]; exact encF_typed fs [] m rfl hl
  | .sh .marshaler fs, a, h => by
    simp only [enc] at h
    cases hl : encF td ρ fs [] with
    | error e => simp [hl, bind, Except.bind] at h
    | ok m =>
      simp only [hl, bind, Except.bind, pure, Except.pure, Except.ok.injEq] at h
      subst h
      simp only [Any.typedAreArrays]; exact encF_typed fs [] m rfl hl
  | .sh .yaml fs, a, h => by
    simp only [enc, Except.ok.injEq] at h
    subst h
    simp only [Any.typedAreArrays]; exact yamlF_typed td ρ fs
  | .tm o vv fs, a, h => by
    simp only [enc] at h
    cases vv with
    | true => simp only [if_true, Except.ok.injEq] at h; subst h; rfl
    | false =>
      simp only [Bool.false_eq_true, if_false] at h
      cases hl : encF td ρ fs [] with
      | error e => simp [hl, bind, Except.bind] at h
      | ok m =>
        simp only [hl, bind, Except.bind, pure, Except.pure, Except.ok.injEq] at h
        subst h
        simp only [Any.typedAreArrays]; exact encF_typed fs [] m rfl hl
theorem encL_typed : ∀ (vs : List GV) (xs : List Any), encL td ρ vs = .ok xs → Any.typedAreArraysL xs = true
  | [], xs, h => by simp only [encL, Except.ok.injEq] at h; subst h; rfl
  | v :: vs, xs, h => by
    simp only [encL] at h
    cases h1 : enc td ρ v with
    | error e => simp [h1, bind, Except.bind] at h
    | ok x =>
      cases h2 : encL td ρ vs with
      | error e => simp [h1, h2, bind, Except.bind] at h
      | ok rest =>
        simp only [h1, h2, bind, Except.bind, pure, Except.pure, Except.ok.injEq] at h
        subst h
        simp only [Any.typedAreArraysL, enc_typed v x h1, encL_typed vs rest h2, Bool.and_self]
theorem encKV_typed : ∀ (kvs : List (GV × GV)) (acc m : List (String × Any)),
    Any.typedAreArraysKV acc = true → encKV td ρ kvs acc = .ok m → Any.typedAreArraysKV m = true
  | [], acc, m, ha, h => by simp only [encKV, Except.ok.injEq] at h; subst h; exact ha
  | (k, v) :: kvs, acc, m, ha, h => by
    simp only [encKV] at h
    cases h1 : enc td ρ k with
    | error e => simp [h1, bind, Except.bind] at h
    | ok ek =>
      simp only [h1, bind, Except.bind] at h
      cases hk : keyString ek with
      | none => simp [hk] at h
      | some key =>
        simp only [hk] at h
        split at h
        · simp at h
        · cases h2 : enc td ρ v with
          | error e => simp [h2] at h
          | ok ev =>
            simp only [h2] at h
            refine encKV_typed kvs _ m ?_ h
            rw [taKV_append]; simp [ha, Any.typedAreArraysKV, enc_typed v ev h2]
theorem encF_typed : ∀ (fs : List (FieldInfo × GV)) (acc m : List (String × Any)),
    Any.typedAreArraysKV acc = true → encF td ρ fs acc = .ok m → Any.typedAreArraysKV m = true
  | [], acc, m, ha, h => by simp only [encF, Except.ok.injEq] at h; subst h; exact ha
  | (fi, v) :: fs, acc, m, ha, h => by
    simp only [encF] at h
    split at h
    · exact encF_typed fs acc m ha h
    · split at h
      · exact encF_typed fs acc m ha h
      · cases h1 : enc td ρ v with
        | error e => simp [h1, bind, Except.bind] at h
        | ok e =>
          simp only [h1, bind, Except.bind] at h
          have he := enc_typed v e h1
          split at h
          · split at h
            · rename_i mm
              refine encF_typed fs _ m (taKV_merge acc mm ha ?_) h
              simpa [Any.typedAreArrays] using he
            · exact encF_typed fs acc m ha h
          · exact encF_typed fs _ m (taKV_insert acc fi.name e ha he) h
end
end

/-- **Arrays** (and nothing else) are handed on by the encoder as typed Go values: with `MarshalText`
on values, every `typed` node of an encoded configuration is an array — still of its static element
type, so whatever renders it later goes through the type's methods (`C14_fmt_noninterference` covers
arrays; yaml/json use `MarshalText` per element) — and no string-kind value escapes the hook chain raw. -/
theorem C14_encode_typed_values_are_arrays (td : TD) (hT : (td.find "MarshalText" false).isSome = true)
    (ρ : Nat → String) (v : GV) (a : Any) (h : enc td ρ v = .ok a) : a.typedAreArrays = true :=
  enc_typed hT ρ v a h

theorem def_encode_array_passthrough (td : TD) (ρ : Nat → String) (vs : List GV) :
    enc td ρ (.array vs) = .ok (.typed (.array vs)) := rfl

/-- **Unexported fields** never reach the configuration map: whatever such a field holds (an opaque
string, a struct with secrets, anything) the encoding of the struct is the same as without the field. -/
theorem C14_encode_unexported_invisible (td : TD) (ρ : Nat → String) (fi : FieldInfo) (v : GV)
    (fs : List (FieldInfo × GV)) (acc : List (String × Any)) (hx : fi.exported = false) :
    encF td ρ ((fi, v) :: fs) acc = encF td ρ fs acc := by
  simp [encF, hx]

example : (enc realTD ρa (.struct [({ name := "a" }, .array [.opq 0]), ({ name := "h", exported := false }, .opq 1)])).toOption.map Any.strings
    = some ["a"] := by decide

/-- non-vacuity: headers map + squashed struct + omitempty opaque; the result mentions only the marker -/
example : (enc realTD ρa (.struct [({ name := "headers" }, .map [(.str "k", .opq 0)]),
                                   ({ name := "", squash := true }, .struct [({ name := "pw", omitEmpty := true }, .opq 1)])])).toOption.map Any.strings
    = some ["headers", "k", Opaque.marker, "pw", Opaque.marker] := by decide

/-- why the hypothesis on emptiness is needed (`omitempty`): an empty secret is omitted, a non-empty one is shown masked -/
theorem C14_encode_omitempty_reveals_emptiness :
    (enc realTD (fun _ => "") (.struct [({ name := "pw", omitEmpty := true }, .opq 0)])).toOption.map Any.strings
      ≠ (enc realTD (fun _ => "x") (.struct [({ name := "pw", omitEmpty := true }, .opq 0)])).toOption.map Any.strings := by
  decide

/-- why `TextMarshaler` is needed: without it the hook chain hands the value on untouched and, as a map
key, its raw content becomes the key of the configuration map -/
theorem C14_encode_needs_textmarshaler :
    (enc [] ρa (.map [(.opq 0, .num 1)])).toOption.map Any.strings ≠ (enc [] ρb (.map [(.opq 0, .num 1)])).toOption.map Any.strings := by
  decide

/-- the search oracle used on the implementation's effective configuration: no string of it is a secret -/
def leakFree (secrets strs : List String) : Bool := strs.all (fun s => !secrets.contains s)

theorem C14_check_sound (secrets strs : List String) (h : leakFree secrets strs = true) :
    ∀ s ∈ strs, s ∉ secrets := by
  intro s hs hmem
  have := List.all_eq_true.mp h s hs
  simp [hmem] at this

/-! ## unexported struct fields: outside the theorem's hypothesis, and why -/

mutual
theorem plainIn_no_unexported : ∀ v : GV, v.plainIn = true → v.hasUnexported = false
  | .opq _, _ => rfl
  | .str _, _ => rfl
  | .num _, _ => rfl
  | .nilv, _ => rfl
  | .nilSlice, _ => rfl
  | .nilMap, _ => rfl
  | .ptr v, h => by
    simp only [GV.plainIn] at h
    obtain ⟨i, rfl⟩ := isOpq_some h
    rfl
  | .iface v, h => by simp only [GV.plainIn] at h; simp only [GV.hasUnexported]; exact plainIn_no_unexported v h
  | .slice vs, h => by simp only [GV.plainIn] at h; simp only [GV.hasUnexported]; exact plainInL_no_unexported vs h
  | .array vs, h => by simp only [GV.plainIn] at h; simp only [GV.hasUnexported]; exact plainInL_no_unexported vs h
  | .map kvs, h => by
    simp only [GV.plainIn, Bool.and_eq_true] at h; simp only [GV.hasUnexported]; exact plainInKV_no_unexported kvs h.2
  | .struct fs, h => by simp only [GV.plainIn] at h; simp only [GV.hasUnexported]; exact plainInF_no_unexported fs h
  | .tm _ _ fs, h => by simp only [GV.plainIn] at h; simp only [GV.hasUnexported]; exact plainInF_no_unexported fs h
  | .sh _ fs, h => by simp only [GV.plainIn] at h; simp only [GV.hasUnexported]; exact plainInF_no_unexported fs h
theorem plainInL_no_unexported : ∀ vs : List GV, GV.plainInL vs = true → GV.hasUnexportedL vs = false
  | [], _ => rfl
  | v :: vs, h => by
    simp only [GV.plainInL, Bool.and_eq_true] at h
    simp only [GV.hasUnexportedL, plainIn_no_unexported v h.1, plainInL_no_unexported vs h.2, Bool.or_self]
theorem plainInKV_no_unexported : ∀ kvs : List (GV × GV), GV.plainInKV kvs = true → GV.hasUnexportedKV kvs = false
  | [], _ => rfl
  | (k, v) :: kvs, h => by
    simp only [GV.plainInKV, Bool.and_eq_true] at h
    simp only [GV.hasUnexportedKV, plainIn_no_unexported k h.1.1, plainIn_no_unexported v h.1.2, plainInKV_no_unexported kvs h.2, Bool.or_self]
theorem plainInF_no_unexported : ∀ fs : List (FieldInfo × GV), GV.plainInF fs = true → GV.hasUnexportedF fs = false
  | [], _ => rfl
  | (fi, v) :: fs, h => by
    simp only [GV.plainInF, Bool.and_eq_true] at h
    simp only [GV.hasUnexportedF, h.1.1, plainIn_no_unexported v h.1.2, plainInF_no_unexported fs h.2, Bool.not_true, Bool.or_self]
end

/-- the hypothesis of the fmt non-interference theorem excludes every operand that reaches anything through an unexported
struct field -/
theorem C14_fmt_hypothesis_excludes_unexported (v : GV) (h : v.plainTop = true) : v.dyn.hasUnexported = false := by
  unfold GV.plainTop at h
  generalize v.dyn = w at h ⊢
  cases w with
  | ptr u =>
    simp only [Bool.or_eq_true, Bool.and_eq_true] at h
    simp only [GV.hasUnexported]
    rcases h with h | h
    · obtain ⟨i, rfl⟩ := isOpq_some h; rfl
    · exact plainIn_no_unexported u h.2
  | opq i => rfl
  | str s => rfl
  | num n => rfl
  | nilv => rfl
  | nilSlice => rfl
  | nilMap => rfl
  | iface u => exact plainIn_no_unexported _ h
  | slice vs => exact plainIn_no_unexported _ h
  | array vs => exact plainIn_no_unexported _ h
  | map kvs => exact plainIn_no_unexported _ h
  | struct fs => exact plainIn_no_unexported _ h
  | tm o vv fs => exact plainIn_no_unexported _ h
  | sh k fs => exact plainIn_no_unexported _ h

/-- … and rightly so: behind an unexported field fmt consults NO method of the operand (`CanInterface` is false), whatever
the type implements — `Format`, `String`, `GoString` included — and prints the string from its kind -/
theorem C14_fmt_unexported_field_ignores_methods (td : TD) (c : FmtCtx) (hp : (c.verb == 'p') = false)
    (hw : (c.verb == 'w') = false) (hT : (c.verb == 'T') = false) (fi : FieldInfo) (hx : fi.exported = false)
    (ρ : Nat → String) (i : Nat) : pa td c ρ (.struct [(fi, .opq i)]) = rawString c (ρ i) := by
  simp [pa, GV.dyn, hp, hw, hT, pv, pvF, hx]

example : pa realTD { verb := 'v' } ρa (.struct [({ name := "headers", exported := false }, .slice [.struct [({ name := "value", exported := false }, .opq 0)]])])
    = [⟨.rawKind, "s3cr3t"⟩] := by decide

/-! ## the regenerated census of opaque-typed fields and of the places where their text is taken out

`translators/cmd/opaquecensus` (go/ast) lists every struct field of the repository whose type mentions
`configopaque.String`, every conversion `string(x)` / `[]byte(x)` of an opaque value (the only operation that yields the
secret) and every call that is handed a still-typed opaque value.  The theorems below connect the field list to the
hypotheses of the fmt theorem and keep the other two lists under review. -/

/-- regenerated obligation: every opaque-typed field of the repository has a SAFE shape — pointers point directly at an
opaque string, no map is keyed by one (`fmt` sorts map entries by the raw key; json writes a map key raw) -/
theorem C14_census_shapes_safe : ∀ f ∈ OpaqueCensus.fields, f.shape.safe = true := by decide

/-- every value of a type of safe shape is plain, for any size and nesting … -/
theorem C14_safe_shape_values_plain (sh : OShape) (hs : sh.safe = true) (v : GV) (hv : v.inhab sh = true) : v.plainIn = true :=
  inhab_plain v sh hs hv

/-- … hence for EVERY value of EVERY exported opaque-typed field of the repository, the struct holding it prints the same text
for any two secret environments under every verb other than `w` / `p` and every flag set (the instance of
`C14_fmt_noninterference_partial` on the regenerated census AND the regenerated method table) -/
theorem C14_census_fields_fmt_noninterference (f : CField) (hf : f ∈ OpaqueCensus.fields) (he : f.exported = true)
    (v : GV) (hv : v.inhab f.shape = true) (c : FmtCtx) (hw : (c.verb == 'w') = false) (hp : (c.verb == 'p') = false)
    (ρ₁ ρ₂ : Nat → String) :
    pa realTD c ρ₁ (.struct [(f.info, v)]) = pa realTD c ρ₂ (.struct [(f.info, v)]) := by
  apply C14_fmt_noninterference_partial c hw hp
  have hp := C14_safe_shape_values_plain f.shape (C14_census_shapes_safe f hf) v hv
  simp [GV.plainTop, GV.dyn, GV.plainIn, GV.plainInF, CField.info, he, hp]

/-- non-vacuity: three headers in the real `confighttp.ClientConfig.Headers` shape, and a value of an unsafe shape that leaks -/
example : (GV.map [(.str "a", .opq 0), (.str "b", .opq 1), (.str "c", .opq 2)]).inhab (.map .other .opq) = true := by decide
example : (OShape.map .opq .other).safe = false ∧ (OShape.ptr (.slice .opq)).safe = false := by decide

/-- … and its encoding into the effective configuration does not depend on the secrets beyond their emptiness
(`omitempty` on `headers`, `*_pem`) -/
theorem C14_census_fields_encode_noninterference (f : CField) (v : GV) (ρ₁ ρ₂ : Nat → String)
    (he : ∀ i, (ρ₁ i == "") = (ρ₂ i == "")) :
    enc realTD ρ₁ (.struct [(f.info, v)]) = enc realTD ρ₂ (.struct [(f.info, v)]) :=
  C14_encode_noninterference_real ρ₁ ρ₂ he _

/-- the only opaque-typed field behind an UNEXPORTED name (fmt prints it from its kind, `C14_fmt_unexported_field_ignores_methods`)
is the round tripper's private copy of the headers — not a configuration struct; a new one changes this list -/
theorem C14_census_unexported_reviewed :
    (OpaqueCensus.fields.filter (fun f => !f.exported)).map (fun f => (f.pkg, f.owner, f.field)) =
      [("config/confighttp", "headerRoundTripper", "headers")] := by decide

/-- every exported opaque-typed field is a configuration key (has a mapstructure name): it is reached by the encoder by key -/
theorem C14_census_exported_are_keys : ∀ f ∈ OpaqueCensus.fields, f.exported = true → (f.key != "") = true := by decide

/-- clause "explicit conversion returns the secret": the complete list of places where the repository takes the text out of an
opaque value (file, function, conversion, what the text is handed to) — header setters, gRPC metadata, the PEM loaders.
A new conversion (e.g. into a log field or an error text) changes the regenerated list and this obligation stops checking. -/
theorem C14_conversion_sites_reviewed :
    OpaqueCensus.conversions.map (fun s => (s.file, s.fn, s.kind, s.ctx)) =
      [("config/configgrpc/configgrpc.go", "ClientConfig.addHeadersIfAbsent", "string", "append"),
       ("config/confighttp/confighttp.go", "headerRoundTripper.RoundTrip", "string", "= req.Host"),
       ("config/confighttp/confighttp.go", "headerRoundTripper.RoundTrip", "string", "req.Header.Set"),
       ("config/confighttp/confighttp.go", "responseHeadersHandler", "string", "h.Set"),
       ("config/configtls/configtls.go", "Config.loadCACertPool", "[]byte", "c.loadCertPem"),
       ("config/configtls/configtls.go", "Config.loadCertificate", "[]byte", "= certPem"),
       ("config/configtls/configtls.go", "Config.loadCertificate", "[]byte", "= keyPem"),
       ("exporter/otlpexporter/otlp.go", "baseExporter.start", "string", "= headers[k]")] := by decide

/-- no code of the repository calls a METHOD of the opaque type on an opaque value (`v.String()` …): every method yields the marker
(`C14_methods_marker`), so on a use path it would send / store "[REDACTED]" instead of the secret the clause promises to conversions -/
theorem C14_no_marker_methods_on_use_paths : OpaqueCensus.methodCalls = [] := by decide

/-- the calls that receive a still-typed opaque value: only the response-header middleware -/
theorem C14_typed_passes_reviewed :
    OpaqueCensus.passes.map (fun s => (s.file, s.fn, s.expr, s.ctx)) =
      [("config/confighttp/confighttp.go", "ServerConfig.ToServer", "hss.ResponseHeaders", "responseHeadersHandler")] := by decide

/-- the log / format calls of the repository that are handed a whole configuration value (by argument name): only the zPages
extension's start message — exercised live by the harness under a recording logger; a new one changes the regenerated list -/
theorem C14_config_render_sites_reviewed :
    OpaqueCensus.renders.map (fun s => (s.file, s.fn, s.ctx, s.expr)) =
      [("extension/zpagesextension/zpagesextension.go", "zpagesExtension.Start", "zap.Any", "zpe.config")] := by decide

/-! ## fmt on exported-only trees with pointers to anything below the top — the shape of the built-in configuration types

`C14_fmt_noninterference` excludes a pointer to a struct below the top level (it leaks under `%s %q %t …`, finding
`nested-pointer-badverb-raw`), yet every built-in configuration with `tls` / `auth` / `keepalive` / `protocols` has one.
For the verbs `fmtPointer` accepts — `v d x X b o`, i.e. `%v`, `%+v`, `%#v`: what logging and error wrapping use — such
a pointer prints as an address, and the theorem holds for EVERY tree whose struct fields are exported. -/

theorem ptrSafe_pointer {c : FmtCtx} (h : ptrSafeVerbs.contains c.verb = true) : pointerVerbs.contains c.verb = true := by
  simp only [ptrSafeVerbs, pointerVerbs, List.contains_cons, List.contains_nil, Bool.or_false, Bool.or_eq_true, beq_iff_eq] at h ⊢
  rcases h with h | h | h | h | h | h <;> simp [h]

theorem ptrSafe_not_wp {c : FmtCtx} (h : ptrSafeVerbs.contains c.verb = true) : (c.verb == 'w') = false ∧ (c.verb == 'p') = false := by
  simp only [ptrSafeVerbs, List.contains_cons, List.contains_nil, Bool.or_false, Bool.or_eq_true, beq_iff_eq] at h
  rcases h with h | h | h | h | h | h <;> simp [h]

section expNI
set_option linter.unusedSectionVars false
variable {td : TD} (hc : td.Const) (hF : (td.find "Format" false).isSome = true)
variable (c : FmtCtx) (hv : ptrSafeVerbs.contains c.verb = true) (ρ₁ ρ₂ : Nat → String)
include hc hF hv

mutual
theorem pv_exp_ni : ∀ v : GV, v.expIn = true → pv td c ρ₁ false true v = pv td c ρ₂ false true v
  | .opq i, _ => by
    have hw := (ptrSafe_not_wp hv).1
    simp only [pv, hw, Bool.not_false, Bool.and_self, Bool.false_and, if_true]
    exact opq_leaf_ni hc hF c hw ρ₁ ρ₂ false hF i _ _
  | .str _, _ => rfl
  | .num _, _ => rfl
  | .nilv, _ => rfl
  | .nilSlice, _ => rfl
  | .nilMap, _ => rfl
  | .ptr v, h => by
    have hw := (ptrSafe_not_wp hv).1
    have hne : (c.verb != 'w') = true := by simp [bne, hw]
    have hpv := ptrSafe_pointer hv
    cases hq : v.isOpq with
    | some i =>
      have h1 := methodsOf_isSome (find_mono hF) c (ρ₁ i)
      have h2 := methodsOf_const hc c true (ρ₁ i) (ρ₂ i)
      simp only [pv, hq, hne, Bool.not_false, Bool.and_self, if_true]
      rw [← h2]
      cases h : methodsOf td c true (ρ₁ i) with
      | none => simp [h] at h1
      | some l => rfl
    | none =>
      simp only [pv, hq, hw, hpv, Bool.not_false, Bool.and_false, Bool.false_and, Bool.false_eq_true, if_false, if_true]
  | .iface v, h => by
    simp only [GV.expIn] at h
    simp only [pv]; exact pv_exp_ni v h
  | .slice vs, h => by
    have hw := (ptrSafe_not_wp hv).1
    simp only [GV.expIn] at h
    simp only [pv, hw, Bool.and_false, Bool.false_eq_true, if_false]; exact pvL_exp_ni vs h
  | .array vs, h => by
    have hw := (ptrSafe_not_wp hv).1
    simp only [GV.expIn] at h
    simp only [pv, hw, Bool.and_false, Bool.false_eq_true, if_false]; exact pvL_exp_ni vs h
  | .map kvs, h => by
    have hw := (ptrSafe_not_wp hv).1
    simp only [GV.expIn, Bool.and_eq_true] at h
    simp only [pv, hw, Bool.and_false, Bool.false_eq_true, if_false]; exact pvKV_exp_ni kvs h.2
  | .struct fs, h => by
    have hw := (ptrSafe_not_wp hv).1
    simp only [GV.expIn] at h
    simp only [pv, hw, Bool.and_false, Bool.false_eq_true, if_false]; exact pvF_exp_ni fs h
  | .tm _ _ fs, h => by
    have hw := (ptrSafe_not_wp hv).1
    simp only [GV.expIn] at h
    simp only [pv, hw, Bool.and_false, Bool.false_eq_true, if_false]; exact pvF_exp_ni fs h
  | .sh _ fs, h => by
    have hw := (ptrSafe_not_wp hv).1
    simp only [GV.expIn] at h
    simp only [pv, hw, Bool.and_false, Bool.false_eq_true, if_false]; exact pvF_exp_ni fs h
theorem pvL_exp_ni : ∀ vs : List GV, GV.expInL vs = true → pvL td c ρ₁ true vs = pvL td c ρ₂ true vs
  | [], _ => rfl
  | v :: vs, h => by
    simp only [GV.expInL, Bool.and_eq_true] at h
    simp only [pvL, pv_exp_ni v h.1, pvL_exp_ni vs h.2]
theorem pvKV_exp_ni : ∀ kvs : List (GV × GV), GV.expInKV kvs = true → pvKV td c ρ₁ true kvs = pvKV td c ρ₂ true kvs
  | [], _ => rfl
  | (k, v) :: kvs, h => by
    simp only [GV.expInKV, Bool.and_eq_true] at h
    simp only [pvKV, pv_exp_ni k h.1.1, pv_exp_ni v h.1.2, pvKV_exp_ni kvs h.2]
theorem pvF_exp_ni : ∀ fs : List (FieldInfo × GV), GV.expInF fs = true → pvF td c ρ₁ true fs = pvF td c ρ₂ true fs
  | [], _ => rfl
  | (fi, v) :: fs, h => by
    simp only [GV.expInF, Bool.and_eq_true, Bool.or_eq_true] at h
    rcases h.1 with ⟨he, hv'⟩ | hn
    · simp only [pvF, he, Bool.and_self, pv_exp_ni v hv', pvF_exp_ni fs h.2]
    · simp only [pvF, pv_noOpq td c ρ₁ ρ₂ v false (true && fi.exported) hn, pvF_exp_ni fs h.2]
end

theorem pa_exp_ni (v0 : GV) (h : v0.dyn.expIn = true) : pa td c ρ₁ v0 = pa td c ρ₂ v0 := by
  have hw := (ptrSafe_not_wp hv).1
  have hp := (ptrSafe_not_wp hv).2
  have hpv := ptrSafe_pointer hv
  unfold pa
  simp only [hw, hp, Bool.false_and, Bool.false_eq_true, if_false]
  by_cases hT : (c.verb == 'T') = true
  · simp only [hT, if_true]
  · simp only [hT]
    generalize v0.dyn = v at h ⊢
    cases v with
    | opq i => exact opq_leaf_ni hc hF c hw ρ₁ ρ₂ false hF i _ _
    | ptr w =>
      simp only [GV.expIn] at h
      cases hq : w.isOpq with
      | some i =>
        have : w = .opq i := by cases w <;> simp_all [GV.isOpq]
        subst this
        simp only []
        exact opq_leaf_ni hc hF c hw ρ₁ ρ₂ true (find_mono hF) i _ _
      | none =>
        by_cases hcn : w.isContainer = true
        · simp only [pv, hq, hcn, Bool.not_true, Bool.false_and, Bool.true_and, Bool.false_eq_true, if_false, if_true]
          exact pv_exp_ni hc hF c hv ρ₁ ρ₂ w h
        · simp only [pv, hq, hcn, hpv, Bool.not_true, Bool.false_and, Bool.true_and, Bool.false_eq_true, if_false, if_true]
    | str _ => rfl
    | num _ => rfl
    | nilv => rfl
    | nilSlice => rfl
    | nilMap => rfl
    | iface v => simp only [GV.expIn] at h; simp only [pv]; exact pv_exp_ni hc hF c hv ρ₁ ρ₂ v h
    | slice vs =>
      simp only [GV.expIn] at h
      simp only [pv, Bool.not_true, Bool.false_and, Bool.false_eq_true, if_false]; exact pvL_exp_ni hc hF c hv ρ₁ ρ₂ vs h
    | array vs =>
      simp only [GV.expIn] at h
      simp only [pv, Bool.not_true, Bool.false_and, Bool.false_eq_true, if_false]; exact pvL_exp_ni hc hF c hv ρ₁ ρ₂ vs h
    | map kvs =>
      simp only [GV.expIn, Bool.and_eq_true] at h
      simp only [pv, Bool.not_true, Bool.false_and, Bool.false_eq_true, if_false]; exact pvKV_exp_ni hc hF c hv ρ₁ ρ₂ kvs h.2
    | struct fs =>
      simp only [GV.expIn] at h
      simp only [pv, Bool.not_true, Bool.false_and, Bool.false_eq_true, if_false]; exact pvF_exp_ni hc hF c hv ρ₁ ρ₂ fs h
    | tm o vv fs =>
      simp only [GV.expIn] at h
      simp only [pv, Bool.not_true, Bool.false_and, Bool.false_eq_true, if_false]; exact pvF_exp_ni hc hF c hv ρ₁ ρ₂ fs h
    | sh k fs =>
      simp only [GV.expIn] at h
      simp only [pv, Bool.not_true, Bool.false_and, Bool.false_eq_true, if_false]; exact pvF_exp_ni hc hF c hv ρ₁ ρ₂ fs h
end expNI

/-- **fmt, pointer-safe verbs, general form**: any receiver-free method table with `Format` on values, every verb in
`v d x X b o` with any flags, every operand tree in which every struct field that holds an opaque string somewhere below it is exported (pointers to structs, slices, maps,
interfaces, other pointers at any depth; maps with several entries keyed by plain values): the text does not depend on the secrets -/
theorem C14_fmt_pointer_verbs_noninterference (td : TD) (hc : td.Const) (hF : (td.find "Format" false).isSome = true)
    (c : FmtCtx) (hv : ptrSafeVerbs.contains c.verb = true) (v : GV) (h : v.dyn.expIn = true) (ρ₁ ρ₂ : Nat → String) :
    pa td c ρ₁ v = pa td c ρ₂ v :=
  pa_exp_ni hc hF c hv ρ₁ ρ₂ v h

/-- … on the regenerated method table of `configopaque.String` -/
theorem C14_fmt_pointer_verbs_noninterference_real (c : FmtCtx) (hv : ptrSafeVerbs.contains c.verb = true)
    (v : GV) (h : v.dyn.expIn = true) (ρ₁ ρ₂ : Nat → String) : pa realTD c ρ₁ v = pa realTD c ρ₂ v :=
  C14_fmt_pointer_verbs_noninterference realTD C14_methods_recv_free (by decide) c hv v h ρ₁ ρ₂

/-- non-vacuity, in the shape of the OTLP receiver configuration (`protocols::grpc` → pointer → struct holding an opaque field):
exported-only but not plain; `%v` / `%#v` / `%d` show nothing secret-dependent, `%s` does (the verb restriction is needed) -/
example :
    let cfg : GV := .ptr (.struct [({ name := "protocols" }, .struct [({ name := "grpc" }, .ptr (.struct [({ name := "tls" },
      .struct [({ name := "key_pem" }, .opq 0)])]))])])
    cfg.dyn.expIn = true ∧ cfg.plainTop = false ∧
    pa realTD { verb := 'v' } (fun _ => "s3cr3t") cfg = [] ∧ pa realTD { verb := 'v', sharpV := true } (fun _ => "s3cr3t") cfg = [] ∧
    pa realTD { verb := 's' } (fun _ => "s3cr3t") cfg = [⟨.badVerbRaw, "s3cr3t"⟩] := by decide

/-- an exported-only tree is plain as soon as it has no pointer to a non-opaque value; conversely every plain tree is
exported-only: the new class extends the old one -/
theorem C14_plain_is_exported_only : ∀ v : GV, v.plainIn = true → v.expIn = true := plainIn_expIn

end OtelVerif.C14
