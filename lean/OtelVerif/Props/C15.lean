import OtelVerif.Model.C15
/-! C15 property theorems (stub) -/
namespace OtelVerif.C15
end OtelVerif.C15
