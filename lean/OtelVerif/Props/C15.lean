import OtelVerif.Model.C15
/-!
# C15 — OTLP exporter → OTLP receiver preserves data and the meaning of failures

Property theorems only. `OtlpTables.*` is regenerated from the `switch` statements of the receiver and the two
exporters on every run, so every statement below is re-checked against what the code says now. Statements
range over **all** numeric codes / statuses / delays (no enumeration bound): finite tables are lifted to all of
`Nat` through the explicit default branches.
-/
namespace OtelVerif.C15
open OtelVerif.Gen

/-! ## the regenerated tables are the specification's tables, for every number -/

/-- otlphttpexporter `isRetryableStatusCode` = the spec's retryable response codes {429, 502, 503, 504}, for every status -/
theorem C15_http_table_total (n : Nat) : OtlpTables.httpRetryable.contains n = specHttpRetryable n := by
  simp [OtlpTables.httpRetryable, specHttpRetryable, Bool.or_assoc]

/-- otlpexporter `shouldRetry` = the spec's gRPC table, for every code, with and without RetryInfo -/
theorem C15_grpc_table_total (c : Nat) (ri : Option Nat) : shouldRetry c ri = specGrpcRetryable c ri.isSome := by
  simp [shouldRetry, specGrpcRetryable, OtlpTables.grpcRetryAlways, OtlpTables.grpcRetryIfInfo, Bool.or_assoc]

/-- receiver `GetHTTPStatusCodeFromStatus` = the documented gRPC→HTTP mapping, for every code (default branch: 500) -/
theorem C15_httpOf_total (c : Nat) : httpOf c = specHttpOf c := by
  simp only [httpOf, OtlpTables.httpOfGrpc, OtlpTables.httpOfGrpcDefault, lookupD, specHttpOf]
  repeat' split
  all_goals first | rfl | omega

/-- constants the composition rests on -/
theorem C15_gen_shape :
    OtlpTables.plainCode = 14 ∧ OtlpTables.permanentCode = 13 ∧
    OtlpTables.successLo = 200 ∧ OtlpTables.successHi = 299 ∧
    OtlpTables.expThrottleStatuses = [429, 503] ∧ OtlpTables.recvThrottleStatuses = [429, 503] ∧
    OtlpTables.retryAfterRoundsUp = true ∧ OtlpTables.errorHandlerKeepsStatus = true ∧
    OtlpTables.methodStatus = 405 ∧ OtlpTables.contentTypeStatus = 415 ∧
    OtlpTables.unmarshalStatus = 400 ∧ OtlpTables.readBodyStatus = 400 ∧
    -- the stages in front of the handlers (confighttp / configgrpc): statuses, and `ToServer` wraps decompressor → max-body → auth,
    -- i.e. the authenticator runs first, as `httpFront` has it
    OtlpTables.authStatusHttp = 401 ∧ OtlpTables.encodingStatus = 400 ∧ OtlpTables.authCodeGrpc = 16 ∧
    OtlpTables.authOutermost = true := by decide

/-- the sender's inverse table sends each retryable HTTP status back to a retryable gRPC code and each
non-retryable one to a non-retryable code: the error the exporter *returns* means what the wire said -/
theorem C15_inverse_table_consistent (n : Nat) :
    specGrpcRetryable (lookupD OtlpTables.grpcOfHttp OtlpTables.grpcOfHttpDefault n) true = specHttpRetryable n := by
  simp only [OtlpTables.grpcOfHttp, OtlpTables.grpcOfHttpDefault, lookupD, specHttpRetryable, specGrpcRetryable]
  repeat' split
  all_goals simp_all

/-! ## the sender classifies what it receives exactly as the specification prescribes -/

theorem C15_exporter_matches_spec_grpc (w : WireGrpc) : expGrpc w = specGrpc w := by
  unfold expGrpc specGrpc
  rw [C15_grpc_table_total]
  by_cases h0 : w.code = 0
  · simp [h0]
  · simp only [h0, if_false]
    cases hr : specGrpcRetryable w.code w.retry.isSome
    · simp
    · cases w.retry with
      | none => simp
      | some d => by_cases hd : d = 0 <;> simp [hd]

theorem C15_exporter_matches_spec_http (w : WireHttp) : expHttp w = specHttp w := by
  have hs := C15_gen_shape
  unfold expHttp specHttp
  rw [C15_http_table_total, hs.2.2.1, hs.2.2.2.1, hs.2.2.2.2.1]
  by_cases h2 : 200 ≤ w.status ∧ w.status ≤ 299
  · simp [h2]
  · simp only [h2, if_false]
    cases hr : specHttpRetryable w.status
    · simp
    · simp only [Bool.not_true, Bool.false_eq_true, if_false]
      by_cases ht : w.status = 429 ∨ w.status = 503
      · have : [429, 503].contains w.status = true := by
          cases ht with
          | inl h => simp [h]
          | inr h => simp [h]
        simp [this, ht]
      · have : [429, 503].contains w.status = false := by
          simp only [not_or] at ht
          simp [ht.1, ht.2]
        simp [this, ht]

/-! ## what the receiver puts on the wire -/

/-- **Status mapping.** An explicit status is reported with that status (gRPC: same code and RetryInfo;
HTTP: Status body with that code under the mapped HTTP status); any other permanent error with a
non-retryable status, any other error with a retryable one — on both transports. -/
theorem C15_status_mapping :
    (∀ c ri, recvGrpc (.status c ri) = ⟨c, ri⟩) ∧
    (∀ c ri, (recvHttp (.status c ri)).bodyCode = c ∧ (recvHttp (.status c ri)).status = specHttpOf c) ∧
    specGrpcRetryable (recvGrpc (.plain true)).code (recvGrpc (.plain true)).retry.isSome = false ∧
    specHttpRetryable (recvHttp (.plain true)).status = false ∧
    specGrpcRetryable (recvGrpc (.plain false)).code (recvGrpc (.plain false)).retry.isSome = true ∧
    specHttpRetryable (recvHttp (.plain false)).status = true := by
  refine ⟨fun c ri => rfl, fun c ri => ⟨rfl, ?_⟩, by decide, by decide, by decide, by decide⟩
  show httpOf c = specHttpOf c
  exact C15_httpOf_total c

theorem specHttpOf_not_success (c : Nat) : ¬ (200 ≤ specHttpOf c ∧ specHttpOf c ≤ 299) := by
  unfold specHttpOf
  repeat' split
  all_goals omega

/-- **Success iff accepted**, gRPC: the sender sees success exactly when the consumer returned nil -/
theorem C15_success_iff_grpc (o : Outcome) (h : o.wf) : expGrpc (recvGrpc o) = .success ↔ o = .ok := by
  rw [C15_exporter_matches_spec_grpc]
  cases o with
  | ok => simp [recvGrpc, recvStatus, specGrpc]
  | plain p => cases p <;> decide
  | status c ri =>
    have hc : c ≠ 0 := h
    simp only [recvGrpc, recvStatus, specGrpc, hc, if_false]
    constructor
    · intro hv
      cases hr : specGrpcRetryable c ri.isSome <;> simp [hr] at hv
      cases ri with
      | none => simp at hv
      | some d => by_cases hd : d = 0 <;> simp [hd] at hv
    · intro hv; cases hv

/-- **Success iff accepted**, HTTP -/
theorem C15_success_iff_http (o : Outcome) : expHttp (recvHttp o) = .success ↔ o = .ok := by
  rw [C15_exporter_matches_spec_http]
  cases o with
  | ok => simp [recvHttp, recvStatus, specHttp]
  | plain p => cases p <;> decide
  | status c ri =>
    have hns := specHttpOf_not_success c
    simp only [recvHttp, recvStatus, specHttp, C15_httpOf_total, hns, if_false]
    constructor
    · intro hv
      cases hr : specHttpRetryable (specHttpOf c)
      · simp [hr] at hv
      · simp only [hr, Bool.not_true, Bool.false_eq_true, if_false] at hv
        split at hv
        · split at hv <;> cases hv
        · cases hv
    · intro hv; cases hv

/-! ## the hop commutes: sender verdict = meaning of the consumer's outcome -/

/-- what a consumer outcome means to a gRPC sender, by the specification's gRPC table -/
def meaningGrpc : Outcome → Verdict
  | .ok => .success
  | .plain true => .permanent
  | .plain false => .retryable
  | .status c ri => specGrpc ⟨c, ri⟩

/-- what it means to an HTTP sender: the gRPC code's class, where RESOURCE_EXHAUSTED is always retryable
(HTTP 429 is retryable unconditionally in the spec's HTTP table), and a requested delay is carried in whole
seconds, rounded up -/
def meaningHttp : Outcome → Verdict
  | .ok => .success
  | .plain true => .permanent
  | .plain false => .retryable
  | .status c ri =>
    if specGrpcRetryable c true then
      match ri with
      | some d => .throttle ((d + (nsPerSec - 1)) / nsPerSec * nsPerSec)
      | none => .retryable
    else .permanent

theorem C15_commutes_grpc (o : Outcome) (h : o.wf) : expGrpc (recvGrpc o) = meaningGrpc o := by
  rw [C15_exporter_matches_spec_grpc]
  cases o with
  | ok => rfl
  | plain p => cases p <;> decide
  | status c ri => rfl

theorem specHttpOf_class (c : Nat) :
    (specGrpcRetryable c true = true → specHttpOf c = 429 ∨ specHttpOf c = 503) ∧
    (specGrpcRetryable c true = false → specHttpRetryable (specHttpOf c) = false) := by
  by_cases h1 : c = 1 ∨ c = 4 ∨ c = 10 ∨ c = 11 ∨ c = 14 ∨ c = 15
  · have : specHttpOf c = 503 := by simp [specHttpOf, h1]
    rw [this]
    have ht : specGrpcRetryable c true = true := by
      rcases h1 with h | h | h | h | h | h <;> simp [specGrpcRetryable, h]
    exact ⟨fun _ => Or.inr rfl, fun hf => by rw [ht] at hf; cases hf⟩
  · by_cases h8 : c = 8
    · subst h8; decide
    · have hf : specGrpcRetryable c true = false := by
        simp only [not_or] at h1
        simp [specGrpcRetryable, h1.1, h1.2.1, h1.2.2.1, h1.2.2.2.1, h1.2.2.2.2.1, h1.2.2.2.2.2, h8]
      refine ⟨fun h => (by rw [hf] at h; cases h), fun _ => ?_⟩
      simp only [specHttpOf, h1, h8, if_false]
      repeat' split
      all_goals decide

theorem C15_commutes_http (o : Outcome) : expHttp (recvHttp o) = meaningHttp o := by
  rw [C15_exporter_matches_spec_http]
  have hs := C15_gen_shape
  cases o with
  | ok => rfl
  | plain p => cases p <;> decide
  | status c ri =>
    have hns := specHttpOf_not_success c
    have hcl := specHttpOf_class c
    simp only [recvHttp, recvStatus, specHttp, meaningHttp, C15_httpOf_total, hns, if_false, hs.2.2.2.2.2.1]
    cases hr : specGrpcRetryable c true
    · simp [hcl.2 hr]
    · have h49 := hcl.1 hr
      have hre : specHttpRetryable (specHttpOf c) = true := by
        cases h49 with
        | inl h => simp [h, specHttpRetryable]
        | inr h => simp [h, specHttpRetryable]
      have hcon : [429, 503].contains (specHttpOf c) = true := by
        cases h49 with
        | inl h => simp [h]
        | inr h => simp [h]
      simp only [hre, Bool.not_true, Bool.false_eq_true, if_false, h49, if_true, hcon]
      cases ri with
      | none => rfl
      | some d => simp [secondsOf, hs.2.2.2.2.2.2.1]

/-- **Throttle delay, HTTP.** Whatever delay the consumer asked for, an HTTP sender that is told to throttle
waits at least that long (whole-second `Retry-After`, rounded up). Does not build on a tree that truncates. -/
theorem C15_throttle_delay_http (c d d' : Nat) (h : expHttp (recvHttp (.status c (some d))) = .throttle d') : d ≤ d' := by
  rw [C15_commutes_http] at h
  simp only [meaningHttp] at h
  split at h
  · simp only [Verdict.throttle.injEq] at h
    subst h
    simp only [nsPerSec]
    omega
  · cases h

/-- … and no more than the header's granularity allows: strictly less than one second above the requested delay. Together with
`C15_throttle_delay_http` this pins the HTTP delay to "the requested delay rounded up to whole seconds" independently of how
`meaningHttp` is written. -/
theorem C15_throttle_delay_http_tight (c d d' : Nat) (h : expHttp (recvHttp (.status c (some d))) = .throttle d') :
    d' < d + 1000000000 := by
  rw [C15_commutes_http] at h
  simp only [meaningHttp] at h
  split at h
  · simp only [Verdict.throttle.injEq] at h
    subst h
    simp only [nsPerSec]
    omega
  · cases h

/-- **Throttle delay, gRPC.** RetryInfo travels as is: the sender waits exactly the requested delay. -/
theorem C15_throttle_delay_grpc (c d d' : Nat) (h : expGrpc (recvGrpc (.status c (some d))) = .throttle d') : d' = d := by
  rw [C15_exporter_matches_spec_grpc] at h
  simp only [recvGrpc, recvStatus, specGrpc] at h
  simp only [Option.isSome_some] at h
  by_cases h0 : c = 0
  · simp [h0] at h
  · cases hr : specGrpcRetryable c true
    · simp [h0, hr] at h
    · by_cases hd : d = 0
      · simp [h0, hr, hd] at h
      · simp [h0, hr, hd] at h; exact h.symm

/-- A requested non-zero delay on a retryable status is never silently dropped: the verdict is a throttle. -/
theorem C15_requested_delay_honoured (c d : Nat) (hc : c ≠ 0) (hd : d ≠ 0) (hr : specGrpcRetryable c true = true) :
    expGrpc (recvGrpc (.status c (some d))) = .throttle d ∧
    ∃ d', expHttp (recvHttp (.status c (some d))) = .throttle d' ∧ d ≤ d' := by
  constructor
  · rw [C15_exporter_matches_spec_grpc]
    simp [recvGrpc, recvStatus, specGrpc, hc, hd, hr]
  · rw [C15_commutes_http]
    simp only [meaningHttp, hr, if_true]
    exact ⟨_, rfl, by simp only [nsPerSec]; omega⟩

/-- Both transports agree on whether an outcome is retryable — except RESOURCE_EXHAUSTED without RetryInfo,
which the spec's gRPC table makes permanent and its HTTP table (429) retryable. -/
theorem C15_transports_agree_partial (o : Outcome) (h : o.wf) (hx : o ≠ .status 8 none) :
    (expGrpc (recvGrpc o)).isRetry = (expHttp (recvHttp o)).isRetry := by
  rw [C15_commutes_grpc o h, C15_commutes_http]
  cases o with
  | ok => rfl
  | plain p => cases p <;> rfl
  | status c ri =>
    have hc : c ≠ 0 := h
    simp only [meaningGrpc, meaningHttp, specGrpc, hc, if_false]
    cases ri with
    | none =>
      have h8 : c ≠ 8 := by intro h8; apply hx; rw [h8]
      have : specGrpcRetryable c true = specGrpcRetryable c false := by
        simp [specGrpcRetryable, h8]
      simp only [Option.isSome_none, this]
      cases specGrpcRetryable c false <;> simp [Verdict.isRetry]
    | some d =>
      simp only [Option.isSome_some]
      cases specGrpcRetryable c true
      · simp [Verdict.isRetry]
      · by_cases hd : d = 0 <;> simp [hd, Verdict.isRetry]

/-- "a failure means the same thing on both sides of the hop", read ACROSS transports: the same consumer outcome is retried by a
gRPC sender iff it is retried by an HTTP sender -/
def C15_transports_agree_full : Prop :=
  ∀ o : Outcome, o.wf → (expGrpc (recvGrpc o)).isRetry = (expHttp (recvHttp o)).isRetry

/-- (OBSERVATION, spec-induced — not a finding.) … is false, and necessarily so: the OTLP specification's two tables disagree on this one outcome. OTLP/gRPC: RESOURCE_EXHAUSTED is
retryable "only if the server signals that recovery is possible" (RetryInfo); OTLP/HTTP: 429 is in the list of retryable response
codes without condition. The receiver maps RESOURCE_EXHAUSTED to 429 (its documented mapping), each sender follows its own table
(`C15_exporter_matches_spec_grpc/http`), so a consumer's RESOURCE_EXHAUSTED without RetryInfo is permanent over gRPC and retried over
HTTP. Spec-induced, not a deviation of the code: the property's clause holds per transport table (`C15_commutes_grpc/http`). -/
theorem C15_transports_agree_full_fails : ¬ C15_transports_agree_full := by
  intro h
  have := h (.status 8 none) (by decide)
  revert this
  decide

/-- the exception is real and goes the way the two spec tables say -/
theorem C15_resource_exhausted_without_info :
    expGrpc (recvGrpc (.status 8 none)) = .permanent ∧ expHttp (recvHttp (.status 8 none)) = .retryable := by decide

/-! ## the senders against any server -/

theorem wrap64_id {x : Int} (h1 : -9223372036854775808 ≤ x) (h2 : x < 9223372036854775808) : wrap64 x = x := by
  unfold wrap64
  omega

/-- (lemma, not a property theorem) the HTTP exporter equals its own normal form `specHttpX`, which carries the two
implementation traits; the statement against the trait-free specification is `C15_expHttpX_matches_spec_partial` -/
theorem expHttpX_normal_form (r : HttpResp) : expHttpX r = specHttpX r := by
  have hs := C15_gen_shape
  unfold expHttpX specHttpX
  rw [C15_http_table_total, hs.2.2.1, hs.2.2.2.1, hs.2.2.2.2.1]
  by_cases h2 : 200 ≤ r.status ∧ r.status ≤ 299
  · simp only [h2, and_self, if_true]
    cases r.body <;> simp
  · simp only [h2, if_false]
    cases hr : specHttpRetryable r.status
    · simp
    · simp only [Bool.not_true, Bool.false_eq_true, if_false]
      by_cases ht : r.status = 429 ∨ r.status = 503
      · have : [429, 503].contains r.status = true := by
          cases ht with
          | inl h => simp [h]
          | inr h => simp [h]
        simp only [this, ht, if_true]
        cases r.ra <;> rfl
      · have : [429, 503].contains r.status = false := by
          simp only [not_or] at ht
          simp [ht.1, ht.2]
        simp [this, ht]

/-- **The HTTP exporter follows the specification** `specHttpXPure` (no implementation trait on the spec side) for every status,
every `Retry-After` form and every body inside `inDomain`. Partial: outside the domain the code deviates, see the two witnesses. -/
theorem C15_expHttpX_matches_spec_partial (r : HttpResp) (hd : r.inDomain = true) : expHttpX r = specHttpXPure r := by
  rw [expHttpX_normal_form]
  obtain ⟨st, ra, b⟩ := r
  simp only [HttpResp.inDomain, Bool.and_eq_true, Bool.or_eq_true, Bool.not_eq_true', bne_iff_ne, ne_eq] at hd
  obtain ⟨hb, hra⟩ := hd
  unfold specHttpX specHttpXPure
  by_cases h2 : 200 ≤ st ∧ st ≤ 299
  · have : b ≠ .undecodable := by
      rcases hb with hb | hb
      · simp [h2.1, h2.2] at hb
      · exact hb
    simp [h2, this]
  · simp only [h2, if_false]
    cases ra with
    | seconds s =>
      simp only [Bool.and_eq_true, decide_eq_true_eq] at hra
      have : wrap64 (s * nsPerSec) = s * nsPerSec := by
        apply wrap64_id <;> simp only [nsPerSec] <;> omega
      simp [this]
    | _ => rfl

/-- the unrestricted statement … -/
def C15_expHttpX_matches_spec_full : Prop := ∀ r : HttpResp, expHttpX r = specHttpXPure r

/-- (OBSERVATION, outside the property's quantifier — the real receiver never sends this.) … is false for the code as it is, witness 1: `Retry-After: 9223372037` on a 503 — `time.Duration(seconds)*time.Second`
wraps to a negative delay instead of ≈ 292 years (observed on the real exporter: fake-server corpus case) -/
theorem C15_expHttpX_matches_spec_full_fails : ¬ C15_expHttpX_matches_spec_full := by
  intro h
  have := h ⟨503, .seconds 9223372037, .empty⟩
  revert this
  decide

/-- (OBSERVATION, outside the property's quantifier.) witness 2: a 200 whose body is declared protobuf/JSON but does not decode is returned as a plain error, i.e. the batch is
RETRIED although the server acknowledged it (the spec: 200 = success) -/
theorem C15_undecodable_2xx_is_retried :
    expHttpX ⟨200, .absent, .undecodable⟩ = .retryable ∧ specHttpXPure ⟨200, .absent, .undecodable⟩ = .success := by decide

/-- the classification never depends on the body outside 2xx, nor on `Retry-After` outside 429/503 -/
theorem C15_expHttpX_irrelevant_inputs (st : Nat) (ra ra' : RetryAfter) (b b' : SuccessBody) :
    (¬ (200 ≤ st ∧ st ≤ 299) → expHttpX ⟨st, ra, b⟩ = expHttpX ⟨st, ra, b'⟩) ∧
    (st ≠ 429 → st ≠ 503 → expHttpX ⟨st, ra, b⟩ = expHttpX ⟨st, ra', b⟩) := by
  rw [expHttpX_normal_form, expHttpX_normal_form, expHttpX_normal_form]
  constructor
  · intro h; simp [specHttpX, h]
  · intro h1 h2; simp [specHttpX, h1, h2]

/-- partial success (or any decodable / ignorable 2xx body) is success -/
theorem C15_partial_success_is_success (st : Nat) (ra : RetryAfter) (b : SuccessBody)
    (h : 200 ≤ st ∧ st ≤ 299) (hb : b ≠ .undecodable) : expHttpX ⟨st, ra, b⟩ = .success := by
  rw [expHttpX_normal_form]
  simp [specHttpX, h, hb]


/-- **Retry-After honoured, exactly** for every delay-seconds value that fits a `time.Duration`
(|s| ≤ 9 223 372 036 s ≈ 292 years), and for every HTTP-date; (partial: beyond that range
`time.Duration(seconds)*time.Second` wraps — see `C15_retry_after_overflow_wraps`). -/
theorem C15_retry_after_honoured_partial (st : Nat) (b : SuccessBody) (hst : st = 429 ∨ st = 503) :
    (∀ s : Int, -9223372036 ≤ s → s ≤ 9223372036 → expHttpX ⟨st, .seconds s, b⟩ = .throttle (s * 1000000000)) ∧
    (∀ d : Int, expHttpX ⟨st, .date d, b⟩ = .throttle d) ∧
    expHttpX ⟨st, .absent, b⟩ = .retryable ∧ expHttpX ⟨st, .unusable, b⟩ = .retryable := by
  have hns : ¬ (200 ≤ st ∧ st ≤ 299) := by cases hst <;> omega
  have hre : specHttpRetryable st = true := by cases hst with
    | inl h => simp [h, specHttpRetryable]
    | inr h => simp [h, specHttpRetryable]
  refine ⟨?_, ?_, ?_, ?_⟩
  · intro s h1 h2
    rw [expHttpX_normal_form]
    simp only [specHttpX, hns, if_false, hre, Bool.not_true, Bool.false_eq_true, hst, if_true, nsPerSec]
    rw [wrap64_id (by omega) (by omega)]
    simp
  all_goals
    intros
    rw [expHttpX_normal_form]
    simp [specHttpX, hns, hre, hst]

/-- the full statement (every integer) is false for the code as it is: a huge delay-seconds value wraps -/
theorem C15_retry_after_overflow_wraps :
    expHttpX ⟨503, .seconds 9223372037, .empty⟩ = .throttle (-9223372036709551616) := by decide

/-- on the wires the real receiver produces the complete function agrees with `expHttp` -/
theorem C15_expHttpX_extends (w : WireHttp) (b : SuccessBody) (hb : b ≠ .undecodable)
    (hs : ∀ s, w.retryAfter = some s → s ≤ 9223372036) :
    expHttpX ⟨w.status, (match w.retryAfter with | some s => .seconds s | none => .absent), b⟩ = (expHttp w).toI := by
  have hg := C15_gen_shape
  unfold expHttpX expHttp
  by_cases h2 : OtlpTables.successLo ≤ w.status ∧ OtlpTables.successHi ≥ w.status
  · have h2' : OtlpTables.successLo ≤ w.status ∧ w.status ≤ OtlpTables.successHi := h2
    cases b <;> simp_all [Verdict.toI]
  · have h2' : ¬ (OtlpTables.successLo ≤ w.status ∧ w.status ≤ OtlpTables.successHi) := h2
    simp only [h2', if_false]
    cases OtlpTables.httpRetryable.contains w.status
    · simp [Verdict.toI]
    · simp only [Bool.not_true, Bool.false_eq_true, if_false]
      cases OtlpTables.expThrottleStatuses.contains w.status
      · simp [Verdict.toI]
      · simp only [if_true]
        cases hra : w.retryAfter with
        | none => simp [Verdict.toI]
        | some s =>
          have := hs s hra
          simp only [Verdict.toI, nsPerSec, VerdictI.throttle.injEq]
          rw [wrap64_id (by omega) (by omega)]
          simp

/-- the gRPC exporter on every code and every signed RetryInfo delay: retryability by the spec table, a
non-zero delay (of either sign) is handed on unchanged -/
theorem C15_expGrpcX_total (c : Nat) (ri : Option Int) : expGrpcX c ri = specGrpcX c ri := by
  unfold specGrpcX
  unfold expGrpcX
  rw [C15_grpc_table_total]
  by_cases h0 : c = 0
  · simp [h0]
  · simp only [h0, if_false, Option.isSome_map]
    cases specGrpcRetryable c ri.isSome
    · simp
    · cases ri with
      | none => simp
      | some d => by_cases hd : d = 0 <;> simp [hd]

/-! ## requests that must not reach the consumer -/

/-- **Client errors, HTTP.** Unauthenticated, badly encoded, unknown path, wrong method, unsupported media
type, undecodable body: a 4xx status, the consumer is not invoked, the sender will not retry. -/
theorem C15_client_errors_http (r : HttpReq) (sink : Outcome)
    (h : r.authOk = some false ∨ r.encodingOk = false ∨ r.pathKnown = false ∨ r.isPost = false ∨
         r.ctype = .other ∨ r.bodyReads = false ∨ r.bodyDecodes = false) :
    400 ≤ (httpFront r sink).1.status ∧ (httpFront r sink).1.status ≤ 499 ∧ (httpFront r sink).2 = 0 ∧
      expHttp (httpFront r sink).1 = .permanent := by
  have hs := C15_gen_shape
  have hk : ∀ ct st, errorHandlerStatus ct st = st := by
    intro ct st; simp [errorHandlerStatus, hs.2.2.2.2.2.2.2.1]
  unfold httpFront
  by_cases h1 : r.authOk = some false
  · simp only [h1, if_true, hk]; decide
  · by_cases h2 : r.encodingOk = false
    · simp only [h1, if_false, h2, Bool.not_false, if_true, hk]; decide
    · by_cases h3 : r.pathKnown = false
      · simp only [h1, h2, h3, if_false, Bool.not_false, if_true]
        simp only [Bool.not_eq_false] at h2
        simp only [h2, Bool.not_true, Bool.false_eq_true, if_false]; decide
      · by_cases h4 : r.isPost = false
        · simp only [Bool.not_eq_false] at h2 h3
          simp only [h1, h2, h3, h4, Bool.not_true, Bool.not_false, Bool.false_eq_true, if_false, if_true]; decide
        · by_cases h5 : r.ctype = .other
          · simp only [Bool.not_eq_false] at h2 h3 h4
            simp only [h1, h2, h3, h4, h5, Bool.not_true, Bool.false_eq_true, if_false, if_true]; decide
          · by_cases h7 : r.bodyReads = false
            · simp only [Bool.not_eq_false] at h2 h3 h4
              simp only [h1, h2, h3, h4, h5, h7, Bool.not_true, Bool.not_false, Bool.false_eq_true, if_false, if_true]; decide
            · have h6 : r.bodyDecodes = false := by
                rcases h with h | h | h | h | h | h | h
                · exact absurd h h1
                · exact absurd h h2
                · exact absurd h h3
                · exact absurd h h4
                · exact absurd h h5
                · exact absurd h h7
                · exact h
              simp only [Bool.not_eq_false] at h2 h3 h4 h7
              simp only [h1, h2, h3, h4, h5, h6, h7, Bool.not_true, Bool.not_false, Bool.false_eq_true, if_false, if_true]; decide

/-- **Client errors, gRPC** (partial: the statuses of the stages grpc-go handles itself are the library's choice — unknown
method / unknown `grpc-encoding` → `Unimplemented`, oversized message → `ResourceExhausted`, undecodable frame → `Internal`, which is
non-retryable but not a "client error" code; an unauthenticated call gets `Unauthenticated` from configgrpc's interceptor).
Whatever the stage: not OK, the consumer is not invoked, the sender will not retry. -/
theorem C15_client_errors_grpc_partial (r : GrpcReq) (sink : Outcome)
    (h : r.methodKnown = false ∨ r.encodingKnown = false ∨ r.fitsMaxRecv = false ∨ r.bodyDecodes = false ∨ r.authOk = some false) :
    (grpcFront r sink).1.code ≠ 0 ∧ (grpcFront r sink).2 = 0 ∧ expGrpc (grpcFront r sink).1 = .permanent ∧
      (r.methodKnown = true → r.encodingKnown = true → r.fitsMaxRecv = true → r.bodyDecodes = true → (grpcFront r sink).1.code = 16) := by
  obtain ⟨a, bd, n, mk, ek, fm⟩ := r
  simp only at h ⊢
  unfold grpcFront
  cases mk <;> cases ek <;> cases fm <;> cases bd <;> simp only [Bool.not_true, Bool.not_false, Bool.false_eq_true, if_false, if_true] <;>
    first
    | decide
    | (have ha : a = some false := by simpa using h
       subst ha
       simp only [if_true]
       decide)

/-- **Empty acknowledgement.** A well-formed request with no items is acknowledged as success without
invoking the consumer, whatever the consumer would have answered — on both transports. -/
theorem C15_empty_ack (sink : Outcome) (auth : Option Bool) (ct : CType) (ha : auth ≠ some false) (hct : ct ≠ .other) :
    httpFront ⟨auth, true, true, true, ct, true, true, 0⟩ sink = (⟨200, none, 0⟩, 0) ∧
    expHttp (httpFront ⟨auth, true, true, true, ct, true, true, 0⟩ sink).1 = .success ∧
    grpcFront ⟨auth, true, 0, true, true, true⟩ sink = (⟨0, none⟩, 0) ∧
    expGrpc (grpcFront ⟨auth, true, 0, true, true, true⟩ sink).1 = .success := by
  have e1 : httpFront ⟨auth, true, true, true, ct, true, true, 0⟩ sink = (⟨200, none, 0⟩, 0) := by
    simp [httpFront, ha, hct, receive, recvHttp, recvStatus]
  have e2 : grpcFront ⟨auth, true, 0, true, true, true⟩ sink = (⟨0, none⟩, 0) := by
    simp [grpcFront, ha, receive, recvGrpc, recvStatus]
  refine ⟨e1, ?_, e2, ?_⟩
  · rw [e1]; decide
  · rw [e2]; decide

/-- A well-formed request with items invokes the consumer exactly once and reports its outcome. -/
theorem C15_consumer_once (sink : Outcome) (auth : Option Bool) (ct : CType) (n : Nat)
    (ha : auth ≠ some false) (hct : ct ≠ .other) (hn : n ≠ 0) :
    httpFront ⟨auth, true, true, true, ct, true, true, n⟩ sink = (recvHttp sink, 1) ∧
    grpcFront ⟨auth, true, n, true, true, true⟩ sink = (recvGrpc sink, 1) := by
  constructor
  · simp [httpFront, ha, hct, receive, hn]
  · simp [grpcFront, ha, receive, hn]

/-! ## payload -/

/-- (lemma, not counted: the generic shape of the payload argument.) The counted payload theorems are `C15_payload_pb_partial` and
`C15_payload_json_partial` in `Lemmas/C15Payload.lean` (a module of this check): they instantiate the marshalling half with C08's proved
`C08_wrappers_otlp_api` for the regenerated schema and keep the transport's laws as named hypotheses. -/
theorem payload_composition {α β : Type} (encode : α → β) (decode : β → Option α) (compress : β → β) (decompress : β → Option β)
    (enc_law : ∀ v, decode (encode v) = some v) (comp_law : ∀ b, decompress (compress b) = some b) (v : α) :
    (decompress (compress (encode v))).bind decode = some v := by
  rw [comp_law, Option.bind_some, enc_law]

/-! ## the search oracle -/

theorem firstFail_none {l : List (Bool × String)} (h : firstFail l = none) : ∀ p ∈ l, p.1 = false := by
  induction l with
  | nil => intro p hp; cases hp
  | cons q r ih =>
    obtain ⟨c, s⟩ := q
    cases c with
    | true => simp [firstFail] at h
    | false =>
      simp only [firstFail, Bool.false_eq_true, if_false] at h
      intro p hp
      cases hp with
      | head => rfl
      | tail _ hp => exact ih h p hp

/-- what `hopCheck` guarantees when it accepts a hop: the property's clauses, stated without any table of the code -/
def HopOk (x : Hop) : Prop :=
  if x.authFail then
    x.calls = 0 ∧ x.verdict = .permanent ∧
    (match x.transport with
     | .grpc => x.wireCode = 16
     | .http => 400 ≤ x.httpStatus ∧ x.httpStatus ≤ 499)
  else
    x.calls = (if x.items = 0 then 0 else 1) ∧ x.payloadEq = true ∧
    (x.verdict = .success ↔ x.effective = .ok) ∧
    -- an explicit status is reported as such: same code, on HTTP under the status the table names, RetryInfo untouched over gRPC
    (∀ c ri, x.effective = .status c ri →
      x.wireCode = c ∧ (x.transport = .http → x.httpStatus = specHttpOf c) ∧ (x.transport = .grpc → x.wireRetry = ri)) ∧
    -- any other permanent error travels as a non-retryable status, any other error as a retryable one
    (x.effective = .plain true → x.wireRetryable = false) ∧ (x.effective = .plain false → x.wireRetryable = true) ∧
    x.verdict = x.want ∧
    -- a requested delay is never shortened and never dropped
    (∀ c d d', x.effective = .status c (some d) → x.verdict = .throttle d' → d ≤ d') ∧
    (∀ c d, x.effective = .status c (some d) → x.verdict = .retryable → d = 0)

/-- the driver's oracle accepts only hops on which EVERY clause of the property holds (all eleven clauses of `hopClauses`, both branches) -/
theorem C15_check_sound (x : Hop) (h : hopCheck x = none) : HopOk x := by
  have hall := firstFail_none h
  unfold HopOk
  by_cases ha : x.authFail = true
  · simp only [ha, if_true]
    simp only [hopClauses, ha, if_true] at hall
    simp only [List.mem_cons, List.mem_nil_iff, or_false, forall_eq_or_imp, forall_eq] at hall
    obtain ⟨h1, _, _, h4, h5⟩ := hall
    refine ⟨by simpa using h1, by simpa using h5, ?_⟩
    cases ht : x.transport with
    | grpc => simp only [ht] at h4 ⊢; simpa using h4
    | http =>
      simp only [ht] at h4 ⊢
      simp only [Bool.or_eq_false_iff, decide_eq_false_iff_not, Nat.not_lt] at h4
      exact h4
  · simp only [ha]
    simp only [hopClauses, ha] at hall
    simp only [Bool.false_eq_true, if_false, List.mem_cons, List.mem_nil_iff, or_false, forall_eq_or_imp, forall_eq] at hall
    obtain ⟨h1, h2, h3, h4, h5, h6, h7, h8, h9, h10, h11⟩ := hall
    refine ⟨by simpa using h1, by simpa using h2, ?_, ?_, ?_, ?_, by simpa using h9, ?_, ?_⟩
    · simp only [bne_eq_false_iff_eq, decide_eq_decide] at h3
      exact h3
    · intro c ri he
      rw [he] at h4 h5 h6
      refine ⟨by simpa using h4, ?_, ?_⟩
      · intro ht
        simp only [ht] at h5
        simpa using h5
      · intro ht
        simp only [ht] at h6
        simpa using h6
    · intro he
      rw [he] at h7
      simpa using h7
    · intro he
      rw [he] at h8
      simpa using h8
    · intro c d d' he hv
      rw [he, hv] at h10
      simp only [decide_eq_false_iff_not, Nat.not_lt] at h10
      exact h10
    · intro c d he hv
      rw [he, hv] at h11
      simpa using h11

/-- the strengthened statement is not vacuous: the oracle accepts a real-looking hop of every kind -/
example : hopCheck ⟨.http, 2, .plain true, 13, 500, none, .permanent, 1, true, false⟩ = none ∧
    hopCheck ⟨.grpc, 2, .status 8 (some 0), 8, 0, some 0, .retryable, 1, true, false⟩ = none ∧
    hopCheck ⟨.http, 3, .ok, 16, 401, none, .permanent, 0, true, true⟩ = none := by decide

/-! ## non-vacuity -/

example : expHttp (recvHttp (.status 14 (some 500000000))) = .throttle 1000000000 := by decide
example : expGrpc (recvGrpc (.status 14 (some 500000000))) = .throttle 500000000 := by decide
example : expHttp (recvHttp (.status 3 (some 500000000))) = .permanent := by decide
example : expHttp (recvHttp (.status 99 none)) = .permanent ∧ (recvHttp (.status 99 none)).status = 500 := by decide
example : (httpFront ⟨some false, true, true, true, .other, true, true, 3⟩ (.plain false)).1.status = 401 := by decide
example : hopCheck ⟨.http, 2, .status 14 (some 500000000), 14, 503, some 0, .throttle 0, 1, true, false⟩
    = some "C15/http/retry-after-truncated" := by decide
example : hopCheck ⟨.http, 2, .status 14 (some 500000000), 14, 503, some 1, .throttle 1000000000, 1, true, false⟩ = none := by decide
example : hopCheck ⟨.grpc, 1, .plain true, 14, 0, none, .retryable, 1, true, false⟩
    = some "C15/grpc/permanent-reported-retryable" := by decide

/-! ## the error the exporter RETURNS (third encoding of the failure: Go error → status → Go error) -/

theorem httpOf_other (c : Nat) (h : c ∉ [1, 4, 10, 11, 14, 15, 8, 3, 16, 7, 12]) : httpOf c = 500 := by
  simp only [List.mem_cons, List.mem_nil_iff, or_false, not_or] at h
  simp only [httpOf, OtlpTables.httpOfGrpc, OtlpTables.httpOfGrpcDefault, lookupD]
  simp [h]

/-- (lemma) the code of the returned error as a function of the consumer's explicit code, for every number -/
theorem returnedCode_eq (c : Nat) (ri : Option Nat) :
    expHttpErrCode (recvHttp (.status c ri)) =
      if c = 1 ∨ c = 4 ∨ c = 10 ∨ c = 11 ∨ c = 14 ∨ c = 15 then 14
      else if c = 8 then 8 else if c = 3 then 3 else if c = 16 then 16 else if c = 7 then 7 else if c = 12 then 12 else 2 := by
  by_cases h : c ∈ [1, 4, 10, 11, 14, 15, 8, 3, 16, 7, 12]
  · simp only [List.mem_cons, List.mem_nil_iff, or_false] at h
    rcases h with rfl | rfl | rfl | rfl | rfl | rfl | rfl | rfl | rfl | rfl | rfl <;> rfl
  · have h5 := httpOf_other c h
    simp only [List.mem_cons, List.mem_nil_iff, or_false, not_or] at h
    have : expHttpErrCode (recvHttp (.status c ri)) = 2 := by
      simp only [expHttpErrCode, recvHttp, recvStatus, h5]
      decide
    rw [this]
    simp [h]
/-- Over gRPC the returned error carries the consumer's code itself; over HTTP exactly the codes 2, 3, 7, 8, 12, 14, 16 survive the
hop (`GetHTTPStatusCodeFromStatus` then `statusutil.NewStatusFromMsgAndHTTPCode`), the other retryable ones come back as
Unavailable and every other code as Unknown; the returned code is never OK for a failed export and its class under the gRPC
table (RetryInfo present) is the class of the consumer's own code — a collector relaying the error keeps its meaning.
Tie: `obs verdict … ecode=` on every hop. -/
theorem C15_returned_error_code (c : Nat) (ri : Option Nat) (hc : c ≠ 0) :
    expGrpcErrCode (recvGrpc (.status c ri)) = c ∧
    (expHttpErrCode (recvHttp (.status c ri)) = c ↔ c ∈ [2, 3, 7, 8, 12, 14, 16]) ∧
    expHttpErrCode (recvHttp (.status c ri)) ≠ 0 ∧
    specGrpcRetryable (expHttpErrCode (recvHttp (.status c ri))) true = specGrpcRetryable c true := by
  refine ⟨rfl, ?_⟩
  rw [returnedCode_eq]
  simp only [List.mem_cons, List.mem_nil_iff, or_false]
  by_cases h1 : c = 1 ∨ c = 4 ∨ c = 10 ∨ c = 11 ∨ c = 14 ∨ c = 15
  · rw [if_pos h1]
    refine ⟨by omega, by omega, ?_⟩
    rcases h1 with rfl | rfl | rfl | rfl | rfl | rfl <;> decide
  · rw [if_neg h1]
    simp only [not_or] at h1
    by_cases h8 : c = 8
    · subst h8; decide
    · rw [if_neg h8]
      have hf : specGrpcRetryable c true = false := by
        simp [specGrpcRetryable, h1.1, h1.2.1, h1.2.2.1, h1.2.2.2.1, h1.2.2.2.2.1, h1.2.2.2.2.2, h8]
      rw [hf]
      repeat' split
      all_goals (refine ⟨by omega, by omega, by decide⟩)

example : expHttpErrCode (recvHttp (.status 4 (some 1500000000))) = 14 ∧ expHttpErrCode (recvHttp (.status 9 none)) = 2 ∧
    expHttpErrCode (recvHttp (.plain true)) = 2 ∧ expHttpErrCode (recvHttp .ok) = 0 := by decide

end OtelVerif.C15
