import OtelVerif.Model.C16
/-!
# C16 — HTTP body compression round-trips and the decompressed-size limit holds

Property theorems only. Every `decide` over `Compression.*` is re-checked against the tables the translator
regenerates from `config/confighttp` and `config/configcompression` on every run.
All theorems quantify over every byte string, every limit, every enabled-decoder list and every compression
library (`Codec`), lawful where the round trip needs it, arbitrary (hostile) for the limit.
-/
namespace OtelVerif.C16
open OtelVerif.Gen

/-! ## tie obligations over the regenerated tables -/

/-- Every client compression type has a server decoder of the same name, and that decoder reads the format
the client's writer produces (same library on both sides; `deflate` is zlib on both sides). -/
theorem C16_client_server_names :
    ∀ w ∈ Compression.writers, resolve w.1 = some (.lib w.2) := by decide

/-- Every compressed type a configuration can name has a writer (so `ToClient` succeeds), and every
uncompressed one installs no compressor. -/
theorem C16_client_types_have_writers :
    ∀ t ∈ Compression.clientTypes, isCompressed t = true → (assoc Compression.writers t).isSome = true := by decide

/-- The default decoder list enables the identity, every available decoder and every alias; nothing in it is
without a decoder; every compressed client type is accepted by a default server. -/
theorem C16_defaults :
    "" ∈ Compression.defaultCompressionAlgorithms ∧
    (∀ d ∈ Compression.availableDecoders, d.1 ∈ Compression.defaultCompressionAlgorithms) ∧
    (∀ a ∈ Compression.aliases, a.1 ∈ Compression.defaultCompressionAlgorithms) ∧
    (∀ n ∈ Compression.defaultCompressionAlgorithms, decodable n = true) ∧
    (∀ t ∈ Compression.clientTypes, isCompressed t = true → t ∈ Compression.defaultCompressionAlgorithms) ∧
    0 < Compression.defaultMaxRequestBodySize := by decide

/-- structural facts the theorems below rest on: the wire-side limit wraps the decompressor, rejection is a
client error, no alias points at a missing decoder, no-encoding resolves to the identity, and the enable
loop does not install a nil func for an unknown name. -/
theorem C16_gen_shape :
    Compression.outerLimitOnWire = true ∧
    (400 ≤ Compression.rejectStatus ∧ Compression.rejectStatus < 500) ∧
    (∀ a ∈ Compression.aliases, avail a.2 ≠ .nilFunc) ∧
    resolve "" = some .identity ∧
    Compression.installsNilForUnknown = false := by decide

/-! ## compression levels -/

theorem level_arith (l : Int) (h : ((l = -1 ∨ l = -2 ∨ l = 0) ∨ 1 ≤ l ∧ l ≤ 9) ∨ decide (l = 0) = true) :
    decide (-2 ≤ if l = 0 then -1 else l) = true ∧ decide ((if l = 0 then -1 else l) ≤ 9) = true := by
  simp only [decide_eq_true_eq] at h ⊢
  by_cases h0 : l = 0
  · simp [h0]
  · simp only [h0, if_false]; omega

/-- **Levels.** Every level `ClientConfig.Validate` accepts (the regenerated rules of `Type.ValidateParams`, every integer) gives a
writer that exists once `ToClient` has replaced an unset level — so `compress` cannot meet the nil writer that a level outside
the library's range would produce. (The library's own range is the trusted fact `libLevelOk`; that the writer then round-trips is
the codec law, sampled by the differential at every accepted boundary level.) Breaks if `ValidateParams` is widened, if the
writer switch starts/stops passing the level, or if the unset-level replacement changes. -/
theorem C16_validated_level_constructs (t : String) (ht : t ∈ Compression.clientTypes) (hc : isCompressed t = true) (l : Int)
    (h : levelAccepted t l = true) : writerLevelOk t (effLevel l) = true := by
  simp only [Compression.clientTypes, List.mem_cons, List.mem_nil_iff, or_false] at ht
  rcases ht with rfl | rfl | rfl | rfl | rfl | rfl | rfl | rfl
  all_goals first
    | (exfalso; revert hc; decide)
    | (simp [levelAccepted, Compression.anyLevelTypes, Compression.levelRules, Compression.fallbackLevel, assoc] at h
       simp [writerLevelOk, Compression.writers, Compression.writerPassesLevel, assoc, libLevelOk, effLevel, Compression.unsetLevelBecomes]
       try exact level_arith l h)

/-- the rule is not vacuous and not everything: boundary levels on both sides -/
example : levelAccepted "gzip" (-2) = true ∧ levelAccepted "gzip" (-3) = false ∧ levelAccepted "gzip" 9 = true ∧
    levelAccepted "gzip" 10 = false ∧ levelAccepted "zstd" 100 = true ∧ levelAccepted "snappy" 0 = true ∧
    levelAccepted "snappy" 1 = false ∧ levelAccepted "lz4" (-1) = false := by decide

/-- what the theorem protects against: were level 10 accepted for gzip, no writer would exist -/
example : writerLevelOk "gzip" (effLevel 10) = false ∧ writerLevelOk "deflate" (effLevel (-3)) = false := by decide

/-! ## helper lemmas -/

theorem limitRead_le (n : Nat) (s : Stream) : (limitRead n s).data.length ≤ n := by
  unfold limitRead
  by_cases h : s.data.length ≤ n
  · simp [h]
  · simp only [h, if_false, List.length_take]; omega

theorem limitRead_of_le {n : Nat} {s : Stream} (h : s.data.length ≤ n) : limitRead n s = s := by
  simp [limitRead, h]

theorem limitRead_of_gt {n : Nat} {s : Stream} (h : n < s.data.length) : limitRead n s = ⟨s.data.take n, false⟩ := by
  have : ¬ s.data.length ≤ n := by omega
  simp [limitRead, this]

theorem assoc_mem {β : Type} {l : List (String × β)} {k : String} {v : β} (h : assoc l k = some v) : (k, v) ∈ l := by
  induction l with
  | nil => simp [assoc] at h
  | cons p rest ih =>
    obtain ⟨k', v'⟩ := p
    by_cases hk : k = k'
    · simp [assoc, hk] at h; subst hk; simp [h]
    · simp only [assoc, hk, if_false] at h; exact List.mem_cons_of_mem _ (ih h)

theorem assoc_enableOne (m : EMap) (dec name : String) :
    assoc (enableOne m dec) name =
      if name = dec then (match resolve name with | some e => some e | none => assoc m name) else assoc m name := by
  by_cases hn : name = dec
  · subst hn
    unfold enableOne resolve
    cases assoc Compression.aliases name with
    | some to => simp [assoc]
    | none =>
      by_cases hc : (Compression.installsNilForUnknown || availHas name) = true
      · simp [hc, assoc]
      · simp [hc]
  · unfold enableOne
    cases assoc Compression.aliases dec with
    | some to =>
      by_cases hc : (Compression.installsNilForUnknown || availHas dec) = true
      · simp [hc, assoc, hn]
      · simp [hc, assoc, hn]
    | none =>
      by_cases hc : (Compression.installsNilForUnknown || availHas dec) = true
      · simp [hc, assoc, hn]
      · simp [hc, hn]

theorem assoc_foldl_enable (l : List String) (m : EMap) (name : String) :
    assoc (l.foldl enableOne m) name =
      if name ∈ l then (match resolve name with | some e => some e | none => assoc m name) else assoc m name := by
  induction l generalizing m with
  | nil => simp
  | cons d rest ih =>
    rw [List.foldl_cons, ih, assoc_enableOne]
    by_cases h1 : name = d
    · subst h1
      cases hr : resolve name <;> simp
    · by_cases h2 : name ∈ rest
      · simp [h1, h2]
      · simp [h1, h2]

/-- what the server's `enabled` map holds under a name: exactly the listed names that resolve -/
theorem assoc_buildEnabled (l : List String) (name : String) :
    assoc (buildEnabled l) name = if name ∈ l then resolve name else none := by
  unfold buildEnabled
  rw [assoc_foldl_enable]
  by_cases h : name ∈ l
  · cases hr : resolve name <;> simp [h, assoc]
  · simp [h, assoc]

theorem resolve_ne_nil (name : String) : resolve name ≠ some .nilFunc := by
  have hs := C16_gen_shape
  unfold resolve
  cases ha : assoc Compression.aliases name with
  | some to =>
    have := hs.2.2.1 (name, to) (assoc_mem ha)
    simpa using this
  | none =>
    rw [hs.2.2.2.2]
    simp only [Bool.false_or]
    by_cases hv : availHas name = true
    · simp only [hv, if_true]
      unfold availHas at hv
      unfold avail
      cases hx : assoc Compression.availableDecoders name with
      | none => simp [hx] at hv
      | some o => cases o <;> simp
    · simp [hv]

theorem resolve_none_of_not_decodable {name : String} (h : decodable name = false) : resolve name = none := by
  have hs := C16_gen_shape
  unfold decodable at h
  simp only [Bool.or_eq_false_iff] at h
  unfold resolve
  cases ha : assoc Compression.aliases name with
  | some to => simp [ha] at h
  | none => simp [hs.2.2.2.2, h.1]

/-! ## the property's clauses, for all bodies / limits / lists / libraries -/

/-- **Limit.** Whatever the library does with whatever stream (lawful or hostile, intact or cut), a handler
never reads more than the configured maximum, counted after decompression. -/
theorem C16_limit (codec : String → Codec) (cfg : Cfg) (r : Request) (s : Stream)
    (h : serve codec cfg r = .handled s) : s.data.length ≤ cfg.limit := by
  have hs := C16_gen_shape
  unfold serve at h
  rw [hs.1] at h
  simp only [if_true] at h
  cases he : assoc (buildEnabled cfg.enabled) r.encoding with
  | none => simp [he] at h
  | some e =>
    cases e with
    | nilFunc => simp [he] at h
    | identity =>
      simp only [he, Outcome.handled.injEq] at h
      rw [← h]; exact limitRead_le _ _
    | lib l =>
      simp only [he] at h
      cases hd : (codec l).dec (limitRead cfg.limit r.wire) with
      | none => simp [hd] at h
      | some s' =>
        simp only [hd, Outcome.handled.injEq] at h
        rw [← h]; exact limitRead_le _ _

/-- **Reject.** An encoding that is not listed, or is listed but has no decoder behind it, is answered with
the client-error status before the handler runs (`Outcome.rejected` = base handler not invoked). -/
theorem C16_reject (codec : String → Codec) (cfg : Cfg) (r : Request)
    (h : r.encoding ∉ cfg.enabled ∨ decodable r.encoding = false) :
    serve codec cfg r = .rejected Compression.rejectStatus ∧
      400 ≤ Compression.rejectStatus ∧ Compression.rejectStatus < 500 := by
  refine ⟨?_, C16_gen_shape.2.1⟩
  have he : assoc (buildEnabled cfg.enabled) r.encoding = none := by
    rw [assoc_buildEnabled]
    cases h with
    | inl h => simp [h]
    | inr h => simp [resolve_none_of_not_decodable h]
  unfold serve
  simp [he]

/-- No request can make the server call a nil decoder. (Fails to build on a tree whose enable loop stores
`availableDecoders[name]` unconditionally: `Compression.installsNilForUnknown = true`.) -/
theorem C16_no_panic (codec : String → Codec) (cfg : Cfg) (r : Request) : serve codec cfg r ≠ .panicked := by
  unfold serve
  cases he : assoc (buildEnabled cfg.enabled) r.encoding with
  | none => simp
  | some e =>
    cases e with
    | nilFunc =>
      rw [assoc_buildEnabled] at he
      by_cases hm : r.encoding ∈ cfg.enabled
      · simp only [hm, if_true] at he
        exact absurd he (resolve_ne_nil _)
      · simp [hm] at he
    | identity => simp
    | lib l => simp only []; split <;> simp

/-- the wire a compressing client produces for `b`, as a request -/
def compressedRequest (codec : String → Codec) (t l : String) (b : Bytes) : Request := ⟨t, ⟨(codec l).enc b, true⟩⟩

/-- The client: a compressed type with a writer and no preset header sends `enc b` under its own name. -/
theorem C16_client_compresses (codec : String → Codec) (t l : String) (b : Bytes)
    (ht : isCompressed t = true) (hw : assoc Compression.writers t = some l) :
    clientSend codec t "" b = some (compressedRequest codec t l b) := by
  simp [clientSend, ht, hw, compressedRequest]

/-- The client never re-encodes a body that already carries a `Content-Encoding`, and a client without
compression sends the body as is. -/
theorem C16_client_passthrough (codec : String → Codec) (t hdr : String) (b : Bytes)
    (ht : t ∈ Compression.clientTypes) (h : hdr ≠ "" ∨ isCompressed t = false) :
    clientSend codec t hdr b = some ⟨hdr, ⟨b, true⟩⟩ := by
  unfold clientSend
  by_cases hc : isCompressed t = true
  · have hw := C16_client_types_have_writers t ht hc
    cases hx : assoc Compression.writers t with
    | none => simp [hx] at hw
    | some l =>
      cases h with
      | inl h => simp [hc, h]
      | inr h => simp [hc] at h
  · simp [hc]

/-- server side of the round trip, for an intact lawful stream under an enabled name -/
theorem serve_lawful (codec : String → Codec) (cfg : Cfg) (name l : String) (b : Bytes)
    (hlaw : (codec l).Lawful) (hres : resolve name = some (.lib l)) (hen : name ∈ cfg.enabled)
    (hwire : ((codec l).enc b).length ≤ cfg.limit) :
    serve codec cfg ⟨name, ⟨(codec l).enc b, true⟩⟩ = .handled (limitRead cfg.limit ⟨b, true⟩) := by
  have he : assoc (buildEnabled cfg.enabled) name = some (.lib l) := by
    rw [assoc_buildEnabled]; simp [hen, hres]
  unfold serve
  rw [C16_gen_shape.1]
  simp only [if_true, he]
  rw [limitRead_of_le (s := ⟨(codec l).enc b, true⟩) hwire, hlaw b]

/-- The full round-trip statement: every body within the limit, every client type the server lists. -/
def C16_roundtrip_full : Prop :=
  ∀ (codec : String → Codec), (∀ l, (codec l).Lawful) →
  ∀ (cfg : Cfg) (t l : String) (b : Bytes),
    isCompressed t = true → assoc Compression.writers t = some l → t ∈ cfg.enabled →
    b.length ≤ cfg.limit →
    (clientSend codec t "" b).map (serve codec cfg) = some (.handled ⟨b, true⟩)

/-- **Round trip** (partial: additionally the *compressed* form must fit the limit, because
`maxRequestBodySizeInterceptor` applies the same limit to the wire before decompression). -/
theorem C16_roundtrip_partial (codec : String → Codec) (hlaw : ∀ l, (codec l).Lawful)
    (cfg : Cfg) (t l : String) (b : Bytes)
    (ht : isCompressed t = true) (hw : assoc Compression.writers t = some l) (hen : t ∈ cfg.enabled)
    (hb : b.length ≤ cfg.limit) (hwire : ((codec l).enc b).length ≤ cfg.limit) :
    (clientSend codec t "" b).map (serve codec cfg) = some (.handled ⟨b, true⟩) := by
  rw [C16_client_compresses codec t l b ht hw]
  have hres := C16_client_server_names (t, l) (assoc_mem hw)
  simp only [Option.map_some, compressedRequest]
  rw [serve_lawful codec cfg t l b (hlaw l) hres hen hwire, limitRead_of_le (s := ⟨b, true⟩) hb]

/-- a lawful library whose output is one byte longer than its input -/
def padCodec : Codec :=
  { enc := fun b => 0 :: b,
    dec := fun s => match s.data with
      | [] => none
      | _ :: d => some ⟨d, s.ok⟩ }

theorem padCodec_lawful : padCodec.Lawful := by intro b; rfl

/-- The full statement is false for the code as it is: a body that fits the limit exactly but whose
compressed form does not is cut on the wire (replayed on the real code: corpus case 1, gzip, 1000
incompressible bytes, limit 1000). -/
theorem C16_roundtrip_full_fails : ¬ C16_roundtrip_full := by
  intro h
  have := h (fun _ => padCodec) (fun _ => padCodec_lawful) ⟨["gzip"], 1⟩ "gzip" "gzip" [7]
    (by decide) (by decide) (by decide) (by decide)
  revert this
  decide

/-- **Oversize.** A body beyond the limit whose compressed form fits (zip-bomb shape): the handler gets
exactly the first `limit` bytes and then an error — never more. -/
theorem C16_limit_exact (codec : String → Codec) (hlaw : ∀ l, (codec l).Lawful)
    (cfg : Cfg) (t l : String) (b : Bytes)
    (ht : isCompressed t = true) (hw : assoc Compression.writers t = some l) (hen : t ∈ cfg.enabled)
    (hb : cfg.limit < b.length) (hwire : ((codec l).enc b).length ≤ cfg.limit) :
    (clientSend codec t "" b).map (serve codec cfg) = some (.handled ⟨b.take cfg.limit, false⟩) := by
  rw [C16_client_compresses codec t l b ht hw]
  have hres := C16_client_server_names (t, l) (assoc_mem hw)
  simp only [Option.map_some, compressedRequest]
  rw [serve_lawful codec cfg t l b (hlaw l) hres hen hwire, limitRead_of_gt (s := ⟨b, true⟩) hb]

/-- The full identity statement: a request without content encoding passes through untouched, whatever the list. -/
def C16_identity_full : Prop :=
  ∀ (codec : String → Codec) (cfg : Cfg) (t : String) (b : Bytes),
    t ∈ Compression.clientTypes → isCompressed t = false → b.length ≤ cfg.limit →
    (clientSend codec t "" b).map (serve codec cfg) = some (.handled ⟨b, true⟩)

/-- **Identity** (partial: the decoder list must contain `""`, which the default list does). -/
theorem C16_identity_partial (codec : String → Codec) (cfg : Cfg) (t : String) (b : Bytes)
    (ht : t ∈ Compression.clientTypes) (hc : isCompressed t = false) (hen : "" ∈ cfg.enabled)
    (hb : b.length ≤ cfg.limit) :
    (clientSend codec t "" b).map (serve codec cfg) = some (.handled ⟨b, true⟩) := by
  rw [C16_client_passthrough codec t "" b ht (Or.inr hc)]
  have he : assoc (buildEnabled cfg.enabled) "" = some .identity := by
    rw [assoc_buildEnabled]; simp [hen, C16_gen_shape.2.2.2.1]
  simp only [Option.map_some]
  unfold serve
  rw [C16_gen_shape.1]
  simp only [if_true, he]
  rw [limitRead_of_le (s := ⟨b, true⟩) hb]

/-- The full statement is false for the code as it is: with `compression_algorithms: [gzip]` an unencoded
request is rejected (replayed on the real code: corpus case 0). -/
theorem C16_identity_full_fails : ¬ C16_identity_full := by
  intro h
  have := h (fun _ => padCodec) ⟨["gzip"], 10⟩ "none" [1] (by decide) (by decide) (by decide)
  revert this
  decide

/-- an unencoded body beyond the limit is cut at the limit as well (the wire-side wrapper) -/
theorem C16_identity_oversize (codec : String → Codec) (cfg : Cfg) (b : Bytes)
    (hen : "" ∈ cfg.enabled) (hb : cfg.limit < b.length) :
    serve codec cfg ⟨"", ⟨b, true⟩⟩ = .handled ⟨b.take cfg.limit, false⟩ := by
  have he : assoc (buildEnabled cfg.enabled) "" = some .identity := by
    rw [assoc_buildEnabled]; simp [hen, C16_gen_shape.2.2.2.1]
  unfold serve
  rw [C16_gen_shape.1]
  simp only [if_true, he]
  rw [limitRead_of_gt (s := ⟨b, true⟩) hb]

/-- defaults of `ToServer`: an absent list is the default list, a non-positive size the default size; so a
default server round-trips every client type (instance of the hypotheses above, see `C16_defaults`). -/
theorem C16_effective_defaults (mx : Int) (hmx : mx ≤ 0) :
    (ServerConfig.mk none mx).eff = ⟨Compression.defaultCompressionAlgorithms, Compression.defaultMaxRequestBodySize⟩ := by
  simp [ServerConfig.eff, hmx]

/-! ## the search oracle is sound, and the model satisfies it -/

/-- `exchangeCheck` (evaluated by the driver on what the REAL server showed) accepts only exchanges on which
the property holds. -/
theorem C16_check_sound (x : Exchange) (h : exchangeCheck x = none) : PropOn x := by
  unfold exchangeCheck at h
  unfold PropOn
  cases ho : x.outcome with
  | panicked =>
    rw [ho] at h
    simp only at h
    split at h <;> cases h
  | rejected st =>
    rw [ho] at h
    simp only at h
    refine ⟨(by intro s hs; cases hs), ?_, ?_⟩
    · intro hon
      simp only [hon] at h
      by_cases hst : (decide (400 ≤ st) && decide (st < 500)) = true
      · simp only [Bool.and_eq_true, decide_eq_true_eq] at hst
        exact ⟨st, rfl, hst.1, hst.2⟩
      · simp [hst] at h
    · intro hon b hb hlen
      simp only [hon, if_true, hb] at h
      simp only [hlen, if_true] at h
      cases h
  | handled s =>
    rw [ho] at h
    simp only at h
    by_cases h1 : x.limit < s.data.length
    · simp [h1] at h
    · simp only [h1, if_false] at h
      by_cases hon : x.on = true
      · simp only [hon, Bool.not_true] at h
        refine ⟨?_, ?_, ?_⟩
        · intro s' hs'; cases hs'; omega
        · intro hoff; rw [hon] at hoff; cases hoff
        · intro _ b hb hlen
          simp only [hb] at h
          by_cases hne : (decide (b.length ≤ x.limit) && s != ⟨b, true⟩) = true
          · simp [hne] at h
          · simp only [Bool.and_eq_true, decide_eq_true_eq, not_and, bne_iff_ne, ne_eq, Decidable.not_not] at hne
            rw [hne hlen]
      · have hoff : x.on = false := by simpa using hon
        simp [hoff] at h

/-- the exchange the model predicts for a request -/
def modelExchange (codec : String → Codec) (cfg : Cfg) (rq : Request) (sent : Option Bytes) : Exchange :=
  { enabled := cfg.enabled, limit := cfg.limit, encoding := rq.encoding, sent := sent,
    wireLen := rq.wire.data.length, outcome := serve codec cfg rq, custom := [] }

/-- The whole property on the model, for every exchange whose `sent` is what the wire lawfully encodes
(partial: identity needs `""` in the list; the wire must fit the limit — the two recorded findings). -/
theorem C16_model_satisfies_partial (codec : String → Codec) (hlaw : ∀ l, (codec l).Lawful)
    (cfg : Cfg) (rq : Request) (sent : Option Bytes)
    (hsent : ∀ b, sent = some b →
      (rq.encoding = "" ∧ rq.wire = ⟨b, true⟩) ∨
      (∃ l, resolve rq.encoding = some (.lib l) ∧ rq.wire = ⟨(codec l).enc b, true⟩))
    (hid : rq.encoding = "" → "" ∈ cfg.enabled)
    (hwire : rq.wire.data.length ≤ cfg.limit) :
    PropOn (modelExchange codec cfg rq sent) := by
  unfold PropOn modelExchange
  refine ⟨fun s hs => C16_limit codec cfg rq s hs, ?_, ?_⟩
  · intro hoff
    simp only [Exchange.on, List.contains_nil, Bool.or_false, Bool.or_eq_false_iff, Bool.and_eq_false_iff, beq_eq_false_iff_ne, ne_eq] at hoff
    have hr := C16_reject codec cfg rq (by
      cases hoff.2 with
      | inl h => left; simpa using h
      | inr h => right; exact h)
    exact ⟨_, hr.1, hr.2.1, hr.2.2⟩
  · intro hon b hb hlen
    simp only at hb hlen ⊢
    cases hsent b hb with
    | inl h =>
      obtain ⟨he, hw⟩ := h
      have hen := hid he
      have hbl : b.length ≤ cfg.limit := hlen
      have key : serve codec cfg ⟨"", ⟨b, true⟩⟩ = .handled ⟨b, true⟩ := by
        have he' : assoc (buildEnabled cfg.enabled) "" = some .identity := by
          rw [assoc_buildEnabled]; simp [hen, C16_gen_shape.2.2.2.1]
        unfold serve
        rw [C16_gen_shape.1]
        simp only [if_true, he']
        rw [limitRead_of_le (s := ⟨b, true⟩) hbl]
      have : rq = ⟨"", ⟨b, true⟩⟩ := by cases rq; simp_all
      rw [this]; exact key
    | inr h =>
      obtain ⟨l, hres, hw⟩ := h
      have hne : rq.encoding ≠ "" := by
        intro he
        rw [he, C16_gen_shape.2.2.2.1] at hres
        cases hres
      have hen : rq.encoding ∈ cfg.enabled := by
        simp only [Exchange.on, List.contains_nil, Bool.or_false, Bool.or_eq_true, Bool.and_eq_true, beq_iff_eq] at hon
        cases hon with
        | inl h => exact absurd h hne
        | inr h => simpa using h.1
      have hwl : ((codec l).enc b).length ≤ cfg.limit := by rw [hw] at hwire; exact hwire
      have : rq = ⟨rq.encoding, ⟨(codec l).enc b, true⟩⟩ := by cases rq; simp_all
      rw [this, serve_lawful codec cfg rq.encoding l b (hlaw l) hres hen hwl,
        limitRead_of_le (s := ⟨b, true⟩) hlen]

/-! ## `WithDecoder`: restricted lists stay restricted, servers do not influence each other -/

theorem serveS_no_custom (codec : String → Codec) (cfg : Cfg) (r : Request) :
    serveS codec ⟨cfg, []⟩ r = serve codec cfg r := by
  simp [serveS, serve, decoderFor, assoc]

/-- the limit also holds behind any caller-supplied decoder -/
theorem C16_limit_custom (codec : String → Codec) (s : Server) (r : Request) (st : Stream)
    (h : serveS codec s r = .handled st) : st.data.length ≤ s.limit := by
  have hs := C16_gen_shape
  unfold serveS at h
  rw [hs.1] at h
  simp only [if_true] at h
  cases he : decoderFor s r.encoding with
  | none => simp [he] at h
  | some e =>
    cases e with
    | nilFunc => simp [he] at h
    | identity =>
      simp only [he, Outcome.handled.injEq] at h
      rw [← h]; exact limitRead_le _ _
    | lib l =>
      simp only [he] at h
      cases hd : (codec l).dec (limitRead s.limit r.wire) with
      | none => simp [hd] at h
      | some s' =>
        simp only [hd, Outcome.handled.injEq] at h
        rw [← h]; exact limitRead_le _ _

/-- **Reject with `WithDecoder`.** Registering custom decoders never widens the list: an encoding that this
server did not register, and that is not listed (or has no decoder), is still rejected before the handler. -/
theorem C16_reject_custom (codec : String → Codec) (s : Server) (r : Request)
    (hc : assoc s.custom r.encoding = none)
    (h : r.encoding ∉ s.enabled ∨ decodable r.encoding = false) :
    serveS codec s r = .rejected Compression.rejectStatus := by
  have he : assoc (buildEnabled s.enabled) r.encoding = none := by
    rw [assoc_buildEnabled]
    cases h with
    | inl h => simp [h]
    | inr h => simp [resolve_none_of_not_decodable h]
  simp [serveS, decoderFor, hc, he]

/-- a registered decoder is the one used for its name (it overrides a built-in of the same name) -/
theorem C16_custom_overrides (codec : String → Codec) (s : Server) (name id : String) (b : Bytes)
    (hc : assoc s.custom name = some id) (hid : id ≠ passThroughId) (hlaw : (codec (customLib id)).Lawful)
    (hb : b.length ≤ s.limit) (hw : ((codec (customLib id)).enc b).length ≤ s.limit) :
    serveS codec s ⟨name, ⟨(codec (customLib id)).enc b, true⟩⟩ = .handled ⟨b, true⟩ := by
  unfold serveS
  rw [C16_gen_shape.1]
  simp only [if_true, decoderFor, hc, hid, if_false]
  rw [limitRead_of_le (s := ⟨(codec (customLib id)).enc b, true⟩) hw, hlaw b]
  simp only []
  rw [limitRead_of_le (s := ⟨b, true⟩) hb]

/-- **Limit behind a pass-through decoder.** A `WithDecoder` decoder that returns `nil, nil` leaves the body to
the wire-side wrapper alone — which therefore must apply to *every* request, encoded or not: the handler gets
the raw bytes, cut at the limit. (Instance of `C16_limit_custom`, stated exactly.) -/
theorem C16_passthrough_limited (codec : String → Codec) (s : Server) (name : String) (w : Stream)
    (hc : assoc s.custom name = some passThroughId) :
    serveS codec s ⟨name, w⟩ = .handled (limitRead s.limit w) ∧ (limitRead s.limit w).data.length ≤ s.limit := by
  refine ⟨?_, limitRead_le _ _⟩
  unfold serveS
  rw [C16_gen_shape.1]
  simp [decoderFor, hc]

/-- **`WithErrorHandler`** (bookkeeping: true by the shape of `Outcome.answeredBy`, which only rewrites the rejection arm; the tie
to the code is the translator's shape check of `ServeHTTP` — one `errHandler` call, followed by `return` — and the harness's custom
handler; the driver executes `Outcome.answeredBy`). A custom error handler changes nothing about *whether* the base handler runs or
what it reads; it only decides how a rejection is answered, and it is handed the client-error status. -/
theorem C16_error_handler (eh : Option (Nat → Nat)) (codec : String → Codec) (s : Server) (r : Request) :
    (∀ st, serveE eh codec s r = .handled st ↔ serveS codec s r = .handled st) ∧
    (serveE eh codec s r = .panicked ↔ serveS codec s r = .panicked) ∧
    ((∃ st, serveE eh codec s r = .rejected st) ↔ serveS codec s r = .rejected Compression.rejectStatus) := by
  have hrej : ∀ st, serveS codec s r = .rejected st → st = Compression.rejectStatus := by
    intro st h
    unfold serveS at h
    cases hd : decoderFor s r.encoding with
    | none => simp [hd] at h; exact h.symm
    | some e =>
      cases e with
      | nilFunc => simp [hd] at h
      | identity => simp [hd] at h
      | lib l =>
        simp only [hd] at h
        split at h
        · simp at h; exact h.symm
        · cases h
  unfold serveE
  cases ho : serveS codec s r with
  | handled st' => simp [Outcome.answeredBy]
  | panicked => simp [Outcome.answeredBy]
  | rejected st' =>
    have := hrej st' ho
    subst this
    simp [Outcome.answeredBy]

/-- **Streaming** (bookkeeping: `handlerReads` is *defined* as a prefix, so the only content beyond `C16_limit_custom` is that
definition, which the harness's read modes tie to `net/http` bodies). However the handler consumes the body — all at once, in
chunks, a prefix only, not at all — what it has in hand is a prefix of what a full read yields, hence never more than the limit. -/
theorem C16_limit_any_read_mode (codec : String → Codec) (s : Server) (r : Request) (m : ReadMode) (st : Stream)
    (h : (serveS codec s r).read m = .handled st) :
    st.data.length ≤ s.limit ∧ ∃ full, serveS codec s r = .handled full ∧ st.data = full.data.take st.data.length := by
  cases ho : serveS codec s r with
  | rejected x => simp [ho, Outcome.read] at h
  | panicked => simp [ho, Outcome.read] at h
  | handled full =>
    have hl := C16_limit_custom codec s r full ho
    simp only [ho, Outcome.read, Outcome.handled.injEq] at h
    subst h
    cases m with
    | all => exact ⟨hl, full, rfl, by simp [handlerReads]⟩
    | none => exact ⟨by simp [handlerReads], full, rfl, by simp [handlerReads]⟩
    | upTo k =>
      by_cases hk : k ≤ full.data.length
      · refine ⟨by simp [handlerReads, hk]; omega, full, rfl, ?_⟩
        simp [handlerReads, hk, Nat.min_eq_left hk]
      · exact ⟨by simp [handlerReads, hk]; exact hl, full, rfl, by simp [handlerReads, hk]⟩

/-- (bookkeeping: read off the definition of `handlerView`, which mirrors the `if newBody != nil` block of `ServeHTTP` and is
tied by the recording handler's `obs view` line.) A handler behind a real decoder never sees the compressed length or the
encoding label: it cannot mistake the compressed size for the size of what it reads. -/
theorem C16_decoded_request_is_relabelled (s : Server) (r : Request) (k : Bool) (l : String)
    (h : decoderFor s r.encoding = some (.lib l)) : handlerView s r k = ⟨none, false⟩ := by
  simp [handlerView, h]

theorem C16_package_state_only_read : Compression.availableDecodersOnlyRead = true := by decide

/-- **Isolation** (bookkeeping over a translator flag: `Proc.construct` is the identity exactly when
`Compression.availableDecodersOnlyRead`, so this theorem *is* that flag — the content is the translator's scan of every non-test file
of the package plus the multi-server harness cases; the `else` branch of `Proc.construct` is a hypothetical, tied to no code).
Whatever servers (with whatever `WithDecoder` options) were built before, the process-level decoder table is untouched … -/
theorem C16_isolation (ss : List Server) : ss.foldl Proc.construct Proc.clean = Proc.clean := by
  induction ss with
  | nil => rfl
  | cons s rest ih =>
    rw [List.foldl_cons]
    have : Proc.construct Proc.clean s = Proc.clean := by
      simp [Proc.construct, C16_package_state_only_read]
    rw [this]; exact ih

/-- … so a server built later behaves exactly as if it were alone: a default server hands its handler the
client's bytes no matter what an earlier server registered (combine with `C16_roundtrip_partial`). -/
theorem C16_isolation_serve (ss : List Server) (codec : String → Codec) (s : Server) (r : Request) :
    serveP (ss.foldl Proc.construct Proc.clean) codec s r = serveS codec s r := by
  rw [C16_isolation]
  simp [serveP, Proc.server, Proc.clean]

/-! ## non-vacuity -/

/-- a pass-through decoder under "x-raw": a 5-byte body against limit 3 is cut at 3 -/
example : serveS (fun _ => padCodec) ⟨⟨[""], 3⟩, [("x-raw", passThroughId)]⟩ ⟨"x-raw", ⟨[1, 2, 3, 4, 5], true⟩⟩
    = .handled ⟨[1, 2, 3], false⟩ := by decide

/-- server A overrides "snappy" and restricts the list; "zstd" is still rejected, the override is used -/
example : serveS (fun l => if l = "custom:xor" then padCodec else ⟨id, fun _ => none⟩) ⟨⟨["", "gzip"], 10⟩, [("snappy", "xor")]⟩
    ⟨"zstd", ⟨[0, 1], true⟩⟩ = .rejected 400 := by decide
example : serveS (fun l => if l = "custom:xor" then padCodec else ⟨id, fun _ => none⟩) ⟨⟨["", "gzip"], 10⟩, [("snappy", "xor")]⟩
    ⟨"snappy", ⟨[0, 1], true⟩⟩ = .handled ⟨[1], true⟩ := by decide
example : exchangeCheck ⟨["", "gzip"], 10, "zstd", some [1], 3, .handled ⟨[1], true⟩, ["snappy"]⟩
    = some "C16/reject/disabled-encoding-reached-handler" := by decide
example : exchangeCheck ⟨["", "gzip"], 10, "snappy", some [1], 3, .handled ⟨[1], true⟩, ["snappy"]⟩ = none := by decide


/-- a lawful library exists (so the round-trip theorems are not vacuous), and the hypotheses of
`C16_roundtrip_partial` are met by a concrete configuration -/
example : (clientSend (fun _ => padCodec) "gzip" "" [1, 2, 3]).map (serve (fun _ => padCodec) ⟨["", "gzip"], 10⟩)
    = some (.handled ⟨[1, 2, 3], true⟩) :=
  C16_roundtrip_partial (fun _ => padCodec) (fun _ => padCodec_lawful) ⟨["", "gzip"], 10⟩ "gzip" "gzip" [1, 2, 3]
    (by decide) (by decide) (by decide) (by decide) (by decide)

/-- zip-bomb shape on the model: a hostile library that expands one byte into a hundred is still cut at the limit -/
example : serve (fun _ => { enc := id, dec := fun _ => some ⟨List.replicate 100 0, true⟩ }) ⟨["zstd"], 7⟩ ⟨"zstd", ⟨[1], true⟩⟩
    = .handled ⟨List.replicate 7 0, false⟩ := by decide

/-- rejection is reachable: `deflate` not listed -/
example : serve (fun _ => padCodec) ⟨["", "gzip"], 10⟩ ⟨"deflate", ⟨[0, 1], true⟩⟩ = .rejected 400 := by decide

/-- `deflate` listed: served by the zlib decoder -/
example : serve (fun l => if l = "zlib" then padCodec else ⟨id, fun _ => none⟩) ⟨["deflate"], 10⟩ ⟨"deflate", ⟨[0, 1], true⟩⟩
    = .handled ⟨[1], true⟩ := by decide

/-- the oracle rejects the three reproduced failures with distinct signatures -/
example : exchangeCheck ⟨["gzip"], 1000, "", some [1], 1, .rejected 400, []⟩ = some "C16/decoder-list-without-identity" := by decide
example : exchangeCheck ⟨["gzip"], 2, "gzip", some [1, 2], 3, .handled ⟨[1], false⟩, []⟩
    = some "C16/roundtrip/wire-exceeds-limit-body-within-limit" := by decide
example : exchangeCheck ⟨["", "br"], 1000, "br", none, 3, .panicked, []⟩
    = some "C16/reject/unknown-name-in-list-nil-decoder-panic" := by decide
example : exchangeCheck ⟨["", "gzip"], 3, "gzip", none, 3, .handled ⟨[1, 2, 3, 4], false⟩, []⟩
    = some "C16/limit/handler-read-beyond-limit" := by decide

end OtelVerif.C16
