import OtelVerif.Model.C16
/-! C16 property theorems (stub) -/
namespace OtelVerif.C16
end OtelVerif.C16
