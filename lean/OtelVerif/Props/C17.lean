import OtelVerif.Model.C17
import OtelVerif.Model.C17Key
import OtelVerif.Lemmas.C17Split
import OtelVerif.Lemmas.C17Shard
import OtelVerif.Lemmas.C17Timeout
import OtelVerif.Lemmas.C17Late
import OtelVerif.Lemmas.C04Perm
import OtelVerif.Lemmas.C17Proc
/-!
# C17 — batch processor: conservation, size bound, metadata isolation, timely flush

Property theorems only.  The model (`Model/C17.lean`) is of the repaired split functions
(`fix:` 9729ad006 in /tmp/wt-C17) and of `batch_processor.go` as pinned.
-/
namespace OtelVerif.C17
open OtelVerif.Payload

/-! ## split functions -/

/-- `splitLogs` / `splitTraces`: every record, with its full context (resource, resource schema URL, scope, scope
schema URL), is either in the returned batch or still in the source — for every payload and every size. -/
theorem C17_split_conserve (size : Nat) (src : List Res) (h : size < count src) :
    (flatten (splitLogs size src).1 ++ flatten (splitLogs size src).2).Perm (flatten src) := by
  have : ¬ count src ≤ size := by omega
  simp only [splitLogs, this, if_false]
  exact splitRes_perm size 0 src

/-- the returned batch has exactly `size` records -/
theorem C17_split_size (size : Nat) (src : List Res) (h : size < count src) :
    count (splitLogs size src).1 = size := by
  have hn : ¬ count src ≤ size := by omega
  simp only [splitLogs, hn, if_false]
  have := splitRes_fill size 0 src (Nat.zero_le _)
  rw [this.2, this.1]; omega

/-- when the payload is not larger than `size` it is returned whole (the same object) -/
theorem C17_split_whole (size : Nat) (src : List Res) (h : count src ≤ size) : (splitLogs size src).1 = src := by
  simp [splitLogs, h]

/-- `splitMetrics`: every data point keeps resource, scope, both schema URLs and the metric's name, unit,
description, type, temporality, monotonicity and metadata -/
theorem C17_split_conserve_metrics (size : Nat) (src : List MRes) (h : size < mcount src) :
    (mflatten (splitMetrics size src).1 ++ mflatten (splitMetrics size src).2).Perm (mflatten src) := by
  have : ¬ mcount src ≤ size := by omega
  simp only [splitMetrics, this, if_false]
  exact splitMRes_perm size 0 src

theorem C17_split_size_metrics (size : Nat) (src : List MRes) (h : size < mcount src) :
    mcount (splitMetrics size src).1 = size := by
  have hn : ¬ mcount src ≤ size := by omega
  simp only [splitMetrics, hn, if_false]
  have := splitMRes_fill size 0 src (Nat.zero_le _)
  rw [this.2, this.1]; omega

/-- non-vacuity: a cut inside one scope (the design-time witness): both sides keep both schema URLs -/
example :
    let src : List Res := [⟨⟨1, 2, 0⟩, [⟨⟨3, 0, 0, 4, 0⟩, [⟨10, 0, 1⟩, ⟨11, 0, 1⟩, ⟨12, 0, 1⟩]⟩]⟩]
    2 < count src ∧ splitLogs 2 src =
      ([⟨⟨1, 2, 0⟩, [⟨⟨3, 0, 0, 4, 0⟩, [⟨10, 0, 1⟩, ⟨11, 0, 1⟩]⟩]⟩], [⟨⟨1, 2, 0⟩, [⟨⟨3, 0, 0, 4, 0⟩, [⟨12, 0, 1⟩]⟩]⟩]) := by decide


/-! ## shard loop (`startLoop` / `processItem` / `sendItems`), all label sequences -/

theorem logs_laws : BatchLaws logsBatch flatten :=
  ⟨count_eq_length, rfl, fun a b => by simp [logsBatch, flatten], C17_split_conserve, C17_split_size⟩

theorem metrics_laws : BatchLaws metricsBatch mflatten :=
  ⟨mcount_eq_length, rfl, fun a b => by simp [metricsBatch, mflatten], C17_split_conserve_metrics, C17_split_size_metrics⟩

/-- configuration accepted by `Config.Validate` (the part the batching logic depends on; `validCfg` in the model is the
whole `Validate()`, tied to the real one by exact differential on raw configurations) -/
def Cfg.valid (c : Cfg) : Prop := c.max = 0 ∨ c.sbs ≤ c.max

/-- what `Validate()` accepting a configuration gives the theorems: the size relation every theorem below takes as its
explicit hypothesis `c.valid`, a non-negative timeout, and case-insensitively distinct metadata keys.  A change that makes
the real `Validate()` accept more (e.g. `0 < max < size`) breaks the differential on `validCfg`, not these theorems. -/
theorem C17_validCfg_sound (r : RawCfg) (h : validCfg r = true) :
    r.toCfg.valid ∧ 0 ≤ r.timeout ∧ nodupB (r.keys.map String.toLower) = true := by
  simp only [validCfg, Bool.and_eq_true, Bool.not_eq_true', Bool.and_eq_false_iff, decide_eq_false_iff_not,
    decide_eq_true_eq] at h
  refine ⟨?_, h.2, h.1.2⟩
  simp only [Cfg.valid, RawCfg.toCfg]
  rcases h.1.1 with h' | h' <;> omega

/-- the design-time reading of the round-4 seed: `size = 10, max = 4` is NOT a valid configuration -/
example : validCfg { sbs := 10, max := 4, timeout := 0, keys := ["tenant"], limit := 0 } = false := by decide
example : validCfg { sbs := 3, max := 3, timeout := 200001, keys := [], limit := 2 } = true := by decide
example : validCfg { sbs := 3, max := 0, timeout := -1, keys := [], limit := 0 } = false := by decide

/-- what the loop does between two `select`s -/
inductive Label (P : Type) where
  | arrive (now : Nat) (p : P)
  | tick

def Shard.step {P : Type} (o : BatchOps P) (c : Cfg) (s : Shard P) : Label P → Shard P × List (Emit P)
  | .arrive now p => s.process o c now p
  | .tick => s.tick o c

def Shard.run {P : Type} (o : BatchOps P) (c : Cfg) : Shard P → List (Label P) → Shard P × List (Emit P)
  | s, [] => (s, [])
  | s, l :: ls =>
    let r := s.step o c l
    let r' := Shard.run o c r.1 ls
    (r'.1, r.2 ++ r'.2)

def arrivedFlat {P β : Type} (flat : P → List β) : List (Label P) → List β
  | [] => []
  | .arrive _ p :: ls => flat p ++ arrivedFlat flat ls
  | .tick :: ls => arrivedFlat flat ls

/-- invariant between two labels: the counter is exact and no send is due -/
def Shard.inv {P : Type} (o : BatchOps P) (c : Cfg) (s : Shard P) : Prop := s.ok o ∧ due c s = false

theorem process_spec {P β : Type} (o : BatchOps P) (flat : P → List β) (hl : BatchLaws o flat) (c : Cfg) (now : Nat)
    (s : Shard P) (p : P) (hs : s.ok o) :
    (s.process o c now p).1.inv o c ∧
    (flatEmits flat (s.process o c now p).2 ++ flat (s.process o c now p).1.data).Perm (flat s.data ++ flat p) ∧
    (c.max > 0 → ∀ e ∈ (s.process o c now p).2, o.count e.p ≤ c.max) ∧
    (s.process o c now p).1.key = s.key ∧ (∀ e ∈ (s.process o c now p).2, e.key = s.key ∧ e.t = now) := by
  have hadd : (s.add o p).ok o ∧ flat (s.add o p).data = flat s.data ++ flat p ∧ (s.add o p).key = s.key := by
    simp only [Shard.add]
    by_cases h : (o.count p == 0) = true
    · have h0 : (flat p).length = 0 := by rw [← hl.count_eq]; simpa using h
      have : flat p = [] := List.eq_nil_of_length_eq_zero h0
      simp [h, hs, this]
    · simp only [h, Bool.false_eq_true, if_false, Shard.ok, hl.append, and_true]
      unfold Shard.ok at hs
      simp [hl.count_eq, hl.append, List.length_append] at hs ⊢
      omega
  have sp := sendLoop_spec o flat hl c now ((s.add o p).cnt + 1) (s.add o p) [] hadd.1 (Nat.lt_succ_self _)
  simp only [Shard.process]
  have hperm := sp.2.1
  simp only [flatEmits, List.flatMap_nil, List.nil_append] at hperm
  rw [hadd.2.1] at hperm
  by_cases he : (sendLoop o c now ((s.add o p).cnt + 1) (s.add o p) []).2.isEmpty = true
  · simp only [he, if_true]
    refine ⟨⟨sp.1, sp.2.2.2.1⟩, hperm, fun hm => sp.2.2.1 hm (by simp), by rw [sp.2.2.2.2.1, hadd.2.2], ?_⟩
    intro e hmem
    have := sp.2.2.2.2.2 (by simp) e hmem
    rw [hadd.2.2] at this; exact this
  · simp only [he, Bool.false_eq_true, if_false]
    refine ⟨⟨sp.1, sp.2.2.2.1⟩, hperm, fun hm => sp.2.2.1 hm (by simp), by rw [sp.2.2.2.2.1, hadd.2.2], ?_⟩
    intro e hmem
    have := sp.2.2.2.2.2 (by simp) e hmem
    rw [hadd.2.2] at this; exact this

/-- the pending items fit one batch when no send is due (validated configuration) -/
theorem inv_fits {P : Type} (o : BatchOps P) (c : Cfg) (hv : c.valid) (s : Shard P) (hi : s.inv o c) :
    c.max = 0 ∨ s.cnt ≤ c.max := by
  have hd := hi.2
  simp only [due, Bool.and_eq_false_iff, decide_eq_false_iff_not, Bool.or_eq_false_iff, Bool.not_eq_false'] at hd
  rcases hv with h | h
  · exact Or.inl h
  · rcases hd with h1 | ⟨_, h2⟩
    · right; omega
    · right; omega

theorem tick_spec {P β : Type} (o : BatchOps P) (flat : P → List β) (hl : BatchLaws o flat) (c : Cfg) (hv : c.valid)
    (s : Shard P) (hi : s.inv o c) :
    (s.tick o c).1.inv o c ∧ (s.tick o c).1.cnt = 0 ∧
    (flatEmits flat (s.tick o c).2 ++ flat (s.tick o c).1.data).Perm (flat s.data) ∧
    (c.max > 0 → ∀ e ∈ (s.tick o c).2, o.count e.p ≤ c.max) ∧
    (s.tick o c).1.key = s.key ∧ (∀ e ∈ (s.tick o c).2, e.key = s.key ∧ e.t = s.deadline) := by
  simp only [Shard.tick]
  by_cases h : s.cnt > 0
  · have sp := send_spec o flat hl c s.deadline s hi.1
    have h0 := sp.2.2.2.2.1 (inv_fits o c hv s hi)
    simp only [h, if_true]
    refine ⟨⟨?_, ?_⟩, h0, ?_, ?_, sp.2.2.2.2.2.2.1, ?_⟩
    · exact sp.1
    · simp [due, h0]
    · simpa [flatEmits] using sp.2.1
    · intro hm e he; simp only [List.mem_singleton] at he; subst he; exact sp.2.2.1 hm
    · intro e he; simp only [List.mem_singleton] at he; subst he; exact ⟨sp.2.2.2.2.2.1, sp.2.2.2.2.2.2.2⟩
  · have h0 : s.cnt = 0 := by omega
    simp only [h, if_false]
    refine ⟨⟨hi.1, by simp [due, h0]⟩, h0, by simp [flatEmits], fun _ e he => by simp at he, by first | rfl | trivial, fun e he => by simp at he⟩

theorem shutdown_spec {P β : Type} (o : BatchOps P) (flat : P → List β) (hl : BatchLaws o flat) (c : Cfg) (hv : c.valid)
    (now : Nat) (s : Shard P) (hi : s.inv o c) :
    (flatEmits flat (s.shutdown o c now).2).Perm (flat s.data) ∧
    (c.max > 0 → ∀ e ∈ (s.shutdown o c now).2, o.count e.p ≤ c.max) ∧
    (∀ e ∈ (s.shutdown o c now).2, e.key = s.key) := by
  simp only [Shard.shutdown]
  by_cases h : s.cnt > 0
  · have sp := send_spec o flat hl c now s hi.1
    have h0 := sp.2.2.2.2.1 (inv_fits o c hv s hi)
    have hk : (s.send o c now).1.ok o := sp.1
    have hnil : flat (s.send o c now).1.data = [] := by
      apply List.eq_nil_of_length_eq_zero
      rw [← hl.count_eq, ← hk, h0]
    simp only [h, if_true]
    refine ⟨?_, ?_, ?_⟩
    · have := sp.2.1; rw [hnil] at this; simpa [flatEmits] using this
    · intro hm e he; simp only [List.mem_singleton] at he; subst he; exact sp.2.2.1 hm
    · intro e he; simp only [List.mem_singleton] at he; subst he; exact sp.2.2.2.2.2.1
  · have h0 : s.cnt = 0 := by omega
    have hnil : flat s.data = [] := by
      apply List.eq_nil_of_length_eq_zero
      rw [← hl.count_eq, ← hi.1, h0]
    simp only [h, if_false]
    exact ⟨by simp [flatEmits, hnil], fun _ e he => by simp at he, fun e he => by simp at he⟩

/-- **size trigger**: after any arrival is processed, no shard holds `send_batch_size` items (with a timer), or any
item at all (`timeout = 0` or `send_batch_size = 0`): a batch was emitted before the next arrival is looked at -/
theorem C17_size_trigger {P β : Type} (o : BatchOps P) (flat : P → List β) (hl : BatchLaws o flat) (c : Cfg) (now : Nat)
    (s : Shard P) (p : P) (hs : s.ok o) :
    (hasTimer c = true → (s.process o c now p).1.cnt < max c.sbs 1) ∧ (hasTimer c = false → (s.process o c now p).1.cnt = 0) := by
  have hd := (process_spec o flat hl c now s p hs).1.2
  simp only [due, Bool.and_eq_false_iff, decide_eq_false_iff_not, Bool.or_eq_false_iff, Bool.not_eq_false'] at hd
  constructor
  · intro ht
    rcases hd with h | ⟨_, h⟩ <;> omega
  · intro ht
    rcases hd with h | ⟨h, _⟩
    · omega
    · rw [ht] at h; cases h

theorem run_spec {P β : Type} (o : BatchOps P) (flat : P → List β) (hl : BatchLaws o flat) (c : Cfg) (hv : c.valid) :
    ∀ (ls : List (Label P)) (s : Shard P), s.inv o c →
      (Shard.run o c s ls).1.inv o c ∧
      (flatEmits flat (Shard.run o c s ls).2 ++ flat (Shard.run o c s ls).1.data).Perm (flat s.data ++ arrivedFlat flat ls) ∧
      (c.max > 0 → ∀ e ∈ (Shard.run o c s ls).2, o.count e.p ≤ c.max) ∧
      (Shard.run o c s ls).1.key = s.key ∧ (∀ e ∈ (Shard.run o c s ls).2, e.key = s.key) := by
  intro ls
  induction ls with
  | nil => intro s hi; simp [Shard.run, flatEmits, arrivedFlat, hi]
  | cons l ls ih =>
    intro s hi
    simp only [Shard.run]
    have step : (s.step o c l).1.inv o c ∧
        (flatEmits flat (s.step o c l).2 ++ flat (s.step o c l).1.data).Perm (flat s.data ++ arrivedFlat flat [l]) ∧
        (c.max > 0 → ∀ e ∈ (s.step o c l).2, o.count e.p ≤ c.max) ∧
        (s.step o c l).1.key = s.key ∧ (∀ e ∈ (s.step o c l).2, e.key = s.key) := by
      cases l with
      | arrive now p =>
        have := process_spec o flat hl c now s p hi.1
        exact ⟨this.1, by simpa [arrivedFlat, Shard.step] using this.2.1, this.2.2.1, this.2.2.2.1, fun e he => (this.2.2.2.2 e he).1⟩
      | tick =>
        have := tick_spec o flat hl c hv s hi
        exact ⟨this.1, by simpa [arrivedFlat, Shard.step] using this.2.2.1, this.2.2.2.1, this.2.2.2.2.1, fun e he => (this.2.2.2.2.2 e he).1⟩
    have r := ih (s.step o c l).1 step.1
    refine ⟨r.1, ?_, ?_, by rw [r.2.2.2.1, step.2.2.2.1], ?_⟩
    · have h1 := r.2.1
      have h2 := step.2.1
      have e : arrivedFlat flat (l :: ls) = arrivedFlat flat [l] ++ arrivedFlat flat ls := by
        cases l <;> simp [arrivedFlat]
      rw [e]
      simp only [flatEmits, List.flatMap_append, List.append_assoc] at h1 h2 ⊢
      refine (List.Perm.append_left _ h1).trans ?_
      rw [← List.append_assoc, ← List.append_assoc]
      exact List.Perm.append_right _ h2
    · intro hm e he
      rcases List.mem_append.mp he with h | h
      · exact step.2.2.1 hm e h
      · exact r.2.2.1 hm e h
    · intro e he
      rcases List.mem_append.mp he with h | h
      · exact step.2.2.2.2 e h
      · rw [← step.2.2.2.1]; exact r.2.2.2.2 e h

/-- **exactly once**: for every sequence of arrivals and timer firings and every moment of shutdown, what a shard
emitted by the time shutdown returns is exactly (as a multiset, with full context) what it accepted — nothing lost,
duplicated or invented — for every validated configuration (downstream accepting) -/
theorem C17_exactly_once {P β : Type} (o : BatchOps P) (flat : P → List β) (hl : BatchLaws o flat) (c : Cfg) (hv : c.valid)
    (key : Key) (t0 tEnd : Nat) (ls : List (Label P)) :
    let s0 : Shard P := { key := key, data := o.empty, cnt := 0, deadline := t0 }
    let r := Shard.run o c s0 ls
    (flatEmits flat (r.2 ++ (r.1.shutdown o c tEnd).2)).Perm (arrivedFlat flat ls) := by
  intro s0 r
  have hi0 : s0.inv o c := ⟨by simp [s0, Shard.ok, hl.count_eq, hl.empty], by simp [s0, due]⟩
  have hr := run_spec o flat hl c hv ls s0 hi0
  have hs := shutdown_spec o flat hl c hv tEnd r.1 hr.1
  have h1 := hr.2.1
  simp only [s0, hl.empty, List.nil_append] at h1
  simp only [flatEmits, List.flatMap_append] at h1 hs ⊢
  exact (List.Perm.append_left _ hs.1).trans h1

/-- **bound**: with `send_batch_max_size > 0` no emitted batch has more items, over all label sequences incl. shutdown -/
theorem C17_bound {P β : Type} (o : BatchOps P) (flat : P → List β) (hl : BatchLaws o flat) (c : Cfg) (hv : c.valid)
    (hm : c.max > 0) (key : Key) (t0 tEnd : Nat) (ls : List (Label P)) :
    let s0 : Shard P := { key := key, data := o.empty, cnt := 0, deadline := t0 }
    let r := Shard.run o c s0 ls
    ∀ e ∈ r.2 ++ (r.1.shutdown o c tEnd).2, o.count e.p ≤ c.max := by
  intro s0 r e he
  have hi0 : s0.inv o c := ⟨by simp [s0, Shard.ok, hl.count_eq, hl.empty], by simp [s0, due]⟩
  have hr := run_spec o flat hl c hv ls s0 hi0
  have hs := shutdown_spec o flat hl c hv tEnd r.1 hr.1
  rcases List.mem_append.mp he with h | h
  · exact hr.2.2.1 hm e h
  · exact hs.2.1 hm e h

/-- **metadata isolation** (shard level): every batch a shard emits carries the shard's own metadata values, which
never change; `Proc.arrive` only ever hands a payload to the shard whose values equal the arrival's
(`C17_arrive_routes`), so items with different values never share a batch -/
theorem C17_metadata_isolation {P β : Type} (o : BatchOps P) (flat : P → List β) (hl : BatchLaws o flat) (c : Cfg) (hv : c.valid)
    (key : Key) (t0 tEnd : Nat) (ls : List (Label P)) :
    let s0 : Shard P := { key := key, data := o.empty, cnt := 0, deadline := t0 }
    let r := Shard.run o c s0 ls
    ∀ e ∈ r.2 ++ (r.1.shutdown o c tEnd).2, e.key = key := by
  intro s0 r e he
  have hi0 : s0.inv o c := ⟨by simp [s0, Shard.ok, hl.count_eq, hl.empty], by simp [s0, due]⟩
  have hr := run_spec o flat hl c hv ls s0 hi0
  have hs := shutdown_spec o flat hl c hv tEnd r.1 hr.1
  rcases List.mem_append.mp he with h | h
  · exact hr.2.2.2.2 e h
  · rw [hs.2.2 e h, hr.2.2.2.1]

/-- the sharder hands the payload to a shard with exactly the arrival's metadata values -/
theorem C17_arrive_routes {P : Type} (o : BatchOps P) (c : Cfg) (pr : Proc P) (key : Key) (p : P)
    (pr' : Proc P) (es : List (Emit P)) (h : pr.arrive o c key p = some (pr', es))
    {β : Type} (flat : P → List β) (hl : BatchLaws o flat) (hok : ∀ s ∈ pr.shards, s.ok o) :
    ∀ e ∈ es, e.key = key := by
  simp only [Proc.arrive] at h
  split at h
  · next s hf =>
    injection h with h
    have hk : s.key = key := by simpa using List.find?_some hf
    have hm : s ∈ pr.shards := List.mem_of_find?_eq_some hf
    have := (process_spec o flat hl c pr.now s p (hok s hm)).2.2.2.2
    intro e he
    have h2 : es = (s.process o c pr.now p).2 := by
      have := congrArg Prod.snd h; simpa using this.symm
    rw [h2] at he
    rw [(this e he).1, hk]
  · split at h
    · cases h
    · injection h with h
      intro e he
      have h2 : es = (Shard.process o c pr.now { key := key, data := o.empty, cnt := 0, deadline := pr.now + c.timeout } p).2 := by
        have := congrArg Prod.snd h; simpa using this.symm
      rw [h2] at he
      have := (process_spec o flat hl c pr.now { key := key, data := o.empty, cnt := 0, deadline := pr.now + c.timeout } p
        (by simp [Shard.ok, hl.count_eq, hl.empty])).2.2.2.2
      exact (this e he).1

/-- **cardinality**: an arrival is refused exactly when its group is new and the number of groups has reached the
limit; a refusal changes nothing (`arrive` returns no new state), so existing groups are unaffected -/
theorem C17_cardinality {P : Type} (o : BatchOps P) (c : Cfg) (pr : Proc P) (key : Key) (p : P) :
    pr.arrive o c key p = none ↔
      (pr.shards.find? (fun s => s.key = key) = none ∧ c.limit ≠ 0 ∧ pr.shards.length ≥ c.limit) := by
  simp only [Proc.arrive]
  split
  · next s hf => simp [hf]
  · next hf =>
    by_cases h : (c.limit != 0 && decide (pr.shards.length ≥ c.limit)) = true
    · simp only [h, if_true, true_iff]
      simp only [Bool.and_eq_true, bne_iff_ne, decide_eq_true_eq] at h
      exact ⟨hf, h.1, h.2⟩
    · simp only [h, Bool.false_eq_true, if_false]
      simp only [Bool.and_eq_true, bne_iff_ne, decide_eq_true_eq] at h
      constructor
      · intro h'; cases h'
      · intro h'; exact absurd ⟨h'.2.1, h'.2.2⟩ h

/-- **timeout** (partial): when the timer fires, everything pending leaves in that one batch, stamped with the
deadline, and after any send or firing the next deadline is exactly `timeout` later.  Not carried by the theorem:
that the deadline is never later than the oldest pending item's arrival + timeout also across a size-triggered
partial send (needs the FIFO order of `split`: monitored by the `timeout` oracle on every run), and real timer
latency (virtual time only). -/
theorem C17_timeout_partial {P β : Type} (o : BatchOps P) (flat : P → List β) (hl : BatchLaws o flat) (c : Cfg) (hv : c.valid)
    (s : Shard P) (hi : s.inv o c) :
    (s.tick o c).1.cnt = 0 ∧ (∀ e ∈ (s.tick o c).2, e.t = s.deadline) ∧ (s.tick o c).1.deadline = s.deadline + c.timeout := by
  have := tick_spec o flat hl c hv s hi
  refine ⟨this.2.1, fun e he => (this.2.2.2.2.2 e he).2, ?_⟩
  simp only [Shard.tick]
  split <;> rfl

/-! ### the full timeout clause: per-item deadline, in virtual time -/

theorem logs_fifo : Fifo logsBatch flatten := ⟨splitLogs_eq⟩
theorem metrics_fifo : Fifo metricsBatch mflatten := ⟨splitMetrics_eq⟩

/-- a history with its clock (`arr x` = the time item `x` arrived, `tEnd` = when shutdown drains the shard): an arrival
never happens before the previous label and — with a timer — never after the pending deadline, a timer firing happens at
its deadline: the shard goroutine takes the `select` case that is due before virtual time moves on.  (Real scheduling and
timer latency are outside; everything else, in particular size-triggered partial sends, is inside.) -/
def WellTimed {P β : Type} (o : BatchOps P) (c : Cfg) (flat : P → List β) (arr : β → Nat) (tEnd : Nat) :
    Nat → Shard P → List (Label P) → Prop
  | T, s, [] => T ≤ tEnd ∧ (hasTimer c = true → tEnd ≤ s.deadline)
  | T, s, .arrive now p :: ls =>
    T ≤ now ∧ (hasTimer c = true → now ≤ s.deadline) ∧ (∀ x ∈ flat p, arr x = now) ∧
      WellTimed o c flat arr tEnd now (s.process o c now p).1 ls
  | T, s, .tick :: ls => hasTimer c = true ∧ T ≤ s.deadline ∧ WellTimed o c flat arr tEnd s.deadline (s.tick o c).1 ls

theorem flat_nil_of_cnt {P β : Type} (o : BatchOps P) (flat : P → List β) (hl : BatchLaws o flat) (s : Shard P)
    (hs : s.ok o) (h0 : s.cnt = 0) : flat s.data = [] := by
  apply List.eq_nil_of_length_eq_zero
  rw [← hl.count_eq, ← hs, h0]

theorem cnt_zero_of_no_timer {P : Type} (c : Cfg) (s : Shard P) (ht : hasTimer c = false) (hd : due c s = false) : s.cnt = 0 := by
  simp only [due, ht, Bool.not_false, Bool.true_or, Bool.and_true, decide_eq_false_iff_not] at hd
  omega

theorem timeout_run {P β : Type} (o : BatchOps P) (flat : P → List β) (hl : BatchLaws o flat) (hf : Fifo o flat) (c : Cfg)
    (hv : c.valid) (arr : β → Nat) (tEnd : Nat) :
    ∀ (ls : List (Label P)) (s : Shard P) (T : Nat), s.inv o c →
      (hasTimer c = true → (∀ x ∈ flat s.data, s.deadline ≤ arr x + c.timeout) ∧ s.deadline ≤ T + c.timeout) →
      WellTimed o c flat arr tEnd T s ls →
      ∀ e ∈ (Shard.run o c s ls).2 ++ ((Shard.run o c s ls).1.shutdown o c tEnd).2, ∀ x ∈ flat e.p, e.t ≤ arr x + c.timeout := by
  intro ls
  induction ls with
  | nil =>
    intro s T hi hti hw e he x hx
    simp only [Shard.run, List.nil_append] at he
    simp only [WellTimed] at hw
    by_cases ht : hasTimer c = true
    · -- shutdown sends what is pending, before its deadline
      simp only [Shard.shutdown] at he
      split at he
      · simp only [List.mem_singleton] at he
        subst he
        have sp := send_spec o flat hl c tEnd s hi.1
        have hx' : x ∈ flat s.data := sp.2.1.subset (List.mem_append.mpr (Or.inl hx))
        have := (hti ht).1 x hx'
        have := hw.2 ht
        rw [sp.2.2.2.2.2.2.2]
        omega
      · simp at he
    · have ht' : hasTimer c = false := by simpa using ht
      have h0 := cnt_zero_of_no_timer c s ht' hi.2
      simp [Shard.shutdown, h0] at he
  | cons l ls ih =>
    intro s T hi hti hw e he x hx
    simp only [Shard.run, List.append_assoc] at he
    cases l with
    | arrive now p =>
      simp only [WellTimed] at hw
      obtain ⟨hT, hnow, hnew, hrest⟩ := hw
      have ps := process_spec o flat hl c now s p hi.1
      by_cases ht : hasTimer c = true
      · have pt := process_timed o flat hl hf c hv arr now T s p hi (hti ht).1 (hti ht).2 hT (hnow ht) hnew
        rcases List.mem_append.mp he with h | h
        · exact pt.1 e h x hx
        · exact ih (s.process o c now p).1 now ps.1 (fun _ => ⟨pt.2.1, pt.2.2.1⟩) hrest e h x hx
      · have ht' : hasTimer c = false := by simpa using ht
        rcases List.mem_append.mp he with h | h
        · -- no timer: everything is sent at once, at its arrival time
          have h0 := cnt_zero_of_no_timer c s ht' hi.2
          have hnil := flat_nil_of_cnt o flat hl s hi.1 h0
          have hx' : x ∈ flat s.data ++ flat p := by
            apply ps.2.1.subset
            apply List.mem_append.mpr; left
            exact List.mem_flatMap.mpr ⟨e, h, hx⟩
          rw [hnil, List.nil_append] at hx'
          have := hnew x hx'
          have := (ps.2.2.2.2 e h).2
          omega
        · exact ih (s.process o c now p).1 now ps.1 (fun h' => absurd h' ht) hrest e h x hx
    | tick =>
      simp only [WellTimed] at hw
      obtain ⟨ht, hT, hrest⟩ := hw
      have ts := tick_spec o flat hl c hv s hi
      rcases List.mem_append.mp he with h | h
      · have hx' : x ∈ flat s.data := by
          apply ts.2.2.1.subset
          apply List.mem_append.mpr; left
          exact List.mem_flatMap.mpr ⟨e, h, hx⟩
        have := (hti ht).1 x hx'
        have := (ts.2.2.2.2.2 e h).2
        omega
      · refine ih (s.tick o c).1 s.deadline ts.1 ?_ hrest e h x hx
        intro _
        have hnil := flat_nil_of_cnt o flat hl _ ts.1.1 ts.2.1
        refine ⟨by intro y hy; rw [hnil] at hy; simp at hy, ?_⟩
        have : (s.tick o c).1.deadline = s.deadline + c.timeout := by
          simp only [Shard.tick]; split <;> rfl
        omega

/-- **timeout** (full, virtual time): over every well-timed history of arrivals, size-triggered (also partial) sends, timer
firings and the final shutdown, every item leaves no later than `timeout` after it arrived — for every validated
configuration; without a timer (`timeout = 0` or `send_batch_size = 0`) it leaves at its arrival time -/
theorem C17_timeout {P β : Type} (o : BatchOps P) (flat : P → List β) (hl : BatchLaws o flat) (hf : Fifo o flat) (c : Cfg)
    (hv : c.valid) (arr : β → Nat) (key : Key) (T0 tEnd : Nat) (ls : List (Label P))
    (hw : WellTimed o c flat arr tEnd T0 { key := key, data := o.empty, cnt := 0, deadline := T0 + c.timeout } ls) :
    let s0 : Shard P := { key := key, data := o.empty, cnt := 0, deadline := T0 + c.timeout }
    ∀ e ∈ (Shard.run o c s0 ls).2 ++ ((Shard.run o c s0 ls).1.shutdown o c tEnd).2, ∀ x ∈ flat e.p, e.t ≤ arr x + c.timeout := by
  intro s0
  have hi0 : s0.inv o c := ⟨by simp [s0, Shard.ok, hl.count_eq, hl.empty], by simp [s0, due]⟩
  exact timeout_run o flat hl hf c hv arr tEnd ls s0 T0 hi0
    (fun _ => ⟨by intro x hx; simp [s0, hl.empty] at hx, Nat.le_refl _⟩) hw

/-- the instances for the three signals (traces use the logs model: same code up to renaming) -/
theorem C17_timeout_logs (c : Cfg) (hv : c.valid) (arr : Ctx → Nat) (key : Key) (T0 tEnd : Nat) (ls : List (Label (List Res)))
    (hw : WellTimed logsBatch c flatten arr tEnd T0 { key := key, data := [], cnt := 0, deadline := T0 + c.timeout } ls) :
    ∀ e ∈ (Shard.run logsBatch c { key := key, data := [], cnt := 0, deadline := T0 + c.timeout } ls).2 ++
        ((Shard.run logsBatch c { key := key, data := [], cnt := 0, deadline := T0 + c.timeout } ls).1.shutdown logsBatch c tEnd).2,
      ∀ x ∈ flatten e.p, e.t ≤ arr x + c.timeout :=
  C17_timeout logsBatch flatten logs_laws logs_fifo c hv arr key T0 tEnd ls hw

theorem C17_timeout_metrics (c : Cfg) (hv : c.valid) (arr : MCtx → Nat) (key : Key) (T0 tEnd : Nat) (ls : List (Label (List MRes)))
    (hw : WellTimed metricsBatch c mflatten arr tEnd T0 { key := key, data := [], cnt := 0, deadline := T0 + c.timeout } ls) :
    ∀ e ∈ (Shard.run metricsBatch c { key := key, data := [], cnt := 0, deadline := T0 + c.timeout } ls).2 ++
        ((Shard.run metricsBatch c { key := key, data := [], cnt := 0, deadline := T0 + c.timeout } ls).1.shutdown metricsBatch c tEnd).2,
      ∀ x ∈ mflatten e.p, e.t ≤ arr x + c.timeout :=
  C17_timeout metricsBatch mflatten metrics_laws metrics_fifo c hv arr key T0 tEnd ls hw

/-- non-vacuity of `WellTimed`: 5 records at t=7 (two batches at once, one record waits), timer at t=100, 2 records at
t=150, shutdown at t=180 — every record leaves within 100 of its arrival -/
example :
    WellTimed logsBatch { sbs := 2, max := 2, timeout := 100 } flatten (fun x => if x.2.2.id < 20 then 7 else 150) 180 0
      { key := [], data := [], cnt := 0, deadline := 100 }
      [.arrive 7 [⟨⟨1, 0, 0⟩, [⟨⟨2, 0, 0, 0, 0⟩, [⟨10, 0, 1⟩, ⟨11, 0, 1⟩, ⟨12, 0, 1⟩, ⟨13, 0, 1⟩, ⟨14, 0, 1⟩]⟩]⟩], .tick,
       .arrive 150 [⟨⟨1, 0, 0⟩, [⟨⟨2, 0, 0, 0, 0⟩, [⟨20, 0, 1⟩]⟩]⟩]] := by
  simp only [WellTimed]
  refine ⟨by decide, fun _ => by decide, by decide, by decide, by decide, by decide, fun _ => by decide, by decide,
    by decide, fun _ => by decide⟩

/-- non-vacuity: 5 records, send_batch_size 2, max 2: two batches at once, one record waits for the timer -/
example :
    let c : Cfg := { sbs := 2, max := 2, timeout := 100 }
    let s0 : Shard (List Res) := { key := [], data := [], cnt := 0, deadline := 100 }
    let p : List Res := [⟨⟨1, 0, 0⟩, [⟨⟨2, 0, 0, 0, 0⟩, [⟨10, 0, 1⟩, ⟨11, 0, 1⟩, ⟨12, 0, 1⟩, ⟨13, 0, 1⟩, ⟨14, 0, 1⟩]⟩]⟩]
    let r := Shard.run logsBatch c s0 [.arrive 7 p, .tick]
    r.2.map (fun e => (e.t, (flatten e.p).map (·.2.2.id))) = [(7, [10, 11]), (7, [12, 13]), (107, [14])] := by decide


/-! ## timeout when the shard goroutine is LATE (round 2, second session)

`WellTimed` restricts histories to the ideal schedule: a due timer fires exactly at its deadline and no arrival is handled
after a due deadline.  Go's `select` gives no such guarantee (both cases may be ready; the goroutine may be descheduled).
`LateTimed δ` is the explicit LATENCY hypothesis instead: every label is handled at most `δ` after the pending deadline - a
firing at any `now ∈ [deadline, deadline + δ]` (the timer is then re-armed from `now`, as `resetTimer` does), an arrival at any
`now ≤ deadline + δ`.  Under it every item leaves within `timeout + δ` of its arrival; `δ = 0` is `WellTimed`. -/

/-- a label with its own clock: the timer case may be taken late -/
inductive LLabel (P : Type) where
  | arrive (now : Nat) (p : P)
  | tickAt (now : Nat)

/-- `case <-timerCh:` handled at `now ≥ deadline`: `sendItems` stamps the batch with `now`, `resetTimer` re-arms from `now` -/
def Shard.tickAt {P : Type} (o : BatchOps P) (c : Cfg) (now : Nat) (s : Shard P) : Shard P × List (Emit P) :=
  ({ s with deadline := now } : Shard P).tick o c

def Shard.lstep {P : Type} (o : BatchOps P) (c : Cfg) (s : Shard P) : LLabel P → Shard P × List (Emit P)
  | .arrive now p => s.process o c now p
  | .tickAt now => s.tickAt o c now

def Shard.lrun {P : Type} (o : BatchOps P) (c : Cfg) : Shard P → List (LLabel P) → Shard P × List (Emit P)
  | s, [] => (s, [])
  | s, l :: ls =>
    let r := s.lstep o c l
    let r' := Shard.lrun o c r.1 ls
    (r'.1, r.2 ++ r'.2)

/-- the latency hypothesis: clocks are monotone, every arrival carries its arrival time, and nothing is handled more than
`δ` after the pending deadline (with a timer) -/
def LateTimed {P β : Type} (o : BatchOps P) (c : Cfg) (flat : P → List β) (arr : β → Nat) (tEnd δ : Nat) :
    Nat → Shard P → List (LLabel P) → Prop
  | T, s, [] => T ≤ tEnd ∧ (hasTimer c = true → tEnd ≤ s.deadline + δ)
  | T, s, .arrive now p :: ls =>
    T ≤ now ∧ (hasTimer c = true → now ≤ s.deadline + δ) ∧ (∀ x ∈ flat p, arr x = now) ∧
      LateTimed o c flat arr tEnd δ now (s.process o c now p).1 ls
  | T, s, .tickAt now :: ls =>
    hasTimer c = true ∧ T ≤ now ∧ s.deadline ≤ now ∧ now ≤ s.deadline + δ ∧
      LateTimed o c flat arr tEnd δ now (s.tickAt o c now).1 ls

theorem timeout_run_late {P β : Type} (o : BatchOps P) (flat : P → List β) (hl : BatchLaws o flat) (hf : Fifo o flat) (c : Cfg)
    (hv : c.valid) (arr : β → Nat) (tEnd δ : Nat) :
    ∀ (ls : List (LLabel P)) (s : Shard P) (T : Nat), s.inv o c →
      (hasTimer c = true → (∀ x ∈ flat s.data, s.deadline ≤ arr x + c.timeout) ∧ s.deadline ≤ T + c.timeout) →
      LateTimed o c flat arr tEnd δ T s ls →
      ∀ e ∈ (Shard.lrun o c s ls).2 ++ ((Shard.lrun o c s ls).1.shutdown o c tEnd).2, ∀ x ∈ flat e.p,
        e.t ≤ arr x + c.timeout + δ := by
  intro ls
  induction ls with
  | nil =>
    intro s T hi hti hw e he x hx
    simp only [Shard.lrun, List.nil_append] at he
    simp only [LateTimed] at hw
    by_cases ht : hasTimer c = true
    · simp only [Shard.shutdown] at he
      split at he
      · simp only [List.mem_singleton] at he
        subst he
        have sp := send_spec o flat hl c tEnd s hi.1
        have hx' : x ∈ flat s.data := sp.2.1.subset (List.mem_append.mpr (Or.inl hx))
        have := (hti ht).1 x hx'
        have := hw.2 ht
        rw [sp.2.2.2.2.2.2.2]
        omega
      · simp at he
    · have ht' : hasTimer c = false := by simpa using ht
      have h0 := cnt_zero_of_no_timer c s ht' hi.2
      simp [Shard.shutdown, h0] at he
  | cons l ls ih =>
    intro s T hi hti hw e he x hx
    simp only [Shard.lrun, List.append_assoc] at he
    cases l with
    | arrive now p =>
      simp only [LateTimed] at hw
      obtain ⟨hT, hnow, hnew, hrest⟩ := hw
      have ps := process_spec o flat hl c now s p hi.1
      simp only [Shard.lstep] at he
      by_cases ht : hasTimer c = true
      · have pt := process_timed_late o flat hl hf c hv arr now T s p hi (hti ht).1 (hti ht).2 hT δ (hnow ht) hnew
        rcases List.mem_append.mp he with h | h
        · exact pt.1 e h x hx
        · exact ih (s.process o c now p).1 now ps.1 (fun _ => ⟨pt.2.1, pt.2.2⟩) hrest e h x hx
      · have ht' : hasTimer c = false := by simpa using ht
        rcases List.mem_append.mp he with h | h
        · have h0 := cnt_zero_of_no_timer c s ht' hi.2
          have hnil := flat_nil_of_cnt o flat hl s hi.1 h0
          have hx' : x ∈ flat s.data ++ flat p := by
            apply ps.2.1.subset
            apply List.mem_append.mpr; left
            exact List.mem_flatMap.mpr ⟨e, h, hx⟩
          rw [hnil, List.nil_append] at hx'
          have := hnew x hx'
          have := (ps.2.2.2.2 e h).2
          omega
        · exact ih (s.process o c now p).1 now ps.1 (fun h' => absurd h' ht) hrest e h x hx
    | tickAt now =>
      simp only [LateTimed] at hw
      obtain ⟨ht, hT, hge, hle, hrest⟩ := hw
      simp only [Shard.lstep] at he
      have hi' : ({ s with deadline := now } : Shard P).inv o c := hi
      have ts := tick_spec o flat hl c hv ({ s with deadline := now } : Shard P) hi'
      rcases List.mem_append.mp he with h | h
      · have hx' : x ∈ flat s.data := by
          apply ts.2.2.1.subset
          apply List.mem_append.mpr; left
          exact List.mem_flatMap.mpr ⟨e, h, hx⟩
        have := (hti ht).1 x hx'
        have het := (ts.2.2.2.2.2 e h).2
        simp only at het
        omega
      · refine ih (s.tickAt o c now).1 now ts.1 ?_ hrest e h x hx
        intro _
        have hnil := flat_nil_of_cnt o flat hl _ ts.1.1 ts.2.1
        refine ⟨by intro y hy; simp only [Shard.tickAt] at hy; rw [hnil] at hy; simp at hy, ?_⟩
        have : (s.tickAt o c now).1.deadline = now + c.timeout := by
          simp only [Shard.tickAt, Shard.tick]; split <;> rfl
        omega

/-- **timeout under an explicit latency hypothesis** (discharges the ideal-schedule restriction of `C17_timeout`): if the
shard goroutine handles every timer firing and every arrival at most `δ` after the pending deadline (`LateTimed δ`; a late
firing re-arms the timer from the moment it is handled, like `resetTimer`), then over every such history - size-triggered and
partial sends, late firings, arrivals processed while the timer is already due, final shutdown - every item leaves at most
`timeout + δ` after it arrived.  No hypothesis on the ORDER in which `select` takes two ready cases is needed. -/
theorem C17_timeout_late {P β : Type} (o : BatchOps P) (flat : P → List β) (hl : BatchLaws o flat) (hf : Fifo o flat) (c : Cfg)
    (hv : c.valid) (arr : β → Nat) (key : Key) (T0 tEnd δ : Nat) (ls : List (LLabel P))
    (hw : LateTimed o c flat arr tEnd δ T0 { key := key, data := o.empty, cnt := 0, deadline := T0 + c.timeout } ls) :
    let s0 : Shard P := { key := key, data := o.empty, cnt := 0, deadline := T0 + c.timeout }
    ∀ e ∈ (Shard.lrun o c s0 ls).2 ++ ((Shard.lrun o c s0 ls).1.shutdown o c tEnd).2, ∀ x ∈ flat e.p,
      e.t ≤ arr x + c.timeout + δ := by
  intro s0
  have hi0 : s0.inv o c := ⟨by simp [s0, Shard.ok, hl.count_eq, hl.empty], by simp [s0, due]⟩
  exact timeout_run_late o flat hl hf c hv arr tEnd δ ls s0 T0 hi0
    (fun _ => ⟨by intro x hx; simp [s0, hl.empty] at hx, Nat.le_refl _⟩) hw

/-- non-vacuity of `LateTimed`: timeout 100, δ = 30.  3 records at t=7 (size 5: they wait); the timer, due at 100, is handled
at t=125 - AFTER an arrival at t=110 that was taken first although the timer was already due; both leave at 125 (≤ 7+100+30),
the timer is re-armed to 225; one more record at t=230 leaves at shutdown t=240 -/
example :
    LateTimed logsBatch { sbs := 5, max := 0, timeout := 100 } flatten
      (fun x => if x.2.2.id < 20 then 7 else if x.2.2.id < 30 then 110 else 230) 240 30 0
      { key := [], data := [], cnt := 0, deadline := 100 }
      [.arrive 7 [⟨⟨1, 0, 0⟩, [⟨⟨2, 0, 0, 0, 0⟩, [⟨10, 0, 1⟩, ⟨11, 0, 1⟩, ⟨12, 0, 1⟩]⟩]⟩],
       .arrive 110 [⟨⟨1, 0, 0⟩, [⟨⟨2, 0, 0, 0, 0⟩, [⟨20, 0, 1⟩]⟩]⟩], .tickAt 125,
       .arrive 230 [⟨⟨1, 0, 0⟩, [⟨⟨2, 0, 0, 0, 0⟩, [⟨30, 0, 1⟩]⟩]⟩]] ∧
    ((Shard.lrun logsBatch { sbs := 5, max := 0, timeout := 100 } { key := [], data := [], cnt := 0, deadline := 100 }
      [.arrive 7 [⟨⟨1, 0, 0⟩, [⟨⟨2, 0, 0, 0, 0⟩, [⟨10, 0, 1⟩, ⟨11, 0, 1⟩, ⟨12, 0, 1⟩]⟩]⟩],
       .arrive 110 [⟨⟨1, 0, 0⟩, [⟨⟨2, 0, 0, 0, 0⟩, [⟨20, 0, 1⟩]⟩]⟩], .tickAt 125]).2.map
      (fun e => (e.t, (flatten e.p).map (·.2.2.id)))) = [(125, [10, 11, 12, 20])] := by
  refine ⟨?_, by decide⟩
  simp only [LateTimed]
  refine ⟨by decide, fun _ => by decide, by decide, by decide, fun _ => by decide, by decide, by decide, by decide, by decide,
    by decide, by decide, fun _ => by decide, by decide, by decide, fun _ => by decide⟩


/-! ## the whole processor: sharder + all shards, every sequence of operations -/

/-- an operation on the processor: a `Consume` call with its client-metadata group, or virtual time passing (every timer
that comes due fires) -/
inductive POp (P : Type) where
  | arrive (key : Key) (p : P)
  | advance (dt : Nat)

/-- final processor, everything emitted, and the flattening of everything that was ACCEPTED (a refused arrival is not) -/
def Proc.runOps {P β : Type} (o : BatchOps P) (c : Cfg) (flat : P → List β) : Proc P → List (POp P) → Proc P × List (Emit P) × List β
  | pr, [] => (pr, [], [])
  | pr, .arrive key p :: ops =>
    match pr.arrive o c key p with
    | some (pr', es) =>
      let r := Proc.runOps o c flat pr' ops
      (r.1, es ++ r.2.1, flat p ++ r.2.2)
    | none => Proc.runOps o c flat pr ops
  | pr, .advance dt :: ops =>
    let a := pr.advance o c dt
    let r := Proc.runOps o c flat a.1 ops
    (r.1, a.2 ++ r.2.1, r.2.2)

theorem arrive_proc {P β : Type} (o : BatchOps P) (flat : P → List β) (hl : BatchLaws o flat) (c : Cfg) (pr pr' : Proc P)
    (key : Key) (p : P) (es : List (Emit P)) (h : pr.arrive o c key p = some (pr', es)) (hp : PInv o c pr.shards) :
    PInv o c pr'.shards ∧ (flatEmits flat es ++ dataFlat flat pr'.shards).Perm (dataFlat flat pr.shards ++ flat p) ∧
    (c.max > 0 → ∀ e ∈ es, o.count e.p ≤ c.max) := by
  simp only [Proc.arrive] at h
  split at h
  · next s hf =>
    injection h with h
    have hm : s ∈ pr.shards := List.mem_of_find?_eq_some hf
    have ps := process_spec o flat hl c pr.now s p (hp.1 s hm).1
    have st : ShardStep o c flat s (s.process o c pr.now p).1 (s.process o c pr.now p).2 (flat p) :=
      ⟨ps.1, ps.2.2.2.1, ps.2.1, ps.2.2.1, fun e he => (ps.2.2.2.2 e he).1⟩
    have := lift_step o c flat pr.shards s _ _ (flat p) hp hm st
    have h1 : pr'.shards = replaceShard (s.process o c pr.now p).1 pr.shards := by
      have := congrArg Prod.fst h; simp at this; rw [← this]
    have h2 : es = (s.process o c pr.now p).2 := by
      have := congrArg Prod.snd h; simpa using this.symm
    rw [h1, h2]
    exact ⟨this.1, this.2, ps.2.2.1⟩
  · next hf =>
    split at h
    · cases h
    · injection h with h
      have ps := process_spec o flat hl c pr.now { key := key, data := o.empty, cnt := 0, deadline := pr.now + c.timeout } p
        (by simp [Shard.ok, hl.count_eq, hl.empty])
      have h1 : pr'.shards = pr.shards ++ [(Shard.process o c pr.now { key := key, data := o.empty, cnt := 0, deadline := pr.now + c.timeout } p).1] := by
        have := congrArg Prod.fst h; simp at this; rw [← this]
      have h2 : es = (Shard.process o c pr.now { key := key, data := o.empty, cnt := 0, deadline := pr.now + c.timeout } p).2 := by
        have := congrArg Prod.snd h; simpa using this.symm
      rw [h1, h2]
      refine ⟨⟨?_, ?_⟩, ?_, ps.2.2.1⟩
      · intro t ht
        rcases List.mem_append.mp ht with h' | h'
        · exact hp.1 t h'
        · simp only [List.mem_singleton] at h'; rw [h']; exact ps.1
      · simp only [List.map_append, List.map_cons, List.map_nil]
        rw [List.nodup_append]
        refine ⟨hp.2, by simp, ?_⟩
        intro a ha b hb
        simp only [List.mem_singleton] at hb
        subst hb
        rw [ps.2.2.2.1]
        simp only [List.mem_map] at ha
        obtain ⟨t, htm, rfl⟩ := ha
        intro hk
        have := List.find?_eq_none.mp hf t htm
        simp [hk] at this
      · have := ps.2.1
        simp only [hl.empty, List.nil_append] at this
        simp only [dataFlat, List.flatMap_append, List.flatMap_cons, List.flatMap_nil, List.append_nil]
        refine (List.perm_append_comm.trans ?_)
        rw [List.append_assoc]
        exact List.Perm.append_left _ (List.perm_append_comm.trans this)

theorem go_proc {P β : Type} (o : BatchOps P) (flat : P → List β) (hl : BatchLaws o flat) (c : Cfg) (hv : c.valid) (target : Nat) :
    ∀ (fuel : Nat) (ss : List (Shard P)) (acc : List (Emit P)), PInv o c ss →
      PInv o c (Proc.advance.go o c target fuel ss acc).1 ∧
      (flatEmits flat (Proc.advance.go o c target fuel ss acc).2 ++ dataFlat flat (Proc.advance.go o c target fuel ss acc).1).Perm
        (flatEmits flat acc ++ dataFlat flat ss) ∧
      (c.max > 0 → (∀ e ∈ acc, o.count e.p ≤ c.max) → ∀ e ∈ (Proc.advance.go o c target fuel ss acc).2, o.count e.p ≤ c.max) := by
  intro fuel
  induction fuel with
  | zero => intro ss acc hp; exact ⟨hp, List.Perm.refl _, fun _ h => h⟩
  | succ n ih =>
    intro ss acc hp
    simp only [Proc.advance.go]
    split
    · exact ⟨hp, List.Perm.refl _, fun _ h => h⟩
    · next s hf =>
      have hm : s ∈ ss := List.mem_of_find?_eq_some hf
      have ts := tick_spec o flat hl c hv s (hp.1 s hm)
      have st : ShardStep o c flat s (s.tick o c).1 (s.tick o c).2 [] :=
        ⟨ts.1, ts.2.2.2.2.1, by simpa using ts.2.2.1, ts.2.2.2.1, fun e he => (ts.2.2.2.2.2 e he).1⟩
      have lf := lift_step o c flat ss s _ _ [] hp hm st
      have := ih (replaceShard (s.tick o c).1 ss) (acc ++ (s.tick o c).2) lf.1
      refine ⟨this.1, ?_, ?_⟩
      · refine this.2.1.trans ?_
        simp only [flatEmits, List.flatMap_append, List.append_assoc] at lf ⊢
        exact List.Perm.append_left _ (by simpa using lf.2)
      · intro hm' hacc
        apply this.2.2 hm'
        intro e he
        rcases List.mem_append.mp he with h | h
        · exact hacc e h
        · exact ts.2.2.2.1 hm' e h

theorem advance_proc {P β : Type} (o : BatchOps P) (flat : P → List β) (hl : BatchLaws o flat) (c : Cfg) (hv : c.valid)
    (pr : Proc P) (dt : Nat) (hp : PInv o c pr.shards) :
    PInv o c (pr.advance o c dt).1.shards ∧
    (flatEmits flat (pr.advance o c dt).2 ++ dataFlat flat (pr.advance o c dt).1.shards).Perm (dataFlat flat pr.shards) ∧
    (c.max > 0 → ∀ e ∈ (pr.advance o c dt).2, o.count e.p ≤ c.max) := by
  simp only [Proc.advance]
  split
  · exact ⟨hp, by simp [flatEmits], fun _ e he => by simp at he⟩
  · have := go_proc o flat hl c hv (pr.now + dt) ((dt / c.timeout + 2) * (pr.shards.length + 1)) pr.shards [] hp
    exact ⟨this.1, by simpa [flatEmits] using this.2.1, fun hm => this.2.2 hm (by simp)⟩

theorem shutdown_proc {P β : Type} (o : BatchOps P) (flat : P → List β) (hl : BatchLaws o flat) (c : Cfg) (hv : c.valid)
    (now : Nat) : ∀ (shards : List (Shard P)), (∀ s ∈ shards, s.ok o ∧ due c s = false) →
      (flatEmits flat ((shards.map (fun s => s.shutdown o c now)).flatMap (·.2))).Perm (dataFlat flat shards) ∧
      (c.max > 0 → ∀ e ∈ (shards.map (fun s => s.shutdown o c now)).flatMap (·.2), o.count e.p ≤ c.max) := by
  intro shards
  induction shards with
  | nil => intro _; simp [flatEmits, dataFlat]
  | cons a l ih =>
    intro h
    have sa := shutdown_spec o flat hl c hv now a (h a (by simp))
    have sl := ih (fun s hs => h s (by simp [hs]))
    refine ⟨?_, ?_⟩
    · simp only [List.map_cons, List.flatMap_cons, flatEmits, List.flatMap_append, dataFlat] at sa sl ⊢
      exact List.Perm.append sa.1 sl.1
    · intro hm e he
      simp only [List.map_cons, List.flatMap_cons, List.mem_append] at he
      rcases he with h' | h'
      · exact sa.2.1 hm e h'
      · exact sl.2 hm e h'

theorem runOps_spec {P β : Type} (o : BatchOps P) (flat : P → List β) (hl : BatchLaws o flat) (c : Cfg) (hv : c.valid) :
    ∀ (ops : List (POp P)) (pr : Proc P), PInv o c pr.shards →
      PInv o c (Proc.runOps o c flat pr ops).1.shards ∧
      (flatEmits flat (Proc.runOps o c flat pr ops).2.1 ++ dataFlat flat (Proc.runOps o c flat pr ops).1.shards).Perm
        (dataFlat flat pr.shards ++ (Proc.runOps o c flat pr ops).2.2) ∧
      (c.max > 0 → ∀ e ∈ (Proc.runOps o c flat pr ops).2.1, o.count e.p ≤ c.max) := by
  intro ops
  induction ops with
  | nil => intro pr hp; exact ⟨hp, by simp [Proc.runOps, flatEmits], fun _ e he => by simp [Proc.runOps] at he⟩
  | cons op ops ih =>
    intro pr hp
    cases op with
    | arrive key p =>
      simp only [Proc.runOps]
      cases ha : pr.arrive o c key p with
      | none => exact ih pr hp
      | some x =>
        obtain ⟨pr', es⟩ := x
        have a := arrive_proc o flat hl c pr pr' key p es ha hp
        have r := ih pr' a.1
        refine ⟨r.1, ?_, ?_⟩
        · simp only [flatEmits, List.flatMap_append, List.append_assoc] at r a ⊢
          refine (List.Perm.append_left _ r.2.1).trans ?_
          rw [← List.append_assoc, ← List.append_assoc]
          exact List.Perm.append_right _ (by simpa [List.append_assoc] using a.2.1)
        · intro hm e he
          rcases List.mem_append.mp he with h | h
          · exact a.2.2 hm e h
          · exact r.2.2 hm e h
    | advance dt =>
      simp only [Proc.runOps]
      have a := advance_proc o flat hl c hv pr dt hp
      have r := ih (pr.advance o c dt).1 a.1
      refine ⟨r.1, ?_, ?_⟩
      · simp only [flatEmits, List.flatMap_append, List.append_assoc] at r a ⊢
        refine (List.Perm.append_left _ r.2.1).trans ?_
        rw [← List.append_assoc]
        exact List.Perm.append_right _ a.2.1
      · intro hm e he
        rcases List.mem_append.mp he with h | h
        · exact a.2.2 hm e h
        · exact r.2.2 hm e h

/-- **the whole processor, exactly once and bounded**: for every validated configuration (any number of metadata keys, any
cardinality limit), every sequence of `Consume` calls with arbitrary metadata groups and of time steps (all due timers
fire), and shutdown at the end: what was emitted downstream by the time shutdown returns is exactly — as a multiset with
full context — what was ACCEPTED (refused arrivals excluded); and no batch exceeds `send_batch_max_size` -/
theorem C17_proc_exactly_once {P β : Type} (o : BatchOps P) (flat : P → List β) (hl : BatchLaws o flat) (c : Cfg) (hv : c.valid)
    (ops : List (POp P)) :
    let r := Proc.runOps o c flat (Proc.init o c) ops
    let sh := r.1.shutdown o c
    (flatEmits flat (r.2.1 ++ sh.2)).Perm r.2.2 ∧ (c.max > 0 → ∀ e ∈ r.2.1 ++ sh.2, o.count e.p ≤ c.max) := by
  intro r sh
  have hp0 : PInv o c (Proc.init o c).shards := by
    simp only [Proc.init]
    split
    · exact ⟨by intro s hs; simp only [List.mem_singleton] at hs; subst hs; simp [Shard.ok, hl.count_eq, hl.empty, due], by simp⟩
    · exact ⟨by intro s hs; simp at hs, by simp⟩
  have hd0 : dataFlat flat (Proc.init o c).shards = [] := by
    simp only [Proc.init]; split <;> simp [dataFlat, hl.empty]
  have hr := runOps_spec o flat hl c hv ops (Proc.init o c) hp0
  have hs := shutdown_proc o flat hl c hv r.1.now r.1.shards hr.1.1
  refine ⟨?_, ?_⟩
  · have h1 := hr.2.1
    rw [hd0, List.nil_append] at h1
    simp only [flatEmits, List.flatMap_append] at h1 hs ⊢
    exact (List.Perm.append_left _ hs.1).trans h1
  · intro hm e he
    rcases List.mem_append.mp he with h | h
    · exact hr.2.2 hm e h
    · exact hs.2 hm e h


/-! ### metadata isolation for the whole processor -/

/-- `akey x` = the metadata group item `x` arrived with: every `Consume` call's items carry that call's group -/
def OpsTagged {P β : Type} (flat : P → List β) (akey : β → Key) : List (POp P) → Prop
  | [] => True
  | .arrive key p :: ops => (∀ x ∈ flat p, akey x = key) ∧ OpsTagged flat akey ops
  | .advance _ :: ops => OpsTagged flat akey ops

/-- everything pending in a shard arrived with that shard's group -/
def KInv {P β : Type} (flat : P → List β) (akey : β → Key) (shards : List (Shard P)) : Prop :=
  ∀ s ∈ shards, ∀ x ∈ flat s.data, akey x = s.key

theorem step_iso {P β : Type} (o : BatchOps P) (c : Cfg) (flat : P → List β) (akey : β → Key) (s s' : Shard P)
    (es : List (Emit P)) (extra : List β) (st : ShardStep o c flat s s' es extra)
    (hold : ∀ x ∈ flat s.data, akey x = s.key) (hex : ∀ x ∈ extra, akey x = s.key) :
    (∀ x ∈ flat s'.data, akey x = s'.key) ∧ (∀ e ∈ es, ∀ x ∈ flat e.p, akey x = e.key) := by
  have hall : ∀ x ∈ flatEmits flat es ++ flat s'.data, akey x = s.key := by
    intro x hx
    rcases List.mem_append.mp (st.perm.subset hx) with h | h
    · exact hold x h
    · exact hex x h
  refine ⟨?_, ?_⟩
  · intro x hx; rw [st.key]; exact hall x (List.mem_append.mpr (Or.inr hx))
  · intro e he x hx
    rw [st.ekey e he]
    exact hall x (List.mem_append.mpr (Or.inl (List.mem_flatMap.mpr ⟨e, he, hx⟩)))

theorem kinv_replace {P β : Type} (flat : P → List β) (akey : β → Key) (shards : List (Shard P)) (s s' : Shard P)
    (hs : s ∈ shards) (hk : s'.key = s.key) (hnd : (shards.map (·.key)).Nodup) (hki : KInv flat akey shards)
    (hnew : ∀ x ∈ flat s'.data, akey x = s'.key) : KInv flat akey (replaceShard s' shards) := by
  obtain ⟨_, h2, _⟩ := replace_spec flat s' shards s hs hk.symm hnd
  intro t ht x hx
  rcases h2 t ht with h | h
  · rw [h] at hx ⊢; exact hnew x hx
  · exact hki t h x hx

theorem arrive_iso {P β : Type} (o : BatchOps P) (flat : P → List β) (hl : BatchLaws o flat) (c : Cfg) (akey : β → Key)
    (pr pr' : Proc P) (key : Key) (p : P) (es : List (Emit P)) (h : pr.arrive o c key p = some (pr', es))
    (hp : PInv o c pr.shards) (hki : KInv flat akey pr.shards) (htag : ∀ x ∈ flat p, akey x = key) :
    KInv flat akey pr'.shards ∧ ∀ e ∈ es, ∀ x ∈ flat e.p, akey x = e.key := by
  simp only [Proc.arrive] at h
  split at h
  · next s hf =>
    injection h with h
    have hm : s ∈ pr.shards := List.mem_of_find?_eq_some hf
    have hk : s.key = key := by simpa using List.find?_some hf
    have ps := process_spec o flat hl c pr.now s p (hp.1 s hm).1
    have st : ShardStep o c flat s (s.process o c pr.now p).1 (s.process o c pr.now p).2 (flat p) :=
      ⟨ps.1, ps.2.2.2.1, ps.2.1, ps.2.2.1, fun e he => (ps.2.2.2.2 e he).1⟩
    have si := step_iso o c flat akey s _ _ (flat p) st (hki s hm) (by intro x hx; rw [hk]; exact htag x hx)
    have h1 : pr'.shards = replaceShard (s.process o c pr.now p).1 pr.shards := by
      have := congrArg Prod.fst h; simp at this; rw [← this]
    have h2 : es = (s.process o c pr.now p).2 := by
      have := congrArg Prod.snd h; simpa using this.symm
    rw [h1, h2]
    exact ⟨kinv_replace flat akey pr.shards s _ hm st.key hp.2 hki si.1, si.2⟩
  · next hf =>
    split at h
    · cases h
    · injection h with h
      have ps := process_spec o flat hl c pr.now { key := key, data := o.empty, cnt := 0, deadline := pr.now + c.timeout } p
        (by simp [Shard.ok, hl.count_eq, hl.empty])
      have st : ShardStep o c flat { key := key, data := o.empty, cnt := 0, deadline := pr.now + c.timeout }
          (Shard.process o c pr.now { key := key, data := o.empty, cnt := 0, deadline := pr.now + c.timeout } p).1
          (Shard.process o c pr.now { key := key, data := o.empty, cnt := 0, deadline := pr.now + c.timeout } p).2 (flat p) :=
        ⟨ps.1, ps.2.2.2.1, ps.2.1, ps.2.2.1, fun e he => (ps.2.2.2.2 e he).1⟩
      have si := step_iso o c flat akey _ _ _ (flat p) st (by intro x hx; simp [hl.empty] at hx) htag
      have h1 : pr'.shards = pr.shards ++ [(Shard.process o c pr.now { key := key, data := o.empty, cnt := 0, deadline := pr.now + c.timeout } p).1] := by
        have := congrArg Prod.fst h; simp at this; rw [← this]
      have h2 : es = (Shard.process o c pr.now { key := key, data := o.empty, cnt := 0, deadline := pr.now + c.timeout } p).2 := by
        have := congrArg Prod.snd h; simpa using this.symm
      rw [h1, h2]
      refine ⟨?_, si.2⟩
      intro t ht x hx
      rcases List.mem_append.mp ht with h' | h'
      · exact hki t h' x hx
      · simp only [List.mem_singleton] at h'; rw [h'] at hx ⊢; exact si.1 x hx

theorem go_iso {P β : Type} (o : BatchOps P) (flat : P → List β) (hl : BatchLaws o flat) (c : Cfg) (hv : c.valid) (akey : β → Key)
    (target : Nat) :
    ∀ (fuel : Nat) (ss : List (Shard P)) (acc : List (Emit P)), PInv o c ss → KInv flat akey ss →
      (∀ e ∈ acc, ∀ x ∈ flat e.p, akey x = e.key) →
      KInv flat akey (Proc.advance.go o c target fuel ss acc).1 ∧
      ∀ e ∈ (Proc.advance.go o c target fuel ss acc).2, ∀ x ∈ flat e.p, akey x = e.key := by
  intro fuel
  induction fuel with
  | zero => intro ss acc _ hk ha; exact ⟨hk, ha⟩
  | succ n ih =>
    intro ss acc hp hk ha
    simp only [Proc.advance.go]
    split
    · exact ⟨hk, ha⟩
    · next s hf =>
      have hm : s ∈ ss := List.mem_of_find?_eq_some hf
      have ts := tick_spec o flat hl c hv s (hp.1 s hm)
      have st : ShardStep o c flat s (s.tick o c).1 (s.tick o c).2 [] :=
        ⟨ts.1, ts.2.2.2.2.1, by simpa using ts.2.2.1, ts.2.2.2.1, fun e he => (ts.2.2.2.2.2 e he).1⟩
      have si := step_iso o c flat akey s _ _ [] st (hk s hm) (by intro x hx; simp at hx)
      have lf := lift_step o c flat ss s _ _ [] hp hm st
      refine ih _ _ lf.1 (kinv_replace flat akey ss s _ hm st.key hp.2 hk si.1) ?_
      intro e he
      rcases List.mem_append.mp he with h | h
      · exact ha e h
      · exact si.2 e h

theorem runOps_iso {P β : Type} (o : BatchOps P) (flat : P → List β) (hl : BatchLaws o flat) (c : Cfg) (hv : c.valid)
    (akey : β → Key) :
    ∀ (ops : List (POp P)) (pr : Proc P), PInv o c pr.shards → KInv flat akey pr.shards → OpsTagged flat akey ops →
      KInv flat akey (Proc.runOps o c flat pr ops).1.shards ∧
      ∀ e ∈ (Proc.runOps o c flat pr ops).2.1, ∀ x ∈ flat e.p, akey x = e.key := by
  intro ops
  induction ops with
  | nil => intro pr _ hk _; exact ⟨hk, by intro e he; simp [Proc.runOps] at he⟩
  | cons op ops ih =>
    intro pr hp hk ht
    cases op with
    | arrive key p =>
      simp only [OpsTagged] at ht
      simp only [Proc.runOps]
      cases ha : pr.arrive o c key p with
      | none => exact ih pr hp hk ht.2
      | some x =>
        obtain ⟨pr', es⟩ := x
        have a := arrive_proc o flat hl c pr pr' key p es ha hp
        have ai := arrive_iso o flat hl c akey pr pr' key p es ha hp hk ht.1
        have r := ih pr' a.1 ai.1 ht.2
        refine ⟨r.1, ?_⟩
        intro e he
        rcases List.mem_append.mp he with h | h
        · exact ai.2 e h
        · exact r.2 e h
    | advance dt =>
      simp only [OpsTagged] at ht
      simp only [Proc.runOps]
      have a := advance_proc o flat hl c hv pr dt hp
      have ai : KInv flat akey (pr.advance o c dt).1.shards ∧ ∀ e ∈ (pr.advance o c dt).2, ∀ x ∈ flat e.p, akey x = e.key := by
        simp only [Proc.advance]
        split
        · exact ⟨hk, by intro e he; simp at he⟩
        · exact go_iso o flat hl c hv akey (pr.now + dt) _ pr.shards [] hp hk (by intro e he; simp at he)
      have r := ih (pr.advance o c dt).1 a.1 ai.1 ht
      refine ⟨r.1, ?_⟩
      intro e he
      rcases List.mem_append.mp he with h | h
      · exact ai.2 e h
      · exact r.2 e h

/-- **metadata isolation, whole processor**: for every sequence of `Consume` calls (each with its own client-metadata
group, any number of groups, any cardinality limit) and time steps, and the final shutdown: every item of every batch
sent downstream arrived with exactly the metadata group the batch is sent with — items with different values of the
configured keys never share a batch, and each batch's export metadata is its group's (routing by `Proc.arrive`, per-shard
keys that never change, `find?`/`replaceShard` bookkeeping, all in one statement) -/
theorem C17_proc_metadata_isolation {P β : Type} (o : BatchOps P) (flat : P → List β) (hl : BatchLaws o flat) (c : Cfg)
    (hv : c.valid) (akey : β → Key) (ops : List (POp P)) (ht : OpsTagged flat akey ops) :
    let r := Proc.runOps o c flat (Proc.init o c) ops
    ∀ e ∈ r.2.1 ++ (r.1.shutdown o c).2, ∀ x ∈ flat e.p, akey x = e.key := by
  intro r e he x hx
  have hp0 : PInv o c (Proc.init o c).shards := by
    simp only [Proc.init]
    split
    · exact ⟨by intro s hs; simp only [List.mem_singleton] at hs; subst hs; simp [Shard.ok, hl.count_eq, hl.empty, due], by simp⟩
    · exact ⟨by intro s hs; simp at hs, by simp⟩
  have hk0 : KInv flat akey (Proc.init o c).shards := by
    intro s hs y hy
    simp only [Proc.init] at hs
    split at hs
    · simp only [List.mem_singleton] at hs; subst hs; simp [hl.empty] at hy
    · simp at hs
  have hr := runOps_spec o flat hl c hv ops (Proc.init o c) hp0
  have hi := runOps_iso o flat hl c hv akey ops (Proc.init o c) hp0 hk0 ht
  rcases List.mem_append.mp he with h | h
  · exact hi.2 e h x hx
  · simp only [Proc.shutdown, List.mem_flatMap, List.mem_map] at h
    obtain ⟨_, ⟨s, hs, rfl⟩, hes⟩ := h
    have ss := shutdown_spec o flat hl c hv r.1.now s (hr.1.1 s hs)
    rw [ss.2.2 e hes]
    apply hi.1 s hs
    exact ss.1.subset (List.mem_flatMap.mpr ⟨e, hes, hx⟩)


/-! ### the timeout clause for the whole processor -/

/-- firings a shard still owes before virtual time `target` -/
def need {P : Type} (c : Cfg) (target : Nat) (s : Shard P) : Nat :=
  if s.deadline ≤ target then (target - s.deadline) / c.timeout + 1 else 0

theorem need_tick {P : Type} (o : BatchOps P) (c : Cfg) (hT : 0 < c.timeout) (target : Nat) (s : Shard P)
    (h : s.deadline ≤ target) : need c target (s.tick o c).1 + 1 = need c target s := by
  have hd : (s.tick o c).1.deadline = s.deadline + c.timeout := by simp only [Shard.tick]; split <;> rfl
  simp only [need, hd, h, if_true]
  by_cases h2 : s.deadline + c.timeout ≤ target
  · simp only [h2, if_true]
    have : (target - s.deadline) / c.timeout = (target - s.deadline - c.timeout) / c.timeout + 1 :=
      Nat.div_eq_sub_div hT (by omega)
    have e : target - (s.deadline + c.timeout) = target - s.deadline - c.timeout := by omega
    rw [e]; omega
  · simp only [h2, if_false]
    have : (target - s.deadline) / c.timeout = 0 := Nat.div_eq_of_lt (by omega)
    omega

theorem sum_replace {P : Type} (g : Shard P → Nat) (s' : Shard P) :
    ∀ (shards : List (Shard P)) (s : Shard P), s ∈ shards → s.key = s'.key → (shards.map (·.key)).Nodup →
      sumBy g (replaceShard s' shards) + g s = sumBy g shards + g s' := by
  intro shards
  induction shards with
  | nil => intro s hs; simp at hs
  | cons a l ih =>
    intro s hs hk hnd
    simp only [List.map_cons, List.nodup_cons] at hnd
    simp only [replaceShard]
    by_cases e : a.key = s'.key
    · have hsa : s = a := by
        rcases List.mem_cons.mp hs with h | h
        · exact h
        · exfalso; apply hnd.1; rw [e, ← hk]; exact List.mem_map.mpr ⟨s, h, rfl⟩
      subst hsa
      simp only [e, if_true, sumBy_cons]; omega
    · have hsl : s ∈ l := by
        rcases List.mem_cons.mp hs with h | h
        · exact absurd (by rw [← h, hk]) e
        · exact h
      have := ih s hsl hk hnd.2
      simp only [e, if_false, sumBy_cons]; omega

/-- the timer loop of `advance` runs to completion: afterwards no timer is due before `target` -/
theorem go_complete {P β : Type} (o : BatchOps P) (flat : P → List β) (hl : BatchLaws o flat) (c : Cfg) (hv : c.valid)
    (hT : 0 < c.timeout) (target : Nat) :
    ∀ (fuel : Nat) (ss : List (Shard P)) (acc : List (Emit P)), PInv o c ss → sumBy (need c target) ss ≤ fuel →
      ∀ s ∈ (Proc.advance.go o c target fuel ss acc).1, target < s.deadline := by
  intro fuel
  induction fuel with
  | zero =>
    intro ss acc _ hmu s hs
    simp only [Proc.advance.go] at hs
    have h0 : sumBy (need c target) ss = 0 := by omega
    have : need c target s = 0 := by
      have : ∀ (l : List (Shard P)), sumBy (need c target) l = 0 → ∀ t ∈ l, need c target t = 0 := by
        intro l
        induction l with
        | nil => intro _ t ht; simp at ht
        | cons a l ih =>
          intro h t ht
          rw [sumBy_cons] at h
          rcases List.mem_cons.mp ht with h' | h'
          · subst h'; omega
          · exact ih (by omega) t h'
      exact this ss h0 s hs
    by_cases hd : s.deadline ≤ target
    · simp [need, hd] at this
    · omega
  | succ n ih =>
    intro ss acc hp hmu s hs
    simp only [Proc.advance.go] at hs
    split at hs
    · next hf =>
      have := List.find?_eq_none.mp hf s hs
      simp only [decide_eq_true_eq] at this
      omega
    · next t hf =>
      have hm : t ∈ ss := List.mem_of_find?_eq_some hf
      have hdue : t.deadline ≤ target := by simpa using List.find?_some hf
      have ts := tick_spec o flat hl c hv t (hp.1 t hm)
      have st : ShardStep o c flat t (t.tick o c).1 (t.tick o c).2 [] :=
        ⟨ts.1, ts.2.2.2.2.1, by simpa using ts.2.2.1, ts.2.2.2.1, fun e he => (ts.2.2.2.2.2 e he).1⟩
      have lf := lift_step o c flat ss t _ _ [] hp hm st
      have hsum := sum_replace (need c target) (t.tick o c).1 ss t hm st.key.symm hp.2
      have hn := need_tick o c hT target t hdue
      exact ih _ _ lf.1 (by omega) s hs

/-- per-shard deadlines relative to the processor clock `now` (configuration with a timer) -/
def TPInv {P β : Type} (flat : P → List β) (c : Cfg) (arr : β → Nat) (now : Nat) (shards : List (Shard P)) : Prop :=
  ∀ s ∈ shards, (∀ x ∈ flat s.data, s.deadline ≤ arr x + c.timeout) ∧ s.deadline ≤ now + c.timeout ∧ now ≤ s.deadline

theorem tpinv_replace {P β : Type} (flat : P → List β) (c : Cfg) (arr : β → Nat) (now : Nat) (shards : List (Shard P))
    (s s' : Shard P) (hs : s ∈ shards) (hk : s'.key = s.key) (hnd : (shards.map (·.key)).Nodup) (ht : TPInv flat c arr now shards)
    (hnew : (∀ x ∈ flat s'.data, s'.deadline ≤ arr x + c.timeout) ∧ s'.deadline ≤ now + c.timeout ∧ now ≤ s'.deadline) :
    TPInv flat c arr now (replaceShard s' shards) := by
  obtain ⟨_, h2, _⟩ := replace_spec flat s' shards s hs hk.symm hnd
  intro t htm
  rcases h2 t htm with h | h
  · rw [h]; exact hnew
  · exact ht t h

theorem go_timed {P β : Type} (o : BatchOps P) (flat : P → List β) (hl : BatchLaws o flat) (c : Cfg) (hv : c.valid)
    (arr : β → Nat) (now0 target : Nat) :
    ∀ (fuel : Nat) (ss : List (Shard P)) (acc : List (Emit P)), PInv o c ss →
      (∀ s ∈ ss, (∀ x ∈ flat s.data, s.deadline ≤ arr x + c.timeout) ∧ s.deadline ≤ target + c.timeout ∧ now0 ≤ s.deadline) →
      (∀ e ∈ acc, ∀ x ∈ flat e.p, e.t ≤ arr x + c.timeout) →
      (∀ s ∈ (Proc.advance.go o c target fuel ss acc).1,
        (∀ x ∈ flat s.data, s.deadline ≤ arr x + c.timeout) ∧ s.deadline ≤ target + c.timeout ∧ now0 ≤ s.deadline) ∧
      ∀ e ∈ (Proc.advance.go o c target fuel ss acc).2, ∀ x ∈ flat e.p, e.t ≤ arr x + c.timeout := by
  intro fuel
  induction fuel with
  | zero => intro ss acc _ h ha; exact ⟨h, ha⟩
  | succ n ih =>
    intro ss acc hp h ha
    simp only [Proc.advance.go]
    split
    · exact ⟨h, ha⟩
    · next t hf =>
      have hm : t ∈ ss := List.mem_of_find?_eq_some hf
      have hdue : t.deadline ≤ target := by simpa using List.find?_some hf
      have ts := tick_spec o flat hl c hv t (hp.1 t hm)
      have st : ShardStep o c flat t (t.tick o c).1 (t.tick o c).2 [] :=
        ⟨ts.1, ts.2.2.2.2.1, by simpa using ts.2.2.1, ts.2.2.2.1, fun e he => (ts.2.2.2.2.2 e he).1⟩
      have lf := lift_step o c flat ss t _ _ [] hp hm st
      have hnil := flat_nil_of_cnt o flat hl _ ts.1.1 ts.2.1
      have hd : (t.tick o c).1.deadline = t.deadline + c.timeout := by simp only [Shard.tick]; split <;> rfl
      have ht := h t hm
      obtain ⟨_, h2, _⟩ := replace_spec flat (t.tick o c).1 ss t hm st.key.symm hp.2
      refine ih _ _ lf.1 ?_ ?_
      · intro u hu
        rcases h2 u hu with h' | h'
        · rw [h']
          refine ⟨by intro x hx; rw [hnil] at hx; simp at hx, by rw [hd]; omega, by rw [hd]; omega⟩
        · exact h u h'
      · intro e he
        rcases List.mem_append.mp he with h' | h'
        · exact ha e h'
        · intro x hx
          have hx' : x ∈ flat t.data := by
            apply ts.2.2.1.subset
            exact List.mem_append.mpr (Or.inl (List.mem_flatMap.mpr ⟨e, h', hx⟩))
          have := ht.1 x hx'
          have := (ts.2.2.2.2.2 e h').2
          omega

/-- arrival stamps are the processor's clock at the `Consume` call -/
def ArrTagged {P β : Type} (o : BatchOps P) (c : Cfg) (flat : P → List β) (arr : β → Nat) : Proc P → List (POp P) → Prop
  | _, [] => True
  | pr, .arrive key p :: ops =>
    (∀ x ∈ flat p, arr x = pr.now) ∧
      (match pr.arrive o c key p with
       | some (pr', _) => ArrTagged o c flat arr pr' ops
       | none => ArrTagged o c flat arr pr ops)
  | pr, .advance dt :: ops => ArrTagged o c flat arr (pr.advance o c dt).1 ops

theorem arrive_now {P : Type} (o : BatchOps P) (c : Cfg) (pr pr' : Proc P) (key : Key) (p : P) (es : List (Emit P))
    (h : pr.arrive o c key p = some (pr', es)) : pr'.now = pr.now := by
  simp only [Proc.arrive] at h
  split at h
  · injection h with h; have := congrArg Prod.fst h; simp at this; rw [← this]
  · split at h
    · cases h
    · injection h with h; have := congrArg Prod.fst h; simp at this; rw [← this]

theorem arrive_timed {P β : Type} (o : BatchOps P) (flat : P → List β) (hl : BatchLaws o flat) (hf : Fifo o flat) (c : Cfg)
    (hv : c.valid) (ht : hasTimer c = true) (arr : β → Nat) (pr pr' : Proc P) (key : Key) (p : P) (es : List (Emit P))
    (h : pr.arrive o c key p = some (pr', es)) (hp : PInv o c pr.shards) (hti : TPInv flat c arr pr.now pr.shards)
    (htag : ∀ x ∈ flat p, arr x = pr.now) :
    TPInv flat c arr pr.now pr'.shards ∧ ∀ e ∈ es, ∀ x ∈ flat e.p, e.t ≤ arr x + c.timeout := by
  simp only [Proc.arrive] at h
  split at h
  · next s hfnd =>
    injection h with h
    have hm : s ∈ pr.shards := List.mem_of_find?_eq_some hfnd
    have hs := hti s hm
    have pt := process_timed o flat hl hf c hv arr pr.now pr.now s p (hp.1 s hm) hs.1 hs.2.1 (Nat.le_refl _) hs.2.2 htag
    have ps := process_spec o flat hl c pr.now s p (hp.1 s hm).1
    have h1 : pr'.shards = replaceShard (s.process o c pr.now p).1 pr.shards := by
      have := congrArg Prod.fst h; simp at this; rw [← this]
    have h2 : es = (s.process o c pr.now p).2 := by
      have := congrArg Prod.snd h; simpa using this.symm
    rw [h1, h2]
    exact ⟨tpinv_replace flat c arr pr.now pr.shards s _ hm ps.2.2.2.1 hp.2 hti ⟨pt.2.1, pt.2.2.1, pt.2.2.2⟩, pt.1⟩
  · next hfnd =>
    split at h
    · cases h
    · injection h with h
      have pt := process_timed o flat hl hf c hv arr pr.now pr.now
        { key := key, data := o.empty, cnt := 0, deadline := pr.now + c.timeout } p
        ⟨by simp [Shard.ok, hl.count_eq, hl.empty], by simp [due]⟩ (by intro x hx; simp [hl.empty] at hx) (Nat.le_refl _)
        (Nat.le_refl _) (Nat.le_add_right _ _) htag
      have h1 : pr'.shards = pr.shards ++ [(Shard.process o c pr.now { key := key, data := o.empty, cnt := 0, deadline := pr.now + c.timeout } p).1] := by
        have := congrArg Prod.fst h; simp at this; rw [← this]
      have h2 : es = (Shard.process o c pr.now { key := key, data := o.empty, cnt := 0, deadline := pr.now + c.timeout } p).2 := by
        have := congrArg Prod.snd h; simpa using this.symm
      rw [h1, h2]
      refine ⟨?_, pt.1⟩
      intro t htm
      rcases List.mem_append.mp htm with h' | h'
      · exact hti t h'
      · simp only [List.mem_singleton] at h'; rw [h']; exact ⟨pt.2.1, pt.2.2.1, pt.2.2.2⟩

theorem runOps_timed {P β : Type} (o : BatchOps P) (flat : P → List β) (hl : BatchLaws o flat) (hf : Fifo o flat) (c : Cfg)
    (hv : c.valid) (ht : hasTimer c = true) (arr : β → Nat) :
    ∀ (ops : List (POp P)) (pr : Proc P), PInv o c pr.shards → TPInv flat c arr pr.now pr.shards → ArrTagged o c flat arr pr ops →
      TPInv flat c arr (Proc.runOps o c flat pr ops).1.now (Proc.runOps o c flat pr ops).1.shards ∧
      ∀ e ∈ (Proc.runOps o c flat pr ops).2.1, ∀ x ∈ flat e.p, e.t ≤ arr x + c.timeout := by
  have hT : 0 < c.timeout := by
    simp only [hasTimer, Bool.and_eq_true, bne_iff_ne] at ht; omega
  intro ops
  induction ops with
  | nil => intro pr _ hti _; exact ⟨hti, by intro e he; simp [Proc.runOps] at he⟩
  | cons op ops ih =>
    intro pr hp hti htag
    cases op with
    | arrive key p =>
      simp only [ArrTagged] at htag
      simp only [Proc.runOps]
      cases ha : pr.arrive o c key p with
      | none =>
        rw [ha] at htag
        exact ih pr hp hti htag.2
      | some x =>
        obtain ⟨pr', es⟩ := x
        rw [ha] at htag
        have a := arrive_proc o flat hl c pr pr' key p es ha hp
        have at' := arrive_timed o flat hl hf c hv ht arr pr pr' key p es ha hp hti htag.1
        have hn := arrive_now o c pr pr' key p es ha
        have r := ih pr' a.1 (by rw [hn]; exact at'.1) htag.2
        refine ⟨r.1, ?_⟩
        intro e he
        rcases List.mem_append.mp he with h | h
        · exact at'.2 e h
        · exact r.2 e h
    | advance dt =>
      simp only [ArrTagged] at htag
      simp only [Proc.runOps]
      have a := advance_proc o flat hl c hv pr dt hp
      have hnt : (!hasTimer c) = false := by simp [ht]
      have hadv : TPInv flat c arr (pr.advance o c dt).1.now (pr.advance o c dt).1.shards ∧
          ∀ e ∈ (pr.advance o c dt).2, ∀ x ∈ flat e.p, e.t ≤ arr x + c.timeout := by
        simp only [Proc.advance, hnt, Bool.false_eq_true, if_false]
        have hmu : sumBy (need c (pr.now + dt)) pr.shards ≤ (dt / c.timeout + 2) * (pr.shards.length + 1) := by
          have hone : ∀ a : Shard P, pr.now ≤ a.deadline → need c (pr.now + dt) a ≤ dt / c.timeout + 2 := by
            intro a ha
            simp only [need]
            split
            · have : (pr.now + dt - a.deadline) / c.timeout ≤ dt / c.timeout := Nat.div_le_div_right (by omega)
              omega
            · exact Nat.zero_le _
          generalize dt / c.timeout + 2 = k at hone ⊢
          have : ∀ (l : List (Shard P)), (∀ s ∈ l, pr.now ≤ s.deadline) → sumBy (need c (pr.now + dt)) l ≤ k * l.length := by
            intro l
            induction l with
            | nil => intro _; simp [sumBy_nil]
            | cons a l ihl =>
              intro hall
              rw [sumBy_cons, List.length_cons, Nat.mul_succ]
              have h1 := ihl (fun s hs => hall s (List.mem_cons_of_mem _ hs))
              have h2 := hone a (hall a (List.mem_cons_self ..))
              omega
          have := this pr.shards (fun s hs => (hti s hs).2.2)
          rw [Nat.mul_succ]; omega
        have hc := go_complete o flat hl c hv hT (pr.now + dt) _ pr.shards [] hp hmu
        have hg := go_timed o flat hl c hv arr pr.now (pr.now + dt) ((dt / c.timeout + 2) * (pr.shards.length + 1)) pr.shards [] hp
          (by intro s hs; have := hti s hs; exact ⟨this.1, by omega, this.2.2⟩) (by intro e he; simp at he)
        refine ⟨?_, hg.2⟩
        intro s hs
        have h1 := hg.1 s hs
        have h2 := hc s hs
        exact ⟨h1.1, h1.2.1, by omega⟩
      have r := ih (pr.advance o c dt).1 a.1 hadv.1 htag
      refine ⟨r.1, ?_⟩
      intro e he
      rcases List.mem_append.mp he with h | h
      · exact hadv.2 e h
      · exact r.2 e h

/-- **timeout, whole processor** (virtual time, configuration with a timer): for every validated configuration, every
sequence of `Consume` calls with arbitrary metadata groups and of time steps — `advance` fires every shard's timer at its
deadline and provably runs to completion (`go_complete`) — and the final shutdown: every item of every batch sent
downstream leaves no later than `timeout` after the processor's clock at its arrival -/
theorem C17_proc_timeout {P β : Type} (o : BatchOps P) (flat : P → List β) (hl : BatchLaws o flat) (hf : Fifo o flat) (c : Cfg)
    (hv : c.valid) (ht : hasTimer c = true) (arr : β → Nat) (ops : List (POp P))
    (htag : ArrTagged o c flat arr (Proc.init o c) ops) :
    let r := Proc.runOps o c flat (Proc.init o c) ops
    ∀ e ∈ r.2.1 ++ (r.1.shutdown o c).2, ∀ x ∈ flat e.p, e.t ≤ arr x + c.timeout := by
  intro r e he x hx
  have hp0 : PInv o c (Proc.init o c).shards := by
    simp only [Proc.init]
    split
    · exact ⟨by intro s hs; simp only [List.mem_singleton] at hs; subst hs; simp [Shard.ok, hl.count_eq, hl.empty, due], by simp⟩
    · exact ⟨by intro s hs; simp at hs, by simp⟩
  have ht0 : TPInv flat c arr (Proc.init o c).now (Proc.init o c).shards := by
    intro s hs
    simp only [Proc.init] at hs ⊢
    split at hs
    · simp only [List.mem_singleton] at hs; subst hs
      exact ⟨by intro y hy; simp [hl.empty] at hy, by simp, by simp⟩
    · simp at hs
  have hr := runOps_spec o flat hl c hv ops (Proc.init o c) hp0
  have hti := runOps_timed o flat hl hf c hv ht arr ops (Proc.init o c) hp0 ht0 htag
  rcases List.mem_append.mp he with h | h
  · exact hti.2 e h x hx
  · simp only [Proc.shutdown, List.mem_flatMap, List.mem_map] at h
    obtain ⟨_, ⟨s, hs, rfl⟩, hes⟩ := h
    have ss := shutdown_spec o flat hl c hv r.1.now s (hr.1.1 s hs)
    have hx' : x ∈ flat s.data := ss.1.subset (List.mem_flatMap.mpr ⟨e, hes, hx⟩)
    have hsd := hti.1 s hs
    have := hsd.1 x hx'
    -- the shutdown batch is stamped with the processor's clock, which is not past the shard's deadline
    have het : e.t = (Proc.runOps o c flat (Proc.init o c) ops).1.now := by
      simp only [Shard.shutdown] at hes
      split at hes
      · simp only [List.mem_singleton] at hes; subst hes
        exact (send_spec o flat hl c _ s (hr.1.1 s hs).1).2.2.2.2.2.2.2
      · simp at hes
    have := hsd.2.2
    omega


/-! ### non-vacuity of the whole-processor theorems: an evaluated multi-shard run -/

/-- executable form of `ArrTagged` -/
def arrTaggedB {P β : Type} (o : BatchOps P) (c : Cfg) (flat : P → List β) (arr : β → Nat) : Proc P → List (POp P) → Bool
  | _, [] => true
  | pr, .arrive key p :: ops =>
    (flat p).all (fun x => arr x == pr.now) &&
      (match pr.arrive o c key p with
       | some (pr', _) => arrTaggedB o c flat arr pr' ops
       | none => arrTaggedB o c flat arr pr ops)
  | pr, .advance dt :: ops => arrTaggedB o c flat arr (pr.advance o c dt).1 ops

theorem arrTaggedB_sound {P β : Type} (o : BatchOps P) (c : Cfg) (flat : P → List β) (arr : β → Nat) :
    ∀ (ops : List (POp P)) (pr : Proc P), arrTaggedB o c flat arr pr ops = true → ArrTagged o c flat arr pr ops := by
  intro ops
  induction ops with
  | nil => intro _ _; trivial
  | cons op ops ih =>
    intro pr h
    cases op with
    | arrive key p =>
      simp only [arrTaggedB, Bool.and_eq_true, List.all_eq_true, beq_iff_eq] at h
      simp only [ArrTagged]
      refine ⟨h.1, ?_⟩
      cases ha : pr.arrive o c key p with
      | none => rw [ha] at h; exact ih pr h.2
      | some x => obtain ⟨pr', es⟩ := x; rw [ha] at h; exact ih pr' h.2
    | advance dt =>
      simp only [arrTaggedB] at h
      exact ih _ h

def exCfg : Cfg := { sbs := 2, max := 2, timeout := 100, nkeys := 1, limit := 2 }
def exP (ids : List Nat) : List Res := [⟨⟨1, 0, 0⟩, [⟨⟨2, 0, 0, 0, 0⟩, ids.map (fun i => ⟨i, 0, 1⟩)⟩]⟩]
/-- two groups, a third one refused at the cardinality limit, a time step that fires both timers, a late arrival -/
def exOps : List (POp (List Res)) :=
  [.arrive [[1]] (exP [10, 11, 12]), .arrive [[2]] (exP [20]), .arrive [[3]] (exP [30]), .advance 150, .arrive [[1]] (exP [13])]

/-- the run: group 1 sends [10,11] at once, both timers fire at t=100 ([12] and [20]), request 30 is refused (not accepted,
not emitted), [13] leaves at shutdown (t=150) -/
example :
    ((Proc.runOps logsBatch exCfg flatten (Proc.init logsBatch exCfg) exOps).2.1 ++
      ((Proc.runOps logsBatch exCfg flatten (Proc.init logsBatch exCfg) exOps).1.shutdown logsBatch exCfg).2).map
      (fun e => (e.t, e.key, (flatten e.p).map (·.2.2.id))) =
      [(0, [[1]], [10, 11]), (100, [[1]], [12]), (100, [[2]], [20]), (150, [[1]], [13])] ∧
    (Proc.runOps logsBatch exCfg flatten (Proc.init logsBatch exCfg) exOps).2.2.map (·.2.2.id) = [10, 11, 12, 20, 13] := by decide

/-- the hypotheses of `C17_proc_metadata_isolation` and `C17_proc_timeout` hold for this run -/
example : OpsTagged flatten (fun x => [[x.2.2.id / 10]]) exOps ∧ exCfg.valid ∧ hasTimer exCfg = true := by
  refine ⟨?_, Or.inr (by decide), by decide⟩
  simp only [exOps, OpsTagged]
  refine ⟨by decide, by decide, by decide, by decide, trivial⟩

example : ArrTagged logsBatch exCfg flatten (fun x => if x.2.2.id = 13 then 150 else 0) (Proc.init logsBatch exCfg) exOps :=
  arrTaggedB_sound _ _ _ _ _ _ (by decide)

/-! ## the metadata group of an arrival (round 2, second session): `newBatchProcessor`, `client.NewMetadata`, `Metadata.Get`, `consume` -/

theorem attrOf_injective (a b : List Nat) (h : attrOf a = attrOf b) : a = b := by
  match a, b with
  | [x], [y] => simp [attrOf] at h; simp [h]
  | [x], [] => simp [attrOf] at h
  | [x], _ :: _ :: _ => simp [attrOf] at h
  | [], [y] => simp [attrOf] at h
  | _ :: _ :: _, [y] => simp [attrOf] at h
  | [], [] => rfl
  | [], _ :: _ :: _ => simp [attrOf] at h
  | _ :: _ :: _, [] => simp [attrOf] at h
  | _ :: _ :: _, _ :: _ :: _ => simpa [attrOf] using h

/-- **the shard map key is injective on the configured keys' values**: two arrivals are looked up under the same
`attribute.Set` iff they have the same group in the model, iff for EVERY configured key `Metadata.Get` returns the same value
list for both - `String` (exactly one value) and `StringSlice` (none or several) cannot collide, so `["a"]` ≠ `[]`, a single
value `x` ≠ the list `[x, y]`, and absent = empty list ≠ `[""]` -/
theorem C17_group_key_injective (keys : List String) (m1 m2 : Md) :
    (attrSet keys m1 = attrSet keys m2 ↔ keyOf keys m1 = keyOf keys m2) ∧
    (keyOf keys m1 = keyOf keys m2 ↔ ∀ k ∈ keys, mdGet m1 k = mdGet m2 k) := by
  constructor
  · induction keys with
    | nil => simp [attrSet, keyOf]
    | cons k ks ih =>
      simp only [attrSet, keyOf, List.map_cons, List.cons.injEq, Prod.mk.injEq, true_and] at ih ⊢
      constructor
      · intro ⟨h1, h2⟩; exact ⟨attrOf_injective _ _ h1, ih.mp h2⟩
      · intro ⟨h1, h2⟩; exact ⟨by rw [h1], ih.mpr h2⟩
  · induction keys with
    | nil => simp [keyOf]
    | cons k ks ih =>
      simp only [keyOf, List.map_cons, List.cons.injEq, List.mem_cons, forall_eq_or_imp] at ih ⊢
      exact and_congr Iff.rfl ih


/-- **items arriving with different values of the configured client-metadata keys are never placed in the same batch, and
every batch is sent with exactly its group's values** — whole processor, every operation sequence + shutdown, in terms of the
RAW inputs: `rawKeys` = `metadata_keys` as written in the configuration, `amd x` = the client metadata (header names in any
case) of the `Consume` call item `x` arrived with; every `arrive` label carries the group `groupOf rawKeys md` the glue code
computes (`OpsTagged`).  For every batch sent downstream and any two of its items, `Metadata.Get` agrees on every configured
key, and the batch's export metadata is that common value list for every key. -/
theorem C17_different_metadata_never_share_batch {P β : Type} (o : BatchOps P) (flat : P → List β) (hl : BatchLaws o flat)
    (c : Cfg) (hv : c.valid) (rawKeys : List String) (amd : β → Md) (ops : List (POp P))
    (ht : OpsTagged flat (fun x => groupOf rawKeys (amd x)) ops) :
    let r := Proc.runOps o c flat (Proc.init o c) ops
    ∀ e ∈ r.2.1 ++ (r.1.shutdown o c).2, ∀ x ∈ flat e.p,
      e.key = (configuredKeys rawKeys).map (mdGet (newMetadata (amd x))) ∧
      ∀ y ∈ flat e.p, ∀ k ∈ configuredKeys rawKeys, mdGet (newMetadata (amd x)) k = mdGet (newMetadata (amd y)) k := by
  intro r e he x hx
  have hiso := C17_proc_metadata_isolation o flat hl c hv (fun x => groupOf rawKeys (amd x)) ops ht
  have hxk := hiso e he x hx
  refine ⟨hxk.symm, ?_⟩
  intro y hy
  have hyk := hiso e he y hy
  have : keyOf (configuredKeys rawKeys) (newMetadata (amd x)) = keyOf (configuredKeys rawKeys) (newMetadata (amd y)) := by
    simpa [groupOf] using hxk.trans hyk.symm
  exact ((C17_group_key_injective _ _ _).2.mp this)

/-- non-vacuity / evaluated corners of the group computation: configured `["ZONE", "Tenant"]` is used as `["tenant", "zone"]`;
header names are matched case-insensitively; absent = empty list; one empty string is a value; `[7]` vs `[7, 8]` vs `[8, 7]`
are three groups; another header is ignored -/
example :
    configuredKeys ["ZONE", "Tenant"] = ["tenant", "zone"] ∧
    groupOf ["ZONE", "Tenant"] [("TENANT", [7]), ("x-other", [9])] = [[7], []] ∧
    groupOf ["ZONE", "Tenant"] [("tenant", [7]), ("Zone", [])] = [[7], []] ∧
    groupOf ["Tenant"] [("Tenant", [0])] ≠ groupOf ["Tenant"] [] ∧
    attrSet ["tenant"] (newMetadata [("Tenant", [7])]) ≠ attrSet ["tenant"] (newMetadata [("Tenant", [7, 8])]) ∧
    attrSet ["tenant"] (newMetadata [("Tenant", [8, 7])]) ≠ attrSet ["tenant"] (newMetadata [("Tenant", [7, 8])]) := by decide

/-! ## `Validate` and the default configuration from regenerated data -/

open OtelVerif.C04.Config in
/-- tie obligation over `Gen/C17Config.lean`: the hand-written `validCfg` (the hypothesis source of every processor theorem)
decides exactly like the REGENERATED `Validate` (straight-line checks as data + the metadata_keys loop flag), for every raw
configuration; and the rules read only fields the environment answers for.  A changed comparison in `config.go` changes the
generated rules and this theorem no longer checks. -/
theorem C17_validCfg_matches_source (r : RawCfg) :
    rulesKnown cfgEnvFields OtelVerif.Gen.C17Config.validateRules = true ∧ validCfgGen r = validCfg r := by
  refine ⟨by decide, ?_⟩
  simp only [validCfgGen, validCfg, OtelVerif.Gen.C17Config.validateRules, OtelVerif.Gen.C17Config.validateHasKeyLoop, runRules,
    VCond.eval, VExpr.eval, VOp.eval, RawCfg.env]
  simp
  by_cases h1 : 0 < r.max <;> by_cases h2 : r.max < r.sbs <;> by_cases h3 : r.timeout < 0 <;> simp [h1, h2, h3] <;> omega

/-- the default configuration (`createDefaultConfig()`, regenerated struct literal with the package constants resolved) is
accepted by validation, hence meets the hypothesis `Cfg.valid` of every processor theorem -/
theorem C17_default_config_valid : validCfg defaultRawCfg = true ∧ (defaultRawCfg.toCfg).valid :=
  ⟨by decide, (C17_validCfg_sound defaultRawCfg (by decide)).1⟩

/-- **the `exactly_once` search oracle decides the clause exactly**: the driver judges the implementation's accept / emit log with
`permB emitted accepted` over (item id, full context) pairs; it is `true` iff everything emitted by shutdown return is a
permutation of everything accepted - no false `ok`, no false alarm -/
theorem C17_oracle_exactly_once_iff {β : Type} [DecidableEq β] (emitted accepted : List β) :
    permB emitted accepted = true ↔ emitted.Perm accepted :=
  ⟨permB_sound emitted accepted, permB_complete emitted accepted⟩

end OtelVerif.C17
