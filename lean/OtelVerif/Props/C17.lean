import OtelVerif.Model.C17
/-! C17 property theorems (stub) -/
namespace OtelVerif.C17
end OtelVerif.C17
