import OtelVerif.Model.C18
/-!
# C18 — the memory limiter refuses data exactly while usage is at or above the soft limit

Property theorems about `Model/C18.lean`.  All quantify over every configuration accepted by
`validate`, every history of readings / GC effects / instants and every start/shutdown sequence; no
bound on lengths or values (beyond the `uint32`/`uint64` ranges of the Go fields and, on the
percentage path, `total < 2^57`, DESIGN §C18).
-/
namespace OtelVerif.C18

/-! ## what `Validate` guarantees -/

theorem validate_ok {c : Config} (h : validate c = 0) :
    0 < c.checkInterval ∧ c.gcHard ≤ c.gcSoft ∧ (c.limitMiB ≠ 0 ∨ c.limitPct ≠ 0) ∧ c.limitPct ≤ 100 ∧ c.spikePct ≤ 100 ∧
    (0 < c.limitMiB → c.spikeMiB < c.limitMiB) ∧ (0 < c.limitPct → c.spikePct < c.limitPct) := by
  unfold validate at h
  repeat' split at h
  all_goals first | omega | (refine ⟨?_, ?_, ?_, ?_, ?_, ?_, ?_⟩ <;> omega)

theorem newFixed_le (limit spike : Nat) (h : spike ≤ limit) : (newFixed limit spike).spike ≤ (newFixed limit spike).limit := by
  unfold newFixed
  split
  · exact Nat.div_le_self _ _
  · exact h

/-- **no underflow**: for every accepted configuration the spike limit never exceeds the limit, so the
`uint64` subtraction `memAllocLimit - memSpikeLimit` does not wrap -/
theorem C18_no_underflow (c : Config) (total : Nat) (hv : validate c = 0) (hwf : c.wf) (ht : total < 2 ^ 57) :
    (mkChecker c total).spike ≤ (mkChecker c total).limit ∧ (mkChecker c total).limit < W := by
  obtain ⟨_, _, h3, h4, h5, h6, h7⟩ := validate_ok hv
  obtain ⟨w1, w2, _, _⟩ := hwf
  unfold mkChecker
  split
  · rename_i hl
    have hs : c.spikeMiB < c.limitMiB := h6 (by omega)
    have e1 : wmul c.limitMiB mib = c.limitMiB * 1048576 := by unfold wmul W mib; omega
    have e2 : wmul c.spikeMiB mib = c.spikeMiB * 1048576 := by unfold wmul W mib; omega
    rw [e1, e2]
    refine ⟨newFixed_le _ _ (by omega), ?_⟩
    have : (newFixed (c.limitMiB * 1048576) (c.spikeMiB * 1048576)).limit = c.limitMiB * 1048576 := by
      unfold newFixed; split <;> rfl
    rw [this]; unfold W; omega
  · rename_i hl
    have hl0 : c.limitMiB = 0 := by omega
    have hp : 0 < c.limitPct := by omega
    have hs : c.spikePct < c.limitPct := h7 hp
    have b1 : c.limitPct * total ≤ 100 * total := Nat.mul_le_mul_right _ h4
    have b2 : c.spikePct * total ≤ c.limitPct * total := Nat.mul_le_mul_right _ (Nat.le_of_lt hs)
    have e1 : wmul c.limitPct total = c.limitPct * total := by unfold wmul W; apply Nat.mod_eq_of_lt; omega
    have e2 : wmul c.spikePct total = c.spikePct * total := by unfold wmul W; apply Nat.mod_eq_of_lt; omega
    unfold newPct
    rw [e1, e2]
    refine ⟨newFixed_le _ _ (Nat.div_le_div_right b2), ?_⟩
    have : (newFixed (c.limitPct * total / 100) (c.spikePct * total / 100)).limit = c.limitPct * total / 100 := by
      unfold newFixed; split <;> rfl
    rw [this]
    have : c.limitPct * total / 100 ≤ c.limitPct * total := Nat.div_le_self _ _
    unfold W; omega

/-- with `spike ≤ limit` the soft limit computed by the code is the true difference -/
theorem wsub_eq {limit spike : Nat} (h : spike ≤ limit) (hl : limit < W) : wsub limit spike = limit - spike := by
  unfold wsub W at *
  have hs : spike % 18446744073709551616 = spike := Nat.mod_eq_of_lt (by omega)
  rw [hs, if_pos h]

theorem aboveSoft_iff (k : Checker) (h : k.spike ≤ k.limit) (hl : k.limit < W) (alloc : Nat) :
    k.aboveSoft alloc = true ↔ alloc ≥ k.limit - k.spike := by
  simp [Checker.aboveSoft, wsub_eq h hl]

/-! ## one check -/

/-- the minimum GC interval of the severity of a reading -/
def minInterval (k : Checker) (gs gh : Int) (alloc : Nat) : Int := if k.aboveHard alloc then gh else gs

theorem check_below (k : Checker) (gs gh : Int) (s : LState) (r : Reading) (ha : k.aboveSoft r.alloc = false) :
    check k gs gh s r = { st := { s with mustRefuse := false }, gcRan := false, latest := r.alloc } := by
  simp [check, ha]

theorem check_gc (k : Checker) (gs gh : Int) (s : LState) (r : Reading) (ha : k.aboveSoft r.alloc = true)
    (hd : r.now - s.lastGC > minInterval k gs gh r.alloc) :
    check k gs gh s r = { st := { mustRefuse := k.aboveSoft r.allocAfterGC, lastGC := r.now + r.gcDur }, gcRan := true, latest := r.allocAfterGC } := by
  unfold minInterval at hd
  simp only [check, ha, Bool.not_true, Bool.false_eq_true, if_false]
  rw [if_pos hd]

theorem check_nogc (k : Checker) (gs gh : Int) (s : LState) (r : Reading) (ha : k.aboveSoft r.alloc = true)
    (hd : ¬ r.now - s.lastGC > minInterval k gs gh r.alloc) :
    check k gs gh s r = { st := { s with mustRefuse := true }, gcRan := false, latest := r.alloc } := by
  unfold minInterval at hd
  simp only [check, ha, Bool.not_true, Bool.false_eq_true, if_false]
  rw [if_neg hd]

/-- the measurement the decision is based on is the post-GC reading exactly when a GC ran -/
theorem C18_latest (k : Checker) (gs gh : Int) (s : LState) (r : Reading) :
    (check k gs gh s r).latest = if (check k gs gh s r).gcRan then r.allocAfterGC else r.alloc := by
  cases ha : k.aboveSoft r.alloc with
  | false => rw [check_below k gs gh s r ha]; rfl
  | true =>
    by_cases hd : r.now - s.lastGC > minInterval k gs gh r.alloc
    · rw [check_gc k gs gh s r ha hd]; rfl
    · rw [check_nogc k gs gh s r ha hd]; rfl

/-- **refuse iff**: after a check the limiter refuses iff the latest measurement is at or above limit − spike -/
theorem C18_refuse_iff (k : Checker) (h : k.spike ≤ k.limit) (hl : k.limit < W) (gs gh : Int) (s : LState) (r : Reading) :
    (check k gs gh s r).st.mustRefuse = true ↔ (check k gs gh s r).latest ≥ k.limit - k.spike := by
  cases ha : k.aboveSoft r.alloc with
  | false =>
    rw [check_below k gs gh s r ha]
    have := aboveSoft_iff k h hl r.alloc
    rw [ha] at this
    simpa using this
  | true =>
    by_cases hd : r.now - s.lastGC > minInterval k gs gh r.alloc
    · rw [check_gc k gs gh s r ha hd]
      exact aboveSoft_iff k h hl r.allocAfterGC
    · rw [check_nogc k gs gh s r ha hd]
      have := (aboveSoft_iff k h hl r.alloc).1 ha
      simpa using this

/-- **GC only when due** (and whenever due): a forced collection runs iff usage is at or above the soft
limit and more than the minimum interval of that severity has passed since the last one finished -/
theorem C18_gc_iff_due (k : Checker) (h : k.spike ≤ k.limit) (hl : k.limit < W) (gs gh : Int) (s : LState) (r : Reading) :
    (check k gs gh s r).gcRan = true ↔
      (r.alloc ≥ k.limit - k.spike ∧ r.now - s.lastGC > (if r.alloc ≥ k.limit then gh else gs)) := by
  have hm : minInterval k gs gh r.alloc = (if r.alloc ≥ k.limit then gh else gs) := by
    simp [minInterval, Checker.aboveHard]
  rw [← hm]
  cases ha : k.aboveSoft r.alloc with
  | false =>
    rw [check_below k gs gh s r ha]
    have := aboveSoft_iff k h hl r.alloc
    rw [ha] at this
    constructor
    · intro hc; simp at hc
    · intro hc; exact absurd (this.2 hc.1) (by simp)
  | true =>
    have hsoft := (aboveSoft_iff k h hl r.alloc).1 ha
    by_cases hd : r.now - s.lastGC > minInterval k gs gh r.alloc
    · rw [check_gc k gs gh s r ha hd]; exact ⟨fun _ => ⟨hsoft, hd⟩, fun _ => rfl⟩
    · rw [check_nogc k gs gh s r ha hd]
      constructor
      · intro hc; simp at hc
      · intro hc; exact absurd hc.2 hd

/-- `lastGCDone` moves only when a GC ran, to the instant the GC finished -/
theorem C18_lastGC (k : Checker) (gs gh : Int) (s : LState) (r : Reading) :
    (check k gs gh s r).st.lastGC = if (check k gs gh s r).gcRan then r.now + r.gcDur else s.lastGC := by
  cases ha : k.aboveSoft r.alloc with
  | false => rw [check_below k gs gh s r ha]; rfl
  | true =>
    by_cases hd : r.now - s.lastGC > minInterval k gs gh r.alloc
    · rw [check_gc k gs gh s r ha hd]; rfl
    · rw [check_nogc k gs gh s r ha hd]; rfl

/-! ## every history -/

/-- after every check of every history the mode is "refuse" iff that check's latest measurement is at
or above the soft limit — there is no hysteresis and no dependence on earlier readings -/
theorem C18_history_refuse_iff (k : Checker) (h : k.spike ≤ k.limit) (hl : k.limit < W) (gs gh : Int) :
    ∀ (rs : List Reading) (s : LState), ∀ o ∈ runChecks k gs gh s rs,
      (o.st.mustRefuse = true ↔ o.latest ≥ k.limit - k.spike) := by
  intro rs
  induction rs with
  | nil => intro s o ho; simp [runChecks] at ho
  | cons r rs ih =>
    intro s o ho
    simp only [runChecks, List.mem_cons] at ho
    rcases ho with rfl | ho
    · exact C18_refuse_iff k h hl gs gh s r
    · exact ih _ o ho

/-- the current mode after a non-empty history is decided by the last check alone -/
theorem C18_mode_after_history (k : Checker) (h : k.spike ≤ k.limit) (hl : k.limit < W) (gs gh : Int)
    (rs : List Reading) (r : Reading) : ∀ s : LState,
    ((finalState k gs gh s (rs ++ [r])).mustRefuse = true ↔
      (check k gs gh (finalState k gs gh s rs) r).latest ≥ k.limit - k.spike) := by
  induction rs with
  | nil =>
    intro s
    rw [List.nil_append, finalState.eq_2, finalState.eq_1, finalState.eq_1]
    exact C18_refuse_iff k h hl gs gh s r
  | cons x xs ih =>
    intro s
    rw [List.cons_append, finalState.eq_2, finalState.eq_2]
    exact ih _

/-- GC throttling over histories: while no more than the hard-limit interval (the smaller one, by
validation) has passed since the last GC finished, no check forces a GC, whatever the readings -/
theorem C18_gc_throttled (k : Checker) (gs gh : Int) (hgs : gh ≤ gs) :
    ∀ (rs : List Reading) (s : LState), (∀ r ∈ rs, r.now - s.lastGC ≤ gh) →
      ∀ o ∈ runChecks k gs gh s rs, o.gcRan = false ∧ o.st.lastGC = s.lastGC := by
  intro rs
  induction rs with
  | nil => intro s _ o ho; simp [runChecks] at ho
  | cons r rs ih =>
    intro s hall o ho
    have hr := hall r (by simp)
    have hstep : (check k gs gh s r).gcRan = false ∧ (check k gs gh s r).st.lastGC = s.lastGC := by
      cases ha : k.aboveSoft r.alloc with
      | false => rw [check_below k gs gh s r ha]; exact ⟨rfl, rfl⟩
      | true =>
        have hd : ¬ r.now - s.lastGC > minInterval k gs gh r.alloc := by
          unfold minInterval; split <;> omega
        rw [check_nogc k gs gh s r ha hd]; exact ⟨rfl, rfl⟩
    simp only [runChecks, List.mem_cons] at ho
    rcases ho with rfl | ho
    · exact hstep
    · have := ih (check k gs gh s r).st (by intro r' hr'; rw [hstep.2]; exact hall r' (by simp [hr'])) o ho
      rw [hstep.2] at this
      exact this

/-! ## the search oracle -/

theorem ite_sing_nil {α : Type} {p : Prop} [Decidable p] {x : α} : (if p then [x] else []) = [] ↔ ¬p := by
  split <;> simp [*]

/-- soundness: an observed check the oracle accepts satisfies the property's clauses (stated over ℤ) -/
theorem C18_check_sound (k : Checker) (gs gh prev : Int) (r : Reading) (o : ObsCheck)
    (h : checkObs k gs gh prev r o = []) :
    (k.spike ≤ k.limit) ∧
    (o.refuse = true ↔ obsLatest r o ≥ (k.limit : Int) - k.spike) ∧
    (o.gcRan = true → (r.alloc : Int) ≥ (k.limit : Int) - k.spike ∧ r.now - prev > (if (r.alloc : Int) ≥ k.limit then gh else gs)) ∧
    (o.gcRan = false → o.lastGC = prev) := by
  simp only [checkObs, List.append_eq_nil_iff] at h
  obtain ⟨⟨⟨h1, h2⟩, h3⟩, h4⟩ := h
  have g1 := ite_sing_nil.1 h1
  have g2 := ite_sing_nil.1 h2
  have g3 := ite_sing_nil.1 h3
  have g4 := ite_sing_nil.1 h4
  refine ⟨by omega, ?_, ?_, ?_⟩
  · cases hr : o.refuse <;> simp_all
  · intro hg
    simp only [hg, Bool.true_and, Bool.not_eq_true', Bool.and_eq_false_iff, decide_eq_false_iff_not, not_or, Decidable.not_not] at g3
    simpa using g3
  · intro hg
    simp only [hg, Bool.not_false, Bool.true_and, bne_iff_ne, ne_eq, Decidable.not_not] at g4
    exact g4

/-- the model's own checks pass the oracle, for every checker without underflow, state and reading -/
theorem C18_model_passes_oracle (k : Checker) (h : k.spike ≤ k.limit) (hl : k.limit < W) (gs gh : Int) (s : LState) (r : Reading) :
    checkObs k gs gh s.lastGC r
      { refuse := (check k gs gh s r).st.mustRefuse, gcRan := (check k gs gh s r).gcRan, lastGC := (check k gs gh s r).st.lastGC } = [] := by
  have hsoft : ∀ a : Nat, k.aboveSoft a = decide ((a : Int) ≥ (k.limit : Int) - k.spike) := by
    intro a
    have := aboveSoft_iff k h hl a
    cases hb : k.aboveSoft a
    · rw [hb] at this; simp only [Bool.false_eq_true, false_iff] at this
      symm; simp only [decide_eq_false_iff_not]; omega
    · rw [hb] at this; simp only [true_iff] at this
      symm; simp only [decide_eq_true_eq]; omega
  have hnn : ¬ ((k.limit : Int) - k.spike < 0) := by omega
  have hm : minInterval k gs gh r.alloc = (if (r.alloc : Int) ≥ k.limit then gh else gs) := by
    simp only [minInterval, Checker.aboveHard, decide_eq_true_eq, ge_iff_le, Int.ofNat_le]
  cases ha : k.aboveSoft r.alloc with
  | false =>
    rw [check_below k gs gh s r ha]
    have := hsoft r.alloc; rw [ha] at this
    simp [checkObs, obsLatest, hnn, ← this]
  | true =>
    by_cases hd : r.now - s.lastGC > minInterval k gs gh r.alloc
    · rw [check_gc k gs gh s r ha hd]
      have h1 := hsoft r.alloc; rw [ha] at h1
      have h2 := hsoft r.allocAfterGC
      rw [hm] at hd
      simp only [ge_iff_le, Int.ofNat_le, gt_iff_lt] at hd
      simp [checkObs, obsLatest, hnn, ← h1, ← h2]
      exact hd
    · rw [check_nogc k gs gh s r ha hd]
      have h1 := hsoft r.alloc; rw [ha] at h1
      simp [checkObs, obsLatest, hnn, ← h1]

/-! ## processor and extension -/

/-- while refusing: nothing is forwarded and the caller gets the non-permanent data-refused error -/
theorem C18_consume_refusing {α : Type} (payload : α) (next : α → Res) :
    (consume true payload next).1 = none ∧ (consume true payload next).2 = .refused ∧
    (consume true payload next).2.isPermanent = false := ⟨rfl, rfl, rfl⟩

/-- while not refusing: the payload is forwarded as it is and downstream's result is returned -/
theorem C18_consume_accepting {α : Type} (payload : α) (next : α → Res) :
    (consume false payload next).1 = some payload ∧ (consume false payload next).2 = next payload := ⟨rfl, rfl⟩

/-! ## reference counting -/

def RC.Inv (s : RC) : Prop := s.goroutine = decide (0 < s.ref) ∧ (0 < s.ref → s.ticker = true)

theorem RC.step_inv (s : RC) (o : RCOp) (h : s.Inv) : (s.step o).1.Inv := by
  obtain ⟨h1, h2⟩ := h
  cases o with
  | start =>
    simp only [RC.step]
    split
    · simp [RC.Inv]
    · rename_i hne
      have : 0 < s.ref := by omega
      simp [RC.Inv, h1, this, h2 this]
  | shutdown =>
    simp only [RC.step]
    split
    · rename_i h0; exact ⟨h1, h2⟩
    · simp [RC.Inv]
    · rename_i n hn
      have : 0 < s.ref := by omega
      simp [RC.Inv, h1, this, h2 this]

theorem RC.run_inv (ops : List RCOp) : ∀ s : RC, s.Inv → (s.run ops).Inv := by
  induction ops with
  | nil => intro s h; exact h
  | cons o os ih => intro s h; exact ih _ (RC.step_inv s o h)

/-- users = starts − successful shutdowns (a shutdown at zero is rejected and changes nothing) -/
def users : List RCOp → Nat := List.foldl (fun n o => match o with | .start => n + 1 | .shutdown => n - 1) 0

theorem RC.run_ref (ops : List RCOp) : ∀ (s : RC) (n : Nat), s.ref = n →
    (s.run ops).ref = ops.foldl (fun n o => match o with | .start => n + 1 | .shutdown => n - 1) n := by
  induction ops with
  | nil => intro s n h; exact h
  | cons o os ih =>
    intro s n h
    simp only [RC.run, List.foldl_cons]
    apply ih
    cases o with
    | start => simp only [RC.step]; split <;> simp_all
    | shutdown =>
      simp only [RC.step]
      split
      · rename_i h0; simp only; omega
      · rename_i h0; simp only; omega
      · rename_i m hm; simp only; omega

/-- **shared checker**: for every start/shutdown sequence of the sharers, memory is being checked
(goroutine alive and ticker armed) iff at least one user has started and not yet shut down -/
theorem C18_refcount (ops : List RCOp) :
    ((RC.run {} ops).checking = true ↔ 0 < users ops) ∧ (RC.run {} ops).ref = users ops := by
  have hinv := RC.run_inv ops {} (by simp [RC.Inv])
  have href := RC.run_ref ops {} 0 rfl
  refine ⟨?_, href⟩
  unfold users
  rw [← href]
  obtain ⟨h1, h2⟩ := hinv
  unfold RC.checking
  constructor
  · intro hc
    simp only [Bool.and_eq_true] at hc
    simpa [h1] using hc.1
  · intro hp
    simp [h1, hp, h2 hp]

/-- a shutdown without a preceding start is an error and leaves the state unchanged -/
theorem C18_shutdown_not_started (s : RC) (h : s.ref = 0) : s.step .shutdown = (s, true) := by
  simp [RC.step, h]

/-- the unrepaired `Start` (pinned tree) violates the statement: started again after a full shutdown
the limiter has a user but its ticker is dead.  Witness `start, shutdown, start` (replayed on the real
code by the `refcount` harness, corpus case 0). -/
def C18_refcount_pinned_full : Prop :=
  ∀ ops : List RCOp, ((RC.runPinned {} ops).checking = true ↔ 0 < users ops)

theorem C18_refcount_pinned_full_fails : ¬ C18_refcount_pinned_full := by
  intro h
  have := h [.start, .shutdown, .start]
  revert this
  decide

/-! ## non-vacuity -/

def exCfg : Config := { checkInterval := 1, gcSoft := 10, gcHard := 2, limitMiB := 100, spikeMiB := 20, limitPct := 0, spikePct := 0 }

example : validate exCfg = 0 ∧ exCfg.wf := ⟨by decide, by simp [Config.wf, exCfg]⟩
example : mkChecker exCfg 0 = ⟨104857600, 20971520⟩ := by decide
/-- percentage mode, default spike of 20 % -/
example : validate { exCfg with limitMiB := 0, spikeMiB := 0, limitPct := 50 } = 0 ∧
    mkChecker { exCfg with limitMiB := 0, spikeMiB := 0, limitPct := 50 } 1000 = ⟨500, 100⟩ := by decide
/-- a rejected configuration: spike = limit -/
example : validate { exCfg with spikeMiB := 100 } = 5 := by decide

/-- soft-limited: GC not due at t=5 (interval 10), due at t=11 and it helps; hard-limited at t=14: due (interval 2) -/
example : (runChecks ⟨100, 20⟩ 10 2 {} [⟨5, 85, 0, 0⟩, ⟨11, 85, 0, 10⟩, ⟨12, 79, 0, 0⟩, ⟨14, 100, 1, 90⟩]).map
    (fun o => (o.st.mustRefuse, o.gcRan, o.st.lastGC)) = [(true, false, 0), (false, true, 11), (false, false, 11), (true, true, 15)] := by decide

example : (RC.run {} [.start, .start, .shutdown]).checking = true ∧ (RC.run {} [.start, .shutdown, .start]).checking = true ∧
    (RC.run {} [.start, .shutdown]).checking = false := by decide


/-! ## the processor in full -/

/-- while refusing: nothing reaches the next consumer, the caller gets `ErrDataRefused` — which the helper
does not swallow (only `ErrSkipProcessingData` is) and which is not permanent —, the items are counted
as refused and as incoming, nothing as outgoing (profiles: neither the processor nor
`xprocessorhelper` has an instrument, nothing is counted) -/
theorem C18_consumeFull_refusing {α : Type} (sig : Sig) (items : α → Nat) (payload : α) (next : α → Res) :
    (consumeFull sig items true payload next).forwarded = none ∧
    (consumeFull sig items true payload next).res = .refused ∧
    (consumeFull sig items true payload next).res.isPermanent = false ∧
    (consumeFull sig items true payload next).counts =
      { accepted := 0, refused := if sig = .profiles then 0 else items payload, incoming := if sig = .profiles then 0 else items payload, outgoing := 0 } := by
  cases sig <;> simp [consumeFull, helperWrap, processML, Res.isPermanent]

/-- while not refusing: the very payload reaches the next consumer, its result is the caller's result,
the items are counted as accepted, incoming and outgoing -/
theorem C18_consumeFull_accepting {α : Type} (sig : Sig) (items : α → Nat) (payload : α) (next : α → Res) :
    (consumeFull sig items false payload next).forwarded = some payload ∧
    (consumeFull sig items false payload next).res = next payload ∧
    (consumeFull sig items false payload next).counts =
      { accepted := if sig = .profiles then 0 else items payload, refused := 0, incoming := if sig = .profiles then 0 else items payload,
        outgoing := if sig = .profiles then 0 else items payload } := by
  cases sig <;> simp [consumeFull, helperWrap, processML]

/-- the one-line `consume` is the projection of the full model -/
theorem C18_consumeFull_projects {α : Type} (sig : Sig) (items : α → Nat) (refusing : Bool) (payload : α) (next : α → Res) :
    ((consumeFull sig items refusing payload next).forwarded, (consumeFull sig items refusing payload next).res) =
      consume refusing payload next := by
  cases refusing <;> simp [consumeFull, helperWrap, processML, consume]

/-- the helper turns exactly `ErrSkipProcessingData` into success-without-forwarding; every other
error of the process function — `ErrDataRefused` in particular — reaches the caller -/
theorem C18_helper_swallows_only_skip {α : Type} (obs : Bool) (items : α → Nat) (proc : α → α × Option PErr × Counts) (next : α → Res) (payload : α) :
    ((helperWrap obs items proc next payload).forwarded = none ∧ (helperWrap obs items proc next payload).res = .ok) ↔
      (proc payload).2.1 = some .skipProcessing := by
  unfold helperWrap
  rcases hp : proc payload with ⟨ld, err, k⟩
  cases err with
  | none => simp
  | some e => cases e <;> simp

/-- soundness of the consume oracle, clause by clause -/
theorem C18_checkConsume_sound (o : ObsConsume) (h : checkConsume o = []) :
    (o.refusing = true → o.fwd = false ∧ o.isRefused = true ∧ o.isPerm = false) ∧
    (o.refusing = false → o.fwd = true ∧ o.same = true ∧ o.eqNext = true) := by
  simp only [checkConsume, List.append_eq_nil_iff] at h
  obtain ⟨⟨⟨⟨h1, h2⟩, h3⟩, h4⟩, h5⟩ := h
  have g1 := ite_sing_nil.1 h1
  have g2 := ite_sing_nil.1 h2
  have g3 := ite_sing_nil.1 h3
  have g4 := ite_sing_nil.1 h4
  have g5 := ite_sing_nil.1 h5
  obtain ⟨a, b, c, d, e, f, g⟩ := o
  cases a <;> cases b <;> cases c <;> cases d <;> cases e <;> cases f <;> cases g <;> simp_all

/-- what the harness would observe of the model's consume call -/
def obsOfModel {α : Type} [DecidableEq α] (sig : Sig) (items : α → Nat) (refusing : Bool) (payload : α) (next : α → Res) : ObsConsume :=
  let out := consumeFull sig items refusing payload next
  { refusing := refusing, fwd := out.forwarded.isSome, same := out.forwarded == some payload, isNil := out.res == .ok,
    isRefused := out.res == .refused, isPerm := out.res.isPermanent, eqNext := out.res == next payload }

/-- the model's consume passes the oracle for every signal, payload and downstream -/
theorem C18_model_consume_passes {α : Type} [DecidableEq α] (sig : Sig) (items : α → Nat) (refusing : Bool) (payload : α) (next : α → Res) :
    checkConsume (obsOfModel sig items refusing payload next) = [] := by
  cases refusing <;> simp [obsOfModel, checkConsume, consumeFull, helperWrap, processML, Res.isPermanent]

/-- soundness of the ref-count oracle -/
theorem C18_checkRC_sound (users : Int) (op : String) (err checked : Bool) (h : checkRC users op err checked = []) :
    (op = "shutdown" → (err = true ↔ users ≤ 0)) ∧ (op = "start" → err = false) ∧ (op = "tick" → (checked = true ↔ users > 0)) := by
  simp only [checkRC, List.append_eq_nil_iff] at h
  obtain ⟨⟨⟨h1, h2⟩, h3⟩, h4⟩ := h
  have g1 := ite_sing_nil.1 h1
  have g2 := ite_sing_nil.1 h2
  have g3 := ite_sing_nil.1 h3
  have g4 := ite_sing_nil.1 h4
  refine ⟨?_, ?_, ?_⟩
  · intro ho
    simp only [ho, decide_true, Bool.true_and, bne_iff_ne, ne_eq, Decidable.not_not] at g1
    rw [g1]; simp
  · intro ho
    simp only [ho, decide_true, Bool.true_and] at g2
    simpa using g2
  · intro ho
    simp only [ho, decide_true, Bool.true_and, Bool.and_eq_true, decide_eq_true_eq, not_and, Bool.not_eq_true'] at g3 g4
    constructor
    · intro hc
      have := g3 hc
      omega
    · intro hu
      cases hc : checked
      · exact absurd hu (by have := g4; simp [hc] at this; omega)
      · rfl

/-! ## the monitoring loop -/

def Sys.Inv (s : Sys) : Prop := s.rc.Inv

theorem Sys.step_rc_inv (k : Checker) (gs gh : Int) (s : Sys) (l : Lbl) (h : s.rc.Inv) : (s.step k gs gh l).rc.Inv := by
  cases l with
  | start => exact RC.step_inv s.rc .start h
  | shutdown => exact RC.step_inv s.rc .shutdown h
  | tick r => simp only [Sys.step]; split <;> exact h

theorem rc_step_ref (s : RC) (o : RCOp) : (s.step o).1.ref = match o with | .start => s.ref + 1 | .shutdown => s.ref - 1 := by
  cases o with
  | start => simp only [RC.step]; split <;> simp_all
  | shutdown =>
    simp only [RC.step]
    split
    · rename_i h0; simp only; omega
    · rename_i h0; simp only; omega
    · rename_i m hm; simp only; omega

/-- invariant of the loop: ref count = users of the labels so far, goroutine and ticker consistent with it -/
theorem Sys.run_inv (k : Checker) (gs gh : Int) (ls : List Lbl) : ∀ (s : Sys) (n : Nat), s.rc.Inv → s.rc.ref = n →
    (Sys.run k gs gh s ls).rc.Inv ∧ (Sys.run k gs gh s ls).rc.ref = ls.foldl usersStep n := by
  induction ls with
  | nil => intro s n h hn; exact ⟨h, hn⟩
  | cons l ls ih =>
    intro s n h hn
    simp only [Sys.run, List.foldl_cons]
    apply ih _ _ (Sys.step_rc_inv k gs gh s l h)
    cases l with
    | start => simp only [Sys.step, usersStep]; rw [rc_step_ref]; simp [hn]
    | shutdown => simp only [Sys.step, usersStep]; rw [rc_step_ref]; simp [hn]
    | tick r => simp only [Sys.step, usersStep]; split <;> exact hn

theorem Sys.checking_iff (k : Checker) (gs gh : Int) (ls : List Lbl) :
    (Sys.run k gs gh {} ls).rc.checking = true ↔ 0 < usersL ls := by
  obtain ⟨⟨h1, h2⟩, h3⟩ := Sys.run_inv k gs gh ls {} 0 (by simp [RC.Inv]) rfl
  unfold usersL
  rw [← h3]
  unfold RC.checking
  constructor
  · intro hc
    simp only [Bool.and_eq_true] at hc
    simpa [h1] using hc.1
  · intro hp
    simp [h1, hp, h2 hp]

theorem Sys.step_tick_on (k : Checker) (gs gh : Int) (s : Sys) (r : Reading) (h : s.rc.checking = true) :
    s.step k gs gh (.tick r) = { s with st := (check k gs gh s.st r).st, checks := s.checks + 1 } := by
  simp only [Sys.step, h, if_true]

theorem Sys.step_tick_off (k : Checker) (gs gh : Int) (s : Sys) (r : Reading) (h : s.rc.checking = false) :
    s.step k gs gh (.tick r) = s := by
  simp only [Sys.step, h, Bool.false_eq_true, if_false]

theorem upd_st (s : Sys) (o : CheckOut) : ({ s with st := o.st, checks := s.checks + 1 } : Sys).st = o.st := rfl
theorem upd_checks (s : Sys) (o : CheckOut) : ({ s with st := o.st, checks := s.checks + 1 } : Sys).checks = s.checks + 1 := rfl
theorem upd_rc (s : Sys) (o : CheckOut) : ({ s with st := o.st, checks := s.checks + 1 } : Sys).rc = s.rc := rfl

theorem Sys.run_append (k : Checker) (gs gh : Int) (s : Sys) (xs ys : List Lbl) :
    Sys.run k gs gh s (xs ++ ys) = Sys.run k gs gh (Sys.run k gs gh s xs) ys := by
  unfold Sys.run; exact List.foldl_append

/-- **the shared checker keeps running until the last user has shut down and then stops** — over every
interleaving of ticks with starts and shutdowns of any number of sharers, restarts included: when a
check interval elapses after the labels `ls`, `CheckMemLimits` runs (on the reading of that moment)
iff at least one user has started and not yet shut down; otherwise nothing changes at all -/
theorem C18_loop_tick (k : Checker) (gs gh : Int) (ls : List Lbl) (r : Reading) :
    (0 < usersL ls →
      (Sys.run k gs gh {} (ls ++ [.tick r])).st = (check k gs gh (Sys.run k gs gh {} ls).st r).st ∧
      (Sys.run k gs gh {} (ls ++ [.tick r])).checks = (Sys.run k gs gh {} ls).checks + 1) ∧
    (usersL ls = 0 → Sys.run k gs gh {} (ls ++ [.tick r]) = Sys.run k gs gh {} ls) := by
  have hc := Sys.checking_iff k gs gh ls
  have happ : Sys.run k gs gh {} (ls ++ [.tick r]) = (Sys.run k gs gh {} ls).step k gs gh (.tick r) := by
    rw [Sys.run_append]; rfl
  rewrite [happ]
  constructor
  · intro hu
    -- `rewrite`, not `rw`: the closing `rfl` of `rw` would look inside `check`, whose `% 2^64` on open terms does not reduce
    rewrite [Sys.step_tick_on k gs gh _ r (hc.2 hu)]
    exact ⟨upd_st _ _, upd_checks _ _⟩
  · intro hu
    have : (Sys.run k gs gh {} ls).rc.checking = false := by
      cases hcc : (Sys.run k gs gh {} ls).rc.checking
      · rfl
      · have := hc.1 hcc; omega
    rewrite [Sys.step_tick_off k gs gh _ r this]
    rfl

theorem Sys.run_checks (k : Checker) (gs gh : Int) (ls : List Lbl) : ∀ (s : Sys) (u c : Nat), s.rc.Inv → s.rc.ref = u → s.checks = c →
    (Sys.run k gs gh s ls).checks = (ls.foldl tickStep (u, c)).2 := by
  induction ls with
  | nil => intro s u c _ _ hc; exact hc
  | cons l ls ih =>
    intro s u c h hu hc
    simp only [Sys.run, List.foldl_cons]
    cases l with
    | start => exact ih _ _ _ (Sys.step_rc_inv k gs gh s .start h) (by simp only [Sys.step]; rw [rc_step_ref]; simp [hu]) hc
    | shutdown => exact ih _ _ _ (Sys.step_rc_inv k gs gh s .shutdown h) (by simp only [Sys.step]; rw [rc_step_ref]; simp [hu]) hc
    | tick r =>
      have hck : s.rc.checking = decide (0 < u) := by
        obtain ⟨h1, h2⟩ := h
        unfold RC.checking
        by_cases hp : 0 < u
        · simp [h1, hu, hp, h2 (by omega)]
        · simp [h1, hu, hp]
      by_cases hp : 0 < u
      · have hon : s.rc.checking = true := by simp [hck, hp]
        rewrite [Sys.step_tick_on k gs gh s r hon]
        have e : tickStep (u, c) (Lbl.tick r) = (u, c + 1) := by simp only [tickStep, hp, if_true]
        rewrite [e]
        exact ih _ u (c + 1) (by rewrite [upd_rc]; exact h) (by rewrite [upd_rc]; exact hu) (by rewrite [upd_checks]; omega)
      · have hoff : s.rc.checking = false := by simp [hck, hp]
        rewrite [Sys.step_tick_off k gs gh s r hoff]
        have e : tickStep (u, c) (Lbl.tick r) = (u, c) := by simp only [tickStep, hp, if_false]
        rewrite [e]
        exact ih _ _ _ h hu hc

/-- the number of checks the loop has made = the number of ticks that fell while a user was present -/
theorem C18_loop_checks_count (k : Checker) (gs gh : Int) (ls : List Lbl) :
    (Sys.run k gs gh {} ls).checks = tickCount ls :=
  Sys.run_checks k gs gh ls {} 0 0 (by simp [RC.Inv]) rfl rfl

theorem Sys.run_ticks_off (k : Checker) (gs gh : Int) (rs : List Reading) : ∀ s : Sys, s.rc.checking = false →
    Sys.run k gs gh s (rs.map .tick) = s := by
  induction rs with
  | nil => intro s _; rfl
  | cons r rs ih =>
    intro s h
    simp only [List.map_cons, Sys.run, List.foldl_cons]
    rewrite [Sys.step_tick_off k gs gh s r h]
    exact ih s h

/-- after the last user has shut down, no sequence of further ticks changes the mode or anything else -/
theorem C18_loop_stops (k : Checker) (gs gh : Int) (ls : List Lbl) (h : usersL ls = 0) (rs : List Reading) :
    Sys.run k gs gh {} (ls ++ rs.map .tick) = Sys.run k gs gh {} ls := by
  rw [Sys.run_append]
  apply Sys.run_ticks_off
  cases hcc : (Sys.run k gs gh {} ls).rc.checking
  · rfl
  · have := (Sys.checking_iff k gs gh ls).1 hcc; omega

/-- while a user is present, the mode after a ticker-driven check obeys the refuse-iff statement -/
theorem C18_loop_mode (k : Checker) (h : k.spike ≤ k.limit) (hl : k.limit < W) (gs gh : Int) (ls : List Lbl) (r : Reading)
    (hu : 0 < usersL ls) :
    (Sys.run k gs gh {} (ls ++ [.tick r])).st.mustRefuse = true ↔
      (check k gs gh (Sys.run k gs gh {} ls).st r).latest ≥ k.limit - k.spike := by
  rewrite [((C18_loop_tick k gs gh ls r).1 hu).1]
  exact C18_refuse_iff k h hl gs gh _ r

example : (Sys.run ⟨100, 20⟩ 10 2 {} [.tick ⟨1, 90, 0, 90⟩, .start, .tick ⟨2, 90, 0, 90⟩, .shutdown, .tick ⟨3, 10, 0, 10⟩, .start, .tick ⟨4, 10, 0, 10⟩]).checks = 2 ∧
    tickCount [.tick ⟨1, 90, 0, 90⟩, .start, .tick ⟨2, 90, 0, 90⟩, .shutdown, .tick ⟨3, 10, 0, 10⟩, .start, .tick ⟨4, 10, 0, 10⟩] = 2 := by decide



/-- the uint64 subtraction of the code, in its textbook form -/
theorem C18_wsub_is_uint64_sub (a b : Nat) (ha : a < W) : wsub a b = (a + W - b % W) % W := by
  unfold wsub W at *
  have hb : b % 18446744073709551616 < 18446744073709551616 := Nat.mod_lt _ (by decide)
  split <;> omega

/-- the extension's `MustRefuse` after a check answers exactly "latest measurement ≥ limit − spike" -/
theorem C18_extension_refuses_iff (k : Checker) (h : k.spike ≤ k.limit) (hl : k.limit < W) (gs gh : Int) (s : LState) (r : Reading) :
    extMustRefuse (check k gs gh s r).st = true ↔ (check k gs gh s r).latest ≥ k.limit - k.spike :=
  C18_refuse_iff k h hl gs gh s r


/-- **forwarding does not depend on the item count** (a fact the model *states* — `helperWrap` has no branch on
the count — and the differential backs: zero-item shapes of all four signals): while not refusing, a payload with zero items
(completely empty, resource-only, scope-only) reaches the next consumer like any other and downstream's
result — an error included — is what the caller gets; the helper has no "nothing left, skip" shortcut -/
theorem C18_consume_forwards_empty {α : Type} (sig : Sig) (items : α → Nat) (payload : α) (next : α → Res) :
    (consumeFull sig items false payload next).forwarded = some payload ∧
    (consumeFull sig items false payload next).res = next payload :=
  ⟨(C18_consumeFull_accepting sig items payload next).1, (C18_consumeFull_accepting sig items payload next).2.1⟩

/-- a zero-item payload in front of a failing downstream: forwarded, the error comes back -/
example : (consumeFull .logs (fun _ : Unit => 0) false () (fun _ => .downstream 1 false)).forwarded = some () ∧
    (consumeFull .logs (fun _ : Unit => 0) false () (fun _ => .downstream 1 false)).res = .downstream 1 false ∧
    (consumeFull .profiles (fun _ : Unit => 0) true () (fun _ => .ok)).res = .refused := by decide


/-- **the mode changes only through a measurement**: whatever the label — start or shutdown of any sharer,
the last one included, or a tick that reaches no running checker — the refuse/accept state is untouched
unless the label is a tick that `CheckMemLimits` actually handles -/
theorem C18_mode_only_changes_on_measurement (k : Checker) (gs gh : Int) (s : Sys) (l : Lbl)
    (h : (s.step k gs gh l).st ≠ s.st) : ∃ r, l = .tick r ∧ s.rc.checking = true := by
  cases l with
  | start => exact absurd rfl h
  | shutdown => exact absurd rfl h
  | tick r =>
    refine ⟨r, rfl, ?_⟩
    cases hc : s.rc.checking
    · rewrite [Sys.step_tick_off k gs gh s r hc] at h; exact absurd rfl h
    · rfl

/-- over whole label sequences: if no tick in `ls` is handled (no user present at any tick), the mode after `ls` is the mode before -/
theorem C18_mode_constant_without_measurement (k : Checker) (gs gh : Int) (ls : List Lbl) : ∀ s : Sys,
    (Sys.run k gs gh s ls).checks = s.checks → (Sys.run k gs gh s ls).st = s.st := by
  induction ls with
  | nil => intro s _; rfl
  | cons l ls ih =>
    intro s h
    have hmono : ∀ (xs : List Lbl) (t : Sys), t.checks ≤ (Sys.run k gs gh t xs).checks := by
      intro xs
      induction xs with
      | nil => intro t; exact Nat.le_refl _
      | cons x xs ihx =>
        intro t
        have h1 : t.checks ≤ (t.step k gs gh x).checks := by
          cases x with
          | start => exact Nat.le_refl _
          | shutdown => exact Nat.le_refl _
          | tick r =>
            cases hc : t.rc.checking
            · rewrite [Sys.step_tick_off k gs gh t r hc]; exact Nat.le_refl _
            · rewrite [Sys.step_tick_on k gs gh t r hc, upd_checks]; exact Nat.le_succ _
        exact Nat.le_trans h1 (ihx _)
    have hrun : Sys.run k gs gh s (l :: ls) = Sys.run k gs gh (s.step k gs gh l) ls := rfl
    rewrite [hrun] at h ⊢
    have hstep : (s.step k gs gh l).checks = s.checks ∧ (s.step k gs gh l).st = s.st := by
      cases l with
      | start => exact ⟨rfl, rfl⟩
      | shutdown => exact ⟨rfl, rfl⟩
      | tick r =>
        cases hc : s.rc.checking
        · rewrite [Sys.step_tick_off k gs gh s r hc]; exact ⟨rfl, rfl⟩
        · exfalso
          have := hmono ls (s.step k gs gh (.tick r))
          rewrite [Sys.step_tick_on k gs gh s r hc, upd_checks] at this
          rewrite [Sys.step_tick_on k gs gh s r hc] at h
          omega
    rewrite [← hstep.2]
    exact ih _ (by rewrite [hstep.1]; exact h)

/-- soundness of the mode oracle -/
theorem C18_checkMode_sound (before after : Bool) (measured : Nat) (h : checkMode before after measured = []) :
    measured = 0 → after = before := by
  intro hm
  unfold checkMode at h
  cases before <;> cases after <;> simp_all

/-- and the model passes it on every start / shutdown step -/
theorem C18_model_passes_checkMode (k : Checker) (gs gh : Int) (s : Sys) :
    checkMode s.st.mustRefuse (s.step k gs gh .start).st.mustRefuse 0 = [] ∧
    checkMode s.st.mustRefuse (s.step k gs gh .shutdown).st.mustRefuse 0 = [] := by
  constructor <;> simp [checkMode, Sys.step]


/-! ## audit follow-up: first clause over configurations; counts per window -/

/-- **the property's first clause as one statement over configurations**: for every configuration accepted by
`Validate` (fixed or percentage; `uint32` fields; total memory below 2^57 bytes on the percentage path), every
limiter state and every reading, after the check the limiter refuses iff the latest measurement (post-GC
exactly when a GC ran) is at or above limit − spike of the checker built from that configuration -/
theorem C18_first_clause (c : Config) (total : Nat) (hv : validate c = 0) (hwf : c.wf) (ht : total < 2 ^ 57) (s : LState) (r : Reading) :
    ((check (mkChecker c total) c.gcSoft c.gcHard s r).st.mustRefuse = true ↔
      (check (mkChecker c total) c.gcSoft c.gcHard s r).latest ≥ (mkChecker c total).limit - (mkChecker c total).spike) ∧
    (check (mkChecker c total) c.gcSoft c.gcHard s r).latest =
      (if (check (mkChecker c total) c.gcSoft c.gcHard s r).gcRan then r.allocAfterGC else r.alloc) :=
  have h := C18_no_underflow c total hv hwf ht
  ⟨C18_refuse_iff _ h.1 h.2 _ _ s r, C18_latest _ _ _ s r⟩

/-- ticks handled by a running checker are exactly a history of checks (ties `runChecks` / `finalState` to the loop) -/
theorem Sys.run_ticks_on (k : Checker) (gs gh : Int) (rs : List Reading) : ∀ s : Sys, s.rc.checking = true →
    (Sys.run k gs gh s (rs.map .tick)).st = finalState k gs gh s.st rs ∧
    (Sys.run k gs gh s (rs.map .tick)).checks = s.checks + rs.length ∧
    (Sys.run k gs gh s (rs.map .tick)).rc = s.rc := by
  induction rs with
  | nil => intro s _; exact ⟨rfl, rfl, rfl⟩
  | cons r rs ih =>
    intro s h
    have hrun : Sys.run k gs gh s ((r :: rs).map .tick) = Sys.run k gs gh (s.step k gs gh (.tick r)) (rs.map .tick) := rfl
    rewrite [hrun, Sys.step_tick_on k gs gh s r h]
    obtain ⟨i1, i2, i3⟩ := ih { s with st := (check k gs gh s.st r).st, checks := s.checks + 1 } (by rewrite [upd_rc]; exact h)
    refine ⟨?_, ?_, ?_⟩
    · rewrite [i1, upd_st, finalState.eq_2]; rfl
    · rewrite [i2, upd_checks]; simp only [List.length_cons]; omega
    · rewrite [i3, upd_rc]; rfl

/-- **reads per window**: while a user is present the loop makes exactly one check per ticker instant of the window,
and none otherwise (this is what the ref-count harness now compares: check / read / GC *counts* per window) -/
theorem C18_window_checks (k : Checker) (gs gh : Int) (t : Timed) (ci a b : Int) (alloc after : Nat) :
    (t.window k gs gh ci a b alloc after).checks = if t.sys.rc.checking then (t.readings ci a b alloc after).length else 0 := by
  unfold Timed.window
  simp only []
  cases hc : t.sys.rc.checking
  · rewrite [Sys.run_ticks_off k gs gh _ t.sys hc]; simp
  · rewrite [(Sys.run_ticks_on k gs gh _ t.sys hc).2.1]; simp

example : tickInstants 10 4 11 22 = [14, 18, 22] ∧ tickInstants 10 4 14 17 = [] ∧ tickInstants 0 1000 1500 3000 = [2000, 3000] := by decide



/-- **the context does not matter**: a start / shutdown with a cancelled or expired context has exactly the effect of one
with a live context, on every state (a fact the model *states* — `Start`/`Shutdown` do not look at their context — and
the differential backs: the ref-count, processor, extension and stress harnesses pass live, cancelled and expired contexts) -/
theorem C18_context_irrelevant (k : Checker) (gs gh : Int) (s : Sys) (c : Ctx) :
    s.stepC k gs gh (.shutdown c) = s.stepC k gs gh (.shutdown .live) ∧
    s.stepC k gs gh (.start c) = s.stepC k gs gh (.start .live) := ⟨rfl, rfl⟩

/-- hence "until the last user has shut down and then stops" holds whatever contexts the users leave with: after any
sequence of context-carrying labels, a tick reaches `CheckMemLimits` iff starts − accepted shutdowns > 0 -/
theorem C18_loop_tick_any_context (k : Checker) (gs gh : Int) (ls : List LblC) :
    (Sys.run k gs gh {} (ls.map LblC.erase)).rc.checking = true ↔ 0 < usersL (ls.map LblC.erase) :=
  Sys.checking_iff k gs gh _

example : usersL ([LblC.start .live, .start .expired, .shutdown .cancelled, .shutdown .expired].map LblC.erase) = 0 := by decide

end OtelVerif.C18
