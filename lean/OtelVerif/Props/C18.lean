import OtelVerif.Model.C18Src
/-!
# C18 — the memory limiter refuses data exactly while usage is at or above the soft limit

Property theorems about `Model/C18.lean`.  All quantify over every configuration accepted by
`validate`, every history of readings / GC effects / instants and every start/shutdown sequence; no
bound on lengths or values (beyond the `uint32`/`uint64` ranges of the Go fields and, on the
percentage path, `total < 2^57`, DESIGN §C18).
-/
namespace OtelVerif.C18

/-! ## what `Validate` guarantees -/

theorem validate_ok {c : Config} (h : validate c = 0) :
    0 < c.checkInterval ∧ c.gcHard ≤ c.gcSoft ∧ (c.limitMiB ≠ 0 ∨ c.limitPct ≠ 0) ∧ c.limitPct ≤ 100 ∧ c.spikePct ≤ 100 ∧
    (0 < c.limitMiB → c.spikeMiB < c.limitMiB) ∧ (0 < c.limitPct → c.spikePct < c.limitPct) := by
  unfold validate at h
  repeat' split at h
  all_goals first | omega | (refine ⟨?_, ?_, ?_, ?_, ?_, ?_, ?_⟩ <;> omega)

theorem newFixed_le (limit spike : Nat) (h : spike ≤ limit) : (newFixed limit spike).spike ≤ (newFixed limit spike).limit := by
  unfold newFixed
  split
  · exact Nat.div_le_self _ _
  · exact h

/-- **no underflow**: for every accepted configuration the spike limit never exceeds the limit, so the
`uint64` subtraction `memAllocLimit - memSpikeLimit` does not wrap -/
theorem C18_no_underflow (c : Config) (total : Nat) (hv : validate c = 0) (hwf : c.wf) (ht : total < 2 ^ 57) :
    (mkChecker c total).spike ≤ (mkChecker c total).limit ∧ (mkChecker c total).limit < W := by
  obtain ⟨_, _, h3, h4, h5, h6, h7⟩ := validate_ok hv
  obtain ⟨w1, w2, _, _⟩ := hwf
  unfold mkChecker
  split
  · rename_i hl
    have hs : c.spikeMiB < c.limitMiB := h6 (by omega)
    have e1 : wmul c.limitMiB mib = c.limitMiB * 1048576 := by unfold wmul W mib; omega
    have e2 : wmul c.spikeMiB mib = c.spikeMiB * 1048576 := by unfold wmul W mib; omega
    rw [e1, e2]
    refine ⟨newFixed_le _ _ (by omega), ?_⟩
    have : (newFixed (c.limitMiB * 1048576) (c.spikeMiB * 1048576)).limit = c.limitMiB * 1048576 := by
      unfold newFixed; split <;> rfl
    rw [this]; unfold W; omega
  · rename_i hl
    have hl0 : c.limitMiB = 0 := by omega
    have hp : 0 < c.limitPct := by omega
    have hs : c.spikePct < c.limitPct := h7 hp
    have b1 : c.limitPct * total ≤ 100 * total := Nat.mul_le_mul_right _ h4
    have b2 : c.spikePct * total ≤ c.limitPct * total := Nat.mul_le_mul_right _ (Nat.le_of_lt hs)
    have e1 : wmul c.limitPct total = c.limitPct * total := by unfold wmul W; apply Nat.mod_eq_of_lt; omega
    have e2 : wmul c.spikePct total = c.spikePct * total := by unfold wmul W; apply Nat.mod_eq_of_lt; omega
    unfold newPct
    rw [e1, e2]
    refine ⟨newFixed_le _ _ (Nat.div_le_div_right b2), ?_⟩
    have : (newFixed (c.limitPct * total / 100) (c.spikePct * total / 100)).limit = c.limitPct * total / 100 := by
      unfold newFixed; split <;> rfl
    rw [this]
    have : c.limitPct * total / 100 ≤ c.limitPct * total := Nat.div_le_self _ _
    unfold W; omega

/-- with `spike ≤ limit` the soft limit computed by the code is the true difference -/
theorem wsub_eq {limit spike : Nat} (h : spike ≤ limit) (hl : limit < W) : wsub limit spike = limit - spike := by
  unfold wsub W at *
  have hs : spike % 18446744073709551616 = spike := Nat.mod_eq_of_lt (by omega)
  rw [hs, if_pos h]

theorem aboveSoft_iff (k : Checker) (h : k.spike ≤ k.limit) (hl : k.limit < W) (alloc : Nat) :
    k.aboveSoft alloc = true ↔ alloc ≥ k.limit - k.spike := by
  simp [Checker.aboveSoft, wsub_eq h hl]

/-! ## one check -/

/-- the minimum GC interval of the severity of a reading -/
def minInterval (k : Checker) (gs gh : Int) (alloc : Nat) : Int := if k.aboveHard alloc then gh else gs

theorem check_below (k : Checker) (gs gh : Int) (s : LState) (r : Reading) (ha : k.aboveSoft r.alloc = false) :
    check k gs gh s r = { st := { s with mustRefuse := false }, gcRan := false, latest := r.alloc } := by
  simp [check, ha]

theorem check_gc (k : Checker) (gs gh : Int) (s : LState) (r : Reading) (ha : k.aboveSoft r.alloc = true)
    (hd : r.now - s.lastGC > minInterval k gs gh r.alloc) :
    check k gs gh s r = { st := { mustRefuse := k.aboveSoft r.allocAfterGC, lastGC := r.now + r.gcDur }, gcRan := true, latest := r.allocAfterGC } := by
  unfold minInterval at hd
  simp only [check, ha, Bool.not_true, Bool.false_eq_true, if_false]
  rw [if_pos hd]

theorem check_nogc (k : Checker) (gs gh : Int) (s : LState) (r : Reading) (ha : k.aboveSoft r.alloc = true)
    (hd : ¬ r.now - s.lastGC > minInterval k gs gh r.alloc) :
    check k gs gh s r = { st := { s with mustRefuse := true }, gcRan := false, latest := r.alloc } := by
  unfold minInterval at hd
  simp only [check, ha, Bool.not_true, Bool.false_eq_true, if_false]
  rw [if_neg hd]

/-- the measurement the decision is based on is the post-GC reading exactly when a GC ran -/
theorem C18_latest (k : Checker) (gs gh : Int) (s : LState) (r : Reading) :
    (check k gs gh s r).latest = if (check k gs gh s r).gcRan then r.allocAfterGC else r.alloc := by
  cases ha : k.aboveSoft r.alloc with
  | false => rw [check_below k gs gh s r ha]; rfl
  | true =>
    by_cases hd : r.now - s.lastGC > minInterval k gs gh r.alloc
    · rw [check_gc k gs gh s r ha hd]; rfl
    · rw [check_nogc k gs gh s r ha hd]; rfl

/-- **refuse iff**: after a check the limiter refuses iff the latest measurement is at or above limit − spike -/
theorem C18_refuse_iff (k : Checker) (h : k.spike ≤ k.limit) (hl : k.limit < W) (gs gh : Int) (s : LState) (r : Reading) :
    (check k gs gh s r).st.mustRefuse = true ↔ (check k gs gh s r).latest ≥ k.limit - k.spike := by
  cases ha : k.aboveSoft r.alloc with
  | false =>
    rw [check_below k gs gh s r ha]
    have := aboveSoft_iff k h hl r.alloc
    rw [ha] at this
    simpa using this
  | true =>
    by_cases hd : r.now - s.lastGC > minInterval k gs gh r.alloc
    · rw [check_gc k gs gh s r ha hd]
      exact aboveSoft_iff k h hl r.allocAfterGC
    · rw [check_nogc k gs gh s r ha hd]
      have := (aboveSoft_iff k h hl r.alloc).1 ha
      simpa using this

/-- **GC only when due** (and whenever due): a forced collection runs iff usage is at or above the soft
limit and more than the minimum interval of that severity has passed since the last one finished -/
theorem C18_gc_iff_due (k : Checker) (h : k.spike ≤ k.limit) (hl : k.limit < W) (gs gh : Int) (s : LState) (r : Reading) :
    (check k gs gh s r).gcRan = true ↔
      (r.alloc ≥ k.limit - k.spike ∧ r.now - s.lastGC > (if r.alloc ≥ k.limit then gh else gs)) := by
  have hm : minInterval k gs gh r.alloc = (if r.alloc ≥ k.limit then gh else gs) := by
    simp [minInterval, Checker.aboveHard]
  rw [← hm]
  cases ha : k.aboveSoft r.alloc with
  | false =>
    rw [check_below k gs gh s r ha]
    have := aboveSoft_iff k h hl r.alloc
    rw [ha] at this
    constructor
    · intro hc; simp at hc
    · intro hc; exact absurd (this.2 hc.1) (by simp)
  | true =>
    have hsoft := (aboveSoft_iff k h hl r.alloc).1 ha
    by_cases hd : r.now - s.lastGC > minInterval k gs gh r.alloc
    · rw [check_gc k gs gh s r ha hd]; exact ⟨fun _ => ⟨hsoft, hd⟩, fun _ => rfl⟩
    · rw [check_nogc k gs gh s r ha hd]
      constructor
      · intro hc; simp at hc
      · intro hc; exact absurd hc.2 hd

/-- `lastGCDone` moves only when a GC ran, to the instant the GC finished -/
theorem C18_lastGC (k : Checker) (gs gh : Int) (s : LState) (r : Reading) :
    (check k gs gh s r).st.lastGC = if (check k gs gh s r).gcRan then r.now + r.gcDur else s.lastGC := by
  cases ha : k.aboveSoft r.alloc with
  | false => rw [check_below k gs gh s r ha]; rfl
  | true =>
    by_cases hd : r.now - s.lastGC > minInterval k gs gh r.alloc
    · rw [check_gc k gs gh s r ha hd]; rfl
    · rw [check_nogc k gs gh s r ha hd]; rfl

/-! ## every history -/

/-- after every check of every history the mode is "refuse" iff that check's latest measurement is at
or above the soft limit — there is no hysteresis and no dependence on earlier readings -/
theorem C18_history_refuse_iff (k : Checker) (h : k.spike ≤ k.limit) (hl : k.limit < W) (gs gh : Int) :
    ∀ (rs : List Reading) (s : LState), ∀ o ∈ runChecks k gs gh s rs,
      (o.st.mustRefuse = true ↔ o.latest ≥ k.limit - k.spike) := by
  intro rs
  induction rs with
  | nil => intro s o ho; simp [runChecks] at ho
  | cons r rs ih =>
    intro s o ho
    simp only [runChecks, List.mem_cons] at ho
    rcases ho with rfl | ho
    · exact C18_refuse_iff k h hl gs gh s r
    · exact ih _ o ho

/-- the current mode after a non-empty history is decided by the last check alone -/
theorem C18_mode_after_history (k : Checker) (h : k.spike ≤ k.limit) (hl : k.limit < W) (gs gh : Int)
    (rs : List Reading) (r : Reading) : ∀ s : LState,
    ((finalState k gs gh s (rs ++ [r])).mustRefuse = true ↔
      (check k gs gh (finalState k gs gh s rs) r).latest ≥ k.limit - k.spike) := by
  induction rs with
  | nil =>
    intro s
    rw [List.nil_append, finalState.eq_2, finalState.eq_1, finalState.eq_1]
    exact C18_refuse_iff k h hl gs gh s r
  | cons x xs ih =>
    intro s
    rw [List.cons_append, finalState.eq_2, finalState.eq_2]
    exact ih _

/-- GC throttling over histories: while no more than the hard-limit interval (the smaller one, by
validation) has passed since the last GC finished, no check forces a GC, whatever the readings -/
theorem C18_gc_throttled (k : Checker) (gs gh : Int) (hgs : gh ≤ gs) :
    ∀ (rs : List Reading) (s : LState), (∀ r ∈ rs, r.now - s.lastGC ≤ gh) →
      ∀ o ∈ runChecks k gs gh s rs, o.gcRan = false ∧ o.st.lastGC = s.lastGC := by
  intro rs
  induction rs with
  | nil => intro s _ o ho; simp [runChecks] at ho
  | cons r rs ih =>
    intro s hall o ho
    have hr := hall r (by simp)
    have hstep : (check k gs gh s r).gcRan = false ∧ (check k gs gh s r).st.lastGC = s.lastGC := by
      cases ha : k.aboveSoft r.alloc with
      | false => rw [check_below k gs gh s r ha]; exact ⟨rfl, rfl⟩
      | true =>
        have hd : ¬ r.now - s.lastGC > minInterval k gs gh r.alloc := by
          unfold minInterval; split <;> omega
        rw [check_nogc k gs gh s r ha hd]; exact ⟨rfl, rfl⟩
    simp only [runChecks, List.mem_cons] at ho
    rcases ho with rfl | ho
    · exact hstep
    · have := ih (check k gs gh s r).st (by intro r' hr'; rw [hstep.2]; exact hall r' (by simp [hr'])) o ho
      rw [hstep.2] at this
      exact this

/-! ## the search oracle -/

theorem ite_sing_nil {α : Type} {p : Prop} [Decidable p] {x : α} : (if p then [x] else []) = [] ↔ ¬p := by
  split <;> simp [*]

/-- soundness: an observed check the oracle accepts satisfies the property's clauses (stated over ℤ) -/
theorem C18_check_sound (k : Checker) (gs gh prev : Int) (r : Reading) (o : ObsCheck)
    (h : checkObs k gs gh prev r o = []) :
    (k.spike ≤ k.limit) ∧
    (o.refuse = true ↔ obsLatest r o ≥ (k.limit : Int) - k.spike) ∧
    (o.gcRan = true → (r.alloc : Int) ≥ (k.limit : Int) - k.spike ∧ r.now - prev > (if (r.alloc : Int) ≥ k.limit then gh else gs)) ∧
    (o.gcRan = false → o.lastGC = prev) := by
  simp only [checkObs, List.append_eq_nil_iff] at h
  obtain ⟨⟨⟨h1, h2⟩, h3⟩, h4⟩ := h
  have g1 := ite_sing_nil.1 h1
  have g2 := ite_sing_nil.1 h2
  have g3 := ite_sing_nil.1 h3
  have g4 := ite_sing_nil.1 h4
  refine ⟨by omega, ?_, ?_, ?_⟩
  · cases hr : o.refuse <;> simp_all
  · intro hg
    simp only [hg, Bool.true_and, Bool.not_eq_true', Bool.and_eq_false_iff, decide_eq_false_iff_not, not_or, Decidable.not_not] at g3
    simpa using g3
  · intro hg
    simp only [hg, Bool.not_false, Bool.true_and, bne_iff_ne, ne_eq, Decidable.not_not] at g4
    exact g4

/-- the model's own checks pass the oracle, for every checker without underflow, state and reading -/
theorem C18_model_passes_oracle (k : Checker) (h : k.spike ≤ k.limit) (hl : k.limit < W) (gs gh : Int) (s : LState) (r : Reading) :
    checkObs k gs gh s.lastGC r
      { refuse := (check k gs gh s r).st.mustRefuse, gcRan := (check k gs gh s r).gcRan, lastGC := (check k gs gh s r).st.lastGC } = [] := by
  have hsoft : ∀ a : Nat, k.aboveSoft a = decide ((a : Int) ≥ (k.limit : Int) - k.spike) := by
    intro a
    have := aboveSoft_iff k h hl a
    cases hb : k.aboveSoft a
    · rw [hb] at this; simp only [Bool.false_eq_true, false_iff] at this
      symm; simp only [decide_eq_false_iff_not]; omega
    · rw [hb] at this; simp only [true_iff] at this
      symm; simp only [decide_eq_true_eq]; omega
  have hnn : ¬ ((k.limit : Int) - k.spike < 0) := by omega
  have hm : minInterval k gs gh r.alloc = (if (r.alloc : Int) ≥ k.limit then gh else gs) := by
    simp only [minInterval, Checker.aboveHard, decide_eq_true_eq, ge_iff_le, Int.ofNat_le]
  cases ha : k.aboveSoft r.alloc with
  | false =>
    rw [check_below k gs gh s r ha]
    have := hsoft r.alloc; rw [ha] at this
    simp [checkObs, obsLatest, hnn, ← this]
  | true =>
    by_cases hd : r.now - s.lastGC > minInterval k gs gh r.alloc
    · rw [check_gc k gs gh s r ha hd]
      have h1 := hsoft r.alloc; rw [ha] at h1
      have h2 := hsoft r.allocAfterGC
      rw [hm] at hd
      simp only [ge_iff_le, Int.ofNat_le, gt_iff_lt] at hd
      simp [checkObs, obsLatest, hnn, ← h1, ← h2]
      exact hd
    · rw [check_nogc k gs gh s r ha hd]
      have h1 := hsoft r.alloc; rw [ha] at h1
      simp [checkObs, obsLatest, hnn, ← h1]

/-! ## processor and extension -/

/-- while refusing: nothing is forwarded and the caller gets the non-permanent data-refused error -/
theorem C18_consume_refusing {α : Type} (payload : α) (next : α → Res) :
    (consume true payload next).1 = none ∧ (consume true payload next).2 = .refused ∧
    (consume true payload next).2.isPermanent = false := ⟨rfl, rfl, rfl⟩

/-- while not refusing: the payload is forwarded as it is and downstream's result is returned -/
theorem C18_consume_accepting {α : Type} (payload : α) (next : α → Res) :
    (consume false payload next).1 = some payload ∧ (consume false payload next).2 = next payload := ⟨rfl, rfl⟩

/-! ## reference counting -/

def RC.Inv (s : RC) : Prop := s.goroutine = decide (0 < s.ref) ∧ (0 < s.ref → s.ticker = true)

theorem RC.step_inv (s : RC) (o : RCOp) (h : s.Inv) : (s.step o).1.Inv := by
  obtain ⟨h1, h2⟩ := h
  cases o with
  | start =>
    simp only [RC.step]
    split
    · simp [RC.Inv]
    · rename_i hne
      have : 0 < s.ref := by omega
      simp [RC.Inv, h1, this, h2 this]
  | shutdown =>
    simp only [RC.step]
    split
    · rename_i h0; exact ⟨h1, h2⟩
    · simp [RC.Inv]
    · rename_i n hn
      have : 0 < s.ref := by omega
      simp [RC.Inv, h1, this, h2 this]

theorem RC.run_inv (ops : List RCOp) : ∀ s : RC, s.Inv → (s.run ops).Inv := by
  induction ops with
  | nil => intro s h; exact h
  | cons o os ih => intro s h; exact ih _ (RC.step_inv s o h)

/-- users = starts − successful shutdowns (a shutdown at zero is rejected and changes nothing) -/
def users : List RCOp → Nat := List.foldl (fun n o => match o with | .start => n + 1 | .shutdown => n - 1) 0

theorem RC.run_ref (ops : List RCOp) : ∀ (s : RC) (n : Nat), s.ref = n →
    (s.run ops).ref = ops.foldl (fun n o => match o with | .start => n + 1 | .shutdown => n - 1) n := by
  induction ops with
  | nil => intro s n h; exact h
  | cons o os ih =>
    intro s n h
    simp only [RC.run, List.foldl_cons]
    apply ih
    cases o with
    | start => simp only [RC.step]; split <;> simp_all
    | shutdown =>
      simp only [RC.step]
      split
      · rename_i h0; simp only; omega
      · rename_i h0; simp only; omega
      · rename_i m hm; simp only; omega

/-- **shared checker**: for every start/shutdown sequence of the sharers, memory is being checked
(goroutine alive and ticker armed) iff at least one user has started and not yet shut down -/
theorem C18_refcount (ops : List RCOp) :
    ((RC.run {} ops).checking = true ↔ 0 < users ops) ∧ (RC.run {} ops).ref = users ops := by
  have hinv := RC.run_inv ops {} (by simp [RC.Inv])
  have href := RC.run_ref ops {} 0 rfl
  refine ⟨?_, href⟩
  unfold users
  rw [← href]
  obtain ⟨h1, h2⟩ := hinv
  unfold RC.checking
  constructor
  · intro hc
    simp only [Bool.and_eq_true] at hc
    simpa [h1] using hc.1
  · intro hp
    simp [h1, hp, h2 hp]

/-- a shutdown without a preceding start is an error and leaves the state unchanged -/
theorem C18_shutdown_not_started (s : RC) (h : s.ref = 0) : s.step .shutdown = (s, true) := by
  simp [RC.step, h]

/-- the unrepaired `Start` (pinned tree) violates the statement: started again after a full shutdown
the limiter has a user but its ticker is dead.  Witness `start, shutdown, start` (replayed on the real
code by the `refcount` harness, corpus case 0). -/
def C18_refcount_pinned_full : Prop :=
  ∀ ops : List RCOp, ((RC.runPinned {} ops).checking = true ↔ 0 < users ops)

theorem C18_refcount_pinned_full_fails : ¬ C18_refcount_pinned_full := by
  intro h
  have := h [.start, .shutdown, .start]
  revert this
  decide

/-! ## non-vacuity -/

def exCfg : Config := { checkInterval := 1, gcSoft := 10, gcHard := 2, limitMiB := 100, spikeMiB := 20, limitPct := 0, spikePct := 0 }

example : validate exCfg = 0 ∧ exCfg.wf := ⟨by decide, by simp [Config.wf, exCfg]⟩
example : mkChecker exCfg 0 = ⟨104857600, 20971520⟩ := by decide
/-- percentage mode, default spike of 20 % -/
example : validate { exCfg with limitMiB := 0, spikeMiB := 0, limitPct := 50 } = 0 ∧
    mkChecker { exCfg with limitMiB := 0, spikeMiB := 0, limitPct := 50 } 1000 = ⟨500, 100⟩ := by decide
/-- a rejected configuration: spike = limit -/
example : validate { exCfg with spikeMiB := 100 } = 5 := by decide

/-- soft-limited: GC not due at t=5 (interval 10), due at t=11 and it helps; hard-limited at t=14: due (interval 2) -/
example : (runChecks ⟨100, 20⟩ 10 2 {} [⟨5, 85, 0, 0⟩, ⟨11, 85, 0, 10⟩, ⟨12, 79, 0, 0⟩, ⟨14, 100, 1, 90⟩]).map
    (fun o => (o.st.mustRefuse, o.gcRan, o.st.lastGC)) = [(true, false, 0), (false, true, 11), (false, false, 11), (true, true, 15)] := by decide

example : (RC.run {} [.start, .start, .shutdown]).checking = true ∧ (RC.run {} [.start, .shutdown, .start]).checking = true ∧
    (RC.run {} [.start, .shutdown]).checking = false := by decide


/-! ## the processor in full -/

/-- while refusing: nothing reaches the next consumer, the caller gets `ErrDataRefused` — which the helper
does not swallow (only `ErrSkipProcessingData` is) and which is not permanent —, the items are counted
as refused and as incoming, nothing as outgoing (profiles: neither the processor nor
`xprocessorhelper` has an instrument, nothing is counted) -/
theorem C18_consumeFull_refusing {α : Type} (sig : Sig) (items : α → Nat) (payload : α) (next : α → Res) :
    (consumeFull sig items true payload next).forwarded = none ∧
    (consumeFull sig items true payload next).res = .refused ∧
    (consumeFull sig items true payload next).res.isPermanent = false ∧
    (consumeFull sig items true payload next).counts =
      { accepted := 0, refused := if sig = .profiles then 0 else items payload, incoming := if sig = .profiles then 0 else items payload, outgoing := 0 } := by
  cases sig <;> simp [consumeFull, helperWrap, processML, Res.isPermanent]

/-- while not refusing: the very payload reaches the next consumer, its result is the caller's result,
the items are counted as accepted, incoming and outgoing -/
theorem C18_consumeFull_accepting {α : Type} (sig : Sig) (items : α → Nat) (payload : α) (next : α → Res) :
    (consumeFull sig items false payload next).forwarded = some payload ∧
    (consumeFull sig items false payload next).res = next payload ∧
    (consumeFull sig items false payload next).counts =
      { accepted := if sig = .profiles then 0 else items payload, refused := 0, incoming := if sig = .profiles then 0 else items payload,
        outgoing := if sig = .profiles then 0 else items payload } := by
  cases sig <;> simp [consumeFull, helperWrap, processML]

/-- the one-line `consume` is the projection of the full model -/
theorem C18_consumeFull_projects {α : Type} (sig : Sig) (items : α → Nat) (refusing : Bool) (payload : α) (next : α → Res) :
    ((consumeFull sig items refusing payload next).forwarded, (consumeFull sig items refusing payload next).res) =
      consume refusing payload next := by
  cases refusing <;> simp [consumeFull, helperWrap, processML, consume]

/-- the helper turns exactly `ErrSkipProcessingData` into success-without-forwarding; every other
error of the process function — `ErrDataRefused` in particular — reaches the caller -/
theorem C18_helper_swallows_only_skip {α : Type} (obs : Bool) (items : α → Nat) (proc : α → α × Option PErr × Counts) (next : α → Res) (payload : α) :
    ((helperWrap obs items proc next payload).forwarded = none ∧ (helperWrap obs items proc next payload).res = .ok) ↔
      (proc payload).2.1 = some .skipProcessing := by
  unfold helperWrap
  rcases hp : proc payload with ⟨ld, err, k⟩
  cases err with
  | none => simp
  | some e => cases e <;> simp

/-- soundness of the consume oracle, clause by clause -/
theorem C18_checkConsume_sound (o : ObsConsume) (h : checkConsume o = []) :
    (o.refusing = true → o.fwd = false ∧ o.isRefused = true ∧ o.isPerm = false) ∧
    (o.refusing = false → o.fwd = true ∧ o.same = true ∧ o.eqNext = true) := by
  simp only [checkConsume, List.append_eq_nil_iff] at h
  obtain ⟨⟨⟨⟨h1, h2⟩, h3⟩, h4⟩, h5⟩ := h
  have g1 := ite_sing_nil.1 h1
  have g2 := ite_sing_nil.1 h2
  have g3 := ite_sing_nil.1 h3
  have g4 := ite_sing_nil.1 h4
  have g5 := ite_sing_nil.1 h5
  obtain ⟨a, b, c, d, e, f, g⟩ := o
  cases a <;> cases b <;> cases c <;> cases d <;> cases e <;> cases f <;> cases g <;> simp_all

/-- what the harness would observe of the model's consume call -/
def obsOfModel {α : Type} [DecidableEq α] (sig : Sig) (items : α → Nat) (refusing : Bool) (payload : α) (next : α → Res) : ObsConsume :=
  let out := consumeFull sig items refusing payload next
  { refusing := refusing, fwd := out.forwarded.isSome, same := out.forwarded == some payload, isNil := out.res == .ok,
    isRefused := out.res == .refused, isPerm := out.res.isPermanent, eqNext := out.res == next payload }

/-- the model's consume passes the oracle for every signal, payload and downstream -/
theorem C18_model_consume_passes {α : Type} [DecidableEq α] (sig : Sig) (items : α → Nat) (refusing : Bool) (payload : α) (next : α → Res) :
    checkConsume (obsOfModel sig items refusing payload next) = [] := by
  cases refusing <;> simp [obsOfModel, checkConsume, consumeFull, helperWrap, processML, Res.isPermanent]

/-- soundness of the ref-count oracle -/
theorem C18_checkRC_sound (users : Int) (op : String) (err checked : Bool) (h : checkRC users op err checked = []) :
    (op = "shutdown" → (err = true ↔ users ≤ 0)) ∧ (op = "start" → err = false) ∧ (op = "tick" → (checked = true ↔ users > 0)) := by
  simp only [checkRC, List.append_eq_nil_iff] at h
  obtain ⟨⟨⟨h1, h2⟩, h3⟩, h4⟩ := h
  have g1 := ite_sing_nil.1 h1
  have g2 := ite_sing_nil.1 h2
  have g3 := ite_sing_nil.1 h3
  have g4 := ite_sing_nil.1 h4
  refine ⟨?_, ?_, ?_⟩
  · intro ho
    simp only [ho, decide_true, Bool.true_and, bne_iff_ne, ne_eq, Decidable.not_not] at g1
    rw [g1]; simp
  · intro ho
    simp only [ho, decide_true, Bool.true_and] at g2
    simpa using g2
  · intro ho
    simp only [ho, decide_true, Bool.true_and, Bool.and_eq_true, decide_eq_true_eq, not_and, Bool.not_eq_true'] at g3 g4
    constructor
    · intro hc
      have := g3 hc
      omega
    · intro hu
      cases hc : checked
      · exact absurd hu (by have := g4; simp [hc] at this; omega)
      · rfl

/-! ## the monitoring loop -/

def Sys.Inv (s : Sys) : Prop := s.rc.Inv

theorem Sys.step_rc_inv (k : Checker) (gs gh : Int) (s : Sys) (l : Lbl) (h : s.rc.Inv) : (s.step k gs gh l).rc.Inv := by
  cases l with
  | start => exact RC.step_inv s.rc .start h
  | shutdown => exact RC.step_inv s.rc .shutdown h
  | tick r => simp only [Sys.step]; split <;> exact h

theorem rc_step_ref (s : RC) (o : RCOp) : (s.step o).1.ref = match o with | .start => s.ref + 1 | .shutdown => s.ref - 1 := by
  cases o with
  | start => simp only [RC.step]; split <;> simp_all
  | shutdown =>
    simp only [RC.step]
    split
    · rename_i h0; simp only; omega
    · rename_i h0; simp only; omega
    · rename_i m hm; simp only; omega

/-- invariant of the loop: ref count = users of the labels so far, goroutine and ticker consistent with it -/
theorem Sys.run_inv (k : Checker) (gs gh : Int) (ls : List Lbl) : ∀ (s : Sys) (n : Nat), s.rc.Inv → s.rc.ref = n →
    (Sys.run k gs gh s ls).rc.Inv ∧ (Sys.run k gs gh s ls).rc.ref = ls.foldl usersStep n := by
  induction ls with
  | nil => intro s n h hn; exact ⟨h, hn⟩
  | cons l ls ih =>
    intro s n h hn
    simp only [Sys.run, List.foldl_cons]
    apply ih _ _ (Sys.step_rc_inv k gs gh s l h)
    cases l with
    | start => simp only [Sys.step, usersStep]; rw [rc_step_ref]; simp [hn]
    | shutdown => simp only [Sys.step, usersStep]; rw [rc_step_ref]; simp [hn]
    | tick r => simp only [Sys.step, usersStep]; split <;> exact hn

theorem Sys.checking_iff (k : Checker) (gs gh : Int) (ls : List Lbl) :
    (Sys.run k gs gh {} ls).rc.checking = true ↔ 0 < usersL ls := by
  obtain ⟨⟨h1, h2⟩, h3⟩ := Sys.run_inv k gs gh ls {} 0 (by simp [RC.Inv]) rfl
  unfold usersL
  rw [← h3]
  unfold RC.checking
  constructor
  · intro hc
    simp only [Bool.and_eq_true] at hc
    simpa [h1] using hc.1
  · intro hp
    simp [h1, hp, h2 hp]

theorem Sys.step_tick_on (k : Checker) (gs gh : Int) (s : Sys) (r : Reading) (h : s.rc.checking = true) :
    s.step k gs gh (.tick r) = { s with st := (check k gs gh s.st r).st, checks := s.checks + 1 } := by
  simp only [Sys.step, h, if_true]

theorem Sys.step_tick_off (k : Checker) (gs gh : Int) (s : Sys) (r : Reading) (h : s.rc.checking = false) :
    s.step k gs gh (.tick r) = s := by
  simp only [Sys.step, h, Bool.false_eq_true, if_false]

theorem upd_st (s : Sys) (o : CheckOut) : ({ s with st := o.st, checks := s.checks + 1 } : Sys).st = o.st := rfl
theorem upd_checks (s : Sys) (o : CheckOut) : ({ s with st := o.st, checks := s.checks + 1 } : Sys).checks = s.checks + 1 := rfl
theorem upd_rc (s : Sys) (o : CheckOut) : ({ s with st := o.st, checks := s.checks + 1 } : Sys).rc = s.rc := rfl

theorem Sys.run_append (k : Checker) (gs gh : Int) (s : Sys) (xs ys : List Lbl) :
    Sys.run k gs gh s (xs ++ ys) = Sys.run k gs gh (Sys.run k gs gh s xs) ys := by
  unfold Sys.run; exact List.foldl_append

/-- **the shared checker keeps running until the last user has shut down and then stops** — over every
interleaving of ticks with starts and shutdowns of any number of sharers, restarts included: when a
check interval elapses after the labels `ls`, `CheckMemLimits` runs (on the reading of that moment)
iff at least one user has started and not yet shut down; otherwise nothing changes at all -/
theorem C18_loop_tick (k : Checker) (gs gh : Int) (ls : List Lbl) (r : Reading) :
    (0 < usersL ls →
      (Sys.run k gs gh {} (ls ++ [.tick r])).st = (check k gs gh (Sys.run k gs gh {} ls).st r).st ∧
      (Sys.run k gs gh {} (ls ++ [.tick r])).checks = (Sys.run k gs gh {} ls).checks + 1) ∧
    (usersL ls = 0 → Sys.run k gs gh {} (ls ++ [.tick r]) = Sys.run k gs gh {} ls) := by
  have hc := Sys.checking_iff k gs gh ls
  have happ : Sys.run k gs gh {} (ls ++ [.tick r]) = (Sys.run k gs gh {} ls).step k gs gh (.tick r) := by
    rw [Sys.run_append]; rfl
  rewrite [happ]
  constructor
  · intro hu
    -- `rewrite`, not `rw`: the closing `rfl` of `rw` would look inside `check`, whose `% 2^64` on open terms does not reduce
    rewrite [Sys.step_tick_on k gs gh _ r (hc.2 hu)]
    exact ⟨upd_st _ _, upd_checks _ _⟩
  · intro hu
    have : (Sys.run k gs gh {} ls).rc.checking = false := by
      cases hcc : (Sys.run k gs gh {} ls).rc.checking
      · rfl
      · have := hc.1 hcc; omega
    rewrite [Sys.step_tick_off k gs gh _ r this]
    rfl

theorem Sys.run_checks (k : Checker) (gs gh : Int) (ls : List Lbl) : ∀ (s : Sys) (u c : Nat), s.rc.Inv → s.rc.ref = u → s.checks = c →
    (Sys.run k gs gh s ls).checks = (ls.foldl tickStep (u, c)).2 := by
  induction ls with
  | nil => intro s u c _ _ hc; exact hc
  | cons l ls ih =>
    intro s u c h hu hc
    simp only [Sys.run, List.foldl_cons]
    cases l with
    | start => exact ih _ _ _ (Sys.step_rc_inv k gs gh s .start h) (by simp only [Sys.step]; rw [rc_step_ref]; simp [hu]) hc
    | shutdown => exact ih _ _ _ (Sys.step_rc_inv k gs gh s .shutdown h) (by simp only [Sys.step]; rw [rc_step_ref]; simp [hu]) hc
    | tick r =>
      have hck : s.rc.checking = decide (0 < u) := by
        obtain ⟨h1, h2⟩ := h
        unfold RC.checking
        by_cases hp : 0 < u
        · simp [h1, hu, hp, h2 (by omega)]
        · simp [h1, hu, hp]
      by_cases hp : 0 < u
      · have hon : s.rc.checking = true := by simp [hck, hp]
        rewrite [Sys.step_tick_on k gs gh s r hon]
        have e : tickStep (u, c) (Lbl.tick r) = (u, c + 1) := by simp only [tickStep, hp, if_true]
        rewrite [e]
        exact ih _ u (c + 1) (by rewrite [upd_rc]; exact h) (by rewrite [upd_rc]; exact hu) (by rewrite [upd_checks]; omega)
      · have hoff : s.rc.checking = false := by simp [hck, hp]
        rewrite [Sys.step_tick_off k gs gh s r hoff]
        have e : tickStep (u, c) (Lbl.tick r) = (u, c) := by simp only [tickStep, hp, if_false]
        rewrite [e]
        exact ih _ _ _ h hu hc

/-- the number of checks the loop has made = the number of ticks that fell while a user was present -/
theorem C18_loop_checks_count (k : Checker) (gs gh : Int) (ls : List Lbl) :
    (Sys.run k gs gh {} ls).checks = tickCount ls :=
  Sys.run_checks k gs gh ls {} 0 0 (by simp [RC.Inv]) rfl rfl

theorem Sys.run_ticks_off (k : Checker) (gs gh : Int) (rs : List Reading) : ∀ s : Sys, s.rc.checking = false →
    Sys.run k gs gh s (rs.map .tick) = s := by
  induction rs with
  | nil => intro s _; rfl
  | cons r rs ih =>
    intro s h
    simp only [List.map_cons, Sys.run, List.foldl_cons]
    rewrite [Sys.step_tick_off k gs gh s r h]
    exact ih s h

/-- after the last user has shut down, no sequence of further ticks changes the mode or anything else -/
theorem C18_loop_stops (k : Checker) (gs gh : Int) (ls : List Lbl) (h : usersL ls = 0) (rs : List Reading) :
    Sys.run k gs gh {} (ls ++ rs.map .tick) = Sys.run k gs gh {} ls := by
  rw [Sys.run_append]
  apply Sys.run_ticks_off
  cases hcc : (Sys.run k gs gh {} ls).rc.checking
  · rfl
  · have := (Sys.checking_iff k gs gh ls).1 hcc; omega

/-- while a user is present, the mode after a ticker-driven check obeys the refuse-iff statement -/
theorem C18_loop_mode (k : Checker) (h : k.spike ≤ k.limit) (hl : k.limit < W) (gs gh : Int) (ls : List Lbl) (r : Reading)
    (hu : 0 < usersL ls) :
    (Sys.run k gs gh {} (ls ++ [.tick r])).st.mustRefuse = true ↔
      (check k gs gh (Sys.run k gs gh {} ls).st r).latest ≥ k.limit - k.spike := by
  rewrite [((C18_loop_tick k gs gh ls r).1 hu).1]
  exact C18_refuse_iff k h hl gs gh _ r

example : (Sys.run ⟨100, 20⟩ 10 2 {} [.tick ⟨1, 90, 0, 90⟩, .start, .tick ⟨2, 90, 0, 90⟩, .shutdown, .tick ⟨3, 10, 0, 10⟩, .start, .tick ⟨4, 10, 0, 10⟩]).checks = 2 ∧
    tickCount [.tick ⟨1, 90, 0, 90⟩, .start, .tick ⟨2, 90, 0, 90⟩, .shutdown, .tick ⟨3, 10, 0, 10⟩, .start, .tick ⟨4, 10, 0, 10⟩] = 2 := by decide



/-- the uint64 subtraction of the code, in its textbook form -/
theorem C18_wsub_is_uint64_sub (a b : Nat) (ha : a < W) : wsub a b = (a + W - b % W) % W := by
  unfold wsub W at *
  have hb : b % 18446744073709551616 < 18446744073709551616 := Nat.mod_lt _ (by decide)
  split <;> omega

/-- the extension's `MustRefuse` after a check answers exactly "latest measurement ≥ limit − spike" -/
theorem C18_extension_refuses_iff (k : Checker) (h : k.spike ≤ k.limit) (hl : k.limit < W) (gs gh : Int) (s : LState) (r : Reading) :
    extMustRefuse (check k gs gh s r).st = true ↔ (check k gs gh s r).latest ≥ k.limit - k.spike :=
  C18_refuse_iff k h hl gs gh s r


/-- **forwarding does not depend on the item count** (a fact the model *states* — `helperWrap` has no branch on
the count — and the differential backs: zero-item shapes of all four signals): while not refusing, a payload with zero items
(completely empty, resource-only, scope-only) reaches the next consumer like any other and downstream's
result — an error included — is what the caller gets; the helper has no "nothing left, skip" shortcut -/
theorem C18_consume_forwards_empty {α : Type} (sig : Sig) (items : α → Nat) (payload : α) (next : α → Res) :
    (consumeFull sig items false payload next).forwarded = some payload ∧
    (consumeFull sig items false payload next).res = next payload :=
  ⟨(C18_consumeFull_accepting sig items payload next).1, (C18_consumeFull_accepting sig items payload next).2.1⟩

/-- a zero-item payload in front of a failing downstream: forwarded, the error comes back -/
example : (consumeFull .logs (fun _ : Unit => 0) false () (fun _ => .downstream 1 false)).forwarded = some () ∧
    (consumeFull .logs (fun _ : Unit => 0) false () (fun _ => .downstream 1 false)).res = .downstream 1 false ∧
    (consumeFull .profiles (fun _ : Unit => 0) true () (fun _ => .ok)).res = .refused := by decide


/-- **the mode changes only through a measurement**: whatever the label — start or shutdown of any sharer,
the last one included, or a tick that reaches no running checker — the refuse/accept state is untouched
unless the label is a tick that `CheckMemLimits` actually handles -/
theorem C18_mode_only_changes_on_measurement (k : Checker) (gs gh : Int) (s : Sys) (l : Lbl)
    (h : (s.step k gs gh l).st ≠ s.st) : ∃ r, l = .tick r ∧ s.rc.checking = true := by
  cases l with
  | start => exact absurd rfl h
  | shutdown => exact absurd rfl h
  | tick r =>
    refine ⟨r, rfl, ?_⟩
    cases hc : s.rc.checking
    · rewrite [Sys.step_tick_off k gs gh s r hc] at h; exact absurd rfl h
    · rfl

/-- over whole label sequences: if no tick in `ls` is handled (no user present at any tick), the mode after `ls` is the mode before -/
theorem C18_mode_constant_without_measurement (k : Checker) (gs gh : Int) (ls : List Lbl) : ∀ s : Sys,
    (Sys.run k gs gh s ls).checks = s.checks → (Sys.run k gs gh s ls).st = s.st := by
  induction ls with
  | nil => intro s _; rfl
  | cons l ls ih =>
    intro s h
    have hmono : ∀ (xs : List Lbl) (t : Sys), t.checks ≤ (Sys.run k gs gh t xs).checks := by
      intro xs
      induction xs with
      | nil => intro t; exact Nat.le_refl _
      | cons x xs ihx =>
        intro t
        have h1 : t.checks ≤ (t.step k gs gh x).checks := by
          cases x with
          | start => exact Nat.le_refl _
          | shutdown => exact Nat.le_refl _
          | tick r =>
            cases hc : t.rc.checking
            · rewrite [Sys.step_tick_off k gs gh t r hc]; exact Nat.le_refl _
            · rewrite [Sys.step_tick_on k gs gh t r hc, upd_checks]; exact Nat.le_succ _
        exact Nat.le_trans h1 (ihx _)
    have hrun : Sys.run k gs gh s (l :: ls) = Sys.run k gs gh (s.step k gs gh l) ls := rfl
    rewrite [hrun] at h ⊢
    have hstep : (s.step k gs gh l).checks = s.checks ∧ (s.step k gs gh l).st = s.st := by
      cases l with
      | start => exact ⟨rfl, rfl⟩
      | shutdown => exact ⟨rfl, rfl⟩
      | tick r =>
        cases hc : s.rc.checking
        · rewrite [Sys.step_tick_off k gs gh s r hc]; exact ⟨rfl, rfl⟩
        · exfalso
          have := hmono ls (s.step k gs gh (.tick r))
          rewrite [Sys.step_tick_on k gs gh s r hc, upd_checks] at this
          rewrite [Sys.step_tick_on k gs gh s r hc] at h
          omega
    rewrite [← hstep.2]
    exact ih _ (by rewrite [hstep.1]; exact h)

/-- soundness of the mode oracle -/
theorem C18_checkMode_sound (before after : Bool) (measured : Nat) (h : checkMode before after measured = []) :
    measured = 0 → after = before := by
  intro hm
  unfold checkMode at h
  cases before <;> cases after <;> simp_all

/-- and the model passes it on every start / shutdown step -/
theorem C18_model_passes_checkMode (k : Checker) (gs gh : Int) (s : Sys) :
    checkMode s.st.mustRefuse (s.step k gs gh .start).st.mustRefuse 0 = [] ∧
    checkMode s.st.mustRefuse (s.step k gs gh .shutdown).st.mustRefuse 0 = [] := by
  constructor <;> simp [checkMode, Sys.step]


/-! ## audit follow-up: first clause over configurations; counts per window -/

/-- **the property's first clause as one statement over configurations**: for every configuration accepted by
`Validate` (fixed or percentage; `uint32` fields; total memory below 2^57 bytes on the percentage path), every
limiter state and every reading, after the check the limiter refuses iff the latest measurement (post-GC
exactly when a GC ran) is at or above limit − spike of the checker built from that configuration -/
theorem C18_first_clause (c : Config) (total : Nat) (hv : validate c = 0) (hwf : c.wf) (ht : total < 2 ^ 57) (s : LState) (r : Reading) :
    ((check (mkChecker c total) c.gcSoft c.gcHard s r).st.mustRefuse = true ↔
      (check (mkChecker c total) c.gcSoft c.gcHard s r).latest ≥ (mkChecker c total).limit - (mkChecker c total).spike) ∧
    (check (mkChecker c total) c.gcSoft c.gcHard s r).latest =
      (if (check (mkChecker c total) c.gcSoft c.gcHard s r).gcRan then r.allocAfterGC else r.alloc) :=
  have h := C18_no_underflow c total hv hwf ht
  ⟨C18_refuse_iff _ h.1 h.2 _ _ s r, C18_latest _ _ _ s r⟩

/-- ticks handled by a running checker are exactly a history of checks (ties `runChecks` / `finalState` to the loop) -/
theorem Sys.run_ticks_on (k : Checker) (gs gh : Int) (rs : List Reading) : ∀ s : Sys, s.rc.checking = true →
    (Sys.run k gs gh s (rs.map .tick)).st = finalState k gs gh s.st rs ∧
    (Sys.run k gs gh s (rs.map .tick)).checks = s.checks + rs.length ∧
    (Sys.run k gs gh s (rs.map .tick)).rc = s.rc := by
  induction rs with
  | nil => intro s _; exact ⟨rfl, rfl, rfl⟩
  | cons r rs ih =>
    intro s h
    have hrun : Sys.run k gs gh s ((r :: rs).map .tick) = Sys.run k gs gh (s.step k gs gh (.tick r)) (rs.map .tick) := rfl
    rewrite [hrun, Sys.step_tick_on k gs gh s r h]
    obtain ⟨i1, i2, i3⟩ := ih { s with st := (check k gs gh s.st r).st, checks := s.checks + 1 } (by rewrite [upd_rc]; exact h)
    refine ⟨?_, ?_, ?_⟩
    · rewrite [i1, upd_st, finalState.eq_2]; rfl
    · rewrite [i2, upd_checks]; simp only [List.length_cons]; omega
    · rewrite [i3, upd_rc]; rfl

/-- **reads per window**: while a user is present the loop makes exactly one check per ticker instant of the window,
and none otherwise (this is what the ref-count harness now compares: check / read / GC *counts* per window) -/
theorem C18_window_checks (k : Checker) (gs gh : Int) (t : Timed) (ci a b : Int) (alloc after : Nat) :
    (t.window k gs gh ci a b alloc after).checks = if t.sys.rc.checking then (t.readings ci a b alloc after).length else 0 := by
  unfold Timed.window
  simp only []
  cases hc : t.sys.rc.checking
  · rewrite [Sys.run_ticks_off k gs gh _ t.sys hc]; simp
  · rewrite [(Sys.run_ticks_on k gs gh _ t.sys hc).2.1]; simp

example : tickInstants 10 4 11 22 = [14, 18, 22] ∧ tickInstants 10 4 14 17 = [] ∧ tickInstants 0 1000 1500 3000 = [2000, 3000] := by decide



/-- **the context does not matter**: a start / shutdown with a cancelled or expired context has exactly the effect of one
with a live context, on every state (a fact the model *states* — `Start`/`Shutdown` do not look at their context — and
the differential backs: the ref-count, processor, extension and stress harnesses pass live, cancelled and expired contexts) -/
theorem C18_context_irrelevant (k : Checker) (gs gh : Int) (s : Sys) (c : Ctx) :
    s.stepC k gs gh (.shutdown c) = s.stepC k gs gh (.shutdown .live) ∧
    s.stepC k gs gh (.start c) = s.stepC k gs gh (.start .live) := ⟨rfl, rfl⟩

/-- hence "until the last user has shut down and then stops" holds whatever contexts the users leave with: after any
sequence of context-carrying labels, a tick reaches `CheckMemLimits` iff starts − accepted shutdowns > 0 -/
theorem C18_loop_tick_any_context (k : Checker) (gs gh : Int) (ls : List LblC) :
    (Sys.run k gs gh {} (ls.map LblC.erase)).rc.checking = true ↔ 0 < usersL (ls.map LblC.erase) :=
  Sys.checking_iff k gs gh _

example : usersL ([LblC.start .live, .start .expired, .shutdown .cancelled, .shutdown .expired].map LblC.erase) = 0 := by decide


/-! # Round 2 (second session): the model against the definitions regenerated from /repo, construction, total memory, factory -/
section Src
open OtelVerif.Gen

/-! ## the model equals the definitions regenerated from the Go source -/

/-- `validate` is the regenerated `Config.Validate`: same acceptance, same error variable -/
theorem C18_src_validate (c : Config) :
    (MemLimiter.Config.Validate c.toGo = 0 ↔ validate c = 0) ∧
    srcErrName (MemLimiter.Config.Validate c.toGo) = validateErrName (validate c) := by
  unfold MemLimiter.Config.Validate validate Config.toGo
  simp only [Bool.and_eq_true, Bool.or_eq_true, decide_eq_true_eq]
  repeat' split
  all_goals simp_all [srcErrName, validateErrName, MemLimiter.errNames]

theorem src_aboveSoft (k : Checker) (a : Nat) : MemLimiter.memUsageChecker.aboveSoftLimit k.toGo a = k.aboveSoft a := by
  simp only [MemLimiter.memUsageChecker.aboveSoftLimit, Checker.aboveSoft, Checker.toGo, MemLimiter.u64sub, wsub, MemLimiter.W, W]
  exact decide_eq_decide.mpr Iff.rfl

theorem src_aboveHard (k : Checker) (a : Nat) : MemLimiter.memUsageChecker.aboveHardLimit k.toGo a = k.aboveHard a := by
  simp [MemLimiter.memUsageChecker.aboveHardLimit, Checker.aboveHard, Checker.toGo]

/-- the two comparisons are the regenerated `aboveSoftLimit` / `aboveHardLimit` (with the `uint64` subtraction) -/
theorem C18_src_above (k : Checker) (a : Nat) :
    MemLimiter.memUsageChecker.aboveSoftLimit k.toGo a = k.aboveSoft a ∧ MemLimiter.memUsageChecker.aboveHardLimit k.toGo a = k.aboveHard a :=
  ⟨src_aboveSoft k a, src_aboveHard k a⟩

theorem src_newFixed (l s : Nat) : MemLimiter.newFixedMemUsageChecker l s = (newFixed l s).toGo := by
  unfold MemLimiter.newFixedMemUsageChecker newFixed
  by_cases h : s = 0 <;> simp [h, Checker.toGo, MemLimiter.u64div]

theorem mkChecker_eq_G (c : Config) (total : Nat) : mkChecker c total = mkCheckerG newPct c total := rfl

/-- `getMemUsageChecker` (fixed wins over percentage; spike 0 → 20 %; the `GetMemoryFn` error) is the regenerated one, whatever
the source's percentage formula is (`srcPct` = the regenerated `newPercentageMemUsageChecker`) -/
theorem C18_src_checker (c : Config) (mem : Option Nat) :
    MemLimiter.getMemUsageChecker c.toGo mem = (mkCheckerGE srcPct c mem).map Checker.toGo := by
  unfold MemLimiter.getMemUsageChecker mkCheckerGE mkCheckerG
  by_cases h : c.limitMiB = 0
  · cases mem <;> simp [h, Config.toGo, srcPct, Checker.ofGo, Checker.toGo]
  · simp [h, Config.toGo, src_newFixed, MemLimiter.u64mul, wmul, MemLimiter.W, W, MemLimiter.mibBytes, mib]

set_option linter.unusedSimpArgs false in
/-- **which percentage formula the source has**: either the unrepaired `pct*total/100` with the product in `uint64`
(`newPct`), or the repaired `percentOf` (`newPctSafe`); the proof picks whichever the regenerated definition is -/
theorem C18_src_percentage_formula : SrcPctPinned ∨ SrcPctSafe := by
  first
  | (refine Or.inl ?_
     intro T pl ps
     simp [srcPct, Checker.ofGo, MemLimiter.newPercentageMemUsageChecker, newPct, src_newFixed, Checker.toGo,
        MemLimiter.u64mul, MemLimiter.u64div, wmul, MemLimiter.W, W]
     done)
  | (refine Or.inr ?_
     intro T pl ps
     simp [srcPct, Checker.ofGo, MemLimiter.newPercentageMemUsageChecker, MemLimiter.percentOf, newPctSafe, pctOf, src_newFixed, Checker.toGo,
        MemLimiter.u64mul, MemLimiter.u64div, MemLimiter.u64mod, MemLimiter.u64add, wmul, MemLimiter.W, W]
     done)

/-- **`check` is the regenerated `CheckMemLimits`** (compiled statement by statement from memorylimiter.go, `doGCandReadMemStats`
included): run in the world where the clock shows `r.now`, the next readings are `r.alloc`, `r.allocAfterGC` and a GC takes
`r.gcDur`, it leaves `mustRefuse` / `lastGCDone` as the model says, calls `runGCFn` exactly when the model says a GC ran and
reads memory once, or twice when a GC ran -/
theorem C18_src_check (k : Checker) (gs gh : Int) (s : LState) (r : Reading) (rest : List Nat) :
    let w' := MemLimiter.MemoryLimiter.CheckMemLimits ⟨k.toGo, gs, gh⟩ (worldOf s r rest)
    let o := check k gs gh s r
    w'.mustRefuse = o.st.mustRefuse ∧ w'.lastGCDone = o.st.lastGC ∧
    w'.gcCalls = (if o.gcRan then 1 else 0) ∧ w'.readCalls = (if o.gcRan then 2 else 1) ∧
    w'.reads = (if o.gcRan then rest else r.allocAfterGC :: rest) := by
  simp only [MemLimiter.MemoryLimiter.CheckMemLimits, MemLimiter.MemoryLimiter.doGCandReadMemStats, MemLimiter.readMemStats,
    MemLimiter.runGC, worldOf, check, src_aboveSoft, src_aboveHard, List.headD_cons, List.tail_cons]
  cases hs : k.aboveSoft r.alloc <;> cases hh : k.aboveHard r.alloc <;> simp
  all_goals split <;> simp_all


theorem mkCheckerG_fixed_total (pct : Nat → Nat → Nat → Checker) (c : Config) (h : c.limitMiB ≠ 0) (t t' : Nat) :
    mkCheckerG pct c t = mkCheckerG pct c t' := by
  simp [mkCheckerG, h]

theorem mkCheckerGE_some (pct : Nat → Nat → Nat → Checker) (c : Config) (total : Nat) :
    mkCheckerGE pct c (some total) = some (mkCheckerG pct c total) := by
  unfold mkCheckerGE
  by_cases h : c.limitMiB ≠ 0
  · simp [h, mkCheckerG_fixed_total pct c h 0 total]
  · simp [h]

theorem mkCheckerE_some (c : Config) (total : Nat) : mkCheckerE c (some total) = some (mkChecker c total) :=
  mkCheckerGE_some newPct c total

/-- `NewMemoryLimiter` fails exactly when the percentage path is taken and the total memory cannot be determined; a
fixed `limit_mib` never consults `GetMemoryFn` (for either percentage formula) -/
theorem C18_newLimiter_error_iff (pct : Nat → Nat → Nat → Checker) (c : Config) (mem : Option Nat) (now : Int) :
    newLimiterG pct c mem now = none ↔ (c.limitMiB = 0 ∧ mem = none) := by
  unfold newLimiterG mkCheckerGE
  by_cases h : c.limitMiB = 0 <;> cases mem <;> simp [h]

/-- what a successful construction yields: the checker, the configured intervals, mode "accepting",
`lastGCDone` = the instant of construction (so the first forced GC waits for the minimum interval) -/
theorem C18_newLimiter_ok (pct : Nat → Nat → Nat → Checker) (c : Config) (total : Nat) (now : Int) :
    newLimiterG pct c (some total) now =
      some { k := mkCheckerG pct c total, gcSoft := c.gcSoft, gcHard := c.gcHard, checkInterval := c.checkInterval,
             st := { mustRefuse := false, lastGC := now } } := by
  simp [newLimiterG, mkCheckerGE_some]

/-! ### the repaired percentage computation never overflows -/

theorem pctOf_eq (total p : Nat) (hp : p ≤ 100) (ht : total < W) :
    pctOf total p = p * (total / 100) + p * (total % 100) / 100 ∧ pctOf total p ≤ total := by
  have h1 : p * (total / 100) ≤ 100 * (total / 100) := Nat.mul_le_mul_right _ hp
  have h2 : p * (total % 100) ≤ 100 * (total % 100) := Nat.mul_le_mul_right _ hp
  have h3 : p * (total % 100) / 100 ≤ total % 100 := by
    rw [Nat.div_le_iff_le_mul_add_pred (by decide)]; omega
  have h4 : 100 * (total / 100) + total % 100 = total := Nat.div_add_mod total 100
  have hW : W = 18446744073709551616 := rfl
  have a1 : p * (total / 100) < W := by omega
  have a2 : p * (total % 100) < W := by omega
  unfold pctOf wmul
  rw [Nat.mod_eq_of_lt a1, Nat.mod_eq_of_lt a2, Nat.mod_eq_of_lt (by omega)]
  exact ⟨rfl, by omega⟩

theorem pctOf_mono (total p q : Nat) (hpq : p ≤ q) (hq : q ≤ 100) (ht : total < W) : pctOf total p ≤ pctOf total q := by
  rw [(pctOf_eq total p (by omega) ht).1, (pctOf_eq total q hq ht).1]
  exact Nat.add_le_add (Nat.mul_le_mul_right _ hpq) (Nat.div_le_div_right (Nat.mul_le_mul_right _ hpq))

/-- **no underflow, repaired code, EVERY total**: with `percentOf` the hypothesis `total < 2^57` is gone — for every accepted
configuration and every `uint64` total memory the spike limit never exceeds the limit -/
theorem C18_no_underflow_repaired (c : Config) (total : Nat) (hv : validate c = 0) (hwf : c.wf) (ht : total < W) :
    (mkCheckerSafe c total).spike ≤ (mkCheckerSafe c total).limit ∧ (mkCheckerSafe c total).limit < W := by
  have hvo := validate_ok hv
  by_cases hl : c.limitMiB = 0
  · have hp : c.limitPct ≠ 0 := by
      rcases hvo.2.2.1 with h | h
      · exact absurd hl h
      · exact h
    have hsp := hvo.2.2.2.2.2.2 (Nat.pos_of_ne_zero hp)
    have hl100 := hvo.2.2.2.1
    have hm := pctOf_mono total c.spikePct c.limitPct (Nat.le_of_lt hsp) hl100 ht
    have hle := (pctOf_eq total c.limitPct hl100 ht).2
    have e : mkCheckerSafe c total = newFixed (pctOf total c.limitPct) (pctOf total c.spikePct) := by
      simp [mkCheckerSafe, mkCheckerG, hl, newPctSafe]
    rw [e]
    refine ⟨newFixed_le _ _ hm, ?_⟩
    have : (newFixed (pctOf total c.limitPct) (pctOf total c.spikePct)).limit = pctOf total c.limitPct := by
      unfold newFixed; split <;> rfl
    rw [this]; omega
  · have h0 := C18_no_underflow c total hv hwf
    have e : mkCheckerSafe c total = mkChecker c 0 := by
      simp [mkCheckerSafe, mkCheckerG, mkChecker, hl]
    rw [e]
    exact C18_no_underflow c 0 hv hwf (by decide)

/-- the decision of `TotalMemory` is the regenerated one -/
theorem C18_src_total_memory (q : Quota) (mi : Option Nat) : MemLimiter.TotalMemory q mi = totalMemory q mi := by
  unfold MemLimiter.TotalMemory totalMemory
  rcases q with _ | ⟨quota, d⟩
  · rfl
  · cases d <;> simp [MemLimiter.unlimitedMemorySize, MemLimiter.W]
    by_cases h : quota = 9223372036854771712 <;> simp [h]

/-- `TotalMemory` by cases: an error of a cgroup read is an error; a defined quota other than the v1 "unlimited" value is
the total (for a non-negative quota: itself); an undefined or "unlimited" quota falls back to `/proc/meminfo` -/
theorem C18_total_memory_cases (mi : Option Nat) :
    totalMemory none mi = none ∧
    (∀ quota : Int, quota ≠ 9223372036854771712 → 0 ≤ quota → quota < 18446744073709551616 → totalMemory (some (quota, true)) mi = some quota.toNat) ∧
    (∀ quota : Int, totalMemory (some (quota, false)) mi = mi) ∧
    (∀ d : Bool, totalMemory (some (9223372036854771712, d)) mi = mi) := by
  refine ⟨rfl, ?_, ?_, ?_⟩
  · intro quota h1 h2 h3
    simp only [totalMemory, h1, false_or, Bool.true_eq_false, if_false]
    rw [Int.emod_eq_of_lt h2 h3]
  · intro quota; simp [totalMemory]
  · intro d; simp [totalMemory]

/-- the default configuration (regenerated `NewDefaultConfig`) is rejected by `Validate` — "the default configuration is
expected to fail" — because no check interval is set; its soft-limited GC interval is 10 s -/
theorem C18_default_config_rejected :
    validate (Config.ofGo MemLimiter.NewDefaultConfig) = 1 ∧ (Config.ofGo MemLimiter.NewDefaultConfig).gcSoft = 10000000000 := by
  decide

/-- **the first clause on the regenerated code itself**: for every configuration the regenerated `Validate` accepts
(`uint32` fields), the checker the regenerated `getMemUsageChecker` builds never underflows and one run of the regenerated
`CheckMemLimits` leaves `mustRefuse` ⇔ the latest measurement (the second reading exactly when `runGCFn` was called) ≥
limit − spike.  Total memory: below 2^57 if the source still has the unrepaired percentage formula; ANY `uint64` value if it
has the repaired one (`C18_src_percentage_formula` says which) -/
theorem C18_source_first_clause (g : MemLimiter.Config) (hv : MemLimiter.Config.Validate g = 0) (hwf : (Config.ofGo g).wf)
    (total : Nat) (ht : (total < 2 ^ 57 ∧ SrcPctPinned) ∨ (total < W ∧ SrcPctSafe)) (kk : MemLimiter.memUsageChecker)
    (hk : MemLimiter.getMemUsageChecker g (some total) = some kk) (s : LState) (r : Reading) (rest : List Nat) :
    let w' := MemLimiter.MemoryLimiter.CheckMemLimits ⟨kk, g.MinGCIntervalWhenSoftLimited, g.MinGCIntervalWhenHardLimited⟩ (worldOf s r rest)
    kk.memSpikeLimit ≤ kk.memAllocLimit ∧
    (w'.mustRefuse = true ↔ (if w'.gcCalls = 1 then r.allocAfterGC else r.alloc) ≥ kk.memAllocLimit - kk.memSpikeLimit) := by
  have hg : (Config.ofGo g).toGo = g := rfl
  have hv' : validate (Config.ofGo g) = 0 := (C18_src_validate (Config.ofGo g)).1.mp (by rw [hg]; exact hv)
  have hk' := C18_src_checker (Config.ofGo g) (some total)
  rw [hg, hk, mkCheckerGE_some] at hk'
  -- the checker of the source, and the fact that it does not underflow
  obtain ⟨k, hkk, hu⟩ : ∃ k : Checker, kk = k.toGo ∧ k.spike ≤ k.limit ∧ k.limit < W := by
    refine ⟨mkCheckerG srcPct (Config.ofGo g) total, by simpa using hk', ?_⟩
    rcases ht with ⟨ht, hp⟩ | ⟨ht, hp⟩
    · have : mkCheckerG srcPct (Config.ofGo g) total = mkChecker (Config.ofGo g) total := by
        simp only [mkCheckerG, mkChecker]
        split
        · rfl
        · exact hp _ _ _
      rw [this]; exact C18_no_underflow _ total hv' hwf ht
    · have : mkCheckerG srcPct (Config.ofGo g) total = mkCheckerSafe (Config.ofGo g) total := by
        simp only [mkCheckerG, mkCheckerSafe]
        split
        · rfl
        · exact hp _ _ _
      rw [this]; exact C18_no_underflow_repaired _ total hv' hwf ht
  have hc := C18_src_check k g.MinGCIntervalWhenSoftLimited g.MinGCIntervalWhenHardLimited s r rest
  have hr := C18_refuse_iff k hu.1 hu.2 g.MinGCIntervalWhenSoftLimited g.MinGCIntervalWhenHardLimited s r
  have hl := C18_latest k g.MinGCIntervalWhenSoftLimited g.MinGCIntervalWhenHardLimited s r
  subst hkk
  simp only [] at hc ⊢
  refine ⟨hu.1, ?_⟩
  rw [hc.1, hc.2.2.1, hr, hl]
  cases (check k g.MinGCIntervalWhenSoftLimited g.MinGCIntervalWhenHardLimited s r).gcRan <;> simp [Checker.toGo]

/-- **the source has the repaired percentage formula** (`percentOf`; fix "memory limiter computes percentage limits without
overflowing uint64", in /repo): this theorem stops building on a tree that still multiplies `percentage*totalMemory` in `uint64` -/
theorem C18_src_percentage_repaired : SrcPctSafe := by
  intro T pl ps
  simp [srcPct, Checker.ofGo, MemLimiter.newPercentageMemUsageChecker, MemLimiter.percentOf, newPctSafe, pctOf, src_newFixed, Checker.toGo,
    MemLimiter.u64mul, MemLimiter.u64div, MemLimiter.u64mod, MemLimiter.u64add, wmul, MemLimiter.W, W]

/-- hence the first clause holds on the regenerated code for EVERY `uint64` total memory — the hypothesis `total < 2^57` of
round 1 is discharged by the repair -/
theorem C18_source_first_clause_all_totals (g : MemLimiter.Config) (hv : MemLimiter.Config.Validate g = 0) (hwf : (Config.ofGo g).wf)
    (total : Nat) (ht : total < W) (kk : MemLimiter.memUsageChecker)
    (hk : MemLimiter.getMemUsageChecker g (some total) = some kk) (s : LState) (r : Reading) (rest : List Nat) :
    let w' := MemLimiter.MemoryLimiter.CheckMemLimits ⟨kk, g.MinGCIntervalWhenSoftLimited, g.MinGCIntervalWhenHardLimited⟩ (worldOf s r rest)
    kk.memSpikeLimit ≤ kk.memAllocLimit ∧
    (w'.mustRefuse = true ↔ (if w'.gcCalls = 1 then r.allocAfterGC else r.alloc) ≥ kk.memAllocLimit - kk.memSpikeLimit) :=
  C18_source_first_clause g hv hwf total (Or.inr ⟨ht, C18_src_percentage_repaired⟩) kk hk s r rest

/-- the unrepaired formula violates "no underflow": an accepted configuration (50 % / 10 %) on a machine whose total memory
reads 0x7FFFFFFFFFFF0000 (the cgroup-v1 "unlimited" value of kernels with 64 KiB pages) gets a spike limit ABOVE the limit
(replayed on the real code: `construct` corpus case 1 against a tree without the repair) -/
theorem C18_no_underflow_pinned_full_fails :
    ¬ (∀ (c : Config) (total : Nat), validate c = 0 → c.wf → total < W → (mkChecker c total).spike ≤ (mkChecker c total).limit) := by
  intro h
  have := h ⟨1000000000, 10000000000, 0, 0, 0, 50, 10⟩ 9223372036854710272 (by decide) (by unfold Config.wf; decide) (by decide)
  revert this
  decide

/-- … and the repaired one gives, for the same machine, limit 50 % and spike 10 % of the total -/
example : mkCheckerSafe ⟨1000000000, 10000000000, 0, 0, 0, 50, 10⟩ 9223372036854710272 = ⟨4611686018427355136, 922337203685471027⟩ := by decide

example : MemLimiter.Config.Validate ⟨1000000000, 10000000000, 0, 100, 20, 0, 0⟩ = 0 ∧
    MemLimiter.getMemUsageChecker ⟨1000000000, 10000000000, 0, 100, 20, 0, 0⟩ (some 0) = some ⟨104857600, 20971520⟩ := by decide

/-! ## the factory's cache -/

def Factory.wf (f : Factory) : Prop := ∀ n (h : n < f.cache.length), (f.cache[n]).2 = n

theorem Factory.lookup_new (f : Factory) (k : Nat) (h : f.lookup k = none) :
    ({ cache := f.cache ++ [(k, f.cache.length)] } : Factory).lookup k = some f.cache.length := by
  unfold Factory.lookup at h ⊢
  have h' : f.cache.find? (·.1 = k) = none := by
    cases hh : f.cache.find? (·.1 = k) <;> simp_all
  simp [List.find?_append, h']

/-- **one limiter per configuration key**: once a processor has been created for a key, every later creation for the same
key gets the very same limiter and leaves the cache unchanged (whether or not a fresh construction would succeed) -/
theorem C18_factory_same_key_shares (f : Factory) (k id : Nat) (ok ok' : Bool) (h : (f.get k ok).2 = some id) :
    (f.get k ok).1.get k ok' = ((f.get k ok).1, some id) := by
  unfold Factory.get at h ⊢
  cases hl : f.lookup k with
  | some i => simp_all
  | none =>
    cases ok
    · simp [hl] at h
    · simp only [hl, if_true] at h ⊢
      rw [Factory.lookup_new f k hl]
      simp_all

/-- a failed construction caches nothing: the next creation for the key tries again -/
theorem C18_factory_failure_not_cached (f : Factory) (k : Nat) (h : f.lookup k = none) :
    f.get k false = (f, none) := by
  simp [Factory.get, h]

theorem Factory.wf_get (f : Factory) (hwf : f.wf) (k : Nat) (ok : Bool) : (f.get k ok).1.wf := by
  unfold Factory.get
  cases hl : f.lookup k with
  | some i => exact hwf
  | none =>
    cases ok
    · exact hwf
    · intro n hn
      simp only [if_true] at hn ⊢
      by_cases hlt : n < f.cache.length
      · rw [List.getElem_append_left hlt]; exact hwf n hlt
      · have : n = f.cache.length := by simp at hn; omega
        subst this
        simp

theorem Factory.lookup_mem (f : Factory) (k i : Nat) (h : f.lookup k = some i) : (k, i) ∈ f.cache := by
  unfold Factory.lookup at h
  cases hh : f.cache.find? (·.1 = k) with
  | none => simp [hh] at h
  | some p =>
    simp [hh] at h
    have hm := List.mem_of_find?_eq_some hh
    have hp := List.find?_some hh
    simp at hp
    have : p = (k, i) := by cases p; simp_all
    exact this ▸ hm

/-- **different keys, different limiters** (even when the two configurations have equal values: the key is the pointer):
in a cache built by `get`, two keys that both have a limiter have different ones -/
theorem C18_factory_distinct_keys_distinct_limiters (f : Factory) (hwf : f.wf) (k k' i j : Nat)
    (h1 : f.lookup k = some i) (h2 : f.lookup k' = some j) (hne : k ≠ k') : i ≠ j := by
  intro hij
  subst hij
  obtain ⟨n, hn, en⟩ := List.getElem_of_mem (f.lookup_mem k i h1)
  obtain ⟨m, hm, em⟩ := List.getElem_of_mem (f.lookup_mem k' i h2)
  have a := hwf n hn
  have b := hwf m hm
  rw [en] at a
  rw [em] at b
  simp at a b
  subst a
  subst b
  rw [en] at em
  simp at em
  exact hne em

example : Factory.creates {} [(7, true), (8, true), (7, true), (9, false), (9, true), (8, false)] =
    [some 0, some 1, some 0, none, some 2, some 1] := by decide
example : ({} : Factory).wf := by intro n h; simp at h


/-- the counters of `processML` (profiles are counted nowhere) are what the regenerated tables say: each `process*` function
hands its own signal to `obsrep.refused` / `obsrep.accepted`, and `obsReport` has instruments for traces, metrics and
logs only -/
theorem C18_src_process_counts {α : Type} (sig : Sig) (refusing : Bool) (n : Nat) (payload : α) :
    (processML sig refusing n payload).2.2 = countsFromTables sig refusing n ∧
    (processML sig refusing n payload).1 = payload ∧
    ((processML sig refusing n payload).2.1 = some .dataRefused ↔ refusing = true) := by
  cases sig <;> cases refusing <;> simp [processML, countsFromTables, Sig.processFn, MemLimiter.processTable, MemLimiter.obs_refused, MemLimiter.obs_accepted]

/-- every `process*` function takes its item count from the payload it was given (regenerated table: all four rows name a
count method) and there is exactly one row per signal -/
theorem C18_src_process_table_complete :
    MemLimiter.processTable.map (·.1) = [Sig.logs, .traces, .metrics, .profiles].map Sig.processFn ∧
    MemLimiter.processTable.all (fun r => r.2.1 != "" && r.2.2.1 == r.2.2.2) = true := by decide

theorem totalMemory_lt (q : Quota) (mi : Option Nat) (hmi : ∀ m, mi = some m → m < W) (total : Nat)
    (h : totalMemory q mi = some total) : total < W := by
  unfold totalMemory at h
  rcases q with _ | ⟨quota, d⟩
  · simp at h
  · simp only at h
    split at h
    · exact hmi total h
    · simp at h
      have h1 : (0 : Int) ≤ quota % 18446744073709551616 := Int.emod_nonneg _ (by decide)
      have h2 : quota % 18446744073709551616 < 18446744073709551616 := Int.emod_lt_of_pos _ (by decide)
      unfold W
      omega

/-- **from the machine to the mode, end to end** (repaired percentage formula): for every accepted configuration and EVERY state
of the host — whatever the cgroup reads and `/proc/meminfo` return (`uint64` values) — either `NewMemoryLimiter` fails, which
happens exactly on the percentage path when the total memory cannot be determined, or the limiter it builds has
`spike ≤ limit` (no wrap-around of the soft limit) and after every check of every history refuses iff the latest measurement
≥ limit − spike -/
theorem C18_host_first_clause (c : Config) (hv : validate c = 0) (hwf : c.wf) (q : Quota) (mi : Option Nat)
    (hmi : ∀ m, mi = some m → m < W) (now : Int) :
    (newLimiterG newPctSafe c (totalMemory q mi) now = none ↔ (c.limitMiB = 0 ∧ totalMemory q mi = none)) ∧
    ∀ l, newLimiterG newPctSafe c (totalMemory q mi) now = some l →
      l.k.spike ≤ l.k.limit ∧ l.gcSoft = c.gcSoft ∧ l.gcHard = c.gcHard ∧ l.st.mustRefuse = false ∧
      ∀ (s : LState) (r : Reading),
        ((check l.k l.gcSoft l.gcHard s r).st.mustRefuse = true ↔ (check l.k l.gcSoft l.gcHard s r).latest ≥ l.k.limit - l.k.spike) := by
  refine ⟨C18_newLimiter_error_iff newPctSafe c _ now, ?_⟩
  intro l hl
  cases ht : totalMemory q mi with
  | none =>
    -- only the fixed path can succeed without a total
    rw [ht] at hl
    have hfix : c.limitMiB ≠ 0 := by
      intro h0
      have := (C18_newLimiter_error_iff newPctSafe c none now).2 ⟨h0, rfl⟩
      rw [this] at hl; cases hl
    have e : newLimiterG newPctSafe c none now = newLimiterG newPctSafe c (some 0) now := by
      simp [newLimiterG, mkCheckerGE, hfix]
    rw [e, C18_newLimiter_ok] at hl
    cases hl
    have hu := C18_no_underflow_repaired c 0 hv hwf (by decide)
    exact ⟨hu.1, rfl, rfl, rfl, fun s r => C18_refuse_iff _ hu.1 hu.2 _ _ s r⟩
  | some total =>
    rw [ht, C18_newLimiter_ok] at hl
    cases hl
    have hu := C18_no_underflow_repaired c total hv hwf (totalMemory_lt q mi hmi total ht)
    exact ⟨hu.1, rfl, rfl, rfl, fun s r => C18_refuse_iff _ hu.1 hu.2 _ _ s r⟩

/-- non-vacuity: 50 % / 10 % on a cgroup-v1 host whose quota reads 0x7FFFFFFFFFFF0000 (64 KiB pages; not recognised as "unlimited") -/
example : (newLimiterG newPctSafe ⟨1000000000, 10000000000, 0, 0, 0, 50, 10⟩ (totalMemory (some (9223372036854710272, true)) (some 67609161728)) 0).map (·.k) =
    some ⟨4611686018427355136, 922337203685471027⟩ := by decide


theorem parseDigits_range (neg : Bool) (ds : List Char) (n : Int) (h : parseDigits neg ds = some n) :
    -9223372036854775808 ≤ n ∧ n < 9223372036854775808 := by
  unfold parseDigits at h
  by_cases h1 : (ds.isEmpty || !ds.all Char.isDigit) = true
  · simp [h1] at h
  · simp only [h1] at h
    cases neg
    · by_cases h2 : digitsVal ds < 9223372036854775808
      · simp [h2] at h; omega
      · simp [h2] at h
    · by_cases h2 : digitsVal ds ≤ 9223372036854775808
      · simp [h2] at h; omega
      · simp [h2] at h

theorem parseInt64_range (s : List Char) (n : Int) (h : parseInt64 s = some n) : -9223372036854775808 ≤ n ∧ n < 9223372036854775808 := by
  unfold parseInt64 at h
  split at h <;> exact parseDigits_range _ _ n h

/-- **cgroup v2 → total memory**: whatever `memory.max` holds, `memoryQuotaV2` followed by `TotalMemory`'s decision gives: an
error for an unreadable / empty / non-numeric / out-of-range file; `/proc/meminfo` when the file is absent, says `max` or
holds the "unlimited" value; otherwise the number in the file (a non-negative `int64`, so below 2^63 — far inside `uint64`) -/
theorem C18_cgroup_v2_total (f : V2File) (mi : Option Nat) :
    (memoryQuotaV2 f = none → totalMemory (memoryQuotaV2 f) mi = none) ∧
    (∀ q, memoryQuotaV2 f = some (q, false) → totalMemory (memoryQuotaV2 f) mi = mi) ∧
    (∀ q, memoryQuotaV2 f = some (q, true) → q ≠ 9223372036854771712 → 0 ≤ q →
        totalMemory (memoryQuotaV2 f) mi = some q.toNat ∧ q.toNat < 9223372036854775808) := by
  refine ⟨fun h => by rw [h]; rfl, fun q h => by rw [h]; simp [totalMemory], fun q h hne h0 => ?_⟩
  have hr : q < 9223372036854775808 := by
    cases f with
    | absent => simp [memoryQuotaV2] at h
    | unreadable => simp [memoryQuotaV2] at h
    | content s =>
      simp only [memoryQuotaV2] at h
      split at h
      · cases h
      · split at h
        · simp at h
        · cases hp : parseInt64 (trimSpace ‹List Char›) with
          | none => simp [hp] at h
          | some n =>
            simp [hp] at h
            have := parseInt64_range _ n hp
            omega
  rw [h]
  have hm : q % 18446744073709551616 = q := Int.emod_eq_of_lt h0 (by omega)
  simp only [totalMemory, hne, false_or, Bool.true_eq_false, if_false, hm]
  exact ⟨trivial, by omega⟩

example : memoryQuotaV2 (.content "max\n".toList) = some (-1, false) ∧ memoryQuotaV2 (.content " 1073741824 \n".toList) = some (1073741824, true) ∧
    memoryQuotaV2 (.content "".toList) = none ∧ memoryQuotaV2 (.content "12a\n".toList) = none ∧
    memoryQuotaV2 (.content "9223372036854775808\n".toList) = none ∧ memoryQuotaV2 (.content "123\r\n456".toList) = some (123, true) ∧
    memoryQuotaV2 .absent = some (-1, false) := by decide


/-- **cgroup v1 → total memory**: `CGroups.MemoryQuota` + `TotalMemory`'s decision give an error when `memory.limit_in_bytes`
cannot be read or is not a decimal `int64`; `/proc/meminfo` when the process has no memory cgroup, the value is ≤ 0 or the
"unlimited" one; otherwise the positive number in the file (< 2^63) -/
theorem C18_cgroup_v1_total (f : Option V2File) (mi : Option Nat) :
    (memoryQuotaV1 f = none → totalMemory (memoryQuotaV1 f) mi = none) ∧
    (∀ q, memoryQuotaV1 f = some (q, false) → totalMemory (memoryQuotaV1 f) mi = mi) ∧
    (∀ q, memoryQuotaV1 f = some (q, true) → q ≠ 9223372036854771712 →
        0 < q ∧ totalMemory (memoryQuotaV1 f) mi = some q.toNat ∧ q.toNat < 9223372036854775808) := by
  refine ⟨fun h => by rw [h]; rfl, fun q h => by rw [h]; simp [totalMemory], fun q h hne => ?_⟩
  have hr : 0 < q ∧ q < 9223372036854775808 := by
    rcases f with _ | f
    · simp [memoryQuotaV1] at h
    · cases f with
      | absent => simp [memoryQuotaV1] at h
      | unreadable => simp [memoryQuotaV1] at h
      | content s =>
        simp only [memoryQuotaV1] at h
        split at h
        · cases h
        · split at h
          · cases h
          · rename_i n hp
            have := parseInt64_range _ n hp
            split at h
            · simp at h; omega
            · simp at h
  rw [h]
  have hm : q % 18446744073709551616 = q := Int.emod_eq_of_lt (by omega) (by omega)
  simp only [totalMemory, hne, false_or, Bool.true_eq_false, if_false, hm]
  exact ⟨hr.1, trivial, by omega⟩

example : memoryQuotaV1 none = some (-1, false) ∧ memoryQuotaV1 (some (.content "-1\n".toList)) = some (-1, false) ∧
    memoryQuotaV1 (some (.content " 42\n".toList)) = none ∧ memoryQuotaV1 (some (.content "42\n".toList)) = some (42, true) ∧
    memoryQuotaV1 (some .absent) = none := by decide


/-- **source pins**: the regenerated statement lists of the functions that are modelled by hand (outside the compiled subset)
are exactly the ones the model was written from — an edit of any of them stops the build until the model has been re-examined -/
theorem C18_src_skeletons : SrcPinned := by
  unfold SrcPinned
  repeat' apply And.intro
  all_goals rfl

end Src

end OtelVerif.C18
