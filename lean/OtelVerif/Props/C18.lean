import OtelVerif.Model.C18
/-! C18 property theorems (stub) -/
namespace OtelVerif.C18
end OtelVerif.C18
