import OtelVerif.Model.C19
/-! C19 property theorems (stub) -/
namespace OtelVerif.C19
end OtelVerif.C19
