import OtelVerif.Model.C19
import OtelVerif.Model.C19Obs
import OtelVerif.Model.C19Exp
import OtelVerif.Props.C03
import OtelVerif.Lemmas.C19Exp
import OtelVerif.Lemmas.C03ReplaySound
/-!
# C19 — self-telemetry item counters balance with what actually happened

Receiver, scraper and processor clauses (the exporter clause is appended at the end of the namespace).
`Gen.ScrapeSignal` is regenerated from `scraper/scraperhelper/controller.go` and
`receiver/receiverhelper/obsreport.go` on every run, so `C19_scraper_logs`, `C19_scraper_metrics`,
`C19_recordMetrics_table` and `C19_endOp_signals` are re-checked against what the code says now.
-/
namespace OtelVerif.C19
open OtelVerif.Gen

/-! ## ties over the regenerated data -/

/-- every case of the `recordMetrics` switch selects the accepted and the refused instrument of its own
signal, and every signal has a case -/
theorem C19_recordMetrics_table :
    (∀ r ∈ ScrapeSignal.recordTable, r.2.1 = r.1 ∧ r.2.2 = r.1) ∧
    (∀ s ∈ Signal.all, s.code ∈ ScrapeSignal.recordTable.map (·.1)) := by decide

/-- `End<X>Op` hands `pipeline.Signal<X>` to `endOp` -/
theorem C19_endOp_signals : ∀ s ∈ Signal.all, ScrapeSignal.endOpSignal.lookup s.code = some s.code := by decide

/-- the codes emitted for the scrape functions denote signals (the fallback of `Ctrl.used` is never taken) -/
theorem C19_scrape_codes_valid : ∀ k ∈ [Ctrl.metrics, Ctrl.logs], (Signal.ofCode? k.usedCode).isSome = true := by decide

/-! ## receiver -/

theorem add_same (f : Signal → Nat) (s : Signal) (n : Nat) : add f s n s = f s + n := by simp [add]

theorem add_other (f : Signal → Nat) (s t : Signal) (n : Nat) (h : t ≠ s) : add f s n t = f t := by simp [add, h]

/-- **per operation, at any point of any history** (`c` = counters so far): the offered items go to
accepted when the downstream result is success and to refused when it is an error, under the
operation's own signal, and the counters of the other signals do not move -/
theorem C19_receiver_op (c : Recv) (op : RecvOp) : RecvStepOK c (c.endOp op) op := by
  refine ⟨?_, ?_, ?_⟩
  · intro h; simp [Recv.endOp, add, numAccepted, numRefused, h]
  · intro h; simp [Recv.endOp, add, numAccepted, numRefused, h]
  · intro t ht; simp [Recv.endOp, add, ht]

/-- which of the two moved tells the downstream result (for a non-empty payload; with `n = 0` neither moves) -/
theorem C19_receiver_op_iff (c : Recv) (op : RecvOp) (hn : 0 < op.n) :
    (op.err = false ↔ ((c.endOp op).refused op.sig = c.refused op.sig ∧ (c.endOp op).accepted op.sig = c.accepted op.sig + op.n)) ∧
    (op.err = true ↔ ((c.endOp op).accepted op.sig = c.accepted op.sig ∧ (c.endOp op).refused op.sig = c.refused op.sig + op.n)) := by
  cases h : op.err <;> simp [Recv.endOp, add, numAccepted, numRefused, h] <;> omega

/-- the hypothesis `0 < op.n` is needed: a failed operation that offered nothing moves neither counter, so
"refused unchanged and accepted grown by n" holds for it as well -/
example : let c : Recv := {}; let op : RecvOp := ⟨.logs, 0, true⟩
    (c.endOp op).refused op.sig = c.refused op.sig ∧ (c.endOp op).accepted op.sig = c.accepted op.sig + op.n := by decide

example : let c : Recv := Recv.run {} [⟨.metrics, 4, false⟩]; let op : RecvOp := ⟨.metrics, 3, true⟩
    0 < op.n ∧ (c.endOp op).accepted .metrics = 4 ∧ (c.endOp op).refused .metrics = 3 := by decide

theorem Recv.run_cons (c : Recv) (op : RecvOp) (ops : List RecvOp) : c.run (op :: ops) = (c.endOp op).run ops := rfl

theorem run_accepted (c : Recv) (ops : List RecvOp) (s : Signal) : (c.run ops).accepted s = c.accepted s + offeredOk s ops := by
  induction ops generalizing c with
  | nil => simp [Recv.run, offeredOk, sumBy]
  | cons op ops ih =>
    rw [Recv.run_cons, ih]
    by_cases h : s = op.sig
    · subst h; simp [Recv.endOp, add, offeredOk, sumBy]; omega
    · have h' : ¬ op.sig = s := fun e => h e.symm
      simp [Recv.endOp, add, offeredOk, sumBy, h, h']

theorem run_refused (c : Recv) (ops : List RecvOp) (s : Signal) : (c.run ops).refused s = c.refused s + offeredErr s ops := by
  induction ops generalizing c with
  | nil => simp [Recv.run, offeredErr, sumBy]
  | cons op ops ih =>
    rw [Recv.run_cons, ih]
    by_cases h : s = op.sig
    · subst h; simp [Recv.endOp, add, offeredErr, sumBy]; omega
    · have h' : ¬ op.sig = s := fun e => h e.symm
      simp [Recv.endOp, add, offeredErr, sumBy, h, h']

theorem offered_split (s : Signal) (ops : List RecvOp) : offeredOk s ops + offeredErr s ops = offered s ops := by
  induction ops with
  | nil => rfl
  | cons op ops ih =>
    have e1 : offeredOk s (op :: ops) = (if op.sig = s then numAccepted op.n op.err else 0) + offeredOk s ops := rfl
    have e2 : offeredErr s (op :: ops) = (if op.sig = s then numRefused op.n op.err else 0) + offeredErr s ops := rfl
    have e3 : offered s (op :: ops) = (if op.sig = s then op.n else 0) + offered s ops := rfl
    rw [e1, e2, e3]
    by_cases h : op.sig = s
    · cases he : op.err <;> simp [h, numAccepted, numRefused] <;> omega
    · simp [h]; omega

/-- **every history of receive operations over all signals**: for each signal, accepted = items offered
by its successful operations, refused = items offered by its failed operations, and so
accepted + refused = items offered to that signal — operations of the other signals contribute nothing -/
theorem C19_receiver (ops : List RecvOp) (s : Signal) :
    (Recv.run {} ops).accepted s = offeredOk s ops ∧
    (Recv.run {} ops).refused s = offeredErr s ops ∧
    (Recv.run {} ops).accepted s + (Recv.run {} ops).refused s = offered s ops := by
  have ha := run_accepted {} ops s
  have hr := run_refused {} ops s
  have hs := offered_split s ops
  simp only [Nat.zero_add] at ha hr
  exact ⟨ha, hr, by omega⟩

/-- every step of every history satisfies the per-operation clause -/
theorem C19_receiver_trace (c : Recv) (ops : List RecvOp) : RecvTraceOK c (c.trace ops) := by
  induction ops generalizing c with
  | nil => trivial
  | cons op ops ih => exact ⟨C19_receiver_op c op, ih _⟩

example : (Recv.run {} [⟨.traces, 5, false⟩, ⟨.logs, 3, true⟩, ⟨.traces, 2, true⟩, ⟨.metrics, 0, false⟩]).accepted .traces = 5 ∧
    (Recv.run {} [⟨.traces, 5, false⟩, ⟨.logs, 3, true⟩, ⟨.traces, 2, true⟩, ⟨.metrics, 0, false⟩]).refused .traces = 2 ∧
    (Recv.run {} [⟨.traces, 5, false⟩, ⟨.logs, 3, true⟩, ⟨.traces, 2, true⟩, ⟨.metrics, 0, false⟩]).refused .logs = 3 ∧
    offered .traces [⟨.traces, 5, false⟩, ⟨.logs, 3, true⟩, ⟨.traces, 2, true⟩, ⟨.metrics, 0, false⟩] = 7 := by decide

/-! ### search oracle on implementation observations -/

theorem recvForeign_none {before after : Recv} {op : RecvOp} (h : recvForeign before after op = none) (t : Signal) (ht : t ≠ op.sig) :
    after.accepted t = before.accepted t ∧ after.refused t = before.refused t := by
  have := List.find?_eq_none.mp h t (Signal.mem_all t)
  simpa [ht] using this

theorem recvStepB_sound {before after : Recv} {op : RecvOp} (h : recvStepB before after op = true) : RecvStepOK before after op := by
  simp only [recvStepB, Bool.and_eq_true, Option.isNone_iff_eq_none] at h
  obtain ⟨hown, hfor⟩ := h
  refine ⟨?_, ?_, fun t ht => recvForeign_none hfor t ht⟩
  · intro he; simpa [recvOwnB, he] using hown
  · intro he; simpa [recvOwnB, he] using hown

/-- whatever observed counter trace `recvCheck` accepts satisfies the per-operation clause at every step -/
theorem C19_recv_check_sound (before : Recv) (tr : List (RecvOp × Recv)) (h : recvCheck before tr = true) : RecvTraceOK before tr := by
  induction tr generalizing before with
  | nil => trivial
  | cons p rest ih =>
    obtain ⟨op, after⟩ := p
    simp only [recvCheck, Bool.and_eq_true] at h
    exact ⟨recvStepB_sound h.1, ih after h.2⟩

def lastSnap (before : Recv) : List (RecvOp × Recv) → Recv
  | [] => before
  | (_, after) :: rest => lastSnap after rest

/-- … and therefore balances: on any observed trace that satisfies the per-operation clause, the final
accepted + refused of every signal is the starting value plus the items offered to that signal -/
theorem C19_recv_trace_balance (before : Recv) (tr : List (RecvOp × Recv)) (h : RecvTraceOK before tr) (s : Signal) :
    (lastSnap before tr).accepted s + (lastSnap before tr).refused s =
      before.accepted s + before.refused s + offered s (tr.map (·.1)) := by
  induction tr generalizing before with
  | nil => simp [lastSnap, offered, sumBy]
  | cons p rest ih =>
    obtain ⟨op, after⟩ := p
    obtain ⟨⟨h1, h2, h3⟩, hrest⟩ := h
    have := ih after hrest
    simp only [lastSnap, List.map_cons, offered, sumBy] at this ⊢
    rw [this]
    by_cases hs : s = op.sig
    · subst hs
      cases he : op.err
      · obtain ⟨a, r⟩ := h1 he; simp; omega
      · obtain ⟨a, r⟩ := h2 he; simp; omega
    · obtain ⟨a, r⟩ := h3 s hs
      have hs' : ¬ op.sig = s := fun e => hs e.symm
      simp [hs']; omega

/-- the oracle is not trivially true: counting refused items as accepted is rejected, so is touching a foreign signal -/
example : recvCheck {} [(⟨.logs, 3, true⟩, { accepted := add (fun _ => 0) .logs 3 })] = false := by decide
example : recvCheck {} [(⟨.logs, 3, false⟩, { accepted := add (fun _ => 0) .metrics 3 })] = false := by decide
example : recvCheck {} (Recv.trace {} [⟨.logs, 3, true⟩, ⟨.traces, 1, false⟩]) = true := by decide

/-! ## scraper controller -/

theorem Scr.run_cons (sig : Signal) (c : Scr) (t : Tick) (ts : List Tick) : Scr.run sig c (t :: ts) = Scr.run sig (c.scrape sig t) ts := rfl

theorem scr_recv (sig : Signal) (c : Scr) (ts : List Tick) : (Scr.run sig c ts).recv = c.recv.run (tickOps sig ts) := by
  induction ts generalizing c with
  | nil => rfl
  | cons t ts ih => rw [Scr.run_cons, ih]; rfl

theorem sumBy_append (l₁ l₂ : List Nat) : sumBy id (l₁ ++ l₂) = sumBy id l₁ + sumBy id l₂ := by
  induction l₁ with
  | nil => simp [sumBy]
  | cons x xs ih => simp [sumBy, ih]; omega

theorem scr_sink (sig : Signal) (c : Scr) (ts : List Tick) : sumBy id (Scr.run sig c ts).sink = sumBy id c.sink + sumBy Tick.count ts := by
  induction ts generalizing c with
  | nil => simp [Scr.run, sumBy]
  | cons t ts ih => rw [Scr.run_cons, ih]; simp [Scr.scrape, sumBy_append, sumBy]; omega

theorem offered_tickOps (sig : Signal) (ts : List Tick) : offered sig (tickOps sig ts) = sumBy Tick.count ts := by
  induction ts with
  | nil => rfl
  | cons t ts ih => simp only [tickOps, List.map_cons, offered, sumBy] at *; simp [ih]

theorem scr_obsTrace_ok (sig : Signal) (c : Scr) (ts : List Tick) : RecvTraceOK c.recv (Scr.obsTrace sig sig c ts) := by
  induction ts generalizing c with
  | nil => trivial
  | cons t ts ih => exact ⟨C19_receiver_op c.recv ⟨sig, t.count, t.sinkErr⟩, ih _⟩

/-- a scrape function that reports through the receiver operation of the controller's own signal
satisfies the scraper clause — every history, any number of scrapers, any mix of ok / partial / failed
scrapers and next-consumer results -/
theorem C19_scraper_own (s : Signal) : ScraperClause s s := by
  intro ts
  refine ⟨scr_obsTrace_ok s {} ts, ?_⟩
  have h1 := (C19_receiver (tickOps s ts) s).2.2
  rw [scr_recv, scr_sink, h1, offered_tickOps]
  simp [sumBy]

/-- a scrape function that reports through the operation of a **different** signal violates it: one
scrape, one scraper returning one item -/
def scraperWitness : List Tick := [⟨[.ok 1 1], false⟩]

theorem C19_scraper_foreign_fails (own used : Signal) (h : used ≠ own) : ¬ ScraperClause own used := by
  intro hc
  have := (hc scraperWitness).2
  have h' : ¬ own = used := fun e => h e.symm
  simp [scraperWitness, Scr.run, Scr.scrape, Recv.endOp, add, numAccepted, numRefused, Tick.count, sumBy,
    ScrapeRes.kept, h'] at this

/-- full statement for the logs scraper controller, as a function of the signal whose receiver operation
`scrapeLogs` ends: log records handed to the next consumer are recorded under the **log record** counters -/
def C19_scraper_logs_full (used : Signal) : Prop := ScraperClause .logs used

/-- the pinned code (`scrapeLogs` calls `EndMetricsOp`) violates it: the scraped log records land in
`otelcol_receiver_accepted_metric_points` (witness `scraperWitness`, replayed on the real controller by
the harness: `viol sig=C19/scraper/logs-counted-as-metric-points`) -/
theorem C19_scraper_logs_full_fails : ¬ C19_scraper_logs_full .metrics :=
  C19_scraper_foreign_fails .logs .metrics (by decide)

theorem C19_scraper_logs_repaired : C19_scraper_logs_full .logs := C19_scraper_own .logs

/-- **the logs scraper controller of the current source** (`scrapeLogsSignal` is computed from the
regenerated `Gen.ScrapeSignal.scrapeLogsEndSig`): checks on the repaired tree, does not build on the pinned one -/
theorem C19_scraper_logs : C19_scraper_logs_full scrapeLogsSignal := by
  have h : scrapeLogsSignal = .logs := by decide
  rw [h]; exact C19_scraper_logs_repaired

/-- **the metrics scraper controller of the current source** -/
theorem C19_scraper_metrics : ScraperClause .metrics scrapeMetricsSignal := by
  have h : scrapeMetricsSignal = .metrics := by decide
  rw [h]; exact C19_scraper_own .metrics

/-- per-scraper counters (`wrapObsMetrics` / `wrapObsLogs`): scraper `i`'s scraped counter is the sum of the
units of its ok and partial results, its errored counter the sum of the `Failed` of its partial errors;
a failed scrape adds nothing to either -/
theorem C19_scraper_per_scraper (sig : Signal) (ts : List Tick) (i : Nat) :
    (Scr.run sig {} ts).scraped i = sumBy (fun t => resAt t.results ScrapeRes.scraped i) ts ∧
    (Scr.run sig {} ts).errored i = sumBy (fun t => resAt t.results ScrapeRes.errored i) ts := by
  have gen : ∀ c : Scr, (Scr.run sig c ts).scraped i = c.scraped i + sumBy (fun t => resAt t.results ScrapeRes.scraped i) ts ∧
      (Scr.run sig c ts).errored i = c.errored i + sumBy (fun t => resAt t.results ScrapeRes.errored i) ts := by
    induction ts with
    | nil => intro c; simp [Scr.run, sumBy]
    | cons t ts ih =>
      intro c
      rw [Scr.run_cons]
      obtain ⟨h1, h2⟩ := ih (c.scrape sig t)
      rw [h1, h2]
      simp [Scr.scrape, sumBy]; omega
  simpa using gen {}

/-- non-vacuity: two scrapes of three scrapers (ok, partial, failed); the failed scraper's 9 items are dropped -/
example : let c := Scr.run .logs {} [⟨[.ok 3 3, .partialErr 2 2 4, .fail 9], false⟩, ⟨[.fail 1, .ok 1 1, .ok 0 0], true⟩]
    c.recv.accepted .logs = 5 ∧ c.recv.refused .logs = 1 ∧ c.recv.accepted .metrics = 0 ∧ c.sink = [5, 1] ∧
    c.scraped 1 = 3 ∧ c.errored 1 = 4 ∧ c.scraped 2 = 0 := by decide

/-- the pinned behaviour, concretely: one log record scraped, counted as an accepted metric point -/
example : (Scr.run .metrics {} scraperWitness).recv.accepted .metrics = 1 ∧ (Scr.run .metrics {} scraperWitness).recv.accepted .logs = 0 ∧
    (Scr.run .metrics {} scraperWitness).sink = [1] := by decide

/-! ## processor helper -/

theorem Proc.run_cons (p : Proc) (op : ProcOp) (ops : List ProcOp) : p.run (op :: ops) = ((p.consume op).1).run ops := rfl

theorem consume_incoming (p : Proc) (op : ProcOp) (s : Signal) :
    (p.consume op).1.incoming s = p.incoming s + (if op.sig = s then op.inp else 0) := by
  by_cases h : s = op.sig
  · subst h; cases ho : op.outcome <;> simp [Proc.consume, ho, add]
  · have h' : ¬ op.sig = s := fun e => h e.symm
    cases ho : op.outcome <;> simp [Proc.consume, ho, add, h, h']

theorem consume_outgoing (p : Proc) (op : ProcOp) (s : Signal) :
    (p.consume op).1.outgoing s = p.outgoing s + (if op.sig = s then op.outcome.out else 0) := by
  by_cases h : s = op.sig
  · subst h; cases ho : op.outcome <;> simp [Proc.consume, ho, add, ProcOutcome.out]
  · have h' : ¬ op.sig = s := fun e => h e.symm
    cases ho : op.outcome <;> simp [Proc.consume, ho, add, h, h']

theorem consume_fwd (p : Proc) (op : ProcOp) (s : Signal) :
    (p.consume op).1.fwdItems s = p.fwdItems s + (if op.sig = s then op.outcome.out else 0) := by
  by_cases h : s = op.sig
  · subst h; cases ho : op.outcome <;> simp [Proc.consume, ho, add, ProcOutcome.out]
  · have h' : ¬ op.sig = s := fun e => h e.symm
    cases ho : op.outcome <;> simp [Proc.consume, ho, add, h, h']

theorem proc_run (p : Proc) (ops : List ProcOp) (s : Signal) :
    (p.run ops).incoming s = p.incoming s + given s ops ∧
    (p.run ops).outgoing s = p.outgoing s + forwardedBy s ops ∧
    (p.run ops).fwdItems s = p.fwdItems s + forwardedBy s ops := by
  induction ops generalizing p with
  | nil => simp [Proc.run, given, forwardedBy, sumBy]
  | cons op ops ih =>
    rw [Proc.run_cons]
    obtain ⟨h1, h2, h3⟩ := ih (p.consume op).1
    rw [h1, h2, h3, consume_incoming, consume_outgoing, consume_fwd]
    simp only [given, forwardedBy, sumBy]
    omega

/-- **every processor history, every signal**: incoming (attribute `otel.signal = s`) = the items the
processor was given for `s`; outgoing = the items its next consumer actually received (the ledger
`fwdItems`) = the sizes of the payloads the process function returned without error.  Payloads whose
process function failed or asked to skip count as incoming and add nothing to outgoing. -/
theorem C19_processor (ops : List ProcOp) (s : Signal) :
    (Proc.run {} ops).incoming s = given s ops ∧
    (Proc.run {} ops).outgoing s = (Proc.run {} ops).fwdItems s ∧
    (Proc.run {} ops).outgoing s = forwardedBy s ops := by
  obtain ⟨h1, h2, h3⟩ := proc_run {} ops s
  simp only [Nat.zero_add] at h1 h2 h3
  exact ⟨h1, by rw [h2, h3], h2⟩

/-- what the caller gets back: the process function's error, nothing for a skip, otherwise the next consumer's result -/
theorem C19_processor_ret (p : Proc) (op : ProcOp) :
    (op.outcome = .err → (p.consume op).2 = .funcErr) ∧
    (op.outcome = .skip → (p.consume op).2 = .nil) ∧
    (∀ o e, op.outcome = .ok o e → (p.consume op).2 = (if e then .nextErr else .nil) ∧
      (p.consume op).1.fwdCalls op.sig = p.fwdCalls op.sig + 1) := by
  refine ⟨?_, ?_, ?_⟩
  · intro h; simp [Proc.consume, h]
  · intro h; simp [Proc.consume, h]
  · intro o e h; simp [Proc.consume, h, add]

example : let p := Proc.run {} [⟨.logs, 5, .ok 3 false⟩, ⟨.logs, 4, .err⟩, ⟨.metrics, 7, .skip⟩, ⟨.logs, 2, .ok 6 true⟩, ⟨.traces, 1, .ok 1 false⟩]
    p.incoming .logs = 11 ∧ p.outgoing .logs = 9 ∧ p.fwdItems .logs = 9 ∧ p.incoming .metrics = 7 ∧ p.outgoing .metrics = 0 ∧
    p.fwdCalls .logs = 2 ∧ p.outgoing .traces = 1 := by decide

theorem procForeign_none {before : ProcSnap} {o : ProcObs} (h : procForeign before o = none) (t : Signal) (ht : t ≠ o.sig) :
    o.after.incoming t = before.incoming t ∧ o.after.outgoing t = before.outgoing t := by
  have := List.find?_eq_none.mp h t (Signal.mem_all t)
  simpa [ht] using this

/-- whatever observed trace (counter snapshots + the sink's ledger) `procCheck` accepts satisfies
"incoming moved by the items given, outgoing by the items the next consumer received, nothing else moved" -/
theorem C19_proc_check_sound (before : ProcSnap) (tr : List ProcObs) (h : procCheck before tr = true) : ProcTraceOK before tr := by
  induction tr generalizing before with
  | nil => trivial
  | cons o rest ih =>
    simp only [procCheck, procStepB, Bool.and_eq_true, Option.isNone_iff_eq_none] at h
    obtain ⟨⟨⟨hi, ho⟩, hf⟩, hr⟩ := h
    refine ⟨⟨?_, ?_, fun t ht => procForeign_none hf t ht⟩, ih _ hr⟩
    · simpa [procIncomingB] using hi
    · simpa [procOutgoingB] using ho

/-- the model's own observations pass the oracle, for every history -/
theorem C19_proc_model_checks (p : Proc) (ops : List ProcOp) : ProcTraceOK p.snap (p.obsTrace ops) := by
  induction ops generalizing p with
  | nil => trivial
  | cons op ops ih =>
    refine ⟨⟨?_, ?_, ?_⟩, ih _⟩
    · simp [Proc.snap, consume_incoming]
    · cases ho : op.outcome <;> simp [Proc.snap, consume_outgoing, ho, ProcOutcome.out]
    · intro t ht
      have ht' : ¬ op.sig = t := fun e => ht e.symm
      simp [Proc.snap, consume_incoming, consume_outgoing, ht']

example : procCheck {} (Proc.obsTrace {} [⟨.logs, 5, .ok 3 false⟩, ⟨.logs, 4, .err⟩, ⟨.metrics, 7, .skip⟩]) = true := by decide
/-- outgoing recorded as 5 while the next consumer received 3 is rejected -/
example : procCheck {} [{ sig := .logs, inp := 5, sink := some 3, after := { incoming := add (fun _ => 0) .logs 5, outgoing := add (fun _ => 0) .logs 5 } }] = false := by decide

/-! ## concurrent receive operations -/

theorem sumBy_perm {α : Type} (f : α → Nat) {l₁ l₂ : List α} (h : l₁.Perm l₂) : sumBy f l₁ = sumBy f l₂ := by
  induction h with
  | nil => rfl
  | cons x _ ih => simp [sumBy, ih]
  | swap x y l => simp [sumBy]; omega
  | trans _ _ ih₁ ih₂ => exact ih₁.trans ih₂

theorem Recv.ext' {a b : Recv} (h₁ : ∀ s, a.accepted s = b.accepted s) (h₂ : ∀ s, a.refused s = b.refused s) : a = b := by
  cases a; cases b
  simp only [Recv.mk.injEq]
  exact ⟨funext h₁, funext h₂⟩

/-- **order independence**: the counters after a set of receive operations do not depend on the order in
which they took effect — any two schedules of the same operations end in the same counters -/
theorem C19_receiver_perm (c : Recv) {ops₁ ops₂ : List RecvOp} (h : ops₁.Perm ops₂) : c.run ops₁ = c.run ops₂ := by
  apply Recv.ext'
  · intro s; rw [run_accepted, run_accepted]; simp only [offeredOk, sumBy_perm _ h]
  · intro s; rw [run_refused, run_refused]; simp only [offeredErr, sumBy_perm _ h]

/-- **concurrent histories**: goroutines `threads` each perform their own list of operations on shared
`ObsReport`s; every counter addition is atomic, so what happened is *some* schedule `sched` containing exactly
the operations of all threads (any interleaving is such a permutation).  Whatever the schedule, every signal's
final accepted / refused is the starting value plus what the successful / failed operations of that signal
offered, and accepted + refused grows by everything offered to that signal. -/
theorem C19_receiver_concurrent (c : Recv) (threads : List (List RecvOp)) (sched : List RecvOp)
    (h : sched.Perm threads.flatten) (s : Signal) :
    (c.run sched).accepted s = c.accepted s + offeredOk s threads.flatten ∧
    (c.run sched).refused s = c.refused s + offeredErr s threads.flatten ∧
    (c.run sched).accepted s + (c.run sched).refused s = c.accepted s + c.refused s + offered s threads.flatten := by
  rw [C19_receiver_perm c h]
  have ha := run_accepted c threads.flatten s
  have hr := run_refused c threads.flatten s
  have hs := offered_split s threads.flatten
  exact ⟨ha, hr, by omega⟩

/-- the batch oracle evaluated on observed counters is sound … -/
theorem C19_recv_batch_sound (before after : Recv) (ops : List RecvOp) (h : recvBatchB before after ops = true) (s : Signal) :
    after.accepted s = before.accepted s + offeredOk s ops ∧ after.refused s = before.refused s + offeredErr s ops ∧
    after.accepted s + after.refused s = before.accepted s + before.refused s + offered s ops := by
  have := List.all_eq_true.mp h s (Signal.mem_all s)
  simp only [Bool.and_eq_true, beq_iff_eq] at this
  have hs := offered_split s ops
  exact ⟨this.1, this.2, by omega⟩

/-- … and the model passes it under every schedule of the batch -/
theorem C19_recv_batch_model (c : Recv) (ops sched : List RecvOp) (h : sched.Perm ops) : recvBatchB c (c.run sched) ops = true := by
  apply List.all_eq_true.mpr
  intro s _
  rw [C19_receiver_perm c h, run_accepted, run_refused]
  simp

example : Recv.run {} [⟨.logs, 3, true⟩, ⟨.traces, 1, false⟩, ⟨.logs, 2, false⟩] = Recv.run {} [⟨.logs, 2, false⟩, ⟨.logs, 3, true⟩, ⟨.traces, 1, false⟩] :=
  C19_receiver_perm {} (by decide)
/-- a lost update (one of two concurrent additions of 2 and 3 log records missing) is rejected -/
example : recvBatchB {} { accepted := add (fun _ => 0) .logs 3 } [⟨.logs, 2, false⟩, ⟨.logs, 3, false⟩] = false := by decide

/-! ## scraper cross-balance: per-scraper scraped counters against the receiver counters -/

theorem sumBy_append' {α : Type} (f : α → Nat) (l₁ l₂ : List α) : sumBy f (l₁ ++ l₂) = sumBy f l₁ + sumBy f l₂ := by
  induction l₁ with
  | nil => simp [sumBy]
  | cons x xs ih => simp [sumBy, ih]; omega

theorem sumRange_add (k : Nat) (f g : Nat → Nat) : sumRange k (fun i => f i + g i) = sumRange k f + sumRange k g := by
  induction k with
  | zero => rfl
  | succ k ih => simp only [sumRange, ih]; omega

theorem sumRange_zero (k : Nat) : sumRange k (fun _ => 0) = 0 := by
  induction k with
  | zero => rfl
  | succ k ih => simp [sumRange, ih]

theorem sumRange_resAt_take (rs : List ScrapeRes) (g : ScrapeRes → Nat) (k : Nat) :
    sumRange k (resAt rs g) = sumBy g (rs.take k) := by
  induction k with
  | zero => simp [sumRange, sumBy]
  | succ k ih =>
    rw [sumRange, ih, List.take_add_one, sumBy_append']
    cases h : rs[k]? <;> simp [resAt, h, sumBy]

theorem sumRange_resAt (rs : List ScrapeRes) (g : ScrapeRes → Nat) (k : Nat) (hk : rs.length ≤ k) :
    sumRange k (resAt rs g) = sumBy g rs := by
  rw [sumRange_resAt_take, List.take_of_length_le hk]

theorem sumRange_sumBy (k : Nat) (ts : List Tick) (F : Tick → Nat → Nat) :
    sumRange k (fun i => sumBy (fun t => F t i) ts) = sumBy (fun t => sumRange k (F t)) ts := by
  induction ts with
  | nil => simp [sumBy, sumRange_zero]
  | cons t ts ih => simp only [sumBy]; rw [sumRange_add, ih]

theorem sumBy_sumRange_resAt (g : ScrapeRes → Nat) (k : Nat) (ts : List Tick) (hk : ∀ t ∈ ts, t.results.length ≤ k) :
    sumBy (fun t => sumRange k (resAt t.results g)) ts = sumBy (fun t => sumBy g t.results) ts := by
  induction ts with
  | nil => rfl
  | cons t ts ih =>
    simp only [sumBy]
    rw [ih (fun t' ht' => hk t' (List.mem_cons_of_mem _ ht')), sumRange_resAt _ _ _ (hk t List.mem_cons_self)]

/-- for a controller with `k` scrapers, the per-scraper scraped counters add up to everything the scrapers
reported as scraped, in the unit `wrapObs*` counts (`MetricCount()` / `LogRecordCount()`) … -/
theorem scraped_total (sig : Signal) (ts : List Tick) (k : Nat) (hk : ∀ t ∈ ts, t.results.length ≤ k) :
    sumRange k (Scr.run sig {} ts).scraped = totalUnits ts := by
  have h : (Scr.run sig {} ts).scraped = fun i => sumBy (fun t => resAt t.results ScrapeRes.scraped i) ts :=
    funext (fun i => (C19_scraper_per_scraper sig ts i).1)
  rw [h, sumRange_sumBy, sumBy_sumRange_resAt _ _ _ hk]
  rfl

/-- … while accepted + refused of the signal the scrape function reports under is everything that was kept
for the next consumer, in items -/
theorem recv_total (sig : Signal) (ts : List Tick) :
    (Scr.run sig {} ts).recv.accepted sig + (Scr.run sig {} ts).recv.refused sig = totalItems ts := by
  have h1 := (C19_receiver (tickOps sig ts) sig).2.2
  rw [scr_recv, h1, offered_tickOps]; rfl

/-- **cross-balance, exactly**: the scraped counters of the `k` scrapers add up to accepted + refused of the
controller's signal **iff** the scrapers' payloads reported as many units as items over the history -/
theorem C19_scraper_cross_iff (sig : Signal) (ts : List Tick) (k : Nat) (hk : ∀ t ∈ ts, t.results.length ≤ k) :
    (sumRange k (Scr.run sig {} ts).scraped =
      (Scr.run sig {} ts).recv.accepted sig + (Scr.run sig {} ts).recv.refused sig) ↔ totalUnits ts = totalItems ts := by
  rw [scraped_total sig ts k hk, recv_total]

theorem units_items_of (ts : List Tick) (h : UnitsAreItems ts) : totalUnits ts = totalItems ts := by
  induction ts with
  | nil => rfl
  | cons t ts ih =>
    have ht : sumBy ScrapeRes.scraped t.results = t.count := by
      have : ∀ rs : List ScrapeRes, (∀ r ∈ rs, r.scraped = r.kept) → sumBy ScrapeRes.scraped rs = sumBy ScrapeRes.kept rs := by
        intro rs
        induction rs with
        | nil => intro _; rfl
        | cons r rs ihr =>
          intro hr
          simp only [sumBy]
          rw [hr r List.mem_cons_self, ihr (fun r' h' => hr r' (List.mem_cons_of_mem _ h'))]
      exact this t.results (h t List.mem_cons_self)
    simp only [totalUnits, totalItems, sumBy] at ih ⊢
    rw [ht, ih (fun t' ht' => h t' (List.mem_cons_of_mem _ ht'))]

/-- **cross-balance** for a controller whose scraped-counter unit *is* the item (the logs controller: both
are `LogRecordCount()`): for every history, Σᵢ scraped log records of the scrapers = accepted + refused log
records of the receiver; failed scrapers contribute to neither side, partial ones to both -/
theorem C19_scraper_cross_balance (sig : Signal) (ts : List Tick) (k : Nat) (hk : ∀ t ∈ ts, t.results.length ≤ k)
    (hu : UnitsAreItems ts) :
    sumRange k (Scr.run sig {} ts).scraped =
      (Scr.run sig {} ts).recv.accepted sig + (Scr.run sig {} ts).recv.refused sig :=
  (C19_scraper_cross_iff sig ts k hk).mpr (units_items_of ts hu)

/-- the logs scraper controller of the current source -/
theorem C19_scraper_logs_cross (ts : List Tick) (k : Nat) (hk : ∀ t ∈ ts, t.results.length ≤ k) (hu : UnitsAreItems ts) :
    sumRange k (Scr.run scrapeLogsSignal {} ts).scraped =
      (Scr.run scrapeLogsSignal {} ts).recv.accepted .logs + (Scr.run scrapeLogsSignal {} ts).recv.refused .logs := by
  have h : scrapeLogsSignal = .logs := by decide
  rw [h]; exact C19_scraper_cross_balance .logs ts k hk hu

/-- **watch point, not a finding**: `otelcol_scraper_scraped_metric_points` is fed `MetricCount()` (metrics,
not points), so for the metrics controller the cross-balance fails as soon as a metric carries a number of
points other than one — witness: one scrape of one scraper returning 2 points in 1 metric: scraped = 1,
accepted = 2.  (The statement's receiver/scraper clause is about accepted/refused only, which balance:
`C19_scraper_metrics`.) -/
def crossWitness : List Tick := [⟨[.ok 2 1], false⟩]

theorem C19_scraper_metrics_cross_watch :
    sumRange 1 (Scr.run .metrics {} crossWitness).scraped = 1 ∧
    (Scr.run .metrics {} crossWitness).recv.accepted .metrics + (Scr.run .metrics {} crossWitness).recv.refused .metrics = 2 ∧
    ¬ UnitsAreItems crossWitness := by
  refine ⟨by decide, by decide, ?_⟩
  intro h
  have := h ⟨[.ok 2 1], false⟩ (by simp [crossWitness]) (.ok 2 1) (by simp)
  simp [ScrapeRes.scraped, ScrapeRes.kept] at this

/-- non-vacuity of the hypotheses: three scrapers (ok, partial, failed with data that is dropped), two scrapes -/
example : let ts : List Tick := [⟨[.ok 3 3, .partialErr 2 2 4, .fail 9], false⟩, ⟨[.fail 1, .ok 1 1, .ok 0 0], true⟩]
    (∀ t ∈ ts, t.results.length ≤ 3) ∧ (∀ t ∈ ts, ∀ r ∈ t.results, r.scraped = r.kept) ∧
    sumRange 3 (Scr.run .logs {} ts).scraped = 6 ∧ (Scr.run .logs {} ts).recv.accepted .logs + (Scr.run .logs {} ts).recv.refused .logs = 6 := by
  decide

/-! ## profiles next to the counted signals -/

theorem runX_eq (p : Proc) (xs : List XOp) : p.runX xs = p.run (sigOps xs) := by
  induction xs generalizing p with
  | nil => rfl
  | cons x xs ih =>
    cases x with
    | sig op => exact ih _
    | prof n o => exact ih p

/-- **profiles move no item counter**: in every history that mixes payloads of the three counted signals with
profiles payloads (any outcome of the profiles process function and next consumer), incoming / outgoing of
every signal are exactly what the counted payloads alone account for (`C19_processor` on `sigOps`) — the
profiles helper has no `otel.signal = profiles` series and does not leak into the others -/
theorem C19_processor_profiles (xs : List XOp) (s : Signal) :
    (Proc.runX {} xs).incoming s = given s (sigOps xs) ∧
    (Proc.runX {} xs).outgoing s = (Proc.runX {} xs).fwdItems s ∧
    (Proc.runX {} xs).outgoing s = forwardedBy s (sigOps xs) := by
  rw [runX_eq]; exact C19_processor (sigOps xs) s

/-- one profiles payload, seen from outside, is a step in which nothing was given and nothing forwarded under any signal -/
theorem C19_profiles_step (p : Proc) (n : Nat) (o : ProcOutcome) (s : Signal) :
    ProcStepOK p.snap { sig := s, inp := 0, sink := none, after := ((p.consumeX (.prof n o)).1).snap } ∧
    (p.consumeX (.prof n o)).2 = profRet o := by
  refine ⟨⟨?_, ?_, ?_⟩, rfl⟩ <;> simp [Proc.consumeX]

example : let p := Proc.runX {} [.sig ⟨.logs, 5, .ok 3 false⟩, .prof 7 (.ok 9 false), .prof 2 .err, .sig ⟨.logs, 1, .skip⟩, .prof 4 .skip]
    p.incoming .logs = 6 ∧ p.outgoing .logs = 3 ∧ p.incoming .traces = 0 ∧ p.incoming .metrics = 0 := by decide

/-! ## obsconsumer (service/internal/obsconsumer): consumed items per outcome, any number of static attributes -/

namespace Obs

theorem run_other (ops : List Op) (s : St) (i : Nat) : (run s ops i).other = (s i).other := by
  induction ops generalizing s with
  | nil => rfl
  | cons op ops ih =>
    simp only [run]; rw [ih]
    by_cases hi : i = op.inst <;> cases he : op.err <;> simp [consume, hi, he]

theorem run_success (ops : List Op) (s : St) (i : Nat) : (run s ops i).success = (s i).success + okItems i ops := by
  induction ops generalizing s with
  | nil => simp [run, okItems]
  | cons op ops ih =>
    simp only [run, okItems]; rw [ih]
    by_cases hi : i = op.inst <;> cases he : op.err <;> simp [consume, hi, he, Eq.comm] <;> omega

theorem run_failure (ops : List Op) (s : St) (i : Nat) : (run s ops i).failure = (s i).failure + errItems i ops := by
  induction ops generalizing s with
  | nil => simp [run, errItems]
  | cons op ops ih =>
    simp only [run, errItems]; rw [ih]
    by_cases hi : i = op.inst <;> cases he : op.err <;> simp [consume, hi, he, Eq.comm] <;> omega

end Obs

open Obs in
/-- **obsconsumer.** For every history of calls through any number of wrapper instances (any signal, any static attributes): the
items the downstream consumer accepted are counted under outcome=success of that instance, the refused ones under outcome=failure,
success + failure = items offered (counted at call entry), nothing appears under any other attribute set, other instances untouched. -/
theorem C19_obsconsumer (ops : List Op) (i : Nat) :
    (run (fun _ => {}) ops i).success = okItems i ops ∧ (run (fun _ => {}) ops i).failure = errItems i ops ∧
    (run (fun _ => {}) ops i).other = 0 ∧
    (run (fun _ => {}) ops i).success + (run (fun _ => {}) ops i).failure = okItems i ops + errItems i ops := by
  have h1 := run_success ops (fun _ => {}) i
  have h2 := run_failure ops (fun _ => {}) i
  have h3 := run_other ops (fun _ => {}) i
  simp only [] at h1 h2 h3
  refine ⟨by simpa using h1, by simpa using h2, by simpa using h3, ?_⟩
  simp at h1 h2; omega

open Obs in
/-- per call: which of the two moves follows the downstream result -/
theorem C19_obsconsumer_step (s : St) (op : Op) :
    (op.err = false → (consume s op op.inst).success = (s op.inst).success + op.n ∧ (consume s op op.inst).failure = (s op.inst).failure) ∧
    (op.err = true → (consume s op op.inst).failure = (s op.inst).failure + op.n ∧ (consume s op op.inst).success = (s op.inst).success) ∧
    (∀ j, j ≠ op.inst → consume s op j = s j) := by
  refine ⟨fun h => by simp [consume, h], fun h => by simp [consume, h], fun j hj => by simp [consume, hj]⟩

open Obs in
/-- the oracle evaluated on the implementation's counters is sound, and the model passes it -/
theorem C19_obs_check_sound (i : Nat) (ops : List Op) (c : Cnt) (h : check i ops c = true) :
    c.success = okItems i ops ∧ c.failure = errItems i ops ∧ c.other = 0 ∧ c.success + c.failure = okItems i ops + errItems i ops := by
  simp only [check, Bool.and_eq_true, beq_iff_eq] at h
  obtain ⟨⟨h1, h2⟩, h3⟩ := h
  exact ⟨h1, h2, h3, by omega⟩

open Obs in
theorem C19_obs_model_checks (ops : List Op) (i : Nat) : check i ops (run (fun _ => {}) ops i) = true := by
  obtain ⟨h1, h2, h3, _⟩ := C19_obsconsumer ops i
  simp [check, h1, h2, h3]

open Obs in
example : check 0 [⟨0, 3, false⟩, ⟨1, 9, true⟩, ⟨0, 2, true⟩] { success := 3, failure := 2 } = true := by decide
open Obs in
/-- everything counted as failed (the outcome attribute of the success set overwritten) is rejected -/
example : check 0 [⟨0, 3, false⟩, ⟨0, 2, true⟩] { success := 0, failure := 5 } = false := by decide

-- === exporter clause (added separately below) ===

/-! ## exporter: sent + send-failed (+ enqueue-failed) against what was given, over the shutdown LTS of property C03

All theorems are about every reachable state of `C03.fire` (every interleaving, configuration, re-partition, backend outcome).
A refused `Offer` does not change the LTS state; its items go to *enqueue-failed* and to *given* alike, so they cancel in the
balance and do not appear below: `given − enqueueFailed = accepted.length`. -/

open OtelVerif.C03 in
theorem flights_sum_split (fs : List Flight) (hd : ∀ fl ∈ fs, fl.st = .done) :
    (fs.map (fun fl => fl.batch.length)).sum =
      ((fs.filter (fun fl => fl.st == .done && Flight.finalOk fl)).map (fun fl => fl.batch.length)).sum +
      ((fs.filter (fun fl => fl.st == .done && !Flight.finalOk fl)).map (fun fl => fl.batch.length)).sum := by
  induction fs with
  | nil => rfl
  | cons fl fs ih =>
    have h1 := hd fl List.mem_cons_self
    have ih' := ih (fun g hg => hd g (List.mem_cons_of_mem _ hg))
    cases hk : Flight.finalOk fl <;> simp only [List.filter_cons, h1, hk, beq_self_eq_true, Bool.and_true, Bool.and_false,
      Bool.not_true, Bool.not_false, if_true, Bool.false_eq_true, if_false, List.map_cons, List.sum_cons] <;> omega

open OtelVerif.C03 in
theorem flights_length_split (fs : List Flight) (hd : ∀ fl ∈ fs, fl.st = .done) :
    (flightItems fs).length =
      ((fs.filter (fun fl => fl.st == .done && Flight.finalOk fl)).map (fun fl => fl.batch.length)).sum +
      ((fs.filter (fun fl => fl.st == .done && !Flight.finalOk fl)).map (fun fl => fl.batch.length)).sum := by
  rw [← flights_sum_split fs hd]
  simp [flightItems, List.length_flatMap]

open OtelVerif.C03 in
/-- **Counted exactly once.** When shutdown has returned, every accepted item has been added exactly once to *sent* or to
*send-failed*, or still sits in the queue (never dispatched): batching, splitting and retries neither drop nor double count. -/
theorem C19_exporter_once {s : State} (h : Reachable s) (hp : s.phase = 5) :
    sentOf s + failedOf s + (queueItems s.queue).length = s.accepted.length := by
  have inv := inv_reachable h
  obtain ⟨hall, hcur, hhand, htimer, hdone, _⟩ := C03_quiet h hp
  have hperm : s.accepted.Perm (places s) := List.perm_iff_count.mpr inv.conserved
  have hlen := hperm.length_eq
  have hsplit := flights_length_split s.flights hdone
  simp only [places, all_exited_items hall, hcur, hhand, htimer, optItems, TSt.items, List.length_append, List.length_nil] at hlen
  simp only [sentOf, failedOf]
  omega

open OtelVerif.C03 in
/-- **Memory queue balance.** sent + send-failed = accepted − (requests enqueued after the shutdown request that nobody reads any
more); every item accepted before the shutdown request is counted. -/
theorem C19_exporter_balance_memory {s : State} (h : Reachable s) (hp : s.phase = 5) (hm : s.cfg.persistent = false) (hn : s.cons ≠ []) :
    sentOf s + failedOf s = s.accepted.length - (queueItems s.queue).length ∧ ∀ p ∈ s.queue, p.2 = true := by
  have inv := inv_reachable h
  have hall := (C03_quiet h hp).1
  have hex : ∃ c ∈ s.cons, c = .exited := by
    cases hc : s.cons with
    | nil => exact absurd hc hn
    | cons c cs => exact ⟨c, by simp, hall c (by simp [hc])⟩
  have := C19_exporter_once h hp
  exact ⟨by omega, (inv.late hm hex).2⟩

open OtelVerif.C03 in
/-- the statement's exporter clause for a MEMORY queue, literally: nothing may be subtracted (only a persistent queue keeps items):
sent + send-failed = accepted (= given − enqueue-failed) -/
def C19_exporter_balance_memory_full : Prop :=
  ∀ s : State, Reachable s → s.phase = 5 → s.cfg.persistent = false → s.cons ≠ [] → sentOf s + failedOf s = s.accepted.length

open OtelVerif.C03 in
/-- **Memory-queue balance, literally** (proved for the repaired code: `memory_queue.add` refuses once the queue is stopped, commit
"fix: exporterhelper memory queue refuses elements offered after Shutdown"; the refusal is an `Offer` error, hence counted
enqueue-failed): when shutdown has returned the queue is empty and every accepted item was counted exactly once as sent or
send-failed.  Before the fix a request accepted after the stop was dropped uncounted (finding
`C19/exporter/accepted-after-shutdown-dropped-uncounted`, fixed). -/
theorem C19_exporter_balance_memory_full_holds : C19_exporter_balance_memory_full := by
  intro s h hp hm hn
  obtain ⟨hall, _⟩ := C03_quiet h hp
  have hex : ∃ c ∈ s.cons, c = .exited := by
    cases hc : s.cons with
    | nil => exact absurd hc hn
    | cons c cs => exact ⟨c, by simp, hall c (by simp [hc])⟩
  have hq := memEmpty_reachable h hm hex
  have := C19_exporter_once h hp
  simp [hq, queueItems] at this; exact this

open OtelVerif.C03 in
/-- the literal clause holds when nothing is offered to the memory queue after the shutdown request was made (every request in
the queue at the return is such a late one, `C19_exporter_balance_memory`) -/
theorem C19_exporter_balance_memory_no_late {s : State} (h : Reachable s) (hp : s.phase = 5) (hm : s.cfg.persistent = false)
    (hn : s.cons ≠ []) (hq : s.queue = []) : sentOf s + failedOf s = s.accepted.length := by
  have := (C19_exporter_balance_memory h hp hm hn).1
  simp [hq, queueItems] at this; exact this

open OtelVerif.C03 in
/-- the statement's exporter clause for a persistent queue: sent + send-failed = given − enqueue-failed − stored -/
def C19_exporter_balance_full : Prop :=
  ∀ s : State, Reachable s → s.phase = 5 → s.cfg.persistent = true → sentOf s + failedOf s + storedOf s = s.accepted.length

open OtelVerif.C03 in
/-- what the code does instead: the requests whose retry was interrupted by the shutdown are counted send-failed AND stay stored -/
theorem C19_exporter_double_count {s : State} (h : Reachable s) (hp : s.phase = 5) :
    sentOf s + failedOf s + storedOf s = s.accepted.length + keptOf s := by
  have := C19_exporter_once h hp
  simp only [storedOf]; omega

open OtelVerif.C03 in
/-- proved part: histories in which no retry was interrupted by the shutdown (no flight ended with a shutdown error) balance -/
theorem C19_exporter_balance_partial {s : State} (h : Reachable s) (hp : s.phase = 5) (hk : keptOf s = 0) :
    sentOf s + failedOf s + storedOf s = s.accepted.length := by
  have := C19_exporter_double_count h hp; omega

open OtelVerif.C03 in
/-- the full statement fails for the code as it is: persistent queue, retry enabled, shutdown during the back-off of request `[1]`
(`C03.demoPersistent`): given 3, sent 1, send-failed 1, stored 2 (`[1]` kept, `[3]` never dispatched) — 1 + 1 + 2 ≠ 3 -/
theorem C19_exporter_balance_full_fails : ¬ C19_exporter_balance_full := by
  intro hfull
  cases hd : runFrom (init { persistent := true, batching := false, retry := true } 2 0 false) demoPersistent with
  | none =>
    have : (runFrom (init { persistent := true, batching := false, retry := true } 2 0 false) demoPersistent).isSome = true := by decide
    simp [hd] at this
  | some s =>
    have hr : Reachable s := reachable_of_runFrom demoPersistent (Reachable.init _ _ _ _) hd
    have hv : (runFrom (init { persistent := true, batching := false, retry := true } 2 0 false) demoPersistent).map
        (fun s => (s.phase, s.cfg.persistent, sentOf s, failedOf s, storedOf s, s.accepted.length)) = some (5, true, 1, 1, 2, 3) := by decide
    rw [hd] at hv
    simp only [Option.map_some, Option.some.injEq, Prod.mk.injEq] at hv
    obtain ⟨h1, h2, h3, h4, h5, h6⟩ := hv
    have := hfull s hr h1 h2
    omega

/-- **Queue size gauge.** The memory queue's `size` after any sequence of `add`/`onDone` is what was added minus what was
finished; `obs_queue.go` observes exactly `Size()` and `Capacity()`. -/
theorem C19_gauge_size (size : Int) (es : List QEv) : qSizeAfter size es = size + added es - finished es := by
  induction es generalizing size with
  | nil => simp [qSizeAfter, added, finished]
  | cons e es ih =>
    cases e with
    | add n => simp only [qSizeAfter, added, finished, ih]; omega
    | done n => simp only [qSizeAfter, added, finished, ih]; omega

/-- non-vacuity of the trace predictor: a retried flight counts once, by its last call; a refused send counts as enqueue-failed -/
example : predict [.acc [1, 2], .es 0 [1, 2], .ee 0 true, .es 1 [1, 2], .ee 1 false, .rej [7, 8, 9], .acc [3], .es 2 [3], .ee 2 true] =
    { sent := 2, failed := 1, enqFailed := 3 } := by decide

/-- items handed to `Send` in a recorded trace -/
def givenOf (t : List XEv) : Nat := (t.map (fun e => match e with | .acc is => is.length | .rej is => is.length | _ => 0)).sum

/-- the exporter clause read on a trace in which nothing stays queued or stored -/
def C19_exporter_trace_balance_full : Prop :=
  ∀ t : List XEv, (predict t).sent + (predict t).failed + (predict t).enqFailed = givenOf t

/-- the code as it is violates it with `wait_for_result` (also the legacy batcher without a queue): the export error comes back
through `Offer`, so `obsQueue` adds the items to enqueue-failed after `obsReportSender` added them to send-failed
(trace recorded from the real exporter, corpus case 1 of the exporter harness: 4 items fail permanently, 3 are sent) -/
theorem C19_exporter_trace_balance_full_fails : ¬ C19_exporter_trace_balance_full := by
  intro h
  have := h [.es 0 [100, 101, 102, 103], .ee 0 true, .rej [100, 101, 102, 103], .es 1 [200, 201, 202], .ee 1 false, .acc [200, 201, 202]]
  revert this; decide

/-! ### over the LTS: queue-size gauge, `wait_for_result` -/

open OtelVerif.C03 in
/-- **Queue-size gauge over the LTS** (memory queue, every schedule): what `Size()` returns — and the gauge observes — is the sum
of the sizes of the enqueued requests whose `Done` has not fired: queued, in a consumer's hands, batched, waiting for a worker, in
flight or in back-off.  (Unique item ids, non-empty requests; a persistent queue resets its size when everything was dispatched.) -/
theorem C19_gauge_lts {s : State} (h : Reachable s) (hm : s.cfg.persistent = false) (hu : s.accepted.Nodup)
    (hne : ∀ r ∈ s.reqs, r ≠ []) :
    s.qsize = ((s.reqs.filter (fun r => !reqDone s.flights r)).map (reqSize s.cfg)).sum :=
  gaugeInv_reachable h hm hu hne

open OtelVerif.C03 in
theorem le_failedOf {s : State} {fl : Flight} (hfl : fl ∈ s.flights) (hd : fl.st = .done) (ha : fl.attempts ≠ fl.failures + 1) :
    fl.batch.length ≤ failedOf s := by
  have hmem : fl ∈ s.flights.filter (fun fl => fl.st == .done && !Flight.finalOk fl) := by
    simp [List.mem_filter, hfl, hd, Flight.finalOk, ha]
  simp only [failedOf]
  generalize s.flights.filter (fun fl => fl.st == .done && !Flight.finalOk fl) = l at hmem
  induction l with
  | nil => simp at hmem
  | cons a l ih =>
    simp only [List.mem_cons] at hmem
    cases hmem with
    | inl h => subst h; simp
    | inr h => have := ih h; simp only [List.map_cons, List.sum_cons]; omega

open OtelVerif.C03 in
/-- the statement's exporter clause with `wait_for_result` (memory queue): sent + send-failed + enqueue-failed = given − stuck -/
def C19_exporter_balance_wfr_full : Prop :=
  ∀ s : State, Reachable s → s.phase = 5 → s.cfg.persistent = false → s.cfg.wfr = true →
    sentOf s + failedOf s + enqFailedWfrOf s + (queueItems s.queue).length = s.accepted.length

open OtelVerif.C03 in
/-- exact law of the code: the items of the requests whose `Done` received an error are counted a second time -/
theorem C19_exporter_wfr_double_count {s : State} (h : Reachable s) (hp : s.phase = 5) :
    sentOf s + failedOf s + enqFailedWfrOf s + (queueItems s.queue).length = s.accepted.length + enqFailedWfrOf s := by
  have := C19_exporter_once h hp; omega

open OtelVerif.C03 in
/-- proved part: histories in which no flight ended with an error balance also under `wait_for_result` -/
theorem C19_exporter_balance_wfr_partial {s : State} (h : Reachable s) (hp : s.phase = 5) (hf : failedOf s = 0) :
    sentOf s + failedOf s + enqFailedWfrOf s + (queueItems s.queue).length = s.accepted.length := by
  have hz : enqFailedWfrOf s = 0 := by
    simp only [enqFailedWfrOf]
    split
    · have hnone : s.results.filter (·.2) = [] := by
        apply List.filter_eq_nil_iff.mpr
        intro p hp' ht
        obtain ⟨fl, hfl, hd, ha, hb⟩ := resInv_reachable h p hp' ht
        have := le_failedOf hfl hd ha
        have : 0 < fl.batch.length := List.length_pos_iff.mpr hb
        omega
      simp [hnone]
    · rfl
  have := C19_exporter_wfr_double_count h hp; omega

/-- `wait_for_result`, disabled batcher: request `[1,2]` fails permanently, `[3]` is sent -/
def demoWfr : List OtelVerif.C03.Label :=
  [.offer [1, 2], .offer [3], .read 0, .sendSync 0, .expStart 0, .expEnd 0 .perm .drop, .read 0, .sendSync 0, .expStart 1,
   .expEnd 1 .ok .drop, .shutRetry, .shutQueue, .exit 0, .join, .shutBatcher, .shutWait]

open OtelVerif.C03 in
/-- the full statement fails for the code as it is (given 3: sent 1, send-failed 2, enqueue-failed 2) -/
theorem C19_exporter_balance_wfr_full_fails : ¬ C19_exporter_balance_wfr_full := by
  intro hfull
  cases hd : runFrom (init { persistent := false, batching := false, retry := false, wfr := true } 1 0 false) demoWfr with
  | none =>
    have : (runFrom (init { persistent := false, batching := false, retry := false, wfr := true } 1 0 false) demoWfr).isSome = true := by decide
    simp [hd] at this
  | some s =>
    have hr : Reachable s := reachable_of_runFrom demoWfr (Reachable.init _ _ _ _) hd
    have hv : (runFrom (init { persistent := false, batching := false, retry := false, wfr := true } 1 0 false) demoWfr).map
        (fun s => (s.phase, s.cfg.persistent, s.cfg.wfr, sentOf s)) = some (5, false, true, 1) := by decide
    have hw : (runFrom (init { persistent := false, batching := false, retry := false, wfr := true } 1 0 false) demoWfr).map
        (fun s => (failedOf s, enqFailedWfrOf s, (queueItems s.queue).length, s.accepted.length)) = some (2, 2, 0, 3) := by decide
    rw [hd] at hv hw
    simp only [Option.map_some, Option.some.injEq, Prod.mk.injEq] at hv hw
    obtain ⟨h1, h2, h3, h4⟩ := hv
    obtain ⟨h5, h6, h7, h8⟩ := hw
    have := hfull s hr h1 h2 h3
    omega

open OtelVerif.C03 OtelVerif.C03.Replay in
/-- **Closing the loop.** The counters the exporter driver compares with the real meter provider (`prop lts`) are those of the state
reached by replaying the recorded trace through `fire`; that state is reachable, so when the replay ends with `Shutdown` returned
they balance: sent + send-failed + (still queued) = accepted — for every recorded trace and configuration. -/
theorem C19_replayed_counters_balance (rc : RCfg) (t : List TEv) (hp : (replay rc t).s.phase = 5) :
    sentOf (replay rc t).s + failedOf (replay rc t).s + (queueItems (replay rc t).s.queue).length = (replay rc t).s.accepted.length :=
  C19_exporter_once (C03_replay_reachable rc t) hp

open OtelVerif.C03 OtelVerif.C03.Replay in
/-- the gauge comparison (`prop gaugelts`) is made with the `qsize` of a reachable state: `C19_gauge_lts` applies to it -/
theorem C19_replayed_gauge (rc : RCfg) (t : List TEv)
    (hm : (goUntilShutreq rc { s := init rc.cfg rc.nCons rc.workers rc.timer } t).s.cfg.persistent = false)
    (hu : (goUntilShutreq rc { s := init rc.cfg rc.nCons rc.workers rc.timer } t).s.accepted.Nodup)
    (hne : ∀ r ∈ (goUntilShutreq rc { s := init rc.cfg rc.nCons rc.workers rc.timer } t).s.reqs, r ≠ []) :
    (goUntilShutreq rc { s := init rc.cfg rc.nCons rc.workers rc.timer } t).s.qsize =
      (((goUntilShutreq rc { s := init rc.cfg rc.nCons rc.workers rc.timer } t).s.reqs.filter
          (fun r => !reqDone (goUntilShutreq rc { s := init rc.cfg rc.nCons rc.workers rc.timer } t).s.flights r)).map
        (reqSize (goUntilShutreq rc { s := init rc.cfg rc.nCons rc.workers rc.timer } t).s.cfg)).sum :=
  C19_gauge_lts (C03_replay_prefix_reachable rc t) hm hu hne

/-! ### the clause as written: three counters against what the exporter was given -/

open OtelVerif.C03 in
/-- **given = accepted + refused**, in every reachable state of the exporter with its `obsQueue` front -/
theorem C19_exporter_given {x : XState} (h : XReachable x) : x.given = x.s.accepted.length + x.refused :=
  (xreachable_inv h).2

open OtelVerif.C03 in
/-- **Three-counter balance, exact law of the code** (every schedule, refusal pattern, configuration):
sent + send-failed + enqueue-failed + (still queued) = given + (items of `wait_for_result` requests whose export failed).
`C19_exporter_three_counter_partial` and the `_full_fails` theorems read off when the statement's clause holds. -/
theorem C19_exporter_three_counter {x : XState} (h : XReachable x) (hp : x.s.phase = 5) :
    sentOf x.s + failedOf x.s + enqFailedOf x + (queueItems x.s.queue).length = x.given + enqFailedWfrOf x.s := by
  obtain ⟨hr, hg⟩ := xreachable_inv h
  have := C19_exporter_once hr hp
  simp only [enqFailedOf]; omega

open OtelVerif.C03 in
/-- **The clause as written** (PARTIAL: the three recorded deviations excluded by hypothesis): without `wait_for_result` errors
(`enqFailedWfrOf = 0`), with nothing left in the queue that is not stored (memory queue: no request accepted after the stop;
persistent queue: `stored` = queue remainder, no kept flight):  sent + send-failed + enqueue-failed = given − stored. -/
theorem C19_exporter_three_counter_partial {x : XState} (h : XReachable x) (hp : x.s.phase = 5)
    (hw : enqFailedWfrOf x.s = 0) (hk : keptOf x.s = 0)
    (hq : x.s.cfg.persistent = false → x.s.queue = []) :
    sentOf x.s + failedOf x.s + enqFailedOf x =
      x.given - (if x.s.cfg.persistent then storedOf x.s else 0) := by
  have h3 := C19_exporter_three_counter h hp
  cases hpq : x.s.cfg.persistent with
  | true => simp only [storedOf, hk, if_true]; omega
  | false =>
    have := hq hpq
    simp [this, queueItems] at h3
    simp only [Bool.false_eq_true, if_false]; omega

open OtelVerif.C03 in
/-- **The clause as written, memory queue** (repaired code): sent + send-failed + enqueue-failed = given, for every schedule and
refusal pattern, provided no `wait_for_result` request saw an export error (the open finding). -/
theorem C19_exporter_three_counter_memory {x : XState} (h : XReachable x) (hp : x.s.phase = 5)
    (hm : x.s.cfg.persistent = false) (hn : x.s.cons ≠ []) (hw : enqFailedWfrOf x.s = 0) :
    sentOf x.s + failedOf x.s + enqFailedOf x = x.given := by
  obtain ⟨hr, hg⟩ := xreachable_inv h
  have := C19_exporter_balance_memory_full_holds x.s hr hp hm hn
  simp only [enqFailedOf]; omega

/-- non-vacuity: queue-full refusals around an export -/
example :
    let x0 : XState := { s := OtelVerif.C03.init { persistent := false, batching := false, retry := false } 1 0 false }
    ((xfire x0 (.lts (.offer [1, 2]))).bind (fun x => xfire x (.refuse [3, 4, 5]))).map (fun x => (x.given, x.refused, x.s.accepted.length)) =
      some (5, 3, 2) := by decide

end OtelVerif.C19
