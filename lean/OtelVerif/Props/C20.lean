import OtelVerif.Model.C20
/-! C20 property theorems (stub) -/
namespace OtelVerif.C20
end OtelVerif.C20
