import OtelVerif.Model.C20
import OtelVerif.Lemmas.C20
import OtelVerif.Lemmas.C20Mon
import OtelVerif.Lemmas.C20Bridge
import OtelVerif.Lemmas.C20Expand
import OtelVerif.Lemmas.C20Safe
/-!
# C20 — collector run loop: one live service at a time, orderly reload, ends Closed

Theorems about the LTS of `Model/C20.lean` (`fire`), for EVERY finite label sequence: any interleaving of
the Run goroutine's statements with `Shutdown()` calls from any number of goroutines, config-watch
notifications, signals, asynchronous errors, context cancellation, and any assignment of failures to the
fallible calls (config/`service.New`, `service.Start`, `service.Shutdown`, provider `Shutdown`).
`Reachable v s` = `∃ ls, run v ls = some s`; there is no bound on the length of `ls`.

`v = .fixed` is the code with `fix: honour Shutdown() called while a config reload is in progress`;
`v = .pinned` the code as pinned. Everything except `C20_shutdown_not_lost` holds for both.
-/
namespace OtelVerif.C20

/-- the witness of DESIGN §C20 finding (1): start, SIGHUP, `Shutdown()` while the reload has the state at Closing -/
def lostWitness : List Label :=
  [.begin, .step true, .step true, .step true, .step true,      -- Starting … Running
   .post .hup, .pick .hup, .step true,                          -- reload: state := Closing
   .call,                                                       -- Shutdown(): guard sees Closing
   .step true, .step true, .step true, .step true, .step true]  -- old service down, new one up, Running

/-! ## one live service at a time -/

/-- At every reachable state at most one configuration generation has live components; at the program
point where the components of a configuration are created (`service.New`) nothing is live and every
service created before has been through `service.Shutdown`. -/
theorem C20_no_overlap (v : Variant) (s : S) (h : Reachable v s) :
    s.live.length ≤ 1 ∧ (∀ rl, s.pc = .setup2 rl → s.live = [] ∧ s.created = s.sdLog) := by
  have hi := inv_reachable h
  have hl := hi.live
  have hc := hi.created
  simp only [S.core] at hl hc
  refine ⟨?_, ?_⟩
  · rw [hl]; by_cases hh : s.pc.hasLive = true <;> simp [hh]
  · intro rl hpc
    have : s.live = [] := by rw [hl]; simp [hpc, Pc.hasLive]
    exact ⟨this, by rw [hc, this]; simp⟩

/-- no service is shut down twice, whatever happens -/
theorem C20_service_shutdown_at_most_once (v : Variant) (s : S) (h : Reachable v s) (g : Nat) :
    s.sdLog.count g ≤ 1 := sdLog_count_le_one v s h g

/-! ## a run that reached Running and is stopped ends Closed -/

/-- If Run has returned after the select took a branch that leaves the loop (`stop = some e`), then: the run
had reached Running, `e` is one of the listed stop reasons, the state is Closed, the config providers were
shut down exactly once, nothing is live, every service ever created was shut down exactly once. -/
theorem C20_ends_closed (v : Variant) (s : S) (h : Reachable v s) (e : Ev) (hs : s.stop = some e) (hr : s.ret.isSome = true) :
    s.everRunning = true ∧ (e = .shutdown ∨ e = .term ∨ e = .ctx ∨ e = .async ∨ e = .watchErr) ∧
    s.st = .closed ∧ s.provSd = 1 ∧ s.live = [] ∧ (∀ g ∈ s.created, s.sdLog.count g = 1) ∧ s.panic = false := by
  have hi := inv_reachable h
  have hpc : s.pc = .done := hi.retDone.1 hr
  have hsome : s.stop.isSome = true := by simp [hs]
  have hlive : s.live = [] := by have := hi.live; simp only [S.core] at this; rw [this]; simp [hpc, Pc.hasLive]
  refine ⟨hi.stopEver hsome, ?_, hi.doneStop hpc hsome, ?_, hlive, created_all_shutdown h hlive, hi.noPanic⟩
  · have := hi.stopKind e hs
    cases e <;> simp [Ev.stops] at this ⊢
  · have := hi.prov
    simp only [S.core] at this
    rw [this]; simp [hpc, hsome]

/-- "… and Run returns": once a stop branch was taken nothing any other goroutine does can divert the Run
goroutine from the shutdown path, each of its statements is enabled whatever the outcome of the fallible calls
(`C20_run_never_stuck`), and as soon as its (at most four) remaining statements have been executed — in any
interleaving with anything else — Run has returned.
WHAT THIS RESTS ON: that each of those statements terminates is an ASSUMPTION of the model, not a result —
`configProvider.Shutdown` and `service.Shutdown` are single always-enabled steps of `stepRun` ("may fail", never "may
hang"). What is proved is that the collector's own control flow adds no way of not returning: nothing diverts, re-enters or
blocks the path. The one place where the collector itself made `service.Start/Shutdown` hang (fatal-error report under
the status reporter's lock) is modelled and refuted for the unrepaired host in `C20_run_returns_unrepaired_host_fails`. -/
theorem C20_stop_returns (v : Variant) (s s' : S) (ls : List Label) (hr : Reachable v s) (hp : s.pc.inShut = true)
    (h : runFrom v s ls = some s') (hn : s.pc.remaining ≤ countSteps ls) : s'.pc = .done ∧ s'.ret.isSome = true := by
  obtain ⟨hp', hrem⟩ := shut_runFrom ls (Or.inl hp) h
  have hdone : s'.pc = .done := by
    rcases hp' with hp' | hp'
    · have : s'.pc.remaining = 0 := by omega
      cases hpc : s'.pc <;> simp [hpc, Pc.inShut, Pc.remaining] at hp' this
    · exact hp'
  have hr' : Reachable v s' := by
    obtain ⟨ls0, h0⟩ := hr
    refine ⟨ls0 ++ ls, ?_⟩
    simp only [run] at h0 ⊢
    rw [runFrom_append, h0]; exact h
  exact ⟨hdone, (inv_reachable hr').retDone.2 hdone⟩

/-- the Run goroutine is never blocked outside the select: its next statement is always enabled. DEFINITIONAL: this is
how `stepRun` is written (every call of the Run goroutine returns — the model's termination assumption, see `stepRun`); it
is stated so that the assumption has a name, and it is what the gated harness observes on the real code after every
release of a gate (watchdog of 5 s per step, `C20/runloop/run-wedged-*`, `C20/harness/run-goroutine-did-not-reach-expected-point`). -/
theorem C20_run_never_stuck (v : Variant) (s : S) (h1 : s.pc ≠ .idle) (h2 : s.pc ≠ .select) (h3 : s.pc ≠ .done) :
    (fire v s (.step true)).isSome = true := by
  cases hpc : s.pc <;> simp_all [fire, stepRun]

/-- in the select a ready branch can always be taken; a closed shutdown channel and a cancelled context stay ready -/
theorem C20_select_ready (v : Variant) (s : S) (hpc : s.pc = .select) (h : s.anyReady = true) :
    ∃ e, (fire v s (.pick e)).isSome = true := by
  simp only [S.anyReady, Bool.or_eq_true, decide_eq_true_eq] at h
  rcases h with (((((((h | h) | h) | h) | h) | h) | h) | h) | h
  · exact ⟨.watchOk, by simp [fire, hpc, pickEv, h]⟩
  · exact ⟨.watchErr, by simp [fire, hpc, pickEv, h]⟩
  · exact ⟨.hup, by simp [fire, hpc, pickEv, h]⟩
  · exact ⟨.term, by simp [fire, hpc, pickEv, h]⟩
  · exact ⟨.async, by simp [fire, hpc, pickEv, h]⟩
  · exact ⟨.shutdown, by simp [fire, hpc, pickEv, h]⟩
  · exact ⟨.ctx, by simp [fire, hpc, pickEv, h]⟩
  · exact ⟨.async, by simp [fire, hpc, pickEv, h]⟩
  · exact ⟨.async, by simp [fire, hpc, pickEv, h]⟩

/-- non-vacuity of `C20_no_overlap` / `C20_stop_returns`: a reachable state at the creation point of generation 2 with
generation 1 created and shut down; a reachable state on the shutdown path -/
example : (run .pinned (lostWitness.take 10 ++ [.step true])).map (fun s => (s.pc, s.gen, s.created, s.sdLog, s.live)) =
    some (.setup2 true, 2, [1], [1], []) := by decide
example : (run .fixed [.begin, .step true, .step true, .step true, .step true, .post .term, .pick .term]).map
    (fun s => (s.pc, s.pc.inShut, s.stop)) = some (.shut1, true, some .term) := by rfl

/-! ## initial / new configuration cannot be brought up -/

/-- If Run returned without a stop branch having been taken, a set-up or a reload failed: Run returned an error,
no component is left live and every service that was created (so: every component that was started) went through
`service.Shutdown` exactly once. -/
theorem C20_start_failure (v : Variant) (s : S) (h : Reachable v s) (hr : s.ret.isSome = true) (hs : s.stop = none) :
    s.ret = some false ∧ s.live = [] ∧ (∀ g ∈ s.created, s.sdLog.count g = 1) ∧ s.panic = false := by
  have hi := inv_reachable h
  have hpc : s.pc = .done := hi.retDone.1 hr
  have hlive : s.live = [] := by have := hi.live; simp only [S.core] at this; rw [this]; simp [hpc, Pc.hasLive]
  exact ⟨hi.doneErr hpc hs, hlive, created_all_shutdown h hlive, hi.noPanic⟩

/-- … and Run does return the error: from the point where the configuration is loaded / the service is built
(`setup2`), resp. where the service is started (`setup3`), a failure leads to `done` with an error in at most three
statements of the Run goroutine, the service created so far being shut down on the way. -/
theorem C20_setup_failure_returns (v : Variant) (s : S) (b : Bool) (g : Nat) :
    (s.pc = .setup2 true → ∃ s', runFrom v s [.step false] = some s' ∧ s'.pc = .done ∧ s'.ret = some false ∧ s'.sdLog = s.sdLog) ∧
    (s.pc = .setup2 false → ∃ s', runFrom v s [.step false, .step true] = some s' ∧ s'.pc = .done ∧ s'.ret = some false ∧
        s'.st = .closed ∧ s'.sdLog = s.sdLog) ∧
    (s.pc = .setup3 true → s.svc = some g → ∃ s', runFrom v s [.step false, .step b] = some s' ∧ s'.pc = .done ∧
        s'.ret = some false ∧ s'.sdLog = s.sdLog ++ [g]) ∧
    (s.pc = .setup3 false → s.svc = some g → ∃ s', runFrom v s [.step false, .step b, .step true] = some s' ∧ s'.pc = .done ∧
        s'.ret = some false ∧ s'.st = .closed ∧ s'.sdLog = s.sdLog ++ [g]) := by
  refine ⟨?_, ?_, ?_, ?_⟩
  · intro hpc
    simp [runFrom, fire, stepRun, hpc, failSetup, S.emit]
  · intro hpc
    simp [runFrom, fire, stepRun, hpc, failSetup, S.emit, setSt]
  · intro hpc hsvc
    simp [runFrom, fire, stepRun, hpc, hsvc, failSetup, S.emit, svcShutdown]
  · intro hpc hsvc
    simp [runFrom, fire, stepRun, hpc, hsvc, failSetup, S.emit, svcShutdown, setSt]

/-- non-vacuity of `C20_start_failure`: the initial `service.Start` fails; a reload's `service.New` fails -/
example : (run .fixed [.begin, .step true, .step true, .step false, .step true, .step true]).map
    (fun s => (s.ret, s.stop, s.st, s.created, s.sdLog)) = some (some false, none, .closed, [1], [1]) := by rfl
example : (run .fixed [.begin, .step true, .step true, .step true, .step true, .post .hup, .pick .hup, .step true, .step true,
    .step true, .step false]).map (fun s => (s.ret, s.stop, s.st, s.created, s.sdLog)) =
    some (some false, none, .starting, [1], [1]) := by rfl

/-- The recorded watch point, made precise: when Run returns because a configuration could not be brought up, it does NOT go
through `shutdown` — the config providers are not shut down, and the state is Closed only for the initial configuration;
after a failed reload it stays Starting (new configuration failed) or Closing (retiring service failed to shut down).
The statement's Closed/providers clause is about the five listed stop reasons (`C20_ends_closed`); for this path it asks
what `C20_start_failure` proves. A "tidy-up" that called `shutdown` here would shut the retiring service down a second
time (`col.service` still points to it when `Get` fails) — the differential and `C20/service/component-shutdown-twice` catch that. -/
theorem C20_failed_bringup_end_state (v : Variant) (s : S) (h : Reachable v s) (hr : s.ret.isSome = true) (hs : s.stop = none) :
    s.provSd = 0 ∧ ((s.everRunning = false ∧ s.st = .closed) ∨ (s.everRunning = true ∧ (s.st = .starting ∨ s.st = .closing))) := by
  have hi := inv_reachable h
  have hpc : s.pc = .done := hi.retDone.1 hr
  refine ⟨?_, hi.doneNoStop hpc hs⟩
  have := hi.prov
  simp only [S.core] at this
  rw [this]; simp [hpc, hs]

/-! ## Shutdown() is safe, idempotent, and (repaired code) never lost -/

/-- one complete `Shutdown()` call: read the state; if the guard passes, `close(shutdownChan)` (`closeStep`) -/
def doCall (v : Variant) (s : S) : Option S :=
  (fire v s .call).bind (fun s1 => if s1.closers > s.closers then fire v s1 .close else some s1)

/-- what `Shutdown()` can influence, apart from the log -/
def S.ext (s : S) : Core × Bool × Nat × Bool × Nat × Nat × Nat × Nat × Nat × Bool :=
  (s.core, s.chanClosed, s.closers, s.ctxDone, s.nWatchOk, s.nWatchErr, s.nHup, s.nTerm, s.nAsync, s.errs)

/-- **Regenerated shape fact** (translator `shutdownshape`, re-extracted from `otelcol/*.go` on every run): every
`close(<x>.shutdownChan)` is under a deferred `recover()` in the same function or inside `sync.Once.Do`. This is the mechanism
that makes a second, concurrent close safe; a non-atomic "peek, then close" is not one. If the source loses it, this
obligation — and with it `C20_shutdown_safe`, `C20_no_caller_panic` — no longer checks. -/
theorem C20_close_is_recovered : Gen.ShutdownShape.closeRecovered = true := by decide

/-- safe from any state and any goroutine: a call is enabled in EVERY state (reachable or not), it never blocks,
it touches nothing but the shutdown channel, and it does not panic in the caller — the last because the `close` is
protected (`C20_close_is_recovered`): guard read and close are two steps, so the channel may have been closed by
another caller in between (`closeStep`) -/
theorem C20_shutdown_safe (v : Variant) (s : S) :
    ∃ s', doCall v s = some s' ∧ s'.core = s.core ∧ s'.closers = s.closers ∧ (s.chanClosed = true → s'.chanClosed = true) ∧
      s'.callerPanic = s.callerPanic := by
  have hrec := C20_close_is_recovered
  by_cases hh : v.honours s.st = true <;> simp [doCall, fire, S.emit, hh, S.core, closeStep, hrec]

/-- **any goroutine, any number of them, concurrently**: in every reachable state — in particular after several callers
have passed the guard before any of them closed (`closers ≥ 2`), in any interleaving with the Run goroutine — no
`Shutdown()` call has panicked in its caller's goroutine. Depends on the regenerated `C20_close_is_recovered`. -/
theorem C20_no_caller_panic (v : Variant) (s : S) (h : Reachable v s) : s.callerPanic = false := by
  obtain ⟨ls, h⟩ := h
  have := callerPanic_runFrom v C20_close_is_recovered ls h
  simpa [init] using this

/-- the mechanism is necessary: with an unprotected `close` (`recovered = false`), of two callers that are both past the
guard the one that closes second panics — whatever the state, whoever goes first -/
theorem C20_double_close_needs_recover (s : S) : (closeStep false (closeStep false s)).callerPanic = true := by
  simp [closeStep]

/-- non-vacuity of `C20_no_caller_panic`: two callers past the guard at once is reachable (Running, two `call`s, then both
`close`), and the second close does find the channel closed -/
example : (run .fixed [.begin, .step true, .step true, .step true, .step true, .call, .call, .close]).map
    (fun s => (s.closers, s.chanClosed, s.callerPanic)) = some (1, true, false) := by decide

/-- idempotent: two calls in a row leave the same state as one call -/
theorem C20_shutdown_idempotent (v : Variant) (s : S) :
    ((doCall v s).bind (doCall v)).map S.ext = (doCall v s).map S.ext := by
  by_cases hh : v.honours s.st = true <;> simp [doCall, fire, S.emit, hh, S.ext, S.core, closeStep]

/-- once the channel is closed, or in state Closed, a call changes nothing -/
theorem C20_shutdown_noop_when_closed (v : Variant) (s : S) (h : s.chanClosed = true ∨ s.st = .closed) :
    (doCall v s).map S.ext = some s.ext := by
  by_cases hh : v.honours s.st = true
  · rcases h with h | h
    · simp [doCall, fire, S.emit, hh, S.ext, S.core, h, closeStep]
    · cases v <;> simp [Variant.honours, h] at hh
  · simp [doCall, fire, S.emit, hh, S.ext, S.core]

/-- **Not lost** (repaired code): in every reachable state in which a `Shutdown()` call has been made after Running was
reached, the shutdown channel is closed, or the calling goroutine is about to close it, or Run has already returned. -/
theorem C20_shutdown_not_lost (s : S) (h : Reachable .fixed s) : NotLost s := by
  obtain ⟨ls, h⟩ := h
  suffices ∀ (ls : List Label) (s0 : S), Inv s0.core → NotLost s0 → runFrom .fixed s0 ls = some s → NotLost s from
    this ls init inv_init (by simp [NotLost, init]) h
  intro ls
  induction ls with
  | nil => intro s0 _ hn h; simp only [runFrom, Option.some.injEq] at h; subst h; exact hn
  | cons l ls ih =>
    intro s0 hi hn h
    simp only [runFrom] at h
    cases hf : fire .fixed s0 l with
    | none => simp [hf] at h
    | some s1 => simp only [hf, Option.bind_some] at h; exact ih s1 (inv_fire .fixed hi hf) (notLost_fire hi hn hf) h

/-- the system is at rest: no goroutine is inside `Shutdown()`, nothing is ready in the select, the Run goroutine is
in the select (or not started / returned) -/
def Quiescent (s : S) : Prop := s.closers = 0 ∧ s.anyReady = false ∧ (s.pc = .select ∨ s.pc = .done ∨ s.pc = .idle)

/-- **Honoured** (repaired code): the collector cannot come to rest in the select with a shutdown request outstanding —
at rest, Run has returned; and (`C20_ends_closed`) if it returned because of the request, in Closed. -/
theorem C20_shutdown_honoured (s : S) (h : Reachable .fixed s) (hr : s.req = true) (hq : Quiescent s) : s.pc = .done := by
  obtain ⟨hc, ha, _⟩ := hq
  rcases C20_shutdown_not_lost s h hr with h1 | h1 | h1
  · simp [S.anyReady, h1] at ha
  · omega
  · exact h1

/-- **The pinned code loses the request**: the full statement fails for `Variant.pinned` — after `lostWitness` a
`Shutdown()` has been made after Running, yet the system is at rest in the select, channel open, Run not returned. -/
theorem C20_shutdown_not_lost_pinned_fails :
    ¬ (∀ s, Reachable .pinned s → s.req = true → Quiescent s → s.pc = .done) := by
  intro hall
  have hw : (run .pinned lostWitness).map (fun s => (s.req, s.closers, s.anyReady, s.pc, s.st, s.chanClosed)) =
      some (true, 0, false, .select, .running, false) := by decide
  cases hs : run .pinned lostWitness with
  | none => simp [hs] at hw
  | some s =>
    simp only [hs, Option.map_some, Option.some.injEq, Prod.mk.injEq] at hw
    obtain ⟨h1, h2, h3, h4, _, _⟩ := hw
    have := hall s ⟨_, hs⟩ h1 ⟨h2, h3, Or.inl h4⟩
    simp [h4] at this

/-- non-vacuity of `C20_shutdown_honoured`: on the repaired code the same history leaves the channel closed … -/
example : (run .fixed (lostWitness ++ [.close])).map (fun s => (s.req, s.chanClosed, s.pc)) = some (true, true, .select) := by
  decide

/-- … and the run then ends Closed with everything shut down exactly once (the hypotheses of `C20_ends_closed` are met) -/
example : (run .fixed (lostWitness ++ [.close, .pick .shutdown, .step true, .step true, .step true, .step true])).map
    (fun s => (s.stop, s.ret, s.st, s.sdLog, s.provSd, s.live)) = some (some .shutdown, some true, .closed, [1, 2], 1, []) := by
  rfl

/-! ## the trace monitor is sound -/

/-- The property on an event log (component create / start / shutdown with generation, provider shutdown, state
samples, `Shutdown()` calls, stop branch, Run's return, "at rest" observations), stated without reference to the
monitor or the model. -/
structure TraceOK (t : List TEv) : Prop where
  /-- between the start of a component and the creation of a component of ANOTHER configuration lies its shutdown -/
  noOverlapCreate : ∀ p1 p2 p3 g c g' c', t = p1 ++ .started g c :: (p2 ++ .created g' c' :: p3) → g ≠ g' → TEv.shut g c ∈ p2
  noOverlapStart : ∀ p1 p2 p3 g c g' c', t = p1 ++ .started g c :: (p2 ++ .started g' c' :: p3) → g ≠ g' → TEv.shut g c ∈ p2
  shutOnce : ∀ g c, t.count (.shut g c) ≤ 1
  provOnce : t.count .prov ≤ 1
  /-- when Run returns every started component has been shut down -/
  retClean : ∀ p ok q, t = p ++ .ret ok :: q → ∀ g c, TEv.started g c ∈ p → TEv.shut g c ∈ p
  /-- … and if a stop branch had been taken, the state is Closed and the providers were shut down exactly once -/
  stopClosed : ∀ p ok q, t = p ++ .ret ok :: q → TEv.stop ∈ p → lastSt .starting p = .closed ∧ p.count .prov = 1
  /-- the system is never at rest with Run not returned after a `Shutdown()` that followed Running -/
  notLost : ∀ p q, t = p ++ .quiet :: q → (∃ p1 p2 p3, p = p1 ++ .st .running :: (p2 ++ .call :: p3)) → ∃ ok, TEv.ret ok ∈ p

/-- soundness of the monitor: a log it accepts satisfies every clause -/
theorem C20_check_sound (t : List TEv) (h : check t = true) : TraceOK t := by
  obtain ⟨m, hm⟩ := check_ok h
  refine ⟨?_, ?_, ?_, ?_, ?_, ?_, ?_⟩
  · intro p1 p2 p3 g c g' c' ht hne
    subst ht
    apply Classical.byContradiction; intro hn
    have hm' : Mon.run {} ((p1 ++ .started g c :: p2) ++ .created g' c' :: p3) = .ok m := by simpa using hm
    obtain ⟨ma, me, h1, h2, _⟩ := Mon.run_split hm'
    have hl : (g, c) ∈ ma.live := Mon.started_live h1 hn
    exact hne (((Mon.step_ok h2).1 g' c' rfl).2 (g, c) hl)
  · intro p1 p2 p3 g c g' c' ht hne
    subst ht
    apply Classical.byContradiction; intro hn
    have hm' : Mon.run {} ((p1 ++ .started g c :: p2) ++ .started g' c' :: p3) = .ok m := by simpa using hm
    obtain ⟨ma, me, h1, h2, _⟩ := Mon.run_split hm'
    have hl : (g, c) ∈ ma.live := Mon.started_live h1 hn
    exact hne (((Mon.step_ok h2).2.1 g' c' rfl).2 (g, c) hl)
  · intro g c
    have := Mon.shut_count hm g c
    simp only [ind, List.not_mem_nil, if_false, Nat.add_zero] at this
    split at this <;> omega
  · have := (Mon.prov_count hm (by simp)).1
    have h2 := (Mon.prov_count hm (by simp)).2
    simp at this; omega
  · intro p ok q ht g c hs
    subst ht
    apply Classical.byContradiction; intro hn
    obtain ⟨ma, me, h1, h2, _⟩ := Mon.run_split hm
    obtain ⟨p1, p2, rfl⟩ := List.append_of_mem hs
    have hl : (g, c) ∈ ma.live := Mon.started_live h1 (fun hh => hn (by simp [hh]))
    have := ((Mon.step_ok h2).2.2.2.2.2.2.2.2 ok rfl).2.1
    rw [this] at hl; cases hl
  · intro p ok q ht hs
    subst ht
    obtain ⟨ma, me, h1, h2, _⟩ := Mon.run_split hm
    have hf := Mon.flags h1
    have hst := ((Mon.step_ok h2).2.2.2.2.2.2.2.2 ok rfl).2.2 (hf.2.1 hs)
    have hp := (Mon.prov_count h1 (by simp)).1
    refine ⟨?_, ?_⟩
    · rw [← hst.1, hf.2.2.2.2.2]
    · simp at hp; omega
  · intro p q ht hex
    subst ht
    obtain ⟨p1, p2, p3, rfl⟩ := hex
    obtain ⟨ma, me, h1, h2, _⟩ := Mon.run_split hm
    obtain ⟨mb, mc, g1, g2, g3⟩ := Mon.run_split h1
    obtain ⟨md, mf, j1, j2, j3⟩ := Mon.run_split g3
    have e1 : mc.everRunning = true := by rw [(Mon.step_ok g2).2.2.2.2.1 .running rfl]; simp
    have e2 : md.everRunning = true := (Mon.flags j1).2.2.1 e1
    have e3 : mf.req = true := by rw [(Mon.step_ok j2).2.2.2.2.2.1 rfl]; simp [e2]
    have e4 : ma.req = true := (Mon.flags j3).2.2.2.1 e3
    have e5 := ((Mon.step_ok h2).2.2.2.2.2.2.2.1 rfl).2 e4
    rcases (Mon.flags h1).2.2.2.2.1 e5 with h0 | h0
    · simp at h0
    · exact h0

/-- non-vacuity: the monitor accepts the log of a run with a reload and a clean stop, rejects a log in which a component of
generation 2 is created while generation 1 is live, and rejects rest-in-select after a `Shutdown()` that followed Running -/
example : check [.st .starting, .created 1 0, .started 1 0, .st .running, .st .closing, .shut 1 0, .st .starting, .created 2 0,
    .started 2 0, .st .running, .call, .stop, .st .closing, .prov, .shut 2 0, .st .closed, .ret true] = true := by decide
example : check [.st .starting, .created 1 0, .started 1 0, .st .running, .st .closing, .created 2 0] = false := by decide
example : check [.st .starting, .created 1 0, .started 1 0, .st .running, .st .closing, .call, .shut 1 0, .st .starting,
    .created 2 0, .started 2 0, .st .running, .quiet] = false := by decide

/-! ## bridge: the model's own logs are accepted by the monitor, hence satisfy the trace-level statement -/

/-- every event log the model can produce — any variant, any interleaving, any failure assignment — is accepted by the
monitor that judges the logs of the real collector -/
theorem C20_model_log_accepted (v : Variant) (s : S) (h : Reachable v s) : check s.log = true := by
  obtain ⟨m, hm, _⟩ := acc_reachable h
  simp [check, hm]

/-- … so the trace-level statement of the property (`TraceOK`, stated without the monitor or the model) holds of every
log of the model: the state-level theorems above and the judgement passed on real logs talk about the same thing -/
theorem C20_model_trace_ok (v : Variant) (s : S) (h : Reachable v s) : TraceOK s.log :=
  C20_check_sound _ (C20_model_log_accepted v s h)

/-- (repaired code) whenever the model is at rest, the observation "at rest" appended to its log is accepted too: the
monitor's lost-request clause never fires on the repaired model … -/
theorem C20_model_quiet_accepted (s : S) (h : Reachable .fixed s) (hq : Quiescent s) : check (s.log ++ [.quiet]) = true := by
  obtain ⟨m, hm, hr⟩ := acc_reachable h
  have hret : s.req = true → s.ret.isSome = true := fun hreq =>
    (inv_reachable h).retDone.2 (C20_shutdown_honoured s h hreq hq)
  have h1 := hr.req
  have h2 := hr.ret
  simp only [S.core] at h2
  by_cases hreq : s.req = true
  · have hne : s.ret ≠ none := by
      intro hn; have := hret hreq; simp [hn] at this
    simp [check, Mon.run_append_ok hm, Mon.run, Mon.step, h1, h2, hreq, hne]
  · simp [check, Mon.run_append_ok hm, Mon.run, Mon.step, h1, hreq]

/-- … while on the pinned model it does: the log of `lostWitness` followed by "at rest" is rejected as a lost request -/
theorem C20_model_quiet_rejected_pinned :
    (run .pinned lostWitness).map (fun s => (s.closers, s.anyReady, s.pc, check (s.log ++ [.quiet]))) =
      some (0, false, .select, false) := by
  decide

/-! ## service.Start / service.Shutdown as many steps: component-level logs -/

/-- Any accepted service-level log stays accepted when every service-level event is replaced by what a real service
does at component level, in the shape C10 proves of `service.Start/Shutdown` (taken here as the definition of `expand`):
generation `g` has `n g` components, all created by `service.New`; `service.Start` starts them one after the other and
stops at the first failure (`k g ≤ n g` started); `service.Shutdown` shuts every one of them down exactly once. -/
theorem C20_expand_accepted (n k : Nat → Nat) (hk : ∀ g, k g ≤ n g) (t : List TEv) (h0 : ∀ e ∈ t, e.idx0 = true)
    (h : check t = true) : check (t.flatMap (expand n k)) = true := by
  obtain ⟨m, hm⟩ := check_ok h
  obtain ⟨M, hM, _⟩ := exp_run (n := n) hk h0
    (⟨by simp, by simp, rfl, rfl, rfl, rfl, rfl, rfl, rfl⟩ : Exp k ({} : Mon) ({} : Mon)) hm
  simp [check, hM]

/-- Hence: for every reachable state of the run-loop model, every choice of component counts and of how far each
`service.Start` got, the component-level log satisfies the trace-level statement (no component of two generations live at
once, each component shut down at most once and — at Run's return — exactly once if started, providers once, Closed
after a stop branch). This is the log format the monitor judges on the real collector (3 components per generation). -/
theorem C20_model_component_trace_ok (v : Variant) (s : S) (h : Reachable v s) (n k : Nat → Nat) (hk : ∀ g, k g ≤ n g) :
    TraceOK (s.log.flatMap (expand n k)) :=
  C20_check_sound _ (C20_expand_accepted n k hk s.log (logIdx0_reachable h) (C20_model_log_accepted v s h))

/-- non-vacuity: 3 components per service, the second generation's Start fails after 1 component -/
example : (run .fixed [.begin, .step true, .step true, .step true, .step true, .post .hup, .pick .hup, .step true, .step true,
    .step true, .step true, .step false, .step true]).map
    (fun s => (s.log.flatMap (expand (fun _ => 3) (fun g => if g = 2 then 1 else 3))).filter
      (fun e => match e with | .started _ _ | .shut _ _ => true | _ => false)) =
    some [.started 1 0, .started 1 1, .started 1 2, .shut 1 0, .shut 1 1, .shut 1 2, .started 2 0, .shut 2 0, .shut 2 1, .shut 2 2] := by
  decide

/-! ## fatal errors reported by components (audit follow-up, issue 1)

`Label.fatal` = a component reports `StatusFatalError` through its host. Repaired host (`fix: do not block the status
reporter …`): the report starts a goroutine that waits to hand the error over on the unbuffered `asyncErrorChannel`
(`nFatal`) and gives up when the service is shut down; the reporting component and the status reporter are not held up. -/

/-- a pending fatal-error hand-over makes the `async` branch of the select ready — from any state of the select -/
theorem C20_fatal_report_is_received (v : Variant) (s : S) (hpc : s.pc = .select) (h : s.nFatal > 0) :
    ∃ s', fire v s (.pick .async) = some s' ∧ s'.stop = some .async ∧ s'.pc = .shut1 := by
  simp [fire, hpc, pickEv, leave, S.emit, h]

/-- … and what is still pending when the service is shut down (reload, failed start, final shutdown) no longer belongs to a
live service: `host.Done` is closed, every such hand-over goroutine is stale and gives up when it next runs (`giveUp`, always
enabled for a stale one — no goroutine is left behind). Until it has run, its send can still be taken by a select: on the real
code a window of a few scheduler quanta (seen once in ≈ 10^5 gated histories); then the reloaded collector stops, orderly, for
the fatal error of a retired component. The gated harness waits for the stale goroutines to be gone before it goes on. -/
theorem C20_fatal_reports_abandoned_at_service_shutdown (s s' : S) (ok : Bool) (g : Nat) (hsvc : s.svc = some g)
    (hpc : s.pc = .reload2 ∨ s.pc = .shut3 ∨ (∃ rl, s.pc = .setupSd rl)) (h : stepRun s ok = some s') :
    s'.nFatal = 0 ∧ s'.nStale = s.nStale + s.nFatal ∧
      (s'.nStale > 0 → ∀ v, ∃ s'', fire v s' .giveUp = some s'' ∧ s''.nStale + 1 = s'.nStale ∧ s''.core = s'.core) := by
  have hg : ∀ (t : S), t.nStale > 0 → ∀ v, ∃ t', fire v t .giveUp = some t' ∧ t'.nStale + 1 = t.nStale ∧ t'.core = t.core := by
    intro t ht v
    refine ⟨{ t with nStale := t.nStale - 1 }, by simp [fire, ht], by simp; omega, rfl⟩
  rcases hpc with hpc | hpc | ⟨rl, hpc⟩
  · cases ok <;> simp [stepRun, hpc, svcShutdown, hsvc, S.emit] at h <;> subst h <;> exact ⟨rfl, rfl, hg _⟩
  · simp [stepRun, hpc, svcShutdown, hsvc, S.emit] at h; subst h; exact ⟨rfl, rfl, hg _⟩
  · cases rl <;> simp [stepRun, hpc, svcShutdown, hsvc, S.emit, failSetup] at h <;> subst h <;> exact ⟨rfl, rfl, hg _⟩

/-- The UNREPAIRED host (`host.AsyncErrorChannel <- event.Err()` inside `NotifyComponentStatusChange`, i.e. with the status
reporter's mutex held): while a report is pending, every statement of the Run goroutine that reports component statuses —
`service.Start` (`setup3`) and `service.Shutdown` (`setupSd`, `reload2`, `shut3`) — blocks on that mutex. -/
def locksReporter : Pc → Bool
  | .setup3 _ | .setupSd _ | .reload2 | .shut3 => true
  | _ => false

def stepRunUnrepairedHost (s : S) (ok : Bool) : Option S :=
  if s.nFatal > 0 && locksReporter s.pc then none else stepRun s ok

/-- history of corpus case 1 of the harness: Running; SIGTERM is taken by the select; a component reports FatalError; the
shutdown proceeds to `service.Shutdown` -/
def wedgeWitness : List Label :=
  [.begin, .step true, .step true, .step true, .step true, .post .term, .pick .term, .fatal, .step true, .step true]

/-- **"Run returns" fails for the unrepaired host** (about the host BEFORE `fix: do not block the status reporter …`, /repo cbd17a389; reproduced on the real collector then, repaired since): after
`wedgeWitness` the run has been stopped by a termination signal, sits before `service.Shutdown` with a fatal report pending,
the next statement of the Run goroutine is disabled whatever its outcome, and nothing any other goroutine does ever changes
that — Run never returns, the state stays Closing. -/
theorem C20_run_returns_unrepaired_host_fails :
    ∃ s, run .fixed wedgeWitness = some s ∧ s.stop = some .term ∧ s.st = .closing ∧ s.ret = none ∧
      (∀ ok, stepRunUnrepairedHost s ok = none) ∧
      (∀ ls s', (∀ l ∈ ls, l.isStep = false) → runFrom .fixed s ls = some s' →
        s'.pc = .shut3 ∧ s'.ret = none ∧ ∀ ok, stepRunUnrepairedHost s' ok = none) := by
  have hw : (run .fixed wedgeWitness).map (fun s => (s.stop, s.st, s.ret, s.pc, s.nFatal)) =
      some (some .term, .closing, none, .shut3, 1) := by decide
  cases hs : run .fixed wedgeWitness with
  | none => simp [hs] at hw
  | some s =>
    simp only [hs, Option.map_some, Option.some.injEq, Prod.mk.injEq] at hw
    obtain ⟨h1, h2, h3, h4, h5⟩ := hw
    refine ⟨s, rfl, h1, h2, h3, ?_, ?_⟩
    · intro ok; simp [stepRunUnrepairedHost, h4, h5, locksReporter]
    · intro ls
      have key : ∀ (ls : List Label) (s0 s' : S), s0.pc = .shut3 → s0.nFatal > 0 → (∀ l ∈ ls, l.isStep = false) →
          runFrom .fixed s0 ls = some s' → s'.pc = .shut3 ∧ s'.nFatal > 0 := by
        intro ls
        induction ls with
        | nil => intro s0 s' a b _ h; simp only [runFrom, Option.some.injEq] at h; subst h; exact ⟨a, b⟩
        | cons l ls ih =>
          intro s0 s' a b hl h
          simp only [runFrom] at h
          cases hf : fire .fixed s0 l with
          | none => simp [hf] at h
          | some s1 =>
            simp only [hf, Option.bind_some] at h
            obtain ⟨a1, b1⟩ := wedged_stable a b (hl l (by simp)) hf
            exact ih s1 s' a1 b1 (fun l' hl' => hl l' (by simp [hl'])) h
      intro s' hl h
      obtain ⟨a, b⟩ := key ls s s' h4 (by omega) hl h
      have hr : Reachable .fixed s' := by
        refine ⟨wedgeWitness ++ ls, ?_⟩
        simp only [run] at hs ⊢
        rw [runFrom_append, hs]; exact h
      have hret : s'.ret = none := by
        cases hx : s'.ret with
        | none => rfl
        | some r => have := (inv_reachable hr).retDone.1 (by simp [S.core, hx]); simp [S.core, a] at this
      exact ⟨a, hret, fun ok => by simp [stepRunUnrepairedHost, a, b, locksReporter]⟩

/-- on the repaired host the same history goes on to Closed: the pending hand-over is stale after `service.Shutdown` -/
example : (run .fixed (wedgeWitness ++ [.step true, .step true])).map (fun s => (s.st, s.ret, s.nFatal, s.nStale, s.sdLog, s.provSd)) =
    some (.closed, some true, 0, 1, [1], 1) := by rfl

/-! ## "a configuration-watch error stops the collector": the watcher is a lossless queue (round 7)

`post watchOk/watchErr` = a provider goroutine calls the resolver's watcher func (`Resolver.onChange`, a BLOCKING send on a
channel of capacity 1): the notification sits in the buffer or its sender waits behind it — either way it is outstanding
(`nWatchOk`, `nWatchErr`) until the select receives it. A non-blocking send would drop what arrives behind an unconsumed one. -/

/-- an outstanding error notification can only go away by being received: along any continuation that does not contain the
select's receive of a watch error, it stays outstanding — whatever else is received, however many reloads happen -/
theorem C20_watch_error_never_lost (v : Variant) (s s' : S) (ls : List Label) (hn : ∀ l ∈ ls, l ≠ .pick .watchErr)
    (h : runFrom v s ls = some s') : s.nWatchErr ≤ s'.nWatchErr := by
  induction ls generalizing s with
  | nil => simp only [runFrom, Option.some.injEq] at h; subst h; exact Nat.le_refl _
  | cons l ls ih =>
    simp only [runFrom] at h
    cases hf : fire v s l with
    | none => simp [hf] at h
    | some s1 =>
      simp only [hf, Option.bind_some] at h
      exact Nat.le_trans (watchErr_fire v (hn l (by simp)) hf) (ih s1 (fun l' hl' => hn l' (by simp [hl'])) h)

/-- … while it is outstanding the collector cannot be at rest, and whenever the Run goroutine is in the select it can be
received, which leaves the loop (then `C20_stop_returns`, `C20_ends_closed`: Run returns, Closed, service and providers shut
down exactly once) -/
theorem C20_watch_error_stops_collector (v : Variant) (s : S) (h : s.nWatchErr > 0) :
    ¬ Quiescent s ∧ (s.pc = .select → ∃ s', fire v s (.pick .watchErr) = some s' ∧ s'.stop = some .watchErr ∧ s'.pc = .shut1) := by
  refine ⟨?_, ?_⟩
  · intro ⟨_, ha, _⟩
    simp [S.anyReady] at ha
    omega
  · intro hpc
    simp [fire, hpc, pickEv, leave, S.emit, h]

/-- non-vacuity (= corpus case 4 of the harness, the round-7 seed's history): a change and then an error are notified while
the collector starts; the change is received first, the reload completes, the error is still outstanding and stops the run -/
example : (run .fixed [.begin, .step true, .step true, .post .watchOk, .post .watchErr, .step true, .step true, .pick .watchOk,
    .step true, .step true, .step true, .step true, .step true, .step true]).map (fun s => (s.pc, s.gen, s.nWatchOk, s.nWatchErr)) =
    some (.select, 2, 0, 1) := by decide

end OtelVerif.C20
