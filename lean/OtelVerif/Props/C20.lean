import OtelVerif.Model.C20
import OtelVerif.Lemmas.C20
import OtelVerif.Lemmas.C20Mon
import OtelVerif.Lemmas.C20Bridge
import OtelVerif.Lemmas.C20Expand
import OtelVerif.Lemmas.C20Safe
import OtelVerif.Lemmas.C20Fsm
import OtelVerif.Lemmas.C20Sig
import OtelVerif.Lemmas.C20Live
import OtelVerif.Lemmas.C20FsmLog
/-!
# C20 — collector run loop: one live service at a time, orderly reload, ends Closed

Theorems about the LTS of `Model/C20.lean` (`fire`), for EVERY finite label sequence: any interleaving of
the Run goroutine's statements with `Shutdown()` calls from any number of goroutines, config-watch
notifications, signals, asynchronous errors, context cancellation, and any assignment of failures to the
fallible calls (config/`service.New`, `service.Start`, `service.Shutdown`, provider `Shutdown`).
`Reachable v s` = `∃ ls, run v ls = some s`; there is no bound on the length of `ls`.

`v = .fixed` is the code with `fix: honour Shutdown() called while a config reload is in progress`;
`v = .pinned` the code as pinned. Everything except `C20_shutdown_not_lost` holds for both.
-/
namespace OtelVerif.C20

/-- the witness of DESIGN §C20 finding (1): start, SIGHUP, `Shutdown()` while the reload has the state at Closing -/
def lostWitness : List Label :=
  [.begin, .step true, .step true, .step true, .step true,      -- Starting … Running
   .post .hup, .pick .hup, .step true,                          -- reload: state := Closing
   .call,                                                       -- Shutdown(): guard sees Closing
   .step true, .step true, .step true, .step true, .step true]  -- old service down, new one up, Running

/-! ## one live service at a time -/

/-- At every reachable state at most one configuration generation has live components; at the program
point where the components of a configuration are created (`service.New`) nothing is live and every
service created before has been through `service.Shutdown`. -/
theorem C20_no_overlap (v : Variant) (s : S) (h : Reachable v s) :
    s.live.length ≤ 1 ∧ (∀ rl, s.pc = .setup2 rl → s.live = [] ∧ s.created = s.sdLog) := by
  have hi := inv_reachable h
  have hl := hi.live
  have hc := hi.created
  simp only [S.core] at hl hc
  refine ⟨?_, ?_⟩
  · rw [hl]; by_cases hh : s.pc.hasLive = true <;> simp [hh]
  · intro rl hpc
    have : s.live = [] := by rw [hl]; simp [hpc, Pc.hasLive]
    exact ⟨this, by rw [hc, this]; simp⟩

/-- no service is shut down twice, whatever happens -/
theorem C20_service_shutdown_at_most_once (v : Variant) (s : S) (h : Reachable v s) (g : Nat) :
    s.sdLog.count g ≤ 1 := sdLog_count_le_one v s h g

/-! ## a run that reached Running and is stopped ends Closed -/

/-- If Run has returned after the select took a branch that leaves the loop (`stop = some e`), then: the run
had reached Running, `e` is one of the listed stop reasons, the state is Closed, the config providers were
shut down exactly once, nothing is live, every service ever created was shut down exactly once. -/
theorem C20_ends_closed (v : Variant) (s : S) (h : Reachable v s) (e : Ev) (hs : s.stop = some e) (hr : s.ret.isSome = true) :
    s.everRunning = true ∧ (e = .shutdown ∨ e = .term ∨ e = .ctx ∨ e = .async ∨ e = .watchErr) ∧
    s.st = .closed ∧ s.provSd = 1 ∧ s.live = [] ∧ (∀ g ∈ s.created, s.sdLog.count g = 1) ∧ s.panic = false := by
  have hi := inv_reachable h
  have hpc : s.pc = .done := hi.retDone.1 hr
  have hsome : s.stop.isSome = true := by simp [hs]
  have hlive : s.live = [] := by have := hi.live; simp only [S.core] at this; rw [this]; simp [hpc, Pc.hasLive]
  refine ⟨hi.stopEver hsome, ?_, hi.doneStop hpc hsome, ?_, hlive, created_all_shutdown h hlive, hi.noPanic⟩
  · have := hi.stopKind e hs
    cases e <;> simp [Ev.stops] at this ⊢
  · have := hi.prov
    simp only [S.core] at this
    rw [this]; simp [hpc, hsome]

/-- "… and Run returns": once a stop branch was taken nothing any other goroutine does can divert the Run
goroutine from the shutdown path, each of its statements is enabled whatever the outcome of the fallible calls
(`C20_run_never_stuck`), and as soon as its (at most four) remaining statements have been executed — in any
interleaving with anything else — Run has returned.
WHAT THIS RESTS ON: that each of those statements terminates is an ASSUMPTION of the model, not a result —
`configProvider.Shutdown` and `service.Shutdown` are single always-enabled steps of `stepRun` ("may fail", never "may
hang"). What is proved is that the collector's own control flow adds no way of not returning: nothing diverts, re-enters or
blocks the path. The one place where the collector itself made `service.Start/Shutdown` hang (fatal-error report under
the status reporter's lock) is modelled and refuted for the unrepaired host in `C20_run_returns_unrepaired_host_fails`. -/
theorem C20_stop_returns (v : Variant) (s s' : S) (ls : List Label) (hr : Reachable v s) (hp : s.pc.inShut = true)
    (h : runFrom v s ls = some s') (hn : s.pc.remaining ≤ countSteps ls) : s'.pc = .done ∧ s'.ret.isSome = true := by
  obtain ⟨hp', hrem⟩ := shut_runFrom ls (Or.inl hp) h
  have hdone : s'.pc = .done := by
    rcases hp' with hp' | hp'
    · have : s'.pc.remaining = 0 := by omega
      cases hpc : s'.pc <;> simp [hpc, Pc.inShut, Pc.remaining] at hp' this
    · exact hp'
  have hr' : Reachable v s' := by
    obtain ⟨ls0, h0⟩ := hr
    refine ⟨ls0 ++ ls, ?_⟩
    simp only [run] at h0 ⊢
    rw [runFrom_append, h0]; exact h
  exact ⟨hdone, (inv_reachable hr').retDone.2 hdone⟩

/-- the Run goroutine is never blocked outside the select: its next statement is always enabled. DEFINITIONAL: this is
how `stepRun` is written (every call of the Run goroutine returns — the model's termination assumption, see `stepRun`); it
is stated so that the assumption has a name, and it is what the gated harness observes on the real code after every
release of a gate (watchdog of 5 s per step, `C20/runloop/run-wedged-*`, `C20/harness/run-goroutine-did-not-reach-expected-point`). -/
theorem C20_run_never_stuck (v : Variant) (s : S) (h1 : s.pc ≠ .idle) (h2 : s.pc ≠ .select) (h3 : s.pc ≠ .done) :
    (fire v s (.step true)).isSome = true := by
  cases hpc : s.pc <;> simp_all [fire, stepRun]

/-- in the select a ready branch can always be taken; a closed shutdown channel and a cancelled context stay ready -/
theorem C20_select_ready (v : Variant) (s : S) (hpc : s.pc = .select) (h : s.anyReady = true) :
    ∃ e, (fire v s (.pick e)).isSome = true := by
  simp only [S.anyReady, Bool.or_eq_true, decide_eq_true_eq] at h
  rcases h with (((((((h | h) | h) | h) | h) | h) | h) | h) | h
  · exact ⟨.watchOk, by simp [fire, hpc, pickEv, h]⟩
  · exact ⟨.watchErr, by simp [fire, hpc, pickEv, h]⟩
  · exact ⟨.hup, by simp [fire, hpc, pickEv, h]⟩
  · exact ⟨.term, by simp [fire, hpc, pickEv, h]⟩
  · exact ⟨.async, by simp [fire, hpc, pickEv, h]⟩
  · exact ⟨.shutdown, by simp [fire, hpc, pickEv, h]⟩
  · exact ⟨.ctx, by simp [fire, hpc, pickEv, h]⟩
  · exact ⟨.async, by simp [fire, hpc, pickEv, h]⟩
  · exact ⟨.async, by simp [fire, hpc, pickEv, h]⟩

/-- non-vacuity of `C20_no_overlap` / `C20_stop_returns`: a reachable state at the creation point of generation 2 with
generation 1 created and shut down; a reachable state on the shutdown path -/
example : (run .pinned (lostWitness.take 10 ++ [.step true])).map (fun s => (s.pc, s.gen, s.created, s.sdLog, s.live)) =
    some (.setup2 true, 2, [1], [1], []) := by decide
example : (run .fixed [.begin, .step true, .step true, .step true, .step true, .post .term, .pick .term]).map
    (fun s => (s.pc, s.pc.inShut, s.stop)) = some (.shut1, true, some .term) := by rfl

/-! ## initial / new configuration cannot be brought up -/

/-- If Run returned without a stop branch having been taken, a set-up or a reload failed: Run returned an error,
no component is left live and every service that was created (so: every component that was started) went through
`service.Shutdown` exactly once. -/
theorem C20_start_failure (v : Variant) (s : S) (h : Reachable v s) (hr : s.ret.isSome = true) (hs : s.stop = none) :
    s.ret = some false ∧ s.live = [] ∧ (∀ g ∈ s.created, s.sdLog.count g = 1) ∧ s.panic = false := by
  have hi := inv_reachable h
  have hpc : s.pc = .done := hi.retDone.1 hr
  have hlive : s.live = [] := by have := hi.live; simp only [S.core] at this; rw [this]; simp [hpc, Pc.hasLive]
  exact ⟨hi.doneErr hpc hs, hlive, created_all_shutdown h hlive, hi.noPanic⟩

/-- … and Run does return the error: from the point where the configuration is loaded / the service is built
(`setup2`), resp. where the service is started (`setup3`), a failure leads to `done` with an error in at most three
statements of the Run goroutine, the service created so far being shut down on the way. -/
theorem C20_setup_failure_returns (v : Variant) (s : S) (b : Bool) (g : Nat) :
    (s.pc = .setup2 true → ∃ s', runFrom v s [.step false] = some s' ∧ s'.pc = .done ∧ s'.ret = some false ∧ s'.sdLog = s.sdLog) ∧
    (s.pc = .setup2 false → ∃ s', runFrom v s [.step false, .step true] = some s' ∧ s'.pc = .done ∧ s'.ret = some false ∧
        s'.st = .closed ∧ s'.sdLog = s.sdLog) ∧
    (s.pc = .setup3 true → s.svc = some g → ∃ s', runFrom v s [.step false, .step b] = some s' ∧ s'.pc = .done ∧
        s'.ret = some false ∧ s'.sdLog = s.sdLog ++ [g]) ∧
    (s.pc = .setup3 false → s.svc = some g → ∃ s', runFrom v s [.step false, .step b, .step true] = some s' ∧ s'.pc = .done ∧
        s'.ret = some false ∧ s'.st = .closed ∧ s'.sdLog = s.sdLog ++ [g]) := by
  refine ⟨?_, ?_, ?_, ?_⟩
  · intro hpc
    simp [runFrom, fire, stepRun, hpc, failSetup, S.emit]
  · intro hpc
    simp [runFrom, fire, stepRun, hpc, failSetup, S.emit, setSt]
  · intro hpc hsvc
    simp [runFrom, fire, stepRun, hpc, hsvc, failSetup, S.emit, svcShutdown]
  · intro hpc hsvc
    simp [runFrom, fire, stepRun, hpc, hsvc, failSetup, S.emit, svcShutdown, setSt]

/-- non-vacuity of `C20_start_failure`: the initial `service.Start` fails; a reload's `service.New` fails -/
example : (run .fixed [.begin, .step true, .step true, .step false, .step true, .step true]).map
    (fun s => (s.ret, s.stop, s.st, s.created, s.sdLog)) = some (some false, none, .closed, [1], [1]) := by rfl
example : (run .fixed [.begin, .step true, .step true, .step true, .step true, .post .hup, .pick .hup, .step true, .step true,
    .step true, .step false]).map (fun s => (s.ret, s.stop, s.st, s.created, s.sdLog)) =
    some (some false, none, .starting, [1], [1]) := by rfl

/-- The recorded watch point, made precise: when Run returns because a configuration could not be brought up, it does NOT go
through `shutdown` — the config providers are not shut down, and the state is Closed only for the initial configuration;
after a failed reload it stays Starting (new configuration failed) or Closing (retiring service failed to shut down).
The statement's Closed/providers clause is about the five listed stop reasons (`C20_ends_closed`); for this path it asks
what `C20_start_failure` proves. A "tidy-up" that called `shutdown` here would shut the retiring service down a second
time (`col.service` still points to it when `Get` fails) — the differential and `C20/service/component-shutdown-twice` catch that. -/
theorem C20_failed_bringup_end_state (v : Variant) (s : S) (h : Reachable v s) (hr : s.ret.isSome = true) (hs : s.stop = none) :
    s.provSd = 0 ∧ ((s.everRunning = false ∧ s.st = .closed) ∨ (s.everRunning = true ∧ (s.st = .starting ∨ s.st = .closing))) := by
  have hi := inv_reachable h
  have hpc : s.pc = .done := hi.retDone.1 hr
  refine ⟨?_, hi.doneNoStop hpc hs⟩
  have := hi.prov
  simp only [S.core] at this
  rw [this]; simp [hpc, hs]

/-! ## Shutdown() is safe, idempotent, and (repaired code) never lost -/

/-- one complete `Shutdown()` call: read the state; if the guard passes, `close(shutdownChan)` (`closeStep`) -/
def doCall (v : Variant) (s : S) : Option S :=
  (fire v s .call).bind (fun s1 => if s1.closers > s.closers then fire v s1 .close else some s1)

/-- what `Shutdown()` can influence, apart from the log -/
def S.ext (s : S) : Core × Bool × Nat × Bool × Nat × Nat × Nat × Nat × Nat × Bool :=
  (s.core, s.chanClosed, s.closers, s.ctxDone, s.nWatchOk, s.nWatchErr, s.nHup, s.nTerm, s.nAsync, s.errs)

/-- **Regenerated shape fact** (translator `shutdownshape`, re-extracted from `otelcol/*.go` on every run): every
`close(<x>.shutdownChan)` is under a deferred `recover()` in the same function or inside `sync.Once.Do`. This is the mechanism
that makes a second, concurrent close safe; a non-atomic "peek, then close" is not one. If the source loses it, this
obligation — and with it `C20_shutdown_safe`, `C20_no_caller_panic` — no longer checks. -/
theorem C20_close_is_recovered : Gen.ShutdownShape.closeRecovered = true := by decide

/-- safe from any state and any goroutine: a call is enabled in EVERY state (reachable or not), it never blocks,
it touches nothing but the shutdown channel, and it does not panic in the caller — the last because the `close` is
protected (`C20_close_is_recovered`): guard read and close are two steps, so the channel may have been closed by
another caller in between (`closeStep`) -/
theorem C20_shutdown_safe (v : Variant) (s : S) :
    ∃ s', doCall v s = some s' ∧ s'.core = s.core ∧ s'.closers = s.closers ∧ (s.chanClosed = true → s'.chanClosed = true) ∧
      s'.callerPanic = s.callerPanic := by
  have hrec := C20_close_is_recovered
  by_cases hh : v.honours s.st = true <;> simp [doCall, fire, S.emit, hh, S.core, closeStep, hrec]

/-- **any goroutine, any number of them, concurrently**: in every reachable state — in particular after several callers
have passed the guard before any of them closed (`closers ≥ 2`), in any interleaving with the Run goroutine — no
`Shutdown()` call has panicked in its caller's goroutine. Depends on the regenerated `C20_close_is_recovered`. -/
theorem C20_no_caller_panic (v : Variant) (s : S) (h : Reachable v s) : s.callerPanic = false := by
  obtain ⟨ls, h⟩ := h
  have := callerPanic_runFrom v C20_close_is_recovered ls h
  simpa [init] using this

/-- the mechanism is necessary: with an unprotected `close` (`recovered = false`), of two callers that are both past the
guard the one that closes second panics — whatever the state, whoever goes first -/
theorem C20_double_close_needs_recover (s : S) : (closeStep false (closeStep false s)).callerPanic = true := by
  simp [closeStep]

/-- non-vacuity of `C20_no_caller_panic`: two callers past the guard at once is reachable (Running, two `call`s, then both
`close`), and the second close does find the channel closed -/
example : (run .fixed [.begin, .step true, .step true, .step true, .step true, .call, .call, .close]).map
    (fun s => (s.closers, s.chanClosed, s.callerPanic)) = some (1, true, false) := by decide

/-- idempotent: two calls in a row leave the same state as one call -/
theorem C20_shutdown_idempotent (v : Variant) (s : S) :
    ((doCall v s).bind (doCall v)).map S.ext = (doCall v s).map S.ext := by
  by_cases hh : v.honours s.st = true <;> simp [doCall, fire, S.emit, hh, S.ext, S.core, closeStep]

/-- once the channel is closed, or in state Closed, a call changes nothing -/
theorem C20_shutdown_noop_when_closed (v : Variant) (s : S) (h : s.chanClosed = true ∨ s.st = .closed) :
    (doCall v s).map S.ext = some s.ext := by
  by_cases hh : v.honours s.st = true
  · rcases h with h | h
    · simp [doCall, fire, S.emit, hh, S.ext, S.core, h, closeStep]
    · cases v <;> simp [Variant.honours, h] at hh
  · simp [doCall, fire, S.emit, hh, S.ext, S.core]

/-- **Not lost** (repaired code): in every reachable state in which a `Shutdown()` call has been made after Running was
reached, the shutdown channel is closed, or the calling goroutine is about to close it, or Run has already returned. -/
theorem C20_shutdown_not_lost (s : S) (h : Reachable .fixed s) : NotLost s := by
  obtain ⟨ls, h⟩ := h
  suffices ∀ (ls : List Label) (s0 : S), Inv s0.core → NotLost s0 → runFrom .fixed s0 ls = some s → NotLost s from
    this ls init inv_init (by simp [NotLost, init]) h
  intro ls
  induction ls with
  | nil => intro s0 _ hn h; simp only [runFrom, Option.some.injEq] at h; subst h; exact hn
  | cons l ls ih =>
    intro s0 hi hn h
    simp only [runFrom] at h
    cases hf : fire .fixed s0 l with
    | none => simp [hf] at h
    | some s1 => simp only [hf, Option.bind_some] at h; exact ih s1 (inv_fire .fixed hi hf) (notLost_fire hi hn hf) h

/-- the system is at rest: no goroutine is inside `Shutdown()`, nothing is ready in the select, the Run goroutine is
in the select (or not started / returned) -/
def Quiescent (s : S) : Prop := s.closers = 0 ∧ s.anyReady = false ∧ (s.pc = .select ∨ s.pc = .done ∨ s.pc = .idle)

/-- **Honoured** (repaired code): the collector cannot come to rest in the select with a shutdown request outstanding —
at rest, Run has returned; and (`C20_ends_closed`) if it returned because of the request, in Closed. -/
theorem C20_shutdown_honoured (s : S) (h : Reachable .fixed s) (hr : s.req = true) (hq : Quiescent s) : s.pc = .done := by
  obtain ⟨hc, ha, _⟩ := hq
  rcases C20_shutdown_not_lost s h hr with h1 | h1 | h1
  · simp [S.anyReady, h1] at ha
  · omega
  · exact h1

/-- **The pinned code loses the request**: the full statement fails for `Variant.pinned` — after `lostWitness` a
`Shutdown()` has been made after Running, yet the system is at rest in the select, channel open, Run not returned. -/
theorem C20_shutdown_not_lost_pinned_fails :
    ¬ (∀ s, Reachable .pinned s → s.req = true → Quiescent s → s.pc = .done) := by
  intro hall
  have hw : (run .pinned lostWitness).map (fun s => (s.req, s.closers, s.anyReady, s.pc, s.st, s.chanClosed)) =
      some (true, 0, false, .select, .running, false) := by decide
  cases hs : run .pinned lostWitness with
  | none => simp [hs] at hw
  | some s =>
    simp only [hs, Option.map_some, Option.some.injEq, Prod.mk.injEq] at hw
    obtain ⟨h1, h2, h3, h4, _, _⟩ := hw
    have := hall s ⟨_, hs⟩ h1 ⟨h2, h3, Or.inl h4⟩
    simp [h4] at this

/-- non-vacuity of `C20_shutdown_honoured`: on the repaired code the same history leaves the channel closed … -/
example : (run .fixed (lostWitness ++ [.close])).map (fun s => (s.req, s.chanClosed, s.pc)) = some (true, true, .select) := by
  decide

/-- … and the run then ends Closed with everything shut down exactly once (the hypotheses of `C20_ends_closed` are met) -/
example : (run .fixed (lostWitness ++ [.close, .pick .shutdown, .step true, .step true, .step true, .step true])).map
    (fun s => (s.stop, s.ret, s.st, s.sdLog, s.provSd, s.live)) = some (some .shutdown, some true, .closed, [1, 2], 1, []) := by
  rfl

/-! ## the trace monitor is sound -/

/-- The property on an event log (component create / start / shutdown with generation, provider shutdown, state
samples, `Shutdown()` calls, stop branch, Run's return, "at rest" observations), stated without reference to the
monitor or the model. -/
structure TraceOK (t : List TEv) : Prop where
  /-- between the start of a component and the creation of a component of ANOTHER configuration lies its shutdown -/
  noOverlapCreate : ∀ p1 p2 p3 g c g' c', t = p1 ++ .started g c :: (p2 ++ .created g' c' :: p3) → g ≠ g' → TEv.shut g c ∈ p2
  noOverlapStart : ∀ p1 p2 p3 g c g' c', t = p1 ++ .started g c :: (p2 ++ .started g' c' :: p3) → g ≠ g' → TEv.shut g c ∈ p2
  shutOnce : ∀ g c, t.count (.shut g c) ≤ 1
  provOnce : t.count .prov ≤ 1
  /-- when Run returns every started component has been shut down -/
  retClean : ∀ p ok q, t = p ++ .ret ok :: q → ∀ g c, TEv.started g c ∈ p → TEv.shut g c ∈ p
  /-- … and if a stop branch had been taken, the state is Closed and the providers were shut down exactly once -/
  stopClosed : ∀ p ok q, t = p ++ .ret ok :: q → TEv.stop ∈ p → lastSt .starting p = .closed ∧ p.count .prov = 1
  /-- the system is never at rest with Run not returned after a `Shutdown()` that followed Running -/
  notLost : ∀ p q, t = p ++ .quiet :: q → (∃ p1 p2 p3, p = p1 ++ .st .running :: (p2 ++ .call :: p3)) → ∃ ok, TEv.ret ok ∈ p

/-- soundness of the monitor: a log it accepts satisfies every clause -/
theorem C20_check_sound (t : List TEv) (h : check t = true) : TraceOK t := by
  obtain ⟨m, hm⟩ := check_ok h
  refine ⟨?_, ?_, ?_, ?_, ?_, ?_, ?_⟩
  · intro p1 p2 p3 g c g' c' ht hne
    subst ht
    apply Classical.byContradiction; intro hn
    have hm' : Mon.run {} ((p1 ++ .started g c :: p2) ++ .created g' c' :: p3) = .ok m := by simpa using hm
    obtain ⟨ma, me, h1, h2, _⟩ := Mon.run_split hm'
    have hl : (g, c) ∈ ma.live := Mon.started_live h1 hn
    exact hne (((Mon.step_ok h2).1 g' c' rfl).2 (g, c) hl)
  · intro p1 p2 p3 g c g' c' ht hne
    subst ht
    apply Classical.byContradiction; intro hn
    have hm' : Mon.run {} ((p1 ++ .started g c :: p2) ++ .started g' c' :: p3) = .ok m := by simpa using hm
    obtain ⟨ma, me, h1, h2, _⟩ := Mon.run_split hm'
    have hl : (g, c) ∈ ma.live := Mon.started_live h1 hn
    exact hne (((Mon.step_ok h2).2.1 g' c' rfl).2 (g, c) hl)
  · intro g c
    have := Mon.shut_count hm g c
    simp only [ind, List.not_mem_nil, if_false, Nat.add_zero] at this
    split at this <;> omega
  · have := (Mon.prov_count hm (by simp)).1
    have h2 := (Mon.prov_count hm (by simp)).2
    simp at this; omega
  · intro p ok q ht g c hs
    subst ht
    apply Classical.byContradiction; intro hn
    obtain ⟨ma, me, h1, h2, _⟩ := Mon.run_split hm
    obtain ⟨p1, p2, rfl⟩ := List.append_of_mem hs
    have hl : (g, c) ∈ ma.live := Mon.started_live h1 (fun hh => hn (by simp [hh]))
    have := ((Mon.step_ok h2).2.2.2.2.2.2.2.2 ok rfl).2.1
    rw [this] at hl; cases hl
  · intro p ok q ht hs
    subst ht
    obtain ⟨ma, me, h1, h2, _⟩ := Mon.run_split hm
    have hf := Mon.flags h1
    have hst := ((Mon.step_ok h2).2.2.2.2.2.2.2.2 ok rfl).2.2 (hf.2.1 hs)
    have hp := (Mon.prov_count h1 (by simp)).1
    refine ⟨?_, ?_⟩
    · rw [← hst.1, hf.2.2.2.2.2]
    · simp at hp; omega
  · intro p q ht hex
    subst ht
    obtain ⟨p1, p2, p3, rfl⟩ := hex
    obtain ⟨ma, me, h1, h2, _⟩ := Mon.run_split hm
    obtain ⟨mb, mc, g1, g2, g3⟩ := Mon.run_split h1
    obtain ⟨md, mf, j1, j2, j3⟩ := Mon.run_split g3
    have e1 : mc.everRunning = true := by rw [(Mon.step_ok g2).2.2.2.2.1 .running rfl]; simp
    have e2 : md.everRunning = true := (Mon.flags j1).2.2.1 e1
    have e3 : mf.req = true := by rw [(Mon.step_ok j2).2.2.2.2.2.1 rfl]; simp [e2]
    have e4 : ma.req = true := (Mon.flags j3).2.2.2.1 e3
    have e5 := ((Mon.step_ok h2).2.2.2.2.2.2.2.1 rfl).2 e4
    rcases (Mon.flags h1).2.2.2.2.1 e5 with h0 | h0
    · simp at h0
    · exact h0

/-- non-vacuity: the monitor accepts the log of a run with a reload and a clean stop, rejects a log in which a component of
generation 2 is created while generation 1 is live, and rejects rest-in-select after a `Shutdown()` that followed Running -/
example : check [.st .starting, .created 1 0, .started 1 0, .st .running, .st .closing, .shut 1 0, .st .starting, .created 2 0,
    .started 2 0, .st .running, .call, .stop, .st .closing, .prov, .shut 2 0, .st .closed, .ret true] = true := by decide
example : check [.st .starting, .created 1 0, .started 1 0, .st .running, .st .closing, .created 2 0] = false := by decide
example : check [.st .starting, .created 1 0, .started 1 0, .st .running, .st .closing, .call, .shut 1 0, .st .starting,
    .created 2 0, .started 2 0, .st .running, .quiet] = false := by decide

/-! ## bridge: the model's own logs are accepted by the monitor, hence satisfy the trace-level statement -/

/-- every event log the model can produce — any variant, any interleaving, any failure assignment — is accepted by the
monitor that judges the logs of the real collector -/
theorem C20_model_log_accepted (v : Variant) (s : S) (h : Reachable v s) : check s.log = true := by
  obtain ⟨m, hm, _⟩ := acc_reachable h
  simp [check, hm]

/-- … so the trace-level statement of the property (`TraceOK`, stated without the monitor or the model) holds of every
log of the model: the state-level theorems above and the judgement passed on real logs talk about the same thing -/
theorem C20_model_trace_ok (v : Variant) (s : S) (h : Reachable v s) : TraceOK s.log :=
  C20_check_sound _ (C20_model_log_accepted v s h)

/-- (repaired code) whenever the model is at rest, the observation "at rest" appended to its log is accepted too: the
monitor's lost-request clause never fires on the repaired model … -/
theorem C20_model_quiet_accepted (s : S) (h : Reachable .fixed s) (hq : Quiescent s) : check (s.log ++ [.quiet]) = true := by
  obtain ⟨m, hm, hr⟩ := acc_reachable h
  have hret : s.req = true → s.ret.isSome = true := fun hreq =>
    (inv_reachable h).retDone.2 (C20_shutdown_honoured s h hreq hq)
  have h1 := hr.req
  have h2 := hr.ret
  simp only [S.core] at h2
  by_cases hreq : s.req = true
  · have hne : s.ret ≠ none := by
      intro hn; have := hret hreq; simp [hn] at this
    simp [check, Mon.run_append_ok hm, Mon.run, Mon.step, h1, h2, hreq, hne]
  · simp [check, Mon.run_append_ok hm, Mon.run, Mon.step, h1, hreq]

/-- … while on the pinned model it does: the log of `lostWitness` followed by "at rest" is rejected as a lost request -/
theorem C20_model_quiet_rejected_pinned :
    (run .pinned lostWitness).map (fun s => (s.closers, s.anyReady, s.pc, check (s.log ++ [.quiet]))) =
      some (0, false, .select, false) := by
  decide

/-! ## service.Start / service.Shutdown as many steps: component-level logs -/

/-- Any accepted service-level log stays accepted when every service-level event is replaced by what a real service
does at component level, in the shape C10 proves of `service.Start/Shutdown` (taken here as the definition of `expand`):
generation `g` has `n g` components, all created by `service.New`; `service.Start` starts them one after the other and
stops at the first failure (`k g ≤ n g` started); `service.Shutdown` shuts every one of them down exactly once. -/
theorem C20_expand_accepted (n k : Nat → Nat) (hk : ∀ g, k g ≤ n g) (t : List TEv) (h0 : ∀ e ∈ t, e.idx0 = true)
    (h : check t = true) : check (t.flatMap (expand n k)) = true := by
  obtain ⟨m, hm⟩ := check_ok h
  obtain ⟨M, hM, _⟩ := exp_run (n := n) hk h0
    (⟨by simp, by simp, rfl, rfl, rfl, rfl, rfl, rfl, rfl⟩ : Exp k ({} : Mon) ({} : Mon)) hm
  simp [check, hM]

/-- Hence: for every reachable state of the run-loop model, every choice of component counts and of how far each
`service.Start` got, the component-level log satisfies the trace-level statement (no component of two generations live at
once, each component shut down at most once and — at Run's return — exactly once if started, providers once, Closed
after a stop branch). This is the log format the monitor judges on the real collector (3 components per generation). -/
theorem C20_model_component_trace_ok (v : Variant) (s : S) (h : Reachable v s) (n k : Nat → Nat) (hk : ∀ g, k g ≤ n g) :
    TraceOK (s.log.flatMap (expand n k)) :=
  C20_check_sound _ (C20_expand_accepted n k hk s.log (logIdx0_reachable h) (C20_model_log_accepted v s h))

/-- non-vacuity: 3 components per service, the second generation's Start fails after 1 component -/
example : (run .fixed [.begin, .step true, .step true, .step true, .step true, .post .hup, .pick .hup, .step true, .step true,
    .step true, .step true, .step false, .step true]).map
    (fun s => (s.log.flatMap (expand (fun _ => 3) (fun g => if g = 2 then 1 else 3))).filter
      (fun e => match e with | .started _ _ | .shut _ _ => true | _ => false)) =
    some [.started 1 0, .started 1 1, .started 1 2, .shut 1 0, .shut 1 1, .shut 1 2, .started 2 0, .shut 2 0, .shut 2 1, .shut 2 2] := by
  decide

/-! ## fatal errors reported by components (audit follow-up, issue 1)

`Label.fatal` = a component reports `StatusFatalError` through its host. Repaired host (`fix: do not block the status
reporter …`): the report starts a goroutine that waits to hand the error over on the unbuffered `asyncErrorChannel`
(`nFatal`) and gives up when the service is shut down; the reporting component and the status reporter are not held up. -/

/-- a pending fatal-error hand-over makes the `async` branch of the select ready — from any state of the select -/
theorem C20_fatal_report_is_received (v : Variant) (s : S) (hpc : s.pc = .select) (h : s.nFatal > 0) :
    ∃ s', fire v s (.pick .async) = some s' ∧ s'.stop = some .async ∧ s'.pc = .shut1 := by
  simp [fire, hpc, pickEv, leave, S.emit, h]

/-- … and what is still pending when the service is shut down (reload, failed start, final shutdown) no longer belongs to a
live service: `host.Done` is closed, every such hand-over goroutine is stale and gives up when it next runs (`giveUp`, always
enabled for a stale one — no goroutine is left behind). Until it has run, its send can still be taken by a select: on the real
code a window of a few scheduler quanta (seen once in ≈ 10^5 gated histories); then the reloaded collector stops, orderly, for
the fatal error of a retired component. The gated harness waits for the stale goroutines to be gone before it goes on. -/
theorem C20_fatal_reports_abandoned_at_service_shutdown (s s' : S) (ok : Bool) (g : Nat) (hsvc : s.svc = some g)
    (hpc : s.pc = .reload2 ∨ s.pc = .shut3 ∨ (∃ rl, s.pc = .setupSd rl)) (h : stepRun s ok = some s') :
    s'.nFatal = 0 ∧ s'.nStale = s.nStale + s.nFatal ∧
      (s'.nStale > 0 → ∀ v, ∃ s'', fire v s' .giveUp = some s'' ∧ s''.nStale + 1 = s'.nStale ∧ s''.core = s'.core) := by
  have hg : ∀ (t : S), t.nStale > 0 → ∀ v, ∃ t', fire v t .giveUp = some t' ∧ t'.nStale + 1 = t.nStale ∧ t'.core = t.core := by
    intro t ht v
    refine ⟨{ t with nStale := t.nStale - 1 }, by simp [fire, ht], by simp; omega, rfl⟩
  rcases hpc with hpc | hpc | ⟨rl, hpc⟩
  · cases ok <;> simp [stepRun, hpc, svcShutdown, hsvc, S.emit] at h <;> subst h <;> exact ⟨rfl, rfl, hg _⟩
  · simp [stepRun, hpc, svcShutdown, hsvc, S.emit] at h; subst h; exact ⟨rfl, rfl, hg _⟩
  · cases rl <;> simp [stepRun, hpc, svcShutdown, hsvc, S.emit, failSetup] at h <;> subst h <;> exact ⟨rfl, rfl, hg _⟩

/-- The UNREPAIRED host (`host.AsyncErrorChannel <- event.Err()` inside `NotifyComponentStatusChange`, i.e. with the status
reporter's mutex held): while a report is pending, every statement of the Run goroutine that reports component statuses —
`service.Start` (`setup3`) and `service.Shutdown` (`setupSd`, `reload2`, `shut3`) — blocks on that mutex. -/
def locksReporter : Pc → Bool
  | .setup3 _ | .setupSd _ | .reload2 | .shut3 => true
  | _ => false

def stepRunUnrepairedHost (s : S) (ok : Bool) : Option S :=
  if s.nFatal > 0 && locksReporter s.pc then none else stepRun s ok

/-- history of corpus case 1 of the harness: Running; SIGTERM is taken by the select; a component reports FatalError; the
shutdown proceeds to `service.Shutdown` -/
def wedgeWitness : List Label :=
  [.begin, .step true, .step true, .step true, .step true, .post .term, .pick .term, .fatal, .step true, .step true]

/-- **"Run returns" fails for the unrepaired host** (about the host BEFORE `fix: do not block the status reporter …`, /repo cbd17a389; reproduced on the real collector then, repaired since): after
`wedgeWitness` the run has been stopped by a termination signal, sits before `service.Shutdown` with a fatal report pending,
the next statement of the Run goroutine is disabled whatever its outcome, and nothing any other goroutine does ever changes
that — Run never returns, the state stays Closing. -/
theorem C20_run_returns_unrepaired_host_fails :
    ∃ s, run .fixed wedgeWitness = some s ∧ s.stop = some .term ∧ s.st = .closing ∧ s.ret = none ∧
      (∀ ok, stepRunUnrepairedHost s ok = none) ∧
      (∀ ls s', (∀ l ∈ ls, l.isStep = false) → runFrom .fixed s ls = some s' →
        s'.pc = .shut3 ∧ s'.ret = none ∧ ∀ ok, stepRunUnrepairedHost s' ok = none) := by
  have hw : (run .fixed wedgeWitness).map (fun s => (s.stop, s.st, s.ret, s.pc, s.nFatal)) =
      some (some .term, .closing, none, .shut3, 1) := by decide
  cases hs : run .fixed wedgeWitness with
  | none => simp [hs] at hw
  | some s =>
    simp only [hs, Option.map_some, Option.some.injEq, Prod.mk.injEq] at hw
    obtain ⟨h1, h2, h3, h4, h5⟩ := hw
    refine ⟨s, rfl, h1, h2, h3, ?_, ?_⟩
    · intro ok; simp [stepRunUnrepairedHost, h4, h5, locksReporter]
    · intro ls
      have key : ∀ (ls : List Label) (s0 s' : S), s0.pc = .shut3 → s0.nFatal > 0 → (∀ l ∈ ls, l.isStep = false) →
          runFrom .fixed s0 ls = some s' → s'.pc = .shut3 ∧ s'.nFatal > 0 := by
        intro ls
        induction ls with
        | nil => intro s0 s' a b _ h; simp only [runFrom, Option.some.injEq] at h; subst h; exact ⟨a, b⟩
        | cons l ls ih =>
          intro s0 s' a b hl h
          simp only [runFrom] at h
          cases hf : fire .fixed s0 l with
          | none => simp [hf] at h
          | some s1 =>
            simp only [hf, Option.bind_some] at h
            obtain ⟨a1, b1⟩ := wedged_stable a b (hl l (by simp)) hf
            exact ih s1 s' a1 b1 (fun l' hl' => hl l' (by simp [hl'])) h
      intro s' hl h
      obtain ⟨a, b⟩ := key ls s s' h4 (by omega) hl h
      have hr : Reachable .fixed s' := by
        refine ⟨wedgeWitness ++ ls, ?_⟩
        simp only [run] at hs ⊢
        rw [runFrom_append, hs]; exact h
      have hret : s'.ret = none := by
        cases hx : s'.ret with
        | none => rfl
        | some r => have := (inv_reachable hr).retDone.1 (by simp [S.core, hx]); simp [S.core, a] at this
      exact ⟨a, hret, fun ok => by simp [stepRunUnrepairedHost, a, b, locksReporter]⟩

/-- on the repaired host the same history goes on to Closed: the pending hand-over is stale after `service.Shutdown` -/
example : (run .fixed (wedgeWitness ++ [.step true, .step true])).map (fun s => (s.st, s.ret, s.nFatal, s.nStale, s.sdLog, s.provSd)) =
    some (.closed, some true, 0, 1, [1], 1) := by rfl

/-! ## "a configuration-watch error stops the collector": the watcher is a lossless queue (round 7)

`post watchOk/watchErr` = a provider goroutine calls the resolver's watcher func (`Resolver.onChange`, a BLOCKING send on a
channel of capacity 1): the notification sits in the buffer or its sender waits behind it — either way it is outstanding
(`nWatchOk`, `nWatchErr`) until the select receives it. A non-blocking send would drop what arrives behind an unconsumed one. -/

/-- an outstanding error notification can only go away by being received: along any continuation that does not contain the
select's receive of a watch error, it stays outstanding — whatever else is received, however many reloads happen -/
theorem C20_watch_error_never_lost (v : Variant) (s s' : S) (ls : List Label) (hn : ∀ l ∈ ls, l ≠ .pick .watchErr)
    (h : runFrom v s ls = some s') : s.nWatchErr ≤ s'.nWatchErr := by
  induction ls generalizing s with
  | nil => simp only [runFrom, Option.some.injEq] at h; subst h; exact Nat.le_refl _
  | cons l ls ih =>
    simp only [runFrom] at h
    cases hf : fire v s l with
    | none => simp [hf] at h
    | some s1 =>
      simp only [hf, Option.bind_some] at h
      exact Nat.le_trans (watchErr_fire v (hn l (by simp)) hf) (ih s1 (fun l' hl' => hn l' (by simp [hl'])) h)

/-- … while it is outstanding the collector cannot be at rest, and whenever the Run goroutine is in the select it can be
received, which leaves the loop (then `C20_stop_returns`, `C20_ends_closed`: Run returns, Closed, service and providers shut
down exactly once) -/
theorem C20_watch_error_stops_collector (v : Variant) (s : S) (h : s.nWatchErr > 0) :
    ¬ Quiescent s ∧ (s.pc = .select → ∃ s', fire v s (.pick .watchErr) = some s' ∧ s'.stop = some .watchErr ∧ s'.pc = .shut1) := by
  refine ⟨?_, ?_⟩
  · intro ⟨_, ha, _⟩
    simp [S.anyReady] at ha
    omega
  · intro hpc
    simp [fire, hpc, pickEv, leave, S.emit, h]

/-- non-vacuity (= corpus case 4 of the harness, the round-7 seed's history): a change and then an error are notified while
the collector starts; the change is received first, the reload completes, the error is still outstanding and stops the run -/
example : (run .fixed [.begin, .step true, .step true, .post .watchOk, .post .watchErr, .step true, .step true, .pick .watchOk,
    .step true, .step true, .step true, .step true, .step true, .step true]).map (fun s => (s.pc, s.gen, s.nWatchOk, s.nWatchErr)) =
    some (.select, 2, 0, 1) := by decide

/-! ## Round 2 (second session): the lifecycle FSM, and the model's statements tied to the regenerated source facts

`Gen/CollectorFsm.lean` is rewritten from `otelcol/collector.go` by the translator `collectorfsm` on every run. The
left-hand sides below are COMPUTED FROM THE MODEL (`stepRun`/`pickEv` executed on probe states, their event logs read
back — `Lemmas/C20Fsm.lean`), the right-hand sides are the regenerated data: moving, adding or dropping a
`setCollectorState`, reordering the calls of `setupConfigurationComponents` / `reloadConfiguration` / `shutdown`,
changing what a select branch does or the guard of `Shutdown()` makes these stop checking. -/

/-- the State constants, the state `NewCollector` stores, and: nothing but `NewCollector` and `setCollectorState` writes
the state word -/
theorem C20_state_consts_match_source :
    Gen.CollectorFsm.stateConsts = [CState.starting, .running, .closing, .closed].map CState.name ∧
    Gen.CollectorFsm.initialState = init.st.name ∧
    Gen.CollectorFsm.rawStateWriters = ["Collector.setCollectorState", "NewCollector"] := by decide

/-- every `setCollectorState(X)` of the source is a state-storing statement of the model, same function, same state,
same order, and the model has no other; `sourcePcs` lists every program point that has a statement (the `rl` flag of the
set-up points does not change what the statement stores) -/
theorem C20_set_state_sites_match_source :
    modelSetSites = Gen.CollectorFsm.setSites ∧
    (∀ pc : Pc, pc = .idle ∨ pc = .select ∨ pc = .done ∨
      (pc.unrl ∈ sourcePcs ∧ pc.unrl.func = pc.func ∧ pc.unrl.effects true = pc.effects true ∧
        pc.unrl.effects false = pc.effects false)) := by
  refine ⟨by decide, ?_⟩
  intro pc
  cases pc with
  | idle => simp
  | select => simp
  | done => simp
  | setup1 rl => cases rl <;> decide
  | setup2 rl => cases rl <;> decide
  | setup3 rl => cases rl <;> decide
  | setupSd rl => cases rl <;> decide
  | setup4 rl => cases rl <;> decide
  | initFail => decide
  | reload1 => decide
  | reload2 => decide
  | shut1 => decide
  | shut2 => decide
  | shut3 => decide
  | shut4 => decide

/-- the calls that matter, in the order the source makes them: straight path and error branch of
`setupConfigurationComponents` (a failed `service.Start` is followed by `service.Shutdown` of that service, nothing else),
`reloadConfiguration` (Closing; the retiring `service.Shutdown`; only then set-up), `shutdown` (Closing; providers; service;
Closed), `Run` (set-up; `setCollectorState(Closed)` only on the failure branch) -/
theorem C20_call_order_matches_source :
    straight 8 (.setup1 false) = genSeq "Collector.setupConfigurationComponents" 0 ∧
    Pc.effects (.setupSd false) true = genSeq "Collector.setupConfigurationComponents" 1 ∧
    genSeq "Collector.setupConfigurationComponents" 2 = [] ∧
    straight 8 .reload1 = genSeq "Collector.reloadConfiguration" 0 ∧
    genSeq "Collector.reloadConfiguration" 1 = [] ∧
    straight 8 .shut1 = genSeq "Collector.shutdown" 0 ∧
    genSeq "Collector.shutdown" 1 = [] ∧
    genSeq "Collector.Run" 0 = ["call:setup"] ∧
    genSeq "Collector.Run" 1 = Pc.effects .initFail true := by decide

/-- `DryRun` and `GetState` perform none of the modelled effects (no state store, no service created/started/shut down, no
provider shutdown): they are not labels of the LTS because they change nothing it tracks; `Shutdown()` does exactly one
thing, the guarded `close(shutdownChan)` (`Label.call`/`Label.close`) -/
theorem C20_dry_run_and_shutdown_effects_match_source :
    (∀ d ∈ [0, 1, 2, 3], genSeq "Collector.DryRun" d = [] ∧ genSeq "Collector.GetState" d = []) ∧
    Gen.CollectorFsm.callSeq.lookup "Collector.DryRun" =
      some [(0, "Factories"), (0, "provider.Get"), (0, "Validate"), (0, "service.Validate")] ∧
    Gen.CollectorFsm.callSeq.lookup "Collector.Shutdown" = some [(1, "close:shutdownChan")] := by decide

/-- what each branch of Run's select does (stop = towards `col.shutdown`, reload = `reloadConfiguration`, return on error),
read from the model, equals what the source does; after the loop comes `col.shutdown` -/
theorem C20_select_branches_match_source :
    modelBranches = genBranches ∧ Gen.CollectorFsm.afterLoop = "stop" := by decide

/-- the one branch that is taken BECAUSE the context is done shuts down with a fresh context (`context.Background()`), so the
final `service.Shutdown` / `configProvider.Shutdown` are not handed an already-cancelled context; every other branch passes
Run's own context on (regenerated; the model's `shut2`/`shut3` steps are the same program points for both) -/
theorem C20_ctx_branch_shuts_down_with_background_context :
    Gen.CollectorFsm.selectBranches.lookup "ctx.Done()" = some ("", "stop-background-ctx", "stop-background-ctx") ∧
    (∀ b ∈ Gen.CollectorFsm.selectBranches, b.1 ≠ "ctx.Done()" → b.2.2.1 ≠ "stop-background-ctx" ∧ b.2.2.2 ≠ "stop-background-ctx") := by
  decide

/-- the guard of `Shutdown()` in the source is the guard of `Variant.fixed`, state by state (truth table regenerated) -/
theorem C20_shutdown_guard_matches_source (c : CState) :
    Variant.fixed.honours c = Gen.CollectorFsm.guardHonours.contains c.name := by
  cases c <;> decide

/-- … and it is NOT the pinned guard (the defect `C20_shutdown_not_lost_pinned_fails` is about a guard the source no longer has) -/
theorem C20_shutdown_guard_is_not_pinned :
    ∃ c : CState, Variant.pinned.honours c ≠ Gen.CollectorFsm.guardHonours.contains c.name := ⟨.closing, by decide⟩

/-- **Every transition is in the documented FSM.** In every reachable state, whatever label fires (any goroutine): the
state word stays or moves along an edge of `fsmEdge` (Starting→Running→Closing→Closed, Closing→Starting for a reload,
Starting→Closed for a failed initial set-up); and only statements of the Run goroutine move it. -/
theorem C20_every_transition_in_fsm (v : Variant) (s s' : S) (l : Label) (h : Reachable v s) (hf : fire v s l = some s') :
    (s'.st = s.st ∨ fsmEdge s.st s'.st = true) ∧ ((∀ ok, l ≠ .step ok) → s'.st = s.st) := by
  refine ⟨?_, fun hl => st_external v hf hl⟩
  by_cases hl : ∃ ok, l = .step ok
  · obtain ⟨ok, rfl⟩ := hl
    simp only [fire] at hf
    exact st_step (inv_reachable h) hf
  · left; exact st_external v hf (fun ok h => hl ⟨ok, h⟩)

/-- the whole history of the state word of any run, from `NewCollector`'s Starting, is a (stuttering) path of the FSM -/
theorem C20_state_history_is_fsm_path (v : Variant) (ls : List Label) : fsmPath .starting (stHist v init ls) :=
  stHist_path v ls init inv_init

/-- soundness of the driver's oracle `prop fsm` (`fsmTraceBad` over the state word the implementation showed, one sample per
change): if it accepts, the samples form a path of the FSM and every consecutive pair is an edge -/
theorem C20_fsm_check_sound (a : CState) (cs : List CState) (h : fsmTraceBad (a :: cs) = none) :
    fsmStrict (a :: cs) ∧ fsmPath a cs :=
  ⟨fsmTraceBad_none _ h, fsmStrict_path a cs (fsmTraceBad_none _ h)⟩

/-- … in the form the driver applies it to an event log (`fsmLogBad`: the `st` samples, from `NewCollector`'s Starting,
repeated consecutive samples dropped): an accepted log's state changes are all edges of the FSM -/
theorem C20_fsm_log_check_sound (log : List TEv) (h : fsmLogBad log = none) :
    fsmStrict (dedupAdj (.starting :: log.filterMap TEv.stOf)) :=
  fsmTraceBad_none _ h

/-- **Bridge for the lifecycle oracle**: the event log of EVERY reachable state of the model (either variant, any
interleaving) is accepted by `fsmLogBad` — the oracle judging the real collector's sampled state word cannot alarm on
behaviour the LTS allows, and the state-level theorem `C20_every_transition_in_fsm` and the judgement on real logs are about
the same thing -/
theorem C20_model_state_trace_accepted (v : Variant) (s : S) (h : Reachable v s) : fsmLogBad s.log = none := by
  obtain ⟨ls, h⟩ := h
  have hl := logInv_runFrom v ls inv_init logInv_init h
  exact loose_dedup_ok _ hl.path

/-- the oracle is not vacuous: it accepts start / reload / shutdown, rejects Running → Starting (a reload that skipped
Closing) and Running → Closed (a shutdown that skipped Closing) -/
example : fsmTraceBad [.starting, .running, .closing, .starting, .running, .closing, .closed] = none ∧
    fsmTraceBad [.starting, .running, .starting] = some (.running, .starting) ∧
    fsmTraceBad [.starting, .running, .closed] = some (.running, .closed) := by decide

/-- Closed is terminal: once the state word is Closed no label of any goroutine changes it -/
theorem C20_closed_is_terminal (v : Variant) (s s' : S) (l : Label) (h : Reachable v s) (hc : s.st = .closed)
    (hf : fire v s l = some s') : s'.st = .closed := by
  have hi := inv_reachable h
  have hd : s.pc = .done := hi.closedDone (by simpa [S.core] using hc)
  by_cases hl : ∃ ok, l = .step ok
  · obtain ⟨ok, rfl⟩ := hl
    simp [fire, stepRun, hd] at hf
  · rw [st_external v hf (fun ok h => hl ⟨ok, h⟩)]; exact hc

/-- witnesses: a run and a label whose firing moves the state word along the given edge -/
def edgeWitness : CState → CState → List Label × Label
  | .starting, .starting => ([.begin], .step true)
  | .starting, .running => ([.begin, .step true, .step true, .step true], .step true)
  | .running, .closing => ([.begin, .step true, .step true, .step true, .step true, .post .hup, .pick .hup], .step true)
  | .closing, .starting =>
    ([.begin, .step true, .step true, .step true, .step true, .post .hup, .pick .hup, .step true, .step true], .step true)
  | .closing, .closed =>
    ([.begin, .step true, .step true, .step true, .step true, .call, .close, .pick .shutdown, .step true, .step true, .step true],
     .step true)
  | .starting, .closed => ([.begin, .step true, .step false], .step true)
  | _, _ => ([], .begin)

def realises (a b : CState) : Bool :=
  ((run .fixed (edgeWitness a b).1).bind (fun s => (fire .fixed s (edgeWitness a b).2).map (fun s' => (s.st, s'.st)))) == some (a, b)

/-- no edge of `fsmEdge` is superfluous: each is taken by some reachable transition (so `C20_every_transition_in_fsm`
could not be stated with a smaller relation) -/
theorem C20_fsm_edges_all_realised (a b : CState) (h : fsmEdge a b = true) :
    ∃ s s' l, Reachable .fixed s ∧ fire .fixed s l = some s' ∧ s.st = a ∧ s'.st = b := by
  have hr : realises a b = true := by cases a <;> cases b <;> first | (simp [fsmEdge] at h; done) | decide
  simp only [realises, beq_iff_eq] at hr
  cases h1 : run .fixed (edgeWitness a b).1 with
  | none => simp [h1] at hr
  | some s =>
    simp only [h1, Option.bind_some] at hr
    cases h2 : fire .fixed s (edgeWitness a b).2 with
    | none => simp [h2] at hr
    | some s' =>
      simp only [h2, Option.map_some, Option.some.injEq, Prod.mk.injEq] at hr
      exact ⟨s, s', _, ⟨_, h1⟩, h2, hr.1, hr.2⟩

/-- non-vacuity of `C20_every_transition_in_fsm` / `C20_state_history_is_fsm_path`: a start, a reload, a shutdown -/
example : stHist .fixed init [.begin, .step true, .step true, .step true, .step true, .post .hup, .pick .hup, .step true,
    .step true, .step true, .step true, .step true, .step true, .call, .close, .pick .shutdown, .step true, .step true, .step true, .step true] =
    [.starting, .starting, .starting, .starting, .running, .running, .running, .closing, .closing, .starting, .starting, .starting,
     .running, .running, .running, .running, .closing, .closing, .closing, .closed] := by decide


/-! ## Round 2 (second session): OS signals in front of the run loop (`Model/C20Sig.lean`)

`signal.Notify` / `signal.Stop` / `DisableGracefulShutdown` / the capacity of `signalsChannel` were "OS signal delivery,
outside" so far: the core LTS starts at "a signal entered the channel". The layer `fireS` models the code in between — the
registrations of `Run` (regenerated), the non-blocking hand-over of os/signal into a FIFO channel of the regenerated
capacity — and is tied by an exact differential with REAL signals (`syscall.Kill` to the test process, harness `signals`). -/

/-- the regenerated registrations are of the shape the model knows, and mean: SIGHUP always; SIGINT and SIGTERM unless
`DisableGracefulShutdown`; `signal.Stop` deferred; channel capacities as the model assumes them (signals 3, async error
unbuffered, shutdown channel unbuffered = only ever closed, resolver watcher 1) -/
theorem C20_sig_registrations_match_source :
    notifySet false = [.hup, .int, .term] ∧ notifySet true = [.hup] ∧ sigCap = 3 ∧
    (∀ p ∈ Gen.CollectorFsm.runNotify, (notifyCond false p.1).isSome = true ∧ ∀ n ∈ p.2, (Sig.ofGoName n).isSome = true) ∧
    Gen.CollectorFsm.signalStopDeferred = true ∧
    Gen.CollectorFsm.chanCaps =
      [("shutdownChan", 0), ("signalsChannel", 3), ("asyncErrorChannel", 0), ("resolver.watcher", 1)] := by decide

/-- **Refinement.** Whatever the operating system delivers, in whatever order, interleaved with everything else: the run
loop underneath only makes moves of the LTS of `Model/C20.lean` — so every theorem above (`C20_no_overlap`, `C20_ends_closed`,
`C20_stop_returns`, `C20_shutdown_not_lost`, `C20_every_transition_in_fsm`, …) holds of `ss.core` for every reachable `ss`. -/
theorem C20_sig_layer_refines_run_loop (dg : Bool) (ss : SS) (h : ReachableS dg ss) : Reachable .fixed ss.core := by
  obtain ⟨ls, h⟩ := h
  exact (reachS_inv dg ls (initS dg) ss ⟨[], rfl⟩ (sinv_init dg) rfl h).1

/-- the channel never holds more than its capacity, and the core model's counters are exactly its content -/
theorem C20_sig_channel_within_capacity (dg : Bool) (ss : SS) (h : ReachableS dg ss) :
    ss.q.length ≤ 3 ∧ ss.core.nHup + ss.core.nTerm = ss.q.length ∧ ss.core.nHup = ss.q.count .hup ∧
    ∀ sg ∈ ss.q, sg ∈ notifySet dg := by
  obtain ⟨ls, h⟩ := h
  obtain ⟨_, hi, hd⟩ := reachS_inv dg ls (initS dg) ss ⟨[], rfl⟩ (sinv_init dg) rfl h
  exact ⟨by have := hi.cap; rw [sigCap_eq] at this; exact this, hi.total, hi.hupCount, by rw [← hd]; exact hi.regd⟩

/-- `signalsChannel` is registered exactly from Run's registration step (after the initial set-up, before the first select)
until Run returns; outside that window (before and during the initial set-up, in the instants between
`setCollectorState(StateRunning)` and `signal.Notify`, after Run returned) a signal never reaches the collector: the only effect
of `os sg` is the `ignored` counter -/
theorem C20_sig_registered_exactly_while_running (dg : Bool) (ss : SS) (h : ReachableS dg ss) :
    (ss.notified = if (ss.regDone = true ∧ ss.core.pc ≠ .done) then notifySet dg else []) ∧
    ((ss.regDone = false ∨ ss.core.pc = .done) → ∀ sg, fireS ss (.os sg) = some { ss with ignored := ss.ignored + 1 }) := by
  obtain ⟨ls, h⟩ := h
  obtain ⟨_, hi, hd⟩ := reachS_inv dg ls (initS dg) ss ⟨[], rfl⟩ (sinv_init dg) rfl h
  have hn := hi.notif
  rw [hd] at hn
  refine ⟨hn, ?_⟩
  intro hw sg
  have : ss.notified = [] := by
    rw [hn]; rcases hw with hw | hw <;> simp [hw]
  simp [fireS, this]

/-- **The registration window** (a quirk of the code, modelled as it is): when `setupConfigurationComponents` has stored
StateRunning for the first time the Run goroutine has not yet called `signal.Notify`: in that state (`pc = select`, not
`regDone`) the registration step is enabled and changes nothing but the registrations, no select receive is possible yet (Run
is not in the select), and a signal delivered now does not reach the collector — `GetState() == Running` does not yet mean
"SIGTERM will be handled". The state is reachable (example below). -/
theorem C20_sig_registration_window (ss : SS) (hpc : ss.core.pc = .select) (hreg : ss.regDone = false) :
    (∃ ss', fireS ss .register = some ss' ∧ ss'.core = ss.core ∧ ss'.q = ss.q ∧ ss'.notified = notifySet ss.dg ∧ ss'.regDone = true) ∧
    (∀ e, fireS ss (.core (.pick e)) = none) := by
  refine ⟨⟨{ ss with regDone := true, notified := notifySet ss.dg }, by simp [fireS, hpc, hreg], rfl, rfl, rfl, rfl⟩, ?_⟩
  intro e
  simp [fireS, sigGuard, hreg]

example : (runS false ([.core .begin] ++ List.replicate 4 (.core (.step true)) ++ [.os .term])).map
    (fun ss => (ss.core.pc, ss.core.st, ss.regDone, ss.q.length, ss.ignored)) = some (.select, .running, false, 0, 1) := by decide

/-- **`DisableGracefulShutdown`.** With the setting on, no SIGINT/SIGTERM ever enters the channel and no run is ever stopped
by a termination signal — whatever the OS delivers, whenever -/
theorem C20_sigterm_cannot_stop_when_graceful_shutdown_disabled (ss : SS) (h : ReachableS true ss) :
    ss.core.nTerm = 0 ∧ ss.core.stop ≠ some .term ∧ ∀ sg ∈ ss.q, sg = .hup := by
  obtain ⟨ls, h⟩ := h
  obtain ⟨_, hi, hd⟩ := reachS_inv true ls (initS true) ss ⟨[], rfl⟩ (sinv_init true) rfl h
  have hall : ∀ sg ∈ ss.q, sg = .hup := by
    intro sg hsg
    have := hi.regd sg hsg
    rw [hd, notifySet_true] at this
    simpa using this
  have hc : ss.q.count .hup = ss.q.length := List.count_eq_length.2 (fun a ha => (hall a ha).symm ▸ rfl)
  have h1 := hi.hupCount
  have h2 := hi.total
  exact ⟨by omega, hi.noTermStop hd, hall⟩

/-- **A termination signal stops the collector** (graceful shutdown enabled): while the Run goroutine is in the select with an
empty signal channel, a SIGINT or SIGTERM delivered by the OS enters the channel, the select can receive it, and receiving
it leaves the loop with stop reason `term` — from there `C20_stop_returns` and `C20_ends_closed` (through
`C20_sig_layer_refines_run_loop`): Run returns, Closed, service and providers shut down exactly once. -/
theorem C20_termination_signal_stops (ss : SS) (h : ReachableS false ss) (hpc : ss.core.pc = .select) (hreg : ss.regDone = true)
    (hq : ss.q = []) (sg : Sig) (hsg : sg = .int ∨ sg = .term) :
    ∃ ss1 ss2, fireS ss (.os sg) = some ss1 ∧ fireS ss1 (.core (.pick .term)) = some ss2 ∧
      ss2.core.stop = some .term ∧ ss2.core.pc = .shut1 ∧ ss2.q = [] := by
  have hn := (C20_sig_registered_exactly_while_running false ss h).1
  simp only [hreg, hpc, notifySet_false] at hn
  have hmem : sg ∈ ss.notified := by rw [hn]; rcases hsg with rfl | rfl <;> simp
  have hev : sg.ev = .term := by rcases hsg with rfl | rfl <;> rfl
  have hne : sg ≠ .hup := by rcases hsg with rfl | rfl <;> simp
  have h1 : fireS ss (.os sg) = some { ss with core := { ss.core with nTerm := ss.core.nTerm + 1 }, q := [sg] } := by
    simp [fireS, hmem, hq, sigCap_eq, hev, fire, postEv]
  cases h2 : fireS { ss with core := { ss.core with nTerm := ss.core.nTerm + 1 }, q := [sg] } (.core (.pick .term)) with
  | none => simp [fireS, sigGuard, hne, fire, hpc, pickEv, hreg] at h2
  | some ss2 =>
    refine ⟨_, ss2, h1, h2, ?_⟩
    simp [fireS, sigGuard, hne, fire, hpc, pickEv, SS.upd, leave, S.emit, hreg] at h2
    subst h2
    exact ⟨rfl, rfl, rfl⟩

/-- **SIGHUP reloads**, whatever `DisableGracefulShutdown` says: in the select with an empty channel a SIGHUP enters the
channel and its receive starts `reloadConfiguration` -/
theorem C20_sighup_reloads (dg : Bool) (ss : SS) (h : ReachableS dg ss) (hpc : ss.core.pc = .select) (hreg : ss.regDone = true)
    (hq : ss.q = []) :
    ∃ ss1 ss2, fireS ss (.os .hup) = some ss1 ∧ fireS ss1 (.core (.pick .hup)) = some ss2 ∧
      ss2.core.pc = .reload1 ∧ ss2.core.stop = ss.core.stop ∧ ss2.q = [] := by
  have hn := (C20_sig_registered_exactly_while_running dg ss h).1
  simp only [hreg, hpc] at hn
  have hmem : Sig.hup ∈ ss.notified := by rw [hn]; cases dg <;> simp [notifySet_true, notifySet_false]
  have h1 : fireS ss (.os .hup) = some { ss with core := { ss.core with nHup := ss.core.nHup + 1 }, q := [.hup] } := by
    simp [fireS, hmem, hq, sigCap_eq, Sig.ev, fire, postEv]
  cases h2 : fireS { ss with core := { ss.core with nHup := ss.core.nHup + 1 }, q := [.hup] } (.core (.pick .hup)) with
  | none => simp [fireS, sigGuard, fire, hpc, pickEv, hreg] at h2
  | some ss2 =>
    refine ⟨_, ss2, h1, h2, ?_⟩
    simp [fireS, sigGuard, fire, hpc, pickEv, SS.upd, hreg] at h2
    subst h2
    exact ⟨rfl, rfl, rfl⟩

/-- non-vacuity (= corpus cases of the harness `signals`): graceful shutdown disabled — SIGTERM while Running is ignored,
SIGHUP reloads; four signals during the reload: three enter, the fourth is dropped -/
example : (runS true ([.core .begin] ++ (List.replicate 4 (.core (.step true))) ++ [.register, .os .term, .os .hup, .core (.pick .hup),
    .core (.step true), .os .hup, .os .hup, .os .hup, .os .hup])).map
    (fun ss => (ss.core.pc, ss.core.st, ss.q, ss.dropped, ss.ignored, ss.core.nTerm)) =
    some (.reload2, .closing, [.hup, .hup, .hup], 1, 1, 0) := by decide

/-- … enabled: a signal before Running is reached never arrives; SIGINT while Running stops the run; after Run returned
nothing is registered any more -/
example : (runS false ([.os .term, .core .begin] ++ (List.replicate 4 (.core (.step true))) ++ [.register, .os .int, .core (.pick .term)] ++
    (List.replicate 4 (.core (.step true))) ++ [.os .hup])).map
    (fun ss => (ss.core.st, ss.core.stop == some .term, ss.notified.length, ss.q.length, ss.ignored)) =
    some (.closed, true, 0, 0, 2) := by decide


/-! ## Round 2 (second session): a `Shutdown()` made in ANY state — before `Run`, during the first Starting, during a reload,
while Running — is honoured (the hypothesis "after Running was reached" of `C20_shutdown_not_lost` / `C20_shutdown_honoured`
removed) -/

/-- **Honoured from any state** (repaired guard). Take any state (reachable or not) whose state word is not Closed — `Run` not yet
called, the initial set-up in progress, Running, a reload in progress, the final shutdown in progress. A `Shutdown()` call
passes the guard there, and from then on, along EVERY continuation (any interleaving, any outcomes, any number of reloads):
the channel is closed or a caller is about to close it; the system is never at rest; and whenever the Run goroutine is in the
select with the channel closed it can take the shutdown branch, which leaves the loop (`C20_stop_returns`, `C20_ends_closed`).
In the remaining state, Closed, Run has already returned (`Inv.closedDone`). -/
theorem C20_shutdown_in_any_state_honoured (s s1 : S) (hst : s.st ≠ .closed)
    (hc : fire .fixed s .call = some s1) :
    s1.closers = s.closers + 1 ∧
    ∀ ls s2, runFrom .fixed s1 ls = some s2 →
      (s2.chanClosed = true ∨ s2.closers > 0) ∧ ¬ Quiescent s2 ∧
      (s2.pc = .select → s2.chanClosed = true →
        ∃ s3, fire .fixed s2 (.pick .shutdown) = some s3 ∧ s3.stop = some .shutdown ∧ s3.pc = .shut1) := by
  have hh : Variant.fixed.honours s.st = true := by cases hs : s.st <;> simp_all [Variant.honours]
  simp only [fire, S.emit, hh, if_true, Option.some.injEq] at hc
  subst hc
  refine ⟨rfl, ?_⟩
  intro ls s2 hr
  have hp := pending_runFrom .fixed ls hr (Or.inr (Nat.succ_pos _))
  refine ⟨hp, ?_, ?_⟩
  · intro ⟨h0, ha, _⟩
    rcases hp with hp | hp
    · simp [S.anyReady, hp] at ha
    · omega
  · intro hpc hcl
    exact ⟨leave s2 .shutdown, by simp [fire, hpc, pickEv, hcl], rfl, rfl⟩

/-- … and in state Closed there is nothing left to stop: Run has returned -/
theorem C20_closed_means_run_returned (v : Variant) (s : S) (h : Reachable v s) (hst : s.st = .closed) :
    s.pc = .done ∧ s.ret.isSome = true := by
  have hi := inv_reachable h
  have hd : s.pc = .done := hi.closedDone (by simpa [S.core] using hst)
  exact ⟨hd, hi.retDone.2 (by simpa [S.core] using hd)⟩

/-- non-vacuity: `Shutdown()` BEFORE `Run` is called — the collector starts, reaches Running, its first select takes the
shutdown branch, ends Closed -/
example : (run .fixed [.call, .close, .begin, .step true, .step true, .step true, .step true, .pick .shutdown,
    .step true, .step true, .step true, .step true]).map (fun s => (s.st, s.ret, s.sdLog, s.provSd, s.req)) =
    some (.closed, some true, [1], 1, false) := by decide

/-- how notifications and fatal errors get onto the channels the select reads (regenerated shape facts): the resolver's
`onChange` is a BLOCKING send (what `post watchOk/watchErr` = "outstanding until received" and `C20_watch_error_never_lost`
assume — a `select … default` here is round-7 seed 1); the host hands a component's FatalError over from a goroutine that
gives up at `host.Done` (what `Label.fatal` / `Label.giveUp` model — a plain send here is the host before cbd17a389,
`C20_run_returns_unrepaired_host_fails`) -/
theorem C20_channel_hand_overs_match_source :
    Gen.CollectorFsm.watcherSend = "blocking" ∧ Gen.CollectorFsm.fatalHandover = "goroutine-select-done" := by decide


/-! ## Round 2 (second session): liveness under an EXPLICIT fairness hypothesis ("… and Run returns")

So far "Run returns" was `C20_stop_returns` (the shutdown path, ≤ 4 statements) plus enabledness lemmas, with fairness left
informal. Here the hypothesis is a predicate: `RunMaximal v s` — the history was not cut short while the Run goroutine
could still move (the scheduler is fair to it, the select takes some ready branch) — and "finite history of external
events" is the finiteness of the label list. The ranking function `mu` (`Lemmas/C20Live.lean`) makes it a theorem, for
every interleaving, any number of reloads, any failure assignment. What stays an assumption: every call the Run goroutine
makes returns (it is a `step`), as before. -/

/-- **Bounded work.** Along ANY history from any state, the number of labels the Run goroutine executes is at most
`mu s` + 8 per reload trigger that arrives (SIGHUP / config change entering its channel) + 5 for the call of Run: the
goroutine cannot spin, and only a new reload trigger gives it more to do. -/
theorem C20_run_goroutine_work_is_bounded (v : Variant) (s s' : S) (ls : List Label) (h : runFrom v s ls = some s') :
    runCount ls ≤ mu s + gainSum ls := by
  have := mu_runFrom v ls h
  omega

/-- **Liveness under fairness.** In a reachable state in which the Run goroutine cannot move any more, Run was never called,
or has returned, or waits in the select with nothing ready — there is no other place to get stuck. -/
theorem C20_liveness_under_fairness (v : Variant) (s : S) (hm : RunMaximal v s) :
    s.pc = .idle ∨ s.pc = .done ∨ (s.pc = .select ∧ s.anyReady = false) :=
  runMaximal_rest v s hm

/-- **A stop request under fairness ⇒ Run returns, Closed.** From any reachable state in which Run has been called and the
shutdown channel is closed or the context is cancelled: every history (any interleaving with any further events) that is
not cut short while the Run goroutine can move ends with Run returned; and if it left the loop through a stop branch, in
state Closed with the providers shut down exactly once, nothing live and every created service shut down exactly once. -/
theorem C20_stop_request_under_fairness_returns (v : Variant) (s s' : S) (ls : List Label) (hr : Reachable v s)
    (hpc : s.pc ≠ .idle) (hstop : s.chanClosed = true ∨ s.ctxDone = true)
    (h : runFrom v s ls = some s') (hm : RunMaximal v s') :
    s'.pc = .done ∧ s'.ret.isSome = true ∧
    (∀ e, s'.stop = some e → s'.st = .closed ∧ s'.provSd = 1 ∧ s'.live = [] ∧ ∀ g ∈ s'.created, s'.sdLog.count g = 1) := by
  obtain ⟨k1, k2, k3⟩ := sticky_runFrom v ls h
  have hr' : Reachable v s' := by
    obtain ⟨ls0, h0⟩ := hr
    exact ⟨ls0 ++ ls, by
      show runFrom v init (ls0 ++ ls) = some s'
      rw [runFrom_append]
      have : runFrom v init ls0 = some s := h0
      simp [this, h]⟩
  have hd : s'.pc = .done := by
    rcases runMaximal_rest v s' hm with h1 | h1 | ⟨_, h1⟩
    · exact absurd h1 (k3 hpc)
    · exact h1
    · exfalso
      rcases hstop with hs | hs
      · simp [S.anyReady, k1 hs] at h1
      · simp [S.anyReady, k2 hs] at h1
  have hret : s'.ret.isSome = true := (inv_reachable hr').retDone.2 (by simpa [S.core] using hd)
  refine ⟨hd, hret, ?_⟩
  intro e he
  obtain ⟨_, _, a, b, c, d, _⟩ := C20_ends_closed v s' hr' e he hret
  exact ⟨a, b, c, d⟩

/-- the fairness hypothesis can always be met (it is not vacuous): from every state there is a continuation consisting of at
most `mu s` labels of the Run goroutine alone after which it cannot move — so with `C20_run_goroutine_work_is_bounded`: a fair
scheduler reaches such a state after finitely many steps whenever the external events are finitely many -/
theorem C20_fair_completion_exists (v : Variant) (s : S) :
    ∃ ls s', (∀ l ∈ ls, l.isRun = true) ∧ ls.length ≤ mu s ∧ runFrom v s ls = some s' ∧ RunMaximal v s' :=
  fair_completion v (mu s) s (Nat.le_refl _)

/-- non-vacuity: Running with two SIGHUPs pending and the shutdown channel closed — `mu` = 8·2 + 5 = 21 bounds the work left;
the worst-case fair schedule (both reloads first) uses 19 labels and ends returned and Closed -/
example : (run .fixed [.begin, .step true, .step true, .step true, .step true, .post .hup, .post .hup, .call, .close]).map mu = some 21 ∧
    (run .fixed ([.begin, .step true, .step true, .step true, .step true, .post .hup, .post .hup, .call, .close] ++
      [.pick .hup] ++ List.replicate 6 (.step true) ++ [.pick .hup] ++ List.replicate 6 (.step true) ++
      [.pick .shutdown] ++ List.replicate 4 (.step true))).map (fun s => (s.pc, s.st, mu s)) = some (.done, .closed, 0) := by decide


end OtelVerif.C20
