from ..runner import Harness, Spec
from ..translate import go_translator

_PKG = "exporter/exporterhelper/internal/queuebatch"

SPEC = Spec(
    pid="C01",
    lean_modules=["OtelVerif.Props.C01"],
    translators=[go_translator("pqkeys", "OtelVerif/Gen/PQKeys.lean")],
    harnesses=[
        Harness(name="pq", module="exporter", pkg=_PKG,
                files={"zz_verif_c01_pq_test.go": "c01/pq_test.go"},
                test="TestVerifC01PQ", driver="drv_c01", n={"quick": 30000, "thorough": 300000}, timeout_s=900),
        # blockOnOverflow=true: blocked offers are goroutines; go1.26 synctest gives run-to-quiescence scheduling
        Harness(name="block", module="exporter", pkg=_PKG, go="go1.26",
                files={"zz_verif_c01_pq_test.go": "c01/pq_test.go", "zz_verif_c01_block_test.go": "c01/block_test.go"},
                test="TestVerifC01Block", driver="drv_c01", n={"quick": 4000, "thorough": 60000}, timeout_s=900),
        # an Encoding that does not round-trip (Unmarshal fails on some stored requests): monitor with a live Go oracle
        Harness(name="undec", module="exporter", pkg=_PKG,
                files={"zz_verif_c01_pq_test.go": "c01/pq_test.go"},
                test="TestVerifC01Undecodable", driver=None, n={"quick": 1500, "thorough": 20000}, timeout_s=600),
        Harness(name="codec", module="exporter", pkg=_PKG,
                files={"zz_verif_c01_codec_test.go": "c01/codec_test.go"},
                test="TestVerifC01Codec", driver="drv_c01", n={"quick": 3000, "thorough": 30000}, timeout_s=600),
        # the glue: QueueSender -> QueueBatch -> asyncQueue consumers -> persistentQueue over the real retrySender; monitor only
        Harness(name="e2e", module="exporter", pkg="exporter/exporterhelper/internal",
                files={"zz_verif_c01_e2e_test.go": "c01/e2e_test.go"},
                test="TestVerifC01E2E", driver=None, n={"quick": 60, "thorough": 600}, timeout_s=600),
        # property C01 on REAL exporters (all four signals, generated option sets) over a storage that survives death
        Harness(name="exporter", module="exporter/exporterhelper/xexporterhelper", pkg="exporter/exporterhelper/xexporterhelper",
                files={"zz_verif_c01_exporter_test.go": "c01/exporter_test.go"},
                test="TestVerifC01Exporter", driver="drv_c01", n={"quick": 160, "thorough": 2400}, timeout_s=900),
        # a stored request exported in several flushes with a different outcome per flush (permanent / ok / parked in the retry
        # back-off), clean Shutdown, restart on the same storage; real exporters, all four signals, both batcher configurations
        Harness(name="split", module="exporter/exporterhelper/xexporterhelper", pkg="exporter/exporterhelper/xexporterhelper",
                files={"zz_verif_c01_exporter_test.go": "c01/exporter_test.go",
                       "zz_verif_c01_exporter_split_test.go": "c01/exporter_split_test.go"},
                test="TestVerifC01ExporterSplit", driver="drv_c01", n={"quick": 48, "thorough": 480}, timeout_s=900),
        # LAWFUL ENCODING on the real encodings of the four signals (monitor, Go oracle): stored bytes decode, to the same request
        Harness(name="enc", module="exporter/exporterhelper/xexporterhelper", pkg="exporter/exporterhelper/xexporterhelper",
                files={"zz_verif_c01_encoding_test.go": "c01/encoding_test.go"},
                test="TestVerifC01Encoding", driver=None, n={"quick": 2000, "thorough": 20000}, timeout_s=600),
        # the glue machine (Model/C01Glue.lean): exact differential against NewQueueSender -> QueueBatch -> asyncQueue consumers ->
        # persistentQueue over the real retrySender, go1.26 synctest (run to quiescence after every op, blocking export function)
        Harness(name="glue", module="exporter", pkg="exporter/exporterhelper/internal", go="go1.26",
                files={"zz_verif_c01_glue_test.go": "c01/glue_test.go"},
                test="TestVerifC01Glue", driver="drv_c01", n={"quick": 6000, "thorough": 60000}, timeout_s=900),
        # options -> BaseExporter fields -> merged queue configuration (Model/C01Config.lean: applyOpts, hasQueueSender, mergeLegacy)
        Harness(name="config", module="exporter", pkg="exporter/exporterhelper/internal", go="go1.26",
                files={"zz_verif_c01_glue_test.go": "c01/glue_test.go", "zz_verif_c01_config_test.go": "c01/config_test.go"},
                test="TestVerifC01Config", driver="drv_c01", n={"quick": 3000, "thorough": 30000}, timeout_s=600),
        # Config -> the queue object newQueueBatch builds, and Config.Validate (Model/C01Config.lean: build, validate)
        Harness(name="cfgbuild", module="exporter", pkg=_PKG,
                files={"zz_verif_c01_config_build_test.go": "c01/config_build_test.go"},
                test="TestVerifC01ConfigBuild", driver="drv_c01", n={"quick": 3000, "thorough": 30000}, timeout_s=600),
    ],
    rule="pq: the REAL persistentQueue[uint64] (Start/Offer/Read/OnDone/Shutdown) on a map-backed storage.Client that can kill "
         "the incarnation right after its k-th call (panic unwinds the operation; a new queue object is started on the same map). "
         "Cases 0-7 are the corpus (the witnesses of the three defects of the pinned tree, deaths at each kind of batch, two hand-offs in flight with shutdown-error then final completion, death before the first read ever); every 20th case also deletes stored items behind the queue (extension, differential only: exercises the missing-item branches); the rest "
         "are random scripts of 1-40 ops (40-100 for capacities >= 30, to cross the %10 size back-ups) over offer(size 0-5) / read / "
         "done(final|permanent|shutdown error, random outstanding hand-off) / shutdown / process exit / start, capacity 1-8 requests or "
         "1-24 items, death probability per op 0/10/25/50 % with k uniform over the storage calls of the op (start: over all calls of "
         "recovery), any number of deaths, also death during the recovery that follows a death. Every case ends with exit + clean start + "
         "complete drain. After EVERY op the return value, Size() and a canonical dump of the raw storage map are compared with the "
         "Lean model. non-trivial = at least one death landed inside an operation (after one of its storage calls, before it returned). "
         "thorough adds the exhaustive enumeration of all scripts of <= 9 ops incl. the first start (cap 2, request sizer) x every death position x <= 2 deaths. "
         "Every 4th case (mode=err) is the EXTENSION beyond the property: the k-th storage call of an op returns an error without "
         "effect (any subset of the calls of an op, mixed with deaths); those cases are tied by the exact differential only, no "
         "property oracle judges them (stat ext_err_* counters show the give-up points were exercised). The outcome handed to "
         "OnDone is a random wrap / errors.Join / multierr tree; oc=shut iff the tree contains a shutdown error (Go oracle on the "
         "real experr.IsShutdownErr + Lean outcomeOf on the printed shape). "
         "block (go1.26 synctest): the same differential for blockOnOverflow=true: offers that find the queue full run in their "
         "own goroutine and park in hasMoreSpace.Wait; after every op the run is driven to quiescence; the producers it woke "
         "(hasMoreSpace.Broadcast since c2c5f2c26: all of them) are parked at a gate in the condition's injectable Locker, not holding the "
         "queue mutex, until the op's observation is written; then the harness lets them re-lock one at a time in a random order and "
         "tells the model which (`op wake j=` = labels promote j, wake; admitted / re-blocked as youngest waiter; deaths after the k-th "
         "call); random cancellations of blocked offers; requests larger than the capacity. "
         "codec: random values / arrays / truncated, oversized and inconsistent buffers through the four index codec functions. "
         "e2e (monitor, Go oracle): the real QueueSender + QueueBatch + asyncQueue consumers + persistentQueue over the real retrySender "
         "(1h back-off), 1-4 requests whose destination succeeds / rejects permanently / fails retryably; shutdown in BaseExporter order "
         "interrupts the retries (shutdown error), then a second incarnation on the same storage must deliver every interrupted request; "
         "non-trivial = at least one hand-off was interrupted by shutdown. Every 3rd e2e case enables sending_queue::batch with "
         "min=max size so that every stored request is exported in 2-4 parts, the destination is down at shutdown (the part errors "
         "are combined into one multi-error of shutdown errors), and the second incarnation must deliver every item. "
         "exporter (monitor: Go oracle + the proven-sound Lean trace checker, model c01-exporter): REAL exporters built through the "
         "public constructors NewTraces / NewMetrics / NewLogs / xexporterhelper.NewProfilesExporter (signal = case mod 4) with a generated "
         "option set (WithQueue | WithQueueBatch | WithQueue+legacy WithBatcher in both orders | sending_queue::batch; queue size 1-3, "
         "1-2 consumers, block_on_overflow on/off, retry on/off, wait_for_result off) and sending_queue::storage on an in-process storage "
         "extension whose map survives death. 1-3 incarnations die (abandoned without Shutdown, or right after the k-th storage call; "
         "some with ENOSPC-like failing enqueue batches as extension: refused offers create no obligation), destination ok / permanent "
         "error / retryable error / hanging; the last incarnation is healthy and drains. Payloads carry an id resource attribute. Oracle: "
         "every ConsumeX that returned nil is handed to the export function by a live incarnation at least once, and at every death it is "
         "still in the storage bytes unless a hand-off of it has returned; signatures C01/exporter/<what>/<signal>/<option shape>. "
         "undec (monitor, Go oracle, no model): random pq scripts with deaths under an Encoding whose Unmarshal fails for a quarter of the "
         "offered ids; decodable requests are checked live (stored until finalised, handed over), undecodable ones that leave storage "
         "without a hand-off are reported and counted. "
         "Since round 2 (second session): every third `done` of pq/block reaches the queue through the REAL refCountDone (default_batcher.go) "
         "with one error per flush (2-3 flushes; oc=shut iff SOME flush is shutdown-classified, at a random position, the others nil / plain / "
         "permanent / shutdown): `tr errparts`, the Lean `aggregate` must classify alike; offers are also generated AFTER Shutdown (no blocking ones). "
         "split (real exporters, all four signals x {legacy WithBatcher, sending_queue::batch}, persistent queue, 1 consumer, retry back-off 1 h): "
         "1-3 requests of 2-3 flushes each (max_size = items/flushes), one planned behaviour per flush (ok | permanent | retryable = parked in the "
         "back-off until Shutdown); clean Shutdown in BaseExporter order; oracle: a request not all of whose flushes returned finally is still stored "
         "(also when an earlier flush failed permanently) and is handed over completely by a second incarnation; cases 0-7 = plan [permanent, retryable] "
         "for every signal and batcher configuration; non-trivial = some request was interrupted by the shutdown. "
         "glue (go1.26 synctest, EXACT differential against Model/C01Glue.lean): real NewQueueSender -> QueueBatch -> obsQueue -> asyncQueue (1-2 consumer "
         "goroutines) -> disabledBatcher -> persistentQueue (capacity 1-4) over the real retrySender (or none), export function that blocks until the "
         "harness lets it return ok / permanent / retryable; random scripts of 4-33 ops over offer (also after queue Shutdown) / ret / timer (virtual "
         "hour: the back-offs fire) / retrySender.Shutdown / QueueBatch.Shutdown / crash / start, deaths right after the k-th storage call of an op "
         "(0/10/25 % per op, also inside recovery and inside the reads that consumers start on their own); after every op: run to quiescence, compare "
         "result, requests inside the export function, requests parked in the back-off, decoded storage; every case ends with crash + start + drain; "
         "non-trivial = a death landed inside an op; Lean trace oracle on the implementation's events (accept / export invoked / export returned "
         "finally / reachable ids). "
         "enc (monitor, Go oracle): generated payloads of all four signals (1-3 resources, scopes, 0-3 items each, attributes of every value "
         "kind incl. nested maps, bytes, empty and non-ASCII strings; span events/links; all five metric types; log bodies; profiles with "
         "samples): the proto bytes the queue stores must be decoded by the signal's registered Encoding (else the queue deletes the item "
         "without hand-off), to a request with the same item count whose Marshal gives the same bytes. "
         "config / cfgbuild (exact differential against Model/C01Config.lean): config = 1-4 random options (WithQueueBatch with a random "
         "Config incl. disabled ones, WithBatcher, WithRetry, any order; cases 0-3 = enabled persistent queue next to the legacy batcher) "
         "through the real NewBaseExporter, then the fields of the BaseExporter (queue config, batcher config, retry, queue sender / retry "
         "sender present) and newQueueBatchConfig of them; cfgbuild = random Config (all sizers incl. one without registered sizer, storage "
         "id or not, batch or not, legacy or not) through the real newQueueBatch (inspected: memory or persistent queue, storage id, capacity, "
         "blocking, sizer, consumers, batcher and its sizer) and Config.Validate (which check fails first); Lean oracles on the implementation: a "
         "config with storage is built as a persistent queue on that storage with the configured capacity and blocking; the legacy merge keeps "
         "storage / size / blocking / consumers; non-trivial = a storage id is configured. "
         "distinct = distinct op sequences (sha1 of the op lines).",
    trusted_base=[
        "Lean 4.33.0 kernel; axioms per theorem listed under axioms_per_theorem (subset of propext, Classical.choice, Quot.sound)",
        "hand-written model Model/C01.lean of persistent_queue.go (as repaired by the two fix commits), one model firing per storage.Client "
        "call; tied by exact differential after every op (return value, Size(), raw store dump) on every run",
        "storage.Client contract (extension/xextension/storage): Batch is atomic and durable, Get of a missing key returns nil, "
        "Delete of a missing key is a no-op; the process dies only between two client calls",
        "the index byte codecs are modelled and proved separately (C01_index_codec, C01_index_array_codec) and tied by their own "
        "differential; in every 16th pq/block case the raw storage map is printed in hex and decoded by the Lean functions readIndexes / "
        "readDi / readItemWith (the subjects of C01_bytes_refine) and compared with the model's store (prop bytes)",
        "indexes are natural numbers in the model (uint64 in the code): fewer than 2^64 enqueues over the life of a storage directory",
        "operations on one queue are serialised by persistentQueue.mu, so a sequential model is sound; goroutine-level concurrency of "
        "producers/consumers is C02/C03",
        "harness/c01/pq_test.go (death injection by panic from the storage client, decoding of the raw map) and lib/runner.py (diff)",
        "translator translators/cmd/pqkeys (go/ast): durable key names, radix of getItemKey, widths / byte order (call sequence) of the "
        "index codecs, moduli and remainders of the periodic size back-ups -> Gen/PQKeys.lean; the back-up periods are used by the model, "
        "the rest is pinned by C01_gen_key_names / C01_gen_keys_ok / C01_gen_codec_constants and used by C01_bytes_refine; it also "
        "fails unless asyncQueue's consumer loop and disabledBatcher.Consume have the pinned shape (Done called with the export's outcome)",
        "blockOnOverflow: which woken producer re-locks the queue mutex next is the Go scheduler's choice (label `promote j`, any j, any "
        "time; `wake` lets the head re-check); the harness imposes the order through the condition's injectable Locker and reports it; "
        "cond.go itself is C02",
        "classification of the error handed to OnDone: experr.IsShutdownErr(err) = the error tree contains a shutdown error "
        "(C01_classification_iff on the model side, direct differential on the real function over wrap/join/multierr trees)",
        "extension only (storage errors): a storage call that returns an error has no effect on the stored data",
        "glue machine Model/C01Glue.lean (asyncQueue consumer loop, disabledBatcher.Consume, export closure of NewQueueSender, "
        "retrySender.Send outcomes, OnDone classification, BaseExporter shutdown order): hand-written, tied by the exact differential of "
        "harness glue (real stack under synctest; which goroutine takes which item is not observable, the driver lets the lowest idle one "
        "read) and by translator data (C01_gen_glue_shapes: consumer loop, Consume, refCountDone combination, export closure, stopCh "
        "branches, onDone keep-guard, shutdown order, all regenerated from the source). Environment of the glue machine: the export "
        "function (what it returns and when), the Go scheduler (which goroutine runs), timers",
        "configuration model Model/C01Config.lean (WithQueueBatch / WithBatcher / WithRetry, NewBaseExporter's choice of senders, "
        "newQueueBatchConfig, newQueueBatch, Config.Validate): hand-written, exact differentials config / cfgbuild on every run; "
        "component.ID abstracted to a number, math.MaxInt / runtime.NumCPU passed in as observed",
        "death model of harness glue / split / exporter: the storage client of the incarnation goes dead right after the k-th call "
        "(everything the incarnation does afterwards has no durable effect) instead of unwinding the goroutine",
    ],
    assumptions=[
        "SCOPE OF THE PROOF: queue level = persistent_queue.go (`handed` = Read returned). Glue level = Model/C01Glue.lean: the consumer "
        "goroutines of asyncQueue, disabledBatcher.Consume, the export closure, retrySender.Send and the classification in onDone are "
        "MODELLED and proved (refinement to the queue machine, Done only on pending hand-offs, finalised only after the export returned, "
        "retry interrupted by shutdown keeps the request, exported at least once under a fair schedule) and tied by an exact differential. "
        "NOT in the glue machine: the batching consumer defaultBatcher (merge/split, timers, worker pool) - of it only the error "
        "combination of refCountDone is modelled (C01_refcount_aggregate_shutdown_iff, driven through the real refCountDone in pq/block) "
        "and the whole is MONITORED on real exporters (harnesses split, exporter, e2e); obs_report_sender / timeout_sender / option merging "
        "are monitored only (harness exporter). `retry interrupted by shutdown returns a shutdown error` is also C05's theorem",
        "LAWFUL ENCODING: Unmarshal succeeds on every stored request body. The code deletes an item whose Unmarshal fails (getNextItem, "
        "recovery) without any hand-off; the model stores requests, not bytes, so clause B is proved for encodings that decode what they "
        "encoded (harness undec runs an encoding that does not, with a live oracle for the decodable requests, and counts the others; "
        "harness enc checks the round trip of the REAL encodings of the four signals on generated payloads - sampled, not proved: the "
        "proto codecs of pdata are C07/C08's subject)",
        "IDENTITY: requests are compared by value, the id is their identity; the per-request reading is proved for scripts whose offers "
        "are pairwise different (C01_no_loss_distinct) and every script is the image of such a script under a renaming of ids that "
        "commutes with the machine (C01_fire_id_blind, C01_no_loss_every_script) - no assumption left here for the queue machine; the "
        "glue machine and the error extension are not re-proved id-blind",
        "Done once per hand-off, on the handing incarnation: PROVED for the glue machine (disabledBatcher path: "
        "C01_glue_done_only_on_pending_handoff, C01_glue_held_is_pending); with the batching consumer it rests on refCountDone calling the "
        "queue's Done exactly when its counter reaches zero (shape pinned by the translator; C04 models the counter)",
        "`accepted` in the theorems = enqueue batch committed, a superset of `Offer returned nil` (C01_offer_ok_accepted)",
        "storage calls that RETURN AN ERROR are outside the property (it quantifies over deaths); they are modelled and injected as an "
        "extension (Model/C01Err.lean, mode=err, differential only, C01_ext_errors_*), including the fallbacks of itemDispatchingFinish",
        "FAIRNESS of the liveness theorems (C01_handed_at_least_once, C01_drain*, C01_glue_exported_at_least_once): eventually one start-up "
        "and one drain complete without a further death, a consumer goroutine is scheduled, the export function returns and the outcome "
        "is final (the schedule is a total function of the model: restart/drainAll, restartG/drainAllG)",
        "C01_glue_shutdown_outcome_only_when_stopping assumes that the export function itself never returns a shutdown-classified error",
    ],
)

# development aid: VERIF_C01_ONLY=glue,split ./check C01 runs only the named harnesses (never set in sweeps)
import os as _os
if _os.environ.get("VERIF_C01_ONLY"):
    _only = set(_os.environ["VERIF_C01_ONLY"].split(","))
    SPEC.harnesses = [h for h in SPEC.harnesses if h.name in _only]
