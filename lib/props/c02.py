import os

from ..runner import Harness, Spec
from ..translate import go_translator

_PKG = "exporter/exporterhelper/internal/queuebatch"

def _post(ctx):
    """evidence: how often the driver's re-lock-order search (several producers woken by one Broadcast) was cut short.
    Such a step is NOT a difference: the implementation's line is accepted and the case is not diffed any further."""
    n = 0
    for hname in ("queue", "persistent"):
        p = os.path.join(ctx.scratch, hname, "model.txt")
        try:
            with open(p) as f:
                for line in f:
                    if line.startswith("stat lockorder_exhausted"):
                        n += int(line.split()[2])
        except OSError:
            pass
    ctx.cov["stats"].setdefault("driver", {})["lockorder_exhausted"] = n
    ctx.log("re-lock-order searches cut short (accepted, not diffed): %d" % n)


SPEC = Spec(
    pid="C02",
    post=_post,
    # shared with C01 (same generator, same file): key names and radix of getItemKey, for C02_item_keys_never_collide_with_metadata
    translators=[go_translator("pqkeys", "OtelVerif/Gen/PQKeys.lean"),
                 # own: guard tables of Offer / add / putInternal and the Signal/Broadcast call sites, consumed by C02_*_regenerated
                 go_translator("queueguards", "OtelVerif/Gen/QueueGuards.lean")],
    lean_modules=["OtelVerif.Props.C02"],
    harnesses=[
        Harness(name="cond", module="exporter", pkg=_PKG, files={"zz_verif_c02_cond_test.go": "c02/cond_test.go"},
                test="TestVerifC02Cond", driver="drv_c02", go="go1.26", n={"quick": 20000, "thorough": 300000}, timeout_s=1500),
        Harness(name="queue", module="exporter", pkg=_PKG, files={"zz_verif_c02_queue_test.go": "c02/queue_test.go"},
                test="TestVerifC02Queue", driver="drv_c02", go="go1.26", n={"quick": 12000, "thorough": 200000}, timeout_s=1500),
        Harness(name="persistent", module="exporter", pkg=_PKG, files={"zz_verif_c02_persistent_test.go": "c02/persistent_test.go", "zz_verif_c02_queue_test.go": "c02/queue_test.go"},
                test="TestVerifC02Persistent", driver="drv_c02", go="go1.26", n={"quick": 4000, "thorough": 60000}, timeout_s=1500),
        Harness(name="soak", module="exporter", pkg=_PKG, files={"zz_verif_c02_soak_test.go": "c02/soak_test.go", "zz_verif_c02_queue_test.go": "c02/queue_test.go"},
                test="TestVerifC02Soak", driver="drv_c02", go="go1.26", n={"quick": 300, "thorough": 30000}, timeout_s=1500),
        Harness(name="pqsize", module="exporter", pkg=_PKG, files={"zz_verif_c02_pqsize_test.go": "c02/pqsize_test.go"},
                test="TestVerifC02PQSize", driver="drv_c02", go="go1.26", n={"quick": 4000, "thorough": 120000}, timeout_s=1500),
        Harness(name="async", module="exporter", pkg=_PKG, files={"zz_verif_c02_async_test.go": "c02/async_test.go"},
                test="TestVerifC02Async", driver="drv_c02", go="go1.26", n={"quick": 3000, "thorough": 60000}, timeout_s=1500),
        Harness(name="validate", module="exporter", pkg=_PKG, files={"zz_verif_c02_validate_test.go": "c02/validate_test.go"},
                test="TestVerifC02Validate", driver="drv_c02", go="go1.26", n={"quick": 4000, "thorough": 60000}, timeout_s=900),
        Harness(name="config", module="exporter", pkg="exporter/exporterhelper/internal", files={"zz_verif_c02_config_test.go": "c02/config_test.go"},
                test="TestVerifC02Config", driver="drv_c02", go="go1.26", n={"quick": 1500, "thorough": 30000}, timeout_s=1500,
                mod_append=["require go.opentelemetry.io/collector/pipeline/xpipeline v0.124.0",
                            "replace go.opentelemetry.io/collector/pipeline/xpipeline => $REPO/pipeline/xpipeline"]),
    ],
    rule="cond: the real cond with a scheduler-controlled sync.Locker in a synctest bubble; random schedules of start/grant/cancel over "
         "1-4 waiters and 1-4 signallers/broadcasters (4-32 labels + a finishing phase; corpus cases 0-1 = the design-phase deadlock "
         "witness); after every label run to quiescence, status vector diffed against the Lean LTS; non-trivial = a started waiter was "
         "cancelled and a Signal/Broadcast ran while a waiter was inside Wait. queue: the real memoryQueue in a synctest bubble, random "
         "labels offer/cancel/read/done/shutdown (capacity 1-10, all four block_on_overflow x wait_for_result settings, sizes incl. 0, "
         "negative, > capacity, contexts ended before Offer), then drained; Size(), the linked list and every Offer/Read result diffed "
         "after every label; non-trivial = some producer was blocked for space at a quiescent point. persistent: the same script runner on the "
         "real persistentQueue over the mock storage extension (items or requests sizer, sizes incl. 0 and > capacity, queued ids read back "
         "from storage), diffed against the Lean LTS pfire. soak: real memory/persistent queue behind the real asyncQueue under the native "
         "scheduler (2-6 producers x 5-30 offers, contexts ending after 0-300us, 1-3 consumers completing inline or from other goroutines), "
         "event log judged by the Lean monitor soakAll. config: the exporter is built through the real constructors (NewBaseExporter + WithQueueBatchSettings "
         "+ WithQueueBatch / WithBatcher in both orders -> NewQueueSender -> newQueueBatchConfig -> newQueueBatch -> obsQueue -> asyncQueue -> "
         "memoryQueue) over sizer (requests/items/bytes) x queue_size x legacy batcher on/off (+ its sizes) x sending_queue::batch on/off x "
         "block_on_overflow x wait_for_result x consumers x queue enabled/disabled x signal (traces/metrics/logs/profiles), multi-item requests, "
         "export blocked, a quarter of the exports failing when no batcher is on (wait_for_result outcomes); the REPORTED queue "
         "size/capacity gauges and every Send result are diffed against the memory-queue model instantiated from the configuration AS WRITTEN "
         "(capacity = queue_size, size = written sizer of the request); then the export is released and everything must drain to size 0. "
         "queue/persistent scripts also contain: corpus cases 0-1 (head-of-line witness; Shutdown with two blocked producers), burst labels, "
         "mid-run Shutdown (persistent: blocked contexts are ended first, no Offer afterwards), for the persistent queue completions with a shutdown-classified error (`done id 3` = "
         "experr.NewShutdownErr: the size is released and blocked producers must be woken all the same), and a restart "
         "pre-phase (1/4 of the cases: an earlier life leaves 1-6 requests, optionally a stale `si` snapshot, this life may have a smaller "
         "capacity; `op restore`). pqsize (round 2/second session): the real non-blocking persistentQueue driven SEQUENTIALLY through several "
         "lives on one mock storage (8-100 ops: offer of 0-5 items, read, completion - a seventh with a shutdown error -, Shutdown, restart with "
         "or without a preceding Shutdown, with a new capacity and in a fifth of the restarts the other sizer; a third of the cases long enough "
         "for the `wi % 10 == 5` / `ri % 10 == 0` back-ups); after every op Size(), ri, wi, the in-memory and the stored dispatched list, the "
         "stored `si` snapshot and the stored requests are diffed against Model/C02R.lean; the storage is wrapped so that the script can make "
         "Set(queueSizeKey) fail for a while (`op failsi`, 1/25 per op: a failing back-up must not turn a committed write into a refused Offer); non-trivial = some restart restored a non-zero size. "
         "async: the real asyncQueue (1-4 consumers) over the real memory / persistent queue in a synctest bubble; consumeFunc blocks on a "
         "per-request gate (or returns at once and the script completes the Done later, as a batcher does); labels offer/cancel/release/done/"
         "shutdown, at most one producer blocked at a time; Size(), queued ids, the SET of requests inside consumeFunc, Offer results and "
         "'Shutdown returned' diffed against the pool LTS Model/C02A.lean. validate: Config.Validate / BatchConfig.Validate on configurations "
         "drawn around the edges (0, -1, 1, storage x sizer x wait_for_result, batch x sizer), verdicts diffed against Model/C02V.lean. "
         "config now also writes `storage` (a sixth of the cases: persistent queue through the real constructors, requests sizer, plain "
         "shape; the model is pfire with the exporter's consumers parked at start). distinct = distinct op sequences (sha1 of the op lines).",
    trusted_base=[
        "translator translators/cmd/queueguards (go/ast, own): guard sequence of memoryQueue.Offer, overflow loops of memoryQueue.add / "
        "persistentQueue.putInternal (condition, guards before Wait, guards after the loop) and every Signal/Broadcast call site on the two "
        "condition variables -> Gen/QueueGuards.lean; Model/C02G.lean interprets the tables and C02_offer_guards_regenerated / "
        "C02_add_loop_regenerated / C02_put_loop_regenerated / C02_wakeup_sites_regenerated prove that the hand-written transitions ARE the "
        "interpretation of the regenerated tables (trusted: the 40-line interpreter's reading of the operator/operand tokens)",
        "Model/C02R.lean (persistent size accounting across lives: writeInternal, getNextItem's reset, onDone incl. shutdown error and "
        "swap-with-last removal, backupQueueSize cadence from Gen/PQKeys, initPersistentContiguousStorage, retrieveAndEnqueueNotDispatchedReqs), "
        "Model/C02A.lean (asyncQueue's consumer loop as a layer over fire/pfire), Model/C02V.lean (Config.Validate, BatchConfig.Validate): "
        "hand-written, each tied by exact differential on every run (harnesses pqsize, async, validate)",
        "fair-run theorems: an infinite run is a pair of functions Nat -> St / Nat -> Option Label with every instant a stutter or an enabled "
        "label (IsRun / PIsRun); fairness is a HYPOTHESIS of the theorems (SchedFair / PSchedFair: whenever some goroutine step is enabled, "
        "eventually some goroutine step is taken; ConsFair: whenever a request is queued or in flight, eventually one is taken or completed) - "
        "that the Go scheduler, sync.Mutex and the exporter's consumers satisfy them is not proved",
        "translator translators/cmd/pqkeys (go/ast, owned by C01, reused): the four metadata key names and the radix of getItemKey -> "
        "Gen/PQKeys.lean, for C02_item_keys_never_collide_with_metadata (request identity in the persistent model)",
        "Lean 4.33.0 kernel; axioms per theorem listed under axioms_per_theorem (subset of propext, Classical.choice, Quot.sound)",
        "hand-written LTS of memory_queue.go (Offer/add/Read/onDone/Shutdown) and of the repaired cond.go, tied by exact differential at "
        "quiescence after every label (queue) and at every lock hand-over (cond) on every run",
        "a mutex critical section is one atomic transition: every shared field is accessed under mu and nothing inside a section of the "
        "repaired code can block (close(ch), sync.Cond.Signal/Broadcast, send on the fresh capacity-1 blockingDone.ch) - Go semantics, "
        "checked on the real code by the cond harness (oracle C02/cond/blocks-holding-lock)",
        "sync.Cond (hasMoreElements) is modelled exactly: no spurious wake-ups, Signal notifies the longest-parked consumer (runtime "
        "notifyList order), a notified consumer re-evaluates Read; burst labels run under GOMAXPROCS(1) so that back-to-back Offers land "
        "before a woken consumer runs",
        "sync.Pool reuse of blockingDone is modelled as fresh objects (results keyed by request id); cross-talk is searched by the "
        "oracle C02/queue/result-crosstalk on the real pool",
        "Go runtime: scheduler, sync.Mutex, channels, select, context; testing/synctest (go1.26) quiescence detection",
        "persistent queue: LTS pfire of putInternal/Read/onDone/Shutdown over the same state space (Model/C02P.lean), tied by exact differential; "
        "storage is outside it (client never fails, queue starts empty, sizes >= 0, no Offer after Shutdown) - C01 owns the storage side",
    ],
    assumptions=[
        "every handed-over request is completed (Done.OnDone) at most once - the model's `complete` needs the id in flight. In the "
        "code a second OnDone is not harmless: with wait_for_result it sends on the full capacity-1 blockingDone.ch WHILE HOLDING mu and "
        "blocks the whole queue; without it it double-Puts the pooled object. The batcher's refCountDone/multiDone (C04) are what guarantees it",
        "the release clause is proved as worded for states at rest (C02_release_on_space_full_holds: whoever is still blocked does not "
        "fit; space is freed with Broadcast since c2c5f2c26) and after Shutdown nobody stays blocked (c38015a9a); C02_drain_releases_all "
        "is existential (some schedule), 'eventually in every run' additionally needs scheduler/mutex fairness and consumers that keep completing",
        "when a Broadcast wakes several producers their re-lock order is the scheduler's: the driver searches the orders (scheduler order "
        "first, node budget 4000) for the outcome the implementation showed; a search cut short is NOT a difference: the implementation's line is "
        "accepted, the case is not diffed any further (oracles keep running), the count is in input_distribution.driver.lockorder_exhausted",
        "persistent size theorems C02_persistent_size / _size_zero_when_all_finished are for a freshly started (empty) queue; for a queue "
        "restarted on arbitrary storage (stale si snapshot, lowered capacity) only C02_persistent_size_any_start holds: 0 <= size <= "
        "max(capacity, restored size), size <= sum(in flight) whenever nothing is queued, 0 when all finished - on the real code the "
        "reported size exceeds the configured capacity right after such a restart (678 of 1015 generated restarts)",
        "C02_pinned_cond_deadlock is historical (about the cond.go that was in the tree before the fix); it is not a statement about the checked tree",
        "0 <= capacity; each producer goroutine issues one Offer per id",
        "liveness: C02_fair_run_comes_to_rest / C02_fair_run_releases_all (memory) and C02_persistent_fair_run_comes_to_rest state it for "
        "EVERY infinite run under explicit fairness hypotheses (minimal progress of the goroutines' own steps; consumers keep taking / "
        "completing; no new Offer / cancel / shutdown from some instant on). With offers arriving for ever a blocked producer can be overtaken "
        "again and again (every waiter re-checks after every completion, none has priority): per producer only the re-check is guaranteed "
        "(C02_fair_waiter_rechecks, under weak fairness of that producer's goroutine), not the admission. "
        "The persistent queue has no 'every fair run releases every producer' theorem (only: comes to rest, and at rest whoever is blocked does not fit)",
        "pqsize / Model/C02R: storage operations never fail and stored items decode (C01 owns those branches); no Offer after Shutdown; a Done of "
        "an earlier life is not completed after a restart; sizes >= 0. C02_pq_* are about the model, tied by differential (no translator for "
        "initPersistentContiguousStorage / retrieveAndEnqueueNotDispatchedReqs beyond the back-up cadence constants)",
        "async / Model/C02A: consumeFunc is the environment (it returns when it returns); Shutdown's stopWG.Wait() is C03's; the differential keeps at "
        "most one producer blocked at a time and fixes the one order the pool really has a race in (a consumer that completes its request goes "
        "straight on to the next Read before the producers woken by that completion re-lock: one P, no blocking call in between)",
        "the run-to-quiescence harnesses fire internal steps eagerly; schedules in which a context ends and a signal arrives before the "
        "waiter runs are exercised at cond level only through the lock hand-over order",
    ],
)
