from ..runner import Harness, Spec
from ..translate import go_translator

SPEC = Spec(
    pid="C03",
    lean_modules=["OtelVerif.Props.C03", "OtelVerif.Props.C03Shape", "OtelVerif.Props.C03Cfg", "OtelVerif.Lemmas.C03Direct", "OtelVerif.Lemmas.C03Refine", "OtelVerif.Lemmas.C03RefCount"],
    translators=[go_translator("c03shape", "OtelVerif/Gen/C03Shape.lean")],
    extra_audit_modules=["OtelVerif.Lemmas.C03", "OtelVerif.Lemmas.C03Term", "OtelVerif.Lemmas.C03Bridge", "OtelVerif.Lemmas.C03ReplaySound"],
    harnesses=[
        Harness(name="shutdown", module="exporter", pkg="exporter/exporterhelper",
                files={"zz_verif_c03_shutdown_test.go": "c03/shutdown_test.go"},
                test="TestVerifC03Shutdown", driver="drv_c03", go="go1.26",
                n={"quick": 6000, "thorough": 150000}, timeout_s=1500),
        # the fourth per-signal duplicate: the PROFILES exporter (xexporterhelper.NewProfilesExporter / NewProfilesRequestExporter),
        # own compact runner (an in-package test of exporterhelper cannot import xexporterhelper), same protocol, same Lean monitor
        Harness(name="xprofiles", module="exporter/exporterhelper/xexporterhelper", pkg="exporter/exporterhelper/xexporterhelper",
                files={"zz_verif_c03_xprofiles_test.go": "c03/xprofiles_test.go"}, test="TestVerifC03XProfiles", driver="drv_c03", go="go1.26",
                n={"quick": 1500, "thorough": 20000}, timeout_s=900),
    ],
    rule="each case = one configuration of the REAL exporter of one signal (exporterhelper.NewLogs/NewTraces/NewMetrics, or in 3/4 of "
         "the cases New<Signal>Request with a thin wrapper around the helper's own request type that makes the batcher's MergeSplit "
         "calls observable): obsreport -> queue/batcher -> retry -> timeout -> pusher; queue {memory, persistent (map storage, "
         "requests- or items-sized), none+legacy batcher, none at all = QUEUE-LESS exporter (1/9 of the cases: no sending queue, no batcher, "
         "retry on/off x timeout on/off, 1-3 producers calling Send directly and retrying against a failing backend at the shutdown; "
         "only 'no export call begins after Shutdown returned' is applied, not replayed through the LTS)} x sizer {requests, items; bytes for "
         "1/3 of the memory-queue + sending_queue::batch cases: merges and splits by encoded size} x capacity (small = refusals / large) x consumers "
         "1-3 x batch {none, sending_queue::batch, legacy WithBatcher; flush timeout 30ms/1s/1h, min 0-40, max 0 or >= min; "
         "split-heavy variant min 2-4, max = min..min+1 with requests up to 11 items} x retry {off, on: initial 10ms-1s, max elapsed "
         "0/300ms/10s} x wait_for_result x block_on_overflow x timeout {0, 2s} x storage fault AT SHUTDOWN {none; plain Set writes fail from just "
         "before Shutdown = the size snapshot of an items-sized persistent queue, with or without sending_queue::batch; the storage client's "
         "Close fails, reached by Shutdown when nothing is in flight or batched; persistent queues with either batcher included; every "
         "oracle applies also when Shutdown returns an error} x context handed to Shutdown {live 1/2; cancelled during the drain / deadline "
         "/ already done on entry, 1/6 each, after 1 ms-2.5 s; every clause applies unchanged whatever the context}; 1-12 sends of identified items at generated virtual instants, Shutdown requested at/near a send, a "
         "flush-timer or back-off instant, a slow call, or after everything, plus 0-2 late sends; backend script of up to 30 calls "
         "(ok / transient / permanent incl. partial failures, 0-3 s, 0-60% failures); 25 hand-made corpus schedules run first (cases 0-24 of c03Corpus: "
         "11 = queue-less, 16-18 = storage faults at shutdown with a batcher, 19-21 = Shutdown context ends during the drain, 22-23 = bytes-sized). All in one testing/synctest "
         "bubble (virtual time). Persistent cases: storage decoded at return and a restart on the same storage. Every returned, "
         "replayable trace (no batching, or wrapper) is additionally REPLAYED THROUGH `fire` (hidden steps inferred; every fired "
         "label must be enabled). non-trivial = at the shutdown request some accepted item had not finished an export call "
         "(queued, batched, in flight or in back-off); distinct = distinct op sequences. "
         "Round 2 (second session): (a) queue-less cases now also get 0-2 LATE sends (a Send after Shutdown runs its first attempt on the caller's "
         "goroutine; a retry of it must not begin: Direct.lateRetries replaces 'any call after the return' for these cases, in the Go oracle and "
         "in the driver alike); (b) every case records, by reflection on the REAL exporter object after Start, queue sender / retry sender "
         "present, queue kind, wait_for_result as it reached the memory queue, consumer goroutines, batcher kind, worker-pool capacity, timer: "
         "`tr rt`, diffed by the driver with the Lean function `derive` applied to the case's options (prop derive), and the LTS replay starts "
         "from the derived object; (c) harness xprofiles = the PROFILES exporter (xexporterhelper.NewProfilesExporter / NewProfilesRequestExporter, "
         "own compact runner, same protocol and monitor): memory queue (requests/items, capacity small/large, 1-3 consumers, wait_for_result, "
         "block_on_overflow), sending_queue::batch 3/8, persistent queue with the profiles encoding 1/8, queue-less 1/8, retry, timeout, partial "
         "failures (xconsumererror), items = samples (id in Sample.Value[0]); widened later: bytes-sized queue+batcher, legacy WithBatcher with/without queue "
         "and on a persistent queue, persistent queues requests-/items-sized/with either batcher, storage faults at shutdown (failing Set / Close), every "
         "kind of Shutdown context; 21 corpus cases first (15 = persistent + sending_queue::batch + failing Set). "
         "(d) SYSTEMATIC family c03SplitN (108 cases, one every 50 indices after the corpus, all inside quick; shared with the C19 exporter harness, one "
         "every 25): one request split by sending_queue::batch (min=max=2) into 3 parts sharing one refCountDone, backend outcome keyed by the PART "
         "(ok / always transient / permanent)^3, retry 100ms x1.5 without jitter, max elapsed 300ms (a transient part before the shutdown is given up "
         "after 3 tries = final failure; in its first back-off at the shutdown = shutdown error; after the stop = shutdown error), Shutdown in the first "
         "back-off of each transient part in turn or after everything, x {memory + wait_for_result, persistent}; parts run in order (one worker slot).",
    trusted_base=[
        "Lean 4.33.0 kernel; axioms per theorem listed under axioms_per_theorem",
        "translator translators/cmd/c03shape (go/ast): control skeletons (calls, returns, go/defer, if/for conditions, select cases, channel "
        "operations, field assignments, in source order) of BaseExporter.Shutdown/Start, NewBaseExporter's chain, retrySender.Shutdown and the "
        "selects of its Send loop, newQueueBatchConfig, QueueBatch.Shutdown/Start, newQueueBatch (+ its settings literals and newAsyncQueue "
        "arguments), asyncQueue.Shutdown/Start, memoryQueue.Read/Shutdown, persistentQueue.Read/Shutdown/unrefClient, defaultBatcher.Shutdown/"
        "flush/flushCurrentBatchIfNecessary/timer goroutine/Start/newDefaultBatcher, disabledBatcher.Consume; Model/C03Shape.lean interprets them "
        "(inlining of the shutdown path, classification of leaf tokens into LTS labels / neutral / unknown)",
        "reflection in the harness (c03Reflect) reads unexported fields of the real exporter object by name (BaseExporter.QueueSender/RetrySender, "
        "QueueBatch.queue/batcher, obsQueue.Queue, asyncQueue.numConsumers/readableQueue, memoryQueue.waitForResult, defaultBatcher.workerPool/timer)",
        "hand-written model of refCountDone.OnDone / multierr.Append / experr.IsShutdownErr (Model/C03RefCount.lean), appending exactly when the "
        "regenerated skeleton of OnDone (with the arguments of multierr.Append and of the wrapped Done) has the expected form",
        "hand-written LTS of the queue-less exporter (Model/C03Direct.lean) and the abstract specification Model/C03Spec.lean (AState/AStep: the "
        "statement the refinement theorems are relative to)",
        "hand-written LTS of the shutdown protocol (Model/C03.lean: base_exporter/queue_batch/async_queue/memory_queue/"
        "persistent_queue Read+onDone/default_batcher/disabled_batcher/retry_sender at critical-section granularity), tied in two ways: "
        "(1) every recorded trace of the real exporter is judged by the Lean monitor C03.verdict (proved sound; and proved to accept "
        "the trace of every run of the LTS: C03_bridge_memory/_persistent) and the verdict is cross-checked against an independent Go "
        "oracle; (2) every returned replayable trace must be a run of the LTS (Model/C03Replay.lean: hidden steps inferred as late as "
        "possible, so FIFO order and the instant of consumer exits are not checked)",
        "the observable request wrapper (harness) delegates ItemsCount/MergeSplit/OnError/encoding to the helper's own request type",
        "retries-left flag of a failed call is computed by the harness with the real cenkalti back-off and virtual timestamps",
        "Go runtime (scheduler, mutex, channels, select, sync.Cond, WaitGroup), testing/synctest virtual time, OpenTelemetry SDK",
        "storage extension = in-memory map with atomic batches that fails (and reports) consumer-side use after Close",
        "goroutine-leak and 'all export calls have returned' are observed on the implementation (goroutine stacks, event log); the "
        "model proves them for the modelled threads only",
    ],
    assumptions=[
        "num_consumers >= 1 (Config.Validate)",
        "MergeSplit conserves items (property C04): the model allows any re-partition that is a permutation",
        "worker pool of the default batcher has at least one slot (termination theorem); a stopped retry sender schedules no retry",
        "SCOPE: the main LTS and the clause 'all export calls have returned' are about exporters with a sending queue and/or a batcher. "
        "Queue-less exporters (Send runs the export on the caller's goroutine; Shutdown only stops the retry sender and does not wait "
        "for callers) have their OWN LTS (Model/C03Direct.lean): proved there — after the return no RETRY begins (a call that begins is a first "
        "attempt of a caller's Send), a flight in back-off can only end kept, attempts grow by at most one and only from 0; the trace monitor "
        "Direct.lateRetries is sound and accepts every run of that LTS (C03_direct_bridge, disjoint item lists). 'All export calls have "
        "returned' is not claimed for them (false of the code); the same-instant tie of a back-off timer with Shutdown stays excluded; a "
        "sub-list retry (OnError) is handled by the monitor's chains, the direct LTS retries the same items",
        "configuration glue: `derive` (Model/C03Cfg.lean) is hand-written branch by branch after NewBaseExporter/newQueueBatchConfig/newQueueBatch, "
        "its branches are taken through the regenerated Shape facts and its output is diffed with the real object in every case; Config.Validate "
        "itself (num_consumers >= 1 etc.) is an assumption (UCfg.valid), C13 owns validation",
        "the abstract spec (Model/C03Spec.lean) lets 'work' end export passes without saying they were attempted: 'attempted at least once / "
        "exactly once' stays with C03_memory_drained / _no_duplication (FlightOK), not with the refinement",
        "the replay through `fire` (prop refine) is a heuristic consistency check: hidden steps are inferred with look-ahead into the "
        "trace and placed as late as possible; C03_replay_reachable says the inferred schedule is a run of the LTS, NOT that its "
        "observable projection equals the recorded trace (not proved)",
        "persistent-queue keeping is item-level in the LTS (under-approximation); the request-level rule 'kept iff some part ended "
        "with a shutdown error' is carried by the monitor clauses checkInterrupted (sound: C03_check_interrupted_sound), not by a "
        "theorem about the LTS; these clauses have no bridging theorem",
        "partial failures (Request.OnError narrowing) are generated and monitored; in the LTS a flight keeps its batch and only "
        "counts attempts (the narrowed retry is an attempt of the same flight)",
    ],
)
