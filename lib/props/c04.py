from ..runner import Harness, Spec
from ..translate import go_translator

SPEC = Spec(
    pid="C04",
    lean_modules=["OtelVerif.Props.C04"],
    translators=[go_translator("c04shape", "OtelVerif/Gen/C04Shape.lean"),
                 go_translator("c04config", "OtelVerif/Gen/C04Config.lean")],
    harnesses=[
        Harness(name="mergesplit", module="exporter", pkg="exporter/exporterhelper",
                files={"zz_verif_c04_ms_test.go": "c04/mergesplit_test.go", "zz_verif_c04_payload_test.go": "c04/payload_gen.go"},
                test="TestVerifC04MergeSplit", driver="drv_c04", n={"quick": 4000, "thorough": 300000}, timeout_s=1500),
        Harness(name="profiles", module="exporter/exporterhelper/xexporterhelper", pkg="exporter/exporterhelper/xexporterhelper",
                files={"zz_verif_c04_profiles_test.go": "c04/profiles_test.go"},
                test="TestVerifC04Profiles", driver="drv_c04", n={"quick": 1500, "thorough": 100000}, timeout_s=1500),
        Harness(name="batcher", module="exporter", pkg="exporter/exporterhelper/internal/queuebatch", go="go1.26",
                files={"zz_verif_c04_batcher_test.go": "c04/batcher_test.go"},
                test="TestVerifC04Batcher", driver="drv_c04", n={"quick": 1500, "thorough": 100000}, timeout_s=1500),
        Harness(name="e2e", module="exporter", pkg="exporter/exporterhelper", go="go1.26",
                files={"zz_verif_c04_e2e_test.go": "c04/e2e_test.go"},
                test="TestVerifC04E2E", driver="drv_c04", n={"quick": 1200, "thorough": 60000}, timeout_s=1500),
        Harness(name="e2e-profiles", module="exporter/exporterhelper/xexporterhelper", pkg="exporter/exporterhelper/xexporterhelper", go="go1.26",
                files={"zz_verif_c04_e2e_profiles_test.go": "c04/e2e_profiles_test.go"},
                test="TestVerifC04E2EProfiles", driver="drv_c04", n={"quick": 500, "thorough": 30000}, timeout_s=1500),
        Harness(name="config", module="exporter", pkg="exporter/exporterhelper/internal/queuebatch",
                files={"zz_verif_c04_config_test.go": "c04/config_test.go"},
                test="TestVerifC04Config", driver="drv_c04", n={"quick": 1500, "thorough": 60000}, timeout_s=900),
        Harness(name="legacy-config", module="exporter", pkg="exporter/exporterhelper/internal",
                files={"zz_verif_c04_legacy_test.go": "c04/legacy_test.go"},
                test="TestVerifC04Legacy", driver="drv_c04", n={"quick": 800, "thorough": 30000}, timeout_s=900),
    ],
    rule="mergesplit/profiles: corpus first (the two design-time witnesses: 4-point sum with max 3 items; one 500-byte record with max 100 "
         "bytes; and the witness of the profiles items sizer defect, found by the harness, not at design time: one 5-sample profile "
         "with max 3 items), then generated payload trees (0-4 resources x 0-4 scopes x 0-6 items; "
         "metrics 0-4 metrics x 0-6 points of the five types + empty type; profiles with 0-5 samples; empty containers at every "
         "level; resource/scope/metric identity fields and schema URLs mostly non-empty; padding 0..200 bytes incl. 127/128, "
         "16370/16384 in thorough) through the real MergeSplit, one or two requests, items and bytes sizer, max in "
         "{0, 1..total+1, small byte limits 1..60}, cachedSize warm or cold; 1 case in 5 is a zero-length case (30/70/100 % of the "
         "elements completely empty, up to 14 per scope, metrics without name/type: data points and metrics encode to 0 bytes, log "
         "records / spans to their 4 / 6+ byte minimum); every c%97==5 case ties DeltaSize(n) to the growth of the real encoded "
         "parent at every varint boundary incl. n=0; non-trivial = a resource identity appears in two "
         "output requests (cut inside a resource). batcher: the real defaultBatcher (configured sizer type bytes, items with one-item units, or items with indivisible "
         "multi-sample units = profiles, ItemsCount = samples) in a synctest bubble with requests "
         "made of 1-4 indivisible units packed FIFO by a MergeSplit that follows the real contract, min_size in {0,1,3,5,10}, "
         "max_size = min_size + {0,0,1,2,5} or 0, 1-10 labels (consume, 1 in 8 without items / finish a random in-flight flush "
         "with outcome ok, plain error or shutdown-classified error / timer flush) then Shutdown and completion of every flush in "
         "random order; every 10th case drives disabledBatcher instead; the callback records whether the (combined) error carries "
         "each classification; 1 batcher case in 5 draws min/max/flush_timeout from the RAW space (max below min, negative, no timeout) "
         "through the real BatchConfig.Validate(); non-trivial = a request was merged into a pending batch. "
         "e2e / e2e-profiles: REAL logs / traces / metrics / profiles (0-3 samples each) requests of 1-2 resources x 1-2 scopes with per-request identities through the real "
         "queuebatch.NewQueueBatch (wait_for_result memory queue, one batcher worker) in one synctest bubble, items / bytes sizer "
         "(min/max x 60 bytes), 1-8 labels (send / finish the in-flight export with ok, plain or shutdown error / timer) then "
         "Shutdown; monitored; non-trivial = >= 2 requests. config / legacy-config: RAW Config, BatchConfig, BatcherConfig "
         "(values from {-3,-1,0,1,2,5,10,1000}, max = min-2..min+2, every sizer incl. the zero value, storage, 1-3 registered "
         "sizers, legacy flag) through the real Validate functions, newQueueBatchConfig and newQueueBatch; non-trivial = a default "
         "batcher was built / the legacy batcher is enabled. distinct = distinct op lines (sha1).",
    trusted_base=[
        "Lean 4.33.0 kernel; axioms per theorem listed under axioms_per_theorem (subset of propext, Classical.choice, Quot.sound)",
        "translator translators/cmd/c04shape (go/ast): alpha-normalised AST equality of logs_batch.go / traces_batch.go / "
        "xexporterhelper/profiles_batch.go (one three-level model for three signals), whether extract*DataPoints copy the metric "
        "identity, whether split() has the rmSize == 0 branch",
        "hand-written model of extract*/moveFirst*/split/mergeTo/MergeSplit and of defaultBatcher.Consume/flush/refCountDone, tied by "
        "exact differential on every run (output trees, cachedSize and the real sizer's size of every output request)",
        "pdata semantics used by the model: RemoveIf calls the closure once per element in order, MoveTo empties its source, "
        "MoveAndAppendTo appends in order, CopyTo copies every field of Resource/Scope",
        "gogo Size() of leaf messages and of a node's own fields are inputs measured on the real objects; the additive law "
        "size(parent) = own + sum(1 + len + sov(len)) is checked on every output request (sz= field), not proved from generated code",
        "bridge between the batcher's contract (pack) and MergeSplit: C04_mergeSplit_fifo / C04_first_result_criterion (model "
        "mergeSplit is FIFO, pending batch first; ItemsCount criterion), the `fifo` oracle on every real MergeSplit output, and "
        "`last_is_receiver` (receiver returned as last result) on every real call; metrics FIFO is oracle only",
        "translator translators/cmd/c04config (go/ast): the three Validate functions as rule lists, the struct field lists and the "
        "default configurations; the interpreter runRules + the environments (field name -> value) in Model/C04Config.lean; "
        "xconfmap.Validate calls Config.Validate, BatchConfig.Validate and BatcherConfig.Validate for an exporter configuration "
        "(`accepted` = their conjunction)",
        "newQueueBatchConfig / newQueueBatch / NewQueueSender hand-modelled, tied by exact differential on raw configurations (built "
        "batcher read back in-package: kind, sizerType, BatchConfig, worker count)",
        "e2e harness (real requests through the real queue + batcher): monitored, judged by the Lean Done oracle and direct Go "
        "oracles; item-less batches made of emptied resource shells MAY carry the request's Done (zero-size unit)",
        "batcher harness: the request type is a fake that records the origin of every unit; its MergeSplit (FIFO packing) is the "
        "contract of the real one, not the real one (queuebatch cannot import exporterhelper)",
    ],
    assumptions=[
        "metric identity on split: FALSE on /repo (open finding metric-identity-lost/anonymous-split-off-fragment); the theorem tied to "
        "/repo is C04_conserve_metrics_partial (flag false); C04_conserve_metrics is about the repair 6f81c0a15 (builder branch verif-fix-C04; not in /repo) that was not taken "
        "(no identity-preserving repair can keep the golden byte sizes of TestMergeSplitMetricsBasedOnByteSize) and is tied only when "
        "the check runs (VERIF_REPO) against a tree that contains that repair",
        "metrics x bytes: size bound FALSE on /repo (open finding batch-exceeds-max/metrics-bytes-empty-fragment), cachedSize is an upper "
        "bound (>=): oracle on every run, no theorem",
        "Consume, the timer flush and Shutdown are serialised by currentBatchMu (modelled as atomic labels); flush goroutines end in any order",
        "the batcher's worker pool (one worker when batching is configured) only delays the start of an export: the histories with a "
        "pool are a subset of those the Done theorems quantify over; exercised by e2e, not modelled",
        "int arithmetic does not overflow (sizes are far below 2^63)",
    ],
)
