from ..runner import Harness, Spec

SPEC = Spec(
    pid="C05",
    lean_modules=["OtelVerif.Props.C05"],
    harnesses=[
        Harness(name="retry", module="exporter", pkg="exporter/exporterhelper",
                files={"zz_verif_c05_retry_test.go": "c05/retry_test.go"},
                test="TestVerifC05Retry", driver="drv_c05", go="go1.26",
                n={"quick": 6000, "thorough": 150000}, timeout_s=1500),
        Harness(name="errs", module="exporter", pkg="exporter/exporterhelper/internal",
                files={"zz_verif_c05_errs_test.go": "c05/errs_test.go"},
                test="TestVerifC05Errs", driver="drv_c05", n={"quick": 4000, "thorough": 100000}),
        Harness(name="validate", module="exporter", pkg="exporter/exporterhelper/internal",
                files={"zz_verif_c05_errs_test.go": "c05/errs_test.go"},
                test="TestVerifC05Validate", driver="drv_c05", n={"quick": 4000, "thorough": 100000}),
    ],
    rule="retry: the REAL exporter chain built by exporterhelper.NewLogs/NewTraces/NewMetrics (obsReport -> retrySender -> timeoutSender -> "
         "scripted pusher, queue off) inside a testing/synctest bubble (virtual time). Case = validated back-off config (zeros, multipliers "
         "0/0.5/1/1.25/1.375/1.5/2/3/10, rf 0/.1/.25/.5/.75/1, optional per-attempt timeout) x script of 0-12 backend outcomes (ok, transient, "
         "permanent, throttle d, partial failure naming a remainder, wait-for-context, other-signal partial error; classification layers in "
         "random order between random fmt %w / errors.Join / multierr wrappers) x shutdown / cancellation / deadline placed before, inside or "
         "after specific attempts and waits of a dry run of the same case. rf>0: the value NextBackOff returns is learnt from a mirror "
         "ExponentialBackOff fed by the same seeded math/rand source and passed to the model (drawn=). Cases where an external event falls on "
         "exactly the instant of an independent timer are not compared (stat tie_skipped). Corpus first (DESIGN probe; zero-delay + shutdown / "
         "cancel during the attempt; shutdown+cancel both pending; throttle/partial/permanent; deadline). thorough adds every script of "
         "length <=3 over 6 outcome kinds x 16 event placements x 2 configs. non-trivial = at least two attempts; distinct = sha1 of op lines. "
         "errs: random wrap/join error trees (depth<=5) classified by the real IsPermanent / IsShutdownErr / errors.As(throttleRetry) / "
         "errors.As(consumererror.Logs). validate: BackOffConfig.Validate + TimeoutConfig.Validate incl. rejected configs.",
    trusted_base=[
        "Lean 4.33.0 kernel; axioms per theorem listed under axioms_per_theorem (subset of propext, Classical.choice, Quot.sound)",
        "hand-written model of retrySender.Send + timeoutSender + cenkalti/backoff/v5 ExponentialBackOff (NextBackOff, incrementCurrentInterval) "
        "+ OnError narrowing + errors.As classification, tied by exact differential on every run (payload and virtual timestamp of every call, "
        "returned error class)",
        "float64 arithmetic of the back-off library is modelled over exact fractions; the harness keeps durations < 2^44 ns and multipliers "
        "with numerators < 128 where float64 products/quotients decide the same comparisons (checked by the differential)",
        "the library's random draw is an input with the law LibLaw (interval*(1-rf)-1 <= drawn <= interval*(1+rf)+1)",
        "Go runtime: select, timers, context, testing/synctest virtual clock",
    ],
    assumptions=[
        "an external event (shutdown, cancellation, deadline) falling on exactly the instant an independent timer fires is outside the theorem "
        "(either order is possible in Go); the model lets the timer win, such cases are skipped by the harness",
        "durations fit int64 nanoseconds without overflow",
        "the theorems are about the repaired retry loop (fix commit in /tmp/wt-C05: poll stopCh, then ctx.Err(), before the blocking select)",
    ],
)
