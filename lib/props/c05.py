from ..runner import Harness, Spec

SPEC = Spec(
    pid="C05",
    lean_modules=["OtelVerif.Props.C05"],
    harnesses=[
        Harness(name="retry", module="exporter", pkg="exporter/exporterhelper",
                files={"zz_verif_c05_retry_test.go": "c05/retry_test.go"},
                test="TestVerifC05Retry", driver="drv_c05", go="go1.26",
                n={"quick": 4000, "thorough": 60000}, timeout_s=1500),
    ],
    rule="",
    trusted_base=[],
    assumptions=[],
)
