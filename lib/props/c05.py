import os

from ..runner import Harness, Spec
from ..translate import go_translator

# harness/c05/core_test.go is package-agnostic apart from its package clause; the profiles harness runs the same
# core inside package xexporterhelper. Keep the committed copy in sync (own file, written only when it differs).
_H = os.path.join(os.path.dirname(os.path.dirname(os.path.dirname(os.path.abspath(__file__)))), "harness", "c05")


def _sync_xcore():
    with open(os.path.join(_H, "core_test.go")) as f:
        body = f.read().replace("\npackage exporterhelper\n", "\npackage xexporterhelper\n", 1)
    body = body.replace("//go:build verif\n", "//go:build verif\n\n// GENERATED from core_test.go by lib/props/c05.py (package clause replaced) - do not edit.\n", 1)
    dst = os.path.join(_H, "gen_xcore_test.go")
    try:
        with open(dst) as f:
            if f.read() == body:
                return
    except FileNotFoundError:
        pass
    tmp = dst + ".tmp%d" % os.getpid()
    with open(tmp, "w") as f:
        f.write(body)
    os.replace(tmp, dst)


_sync_xcore()

SPEC = Spec(
    pid="C05",
    lean_modules=["OtelVerif.Props.C05"],
    # regenerated on every run: BackOffConfig / TimeoutConfig (structs, defaults, Validate), otlpexporter.shouldRetry as Lean
    # DEFINITIONS compiled from the Go source; shape tables of the four OnError methods, the four partial-failure constructors,
    # internal.Retryable's accessors and NewBaseExporter's sender chain. Props/C05.lean proves the model equal to them.
    translators=[go_translator("gofunlean", "OtelVerif/Gen/RetryCfg.lean", args=["c05"])],
    harnesses=[
        Harness(name="retry", module="exporter", pkg="exporter/exporterhelper",
                files={"zz_verif_c05_core_test.go": "c05/core_test.go", "zz_verif_c05_signals_test.go": "c05/signals_test.go"},
                test="TestVerifC05Retry", driver="drv_c05", go="go1.26",
                n={"quick": 6000, "thorough": 150000}, timeout_s=1500),
        Harness(name="multi", module="exporter", pkg="exporter/exporterhelper",
                files={"zz_verif_c05_core_test.go": "c05/core_test.go", "zz_verif_c05_signals_test.go": "c05/signals_test.go"},
                test="TestVerifC05Multi", driver="drv_c05", go="go1.26",
                n={"quick": 1500, "thorough": 30000}, timeout_s=1500),
        Harness(name="retry-profiles", module="exporter/exporterhelper/xexporterhelper", pkg="exporter/exporterhelper/xexporterhelper",
                files={"zz_verif_c05_core_test.go": "c05/gen_xcore_test.go", "zz_verif_c05_signals_test.go": "c05/xsignals_test.go"},
                test="TestVerifC05Retry", driver="drv_c05", go="go1.26",
                n={"quick": 1500, "thorough": 30000}, timeout_s=1500, env={"VERIF_C05_NOEXH": "1"}),
        Harness(name="errs", module="exporter", pkg="exporter/exporterhelper/internal",
                files={"zz_verif_c05_errs_test.go": "c05/errs_test.go"},
                test="TestVerifC05Errs", driver="drv_c05", n={"quick": 4000, "thorough": 100000}),
        Harness(name="otlp-grpc", module="exporter/otlpexporter", pkg="exporter/otlpexporter",
                files={"zz_verif_c05_otlpgrpc_test.go": "c05/otlpgrpc_test.go"},
                test="TestVerifC05OtlpGrpc", driver="drv_c05", n={"quick": 1, "thorough": 1},
                # the pinned version of this indirect dependency is not in the offline module cache; the copy of go.mod
                # (never /repo's) points it at the cached one
                mod_append=["replace github.com/klauspost/compress => github.com/klauspost/compress v1.18.0"]),
        Harness(name="validate", module="exporter", pkg="exporter/exporterhelper/internal",
                files={"zz_verif_c05_errs_test.go": "c05/errs_test.go"},
                test="TestVerifC05Validate", driver="drv_c05", n={"quick": 4000, "thorough": 100000}),
    ],
    rule="retry: the REAL exporter chain built by exporterhelper.NewLogs/NewTraces/NewMetrics (obsReport -> retrySender -> timeoutSender -> "
         "scripted pusher, queue off) inside a testing/synctest bubble (virtual time). Case = validated back-off config (zeros, multipliers "
         "0/0.5/1/1.25/1.375/1.5/2/3/10, rf 0/.1/.25/.5/.75/1, optional per-attempt timeout) x script of 0-12 backend outcomes (ok, transient, "
         "permanent, throttle d, partial failure naming a remainder, wait-for-context, other-signal partial error, backend error that already "
         "contains a shutdown error; classification layers in "
         "random order between random fmt %w / errors.Join / multierr wrappers) x shutdown / cancellation / deadline placed before, inside or "
         "after specific attempts and waits of a dry run of the same case. rf>0: the value NextBackOff returns is learnt from a mirror "
         "ExponentialBackOff fed by the same seeded math/rand source and passed to the model (drawn=). Cases where an external event falls on "
         "exactly the instant of an independent timer (8-9 %) are not diffed against the deterministic model but MONITORED: the driver "
         "checks that the observation is accepted by `accepts` (sound for the relation Allowed = some scheduling order; stat "
         "tie_monitored) and by the clause oracle. Every call also records what the pusher saw of the timeout sender and the request "
         "deadline (ctx.Deadline(), and Canceled/DeadlineExceeded for pushers that wait for their context). Corpus first (DESIGN probe; zero-delay + shutdown / "
         "cancel during the attempt; shutdown+cancel both pending; throttle/partial/permanent; deadline). thorough adds every script of "
         "length <=3 over 6 outcome kinds x 16 event placements x 2 configs. non-trivial = at least two attempts; distinct = sha1 of op lines. "
         "Round 7: throttle delays in the EXTREME range (MaxInt64 ns, MaxInt64-1, > MaxInt64/2, exactly the remaining budget and +-1 ns, the "
         "budget, 0, negative; only with a finite elapsed-time budget) - the model is exact on Nat; a retry the sender schedules after an "
         "absurd interval is read off its log record and the case cut short by shutting the exporter down (the virtual clock cannot run "
         "292 years). Configuration-level dimension (1/5 of the cases + 3 corpus cases): the exporter built with "
         "sending_queue{wait_for_result: true, 1 consumer} and started; the producer's context (deadline / cancellation) is the request's "
         "context down to the retry sender; the caller is answered with its context's error when that context ends (model: ret at that "
         "instant, reason ctxdone), the sender's attempts are recorded for 30 more virtual minutes and judged by the clause oracle. "
         "multi: 2-4 requests with their own scripts CONCURRENTLY through one exporter (one retrySender, one stopCh), started at "
         "different offsets, some after Shutdown; rf=0; each request's observed trace is compared with the model run on its own script on "
         "its own clock with the shutdown instant shifted to that clock (independence of requests); corpus: three requests in back-off "
         "when shutdown arrives + one started after it; two started after Shutdown; B starting while A is deep in its back-off. "
         "retry-profiles: the same core in package xexporterhelper driving NewProfilesExporter / xconsumererror.Profiles. "
         "otlp-grpc: otlpexporter.processError on every gRPC code x {no RetryInfo, 6 delays}: nil / permanent / plain / throttle(d). "
         "errs: random wrap/join error trees (depth<=5) classified by the real IsPermanent / IsShutdownErr / errors.As(throttleRetry) / "
         "errors.As(consumererror.Logs|Traces|Metrics) (the signal under test rotates per case). validate: BackOffConfig.Validate + TimeoutConfig.Validate incl. rejected configs; "
         "case 0 = NewDefaultBackOffConfig / NewDefaultTimeoutConfig against the definitions regenerated from the source (floats as exact fractions). "
         "otlp-grpc additionally judges every status against the OTLP retryability table (Lean prop).",
    trusted_base=[
        "Lean 4.33.0 kernel; axioms per theorem listed under axioms_per_theorem (subset of propext, Classical.choice, Quot.sound)",
        "hand-written model of retrySender.Send + timeoutSender + cenkalti/backoff/v5 ExponentialBackOff (NextBackOff, incrementCurrentInterval) "
        "+ OnError narrowing + errors.As classification, tied by exact differential on every run (payload and virtual timestamp of every call, "
        "returned error class)",
        "float64 arithmetic of the back-off library is modelled over exact fractions; the harness keeps durations < 2^44 ns and multipliers "
        "with numerators < 128 where float64 products/quotients decide the same comparisons (checked by the differential)",
        "LibLaw is now a THEOREM about the library's formula over exact fractions (C05_library_draw_satisfies_law: "
        "trunc(min + random*(max-min+1)), random in [0,1)); what stays trusted is float64 vs exact arithmetic and that the pinned library "
        "source is what runs",
        "the library's random draw is an input with the law LibLaw (interval*(1-rf)-1 <= drawn <= interval*(1+rf)+1); the driver evaluates "
        "that law (lawAlongB, proved equivalent to LawAlong) on every draw the real library produced for the script (learnt from a mirror "
        "ExponentialBackOff on the same seeded source) and fails the case with C05/backoff/library-draw-outside-law otherwise: sampled, not proved",
        "translators/cmd/gofunlean (c05): BackOffConfig / TimeoutConfig (structs, defaults incl. the two constants read from the "
        "cenkalti/backoff version config/configretry/go.mod requires, Validate) and otlpexporter.shouldRetry are compiled from the Go source "
        "into Lean definitions on every run and the model is proved equal to them (C05_src_validate_backoff / _timeout / _grpc_retryable); "
        "the loop body of retrySender.Send between the call of the next sender and the blocking select is compiled into RetryCfg.retryStep "
        "(leaf conditions mapped to inputs by their exact source text, exit 2 on anything unknown) and proved equal to the model's iteration "
        "(C05_src_retry_step, C05_run_iteration); timeoutSender.Send is checked literally (context.WithTimeout is a primitive); the for / "
        "blocking select / timer structure stays hand-modelled; "
        "shape tables of the four OnError methods, the four partial-failure constructors, internal.Retryable and NewBaseExporter's sender "
        "chain; statement skeletons (tracing / logging removed) of retrySender.Send / Shutdown, NewThrottleRetry, timeoutSender.Send, "
        "experr, consumererror permanent, processError and of the library's NextBackOff / incrementCurrentInterval / "
        "getRandomValueFromInterval pin the source the hand-written model was written from (C05_src_skeletons). gRPC code numbers are the "
        "protocol's constants (table in the translator)",
        "Go runtime: select, timers, context, testing/synctest virtual clock",
    ],
    assumptions=[
        "an external event (shutdown, cancellation, deadline) falling on exactly the instant an independent timer fires: either order is "
        "possible in Go; the relation Allowed/ndAllowed contains both, the theorems C05_allowed_* hold for both, the deterministic run is "
        "one of them (C05_run_allowed); which cases are ties is decided by the harness (Go) from the recorded instants",
        "which cases are equal-instant cases is decided by the harness (Go) and RE-CHECKED by the driver from the model's own trace (isTie): a "
        "case sent to the monitor that is not a tie fails with C05/harness/not-a-tie-sent-to-the-monitor; tie cases are monitored (accepts + "
        "clause oracle), not diffed",
        "C05_shutdown_classified needs that a wait really begins: when shutdown is pending but the elapsed-budget / deadline check trips "
        "first, the loop answers exhausted / deadline, NOT shutdown-classified (C05_shutdown_pending_but_budget_trips) - during a drain a "
        "persistent queue drops such a request; outside the clause as worded, the code's order of checks",
        "IsShutdownErr of the result is also true when the BACKEND's error already contains a shutdown error (every return wraps it with %w; "
        "Attempt.sd, driven by the harness): only 'reason shutdown => classified' holds unconditionally (C05_shutdown_reason_classified); "
        "C05_sdFlag_iff carries the hypothesis that no backend error is shutdown-classified",
        "the multi harness (several requests through one sender) runs with rf = 0 only",
        "wait_for_result queue cases: no exporter shutdown in those cases; cases in which the sender finishes on exactly the instant the "
        "producer's context ends are not compared (stat queue_tie_not_compared); when the caller was answered by its context the sender's "
        "own verdict is not observed (attempt instants and payloads are); the legacy batcher-without-queue setup is not driven",
        "LawAlong: the library law is assumed for every draw the script supplies (also for attempts that are never reached)",
        "the otlp-grpc harness runs with a go.mod COPY whose indirect dependency klauspost/compress is pointed at the cached v1.18.0 "
        "(v1.17.11 is not in the offline module cache); /repo is not touched",
        "durations fit int64 nanoseconds without overflow",
        "the theorems are about the repaired retry loop (fix commit cf360440f in /repo: poll stopCh, then ctx.Err(), before the blocking select)",
    ],
)
