from ..runner import Harness, Spec

SPEC = Spec(
    pid="C06",
    lean_modules=["OtelVerif.Props.C06"],
    harnesses=[
        Harness(name="fanout", module="internal/fanoutconsumer", pkg="internal/fanoutconsumer",
                files={"zz_verif_c06_fanout_test.go": "c06/fanout_test.go"},
                test="TestVerifC06Fanout", driver="drv_c06", n={"quick": 2500, "thorough": 40000}),
        Harness(name="router", module="connector", pkg="connector",
                files={"zz_verif_c06_router_test.go": "c06/router_test.go", "zz_verif_c06_routerc_test.go": "c06/router_common.go.tmpl"},
                test="TestVerifC06Router", driver="drv_c06", n={"quick": 1500, "thorough": 20000}),
        Harness(name="xrouter", module="connector/xconnector", pkg="connector/xconnector",
                files={"zz_verif_c06_xrouter_test.go": "c06/xrouter_test.go", "zz_verif_c06_routerc_test.go": "c06/router_common.go.tmpl"},
                test="TestVerifC06XRouter", driver="drv_c06", n={"quick": 1500, "thorough": 20000}),
        Harness(name="exporter", module="exporter", pkg="exporter/exporterhelper",
                files={"zz_verif_c06_exporter_test.go": "c06/exporter_test.go"},
                test="TestVerifC06Exporter", driver="drv_c06", n={"quick": 1200, "thorough": 20000}),
        Harness(name="graph", module="service", pkg="service/internal/graph",
                files={"zz_verif_c06_graph_test.go": "c06/graph_test.go"},
                test="TestVerifC06Graph", driver="drv_c06", n={"quick": 2000, "thorough": 30000}),
    ],
    rule="exporter: exporters built with the real exporter helper (logs/traces/metrics) from random option lists (own capability "
         "declaration none/false/true, batching through sending_queue::batch / legacy batcher / none, neutral options, random "
         "order): advertised MutatesData compared with exporterCap. router: connector.New{Logs,Metrics,Traces}Router(...).Consumer(selected pipelines...) on random pipeline sets and selections "
         "(half of them a single pipeline), read-only/mutable input, plus every capability vector <= 3 x every single selection; "
         "compared with the same fan-out model. fanout (one consumer may cancel the request context while it is served): random capability vectors (1-7 consumers), read-only/mutable input, failure patterns, synchronous and asynchronous "
         "writers, one undeclared writer, on the real fan-out of all four signals, plus EXHAUSTIVE capability vectors of length <= 5 "
         "(quick) / <= 8 (thorough) x input mode x undeclared-writer position; non-trivial = mixed mutating/non-mutating vector. "
         "graph: random two-level topologies built by the real graph.Build (1-4 pipelines from one receiver, optional same-signal "
         "connector feeding 1-2 further pipelines, processors/exporters/connectors with random declared capability); "
         "non-trivial = more than one pipeline and mixed capabilities. distinct = distinct op sequences.",
    trusted_base=[
        "Lean 4.33.0 kernel; axioms per theorem listed under axioms_per_theorem",
        "hand-written model of NewLogs/ConsumeLogs/Capabilities (one model for the four signal files), pipeline capability and aggregateCap; "
        "tied by exact differential on every run (object identity read by reflection on the pdata wrapper's pointer field)",
        "pdata CopyTo produces an independent equal object and a write to a read-only payload panics without effect (property C07)",
        "consumers are called sequentially by the fan-out (as the code does); asynchronous work happens after the fan-out returned",
    ],
    assumptions=[
        "clone = fresh equal object (C07); write to read-only object = panic, no change (C07)",
        "graph hands exporters to the fan-out in map order: the capability is order-independent (C06_fanCap_perm)",
    ],
)
