from ..runner import Harness, Spec

SPEC = Spec(
    pid="C06",
    lean_modules=["OtelVerif.Props.C06"],
    harnesses=[
        Harness(name="fanout", module="internal/fanoutconsumer", pkg="internal/fanoutconsumer",
                files={"zz_verif_c06_fanout_test.go": "c06/fanout_test.go"},
                test="TestVerifC06Fanout", driver="drv_c06", n={"quick": 2500, "thorough": 40000}),
        Harness(name="router", module="connector", pkg="connector",
                files={"zz_verif_c06_router_test.go": "c06/router_test.go", "zz_verif_c06_routerc_test.go": "c06/router_common.go.tmpl"},
                test="TestVerifC06Router", driver="drv_c06", n={"quick": 1500, "thorough": 20000}),
        Harness(name="xrouter", module="connector/xconnector", pkg="connector/xconnector",
                files={"zz_verif_c06_xrouter_test.go": "c06/xrouter_test.go", "zz_verif_c06_routerc_test.go": "c06/router_common.go.tmpl"},
                test="TestVerifC06XRouter", driver="drv_c06", n={"quick": 1500, "thorough": 20000}),
        Harness(name="exporter", module="exporter", pkg="exporter/exporterhelper",
                files={"zz_verif_c06_exporter_test.go": "c06/exporter_test.go"},
                test="TestVerifC06Exporter", driver="drv_c06", n={"quick": 1200, "thorough": 20000}),
        Harness(name="graph", module="service", pkg="service/internal/graph",
                files={"zz_verif_c06_graph_test.go": "c06/graph_test.go"},
                test="TestVerifC06Graph", driver="drv_c06", n={"quick": 2000, "thorough": 30000}),
    ],
    rule="fanout (all four signals; one consumer may cancel the request context while it is served): random capability vectors (1-7 "
         "consumers), read-only/mutable input, failure patterns, synchronous and asynchronous writers, one undeclared writer, on RANDOM "
         "payloads (1-3 resources, nested attribute values, several item kinds) with every write at one of 6 mutation sites (resource / "
         "scope attribute, map nested in an item attribute, scalar field of the last item, appended resource, primitive or nested slice "
         "of item 0); a mutating consumer's object must equal the sent bytes plus its OWN writes replayed on a private copy; plus "
         "EXHAUSTIVE capability vectors of length <= 5 (quick) / <= 8 (thorough) x input mode x undeclared-writer position; "
         "non-trivial = mixed mutating/non-mutating vector. router / xrouter: connector.New{Logs,Metrics,Traces}Router and "
         "xconnector.NewProfilesRouter (...).Consumer(selected pipelines...) on random pipeline sets, selections (half of them a single "
         "pipeline) and failing consumers, capability read from the returned consumer, plus every capability vector <= 3 x every single "
         "selection; compared with the same fan-out model. exporter: exporters built with the real exporter helper from random option "
         "lists (own declaration none/false/true, sending_queue::batch, legacy batcher on/off, disabled queue with a batch section, both, "
         "neutral options, random order): advertised MutatesData vs exporterCap. graph: random DAGs built by the real graph.Build for a "
         "random signal of the four (1-6 pipelines, 1-2 receivers, pipelines with several sources, connector chains, connectors fed by "
         "several pipelines, exporters shared between pipelines, a probe processor at every pipeline entry): (1) advertised capability "
         "of every pipeline vs pipelineCap/aggregateCap, (2) for EVERY fan-out call (source -> pipelines, pipeline -> exporters and "
         "connectors) the order-independent summary (read-only flag at each consumer, number of mutating consumers holding the "
         "original) vs the model (C06_seen_ro, C06_origMut, C06_summary_perm) + identity oracles, (3) trail oracles per exporter call. "
         "non-trivial = more than one pipeline and mixed capabilities. distinct = distinct op sequences.",
    trusted_base=[
        "Lean 4.33.0 kernel; axioms per theorem listed under axioms_per_theorem",
        "hand-written model of NewLogs/ConsumeLogs/Capabilities (one model for the four signal files), pipeline capability, aggregateCap, "
        "exporterCap; tied by exact differential on every run (object identity read by reflection on the pdata wrapper's pointer field)",
        "payload content is ONE abstract number in the model: 'a clone is an independent equal object' and 'a write to a read-only "
        "payload panics without effect' are property C07's theorems, used here as the definition of Heap.write / call and OBSERVED by the "
        "fan-out harness on random payloads at 6 kinds of mutation site (not proved here)",
        "the graph hands consumers to a fan-out in graph-iteration order: only order-independent facts are compared there "
        "(C06_fanCap_perm, C06_summary_perm)",
        "consumers are called sequentially by the fan-out (as the code does); asynchronous work happens after the fan-out returned",
    ],
    assumptions=[
        "clone = fresh equal object (C07); write to read-only object = panic, no change (C07)",
        "graph hands exporters to the fan-out in map order: the capability is order-independent (C06_fanCap_perm)",
    ],
)
