from ..runner import Harness, Spec
from ..translate import go_translator

SPEC = Spec(
    pid="C06",
    lean_modules=["OtelVerif.Props.C06"],
    translators=[go_translator("fanoutshape", "OtelVerif/Gen/FanoutShape.lean")],
    harnesses=[
        Harness(name="fanout", module="internal/fanoutconsumer", pkg="internal/fanoutconsumer",
                files={"zz_verif_c06_fanout_test.go": "c06/fanout_test.go"},
                test="TestVerifC06Fanout", driver="drv_c06", n={"quick": 2500, "thorough": 40000}),
        Harness(name="router", module="connector", pkg="connector",
                files={"zz_verif_c06_router_test.go": "c06/router_test.go", "zz_verif_c06_routerc_test.go": "c06/router_common.go.tmpl"},
                test="TestVerifC06Router", driver="drv_c06", n={"quick": 1500, "thorough": 20000}),
        Harness(name="xrouter", module="connector/xconnector", pkg="connector/xconnector",
                files={"zz_verif_c06_xrouter_test.go": "c06/xrouter_test.go", "zz_verif_c06_routerc_test.go": "c06/router_common.go.tmpl"},
                test="TestVerifC06XRouter", driver="drv_c06", n={"quick": 1500, "thorough": 20000}),
        Harness(name="exporter", module="exporter", pkg="exporter/exporterhelper",
                files={"zz_verif_c06_exporter_test.go": "c06/exporter_test.go"},
                test="TestVerifC06Exporter", driver="drv_c06", n={"quick": 1200, "thorough": 20000}),
        Harness(name="xexporter", module="exporter/exporterhelper/xexporterhelper", pkg="exporter/exporterhelper/xexporterhelper",
                files={"zz_verif_c06_xexporter_test.go": "c06/xexporter_test.go"},
                test="TestVerifC06XExporter", driver="drv_c06", n={"quick": 800, "thorough": 10000}),
        Harness(name="processor", module="processor/processorhelper", pkg="processor/processorhelper",
                files={"zz_verif_c06_processor_test.go": "c06/processor_test.go"},
                test="TestVerifC06Processor", driver="drv_c06", n={"quick": 800, "thorough": 10000}),
        Harness(name="xprocessor", module="processor/processorhelper/xprocessorhelper", pkg="processor/processorhelper/xprocessorhelper",
                files={"zz_verif_c06_xprocessor_test.go": "c06/xprocessor_test.go"},
                test="TestVerifC06XProcessor", driver="drv_c06", n={"quick": 800, "thorough": 10000}),
        Harness(name="graph", module="service", pkg="service/internal/graph",
                files={"zz_verif_c06_graph_test.go": "c06/graph_test.go"},
                test="TestVerifC06Graph", driver="drv_c06", n={"quick": 2000, "thorough": 30000}),
    ],
    rule="fanout (all four signals; one consumer may cancel the request context while it is served): random capability vectors (1-7 "
         "consumers; every 16th case 8-40 consumers), read-only/mutable input, failure patterns, synchronous and asynchronous writers, "
         "one undeclared writer, on RANDOM payloads (1-3 resources, nested attribute values, several item kinds) with every write at one "
         "of 6 mutation sites; every 4th case the SAME fan-out object is used for 2-3 payloads in a row (other content, other input "
         "mode); in half of the cases (and 2/3 of the exhaustive scope) the fan-out is built from a long-lived caller-owned slice that "
         "must be unchanged after New*, is then overwritten with foreign consumers (which must never be invoked) and, in mode 2, re-used "
         "as scratch for a second fan-out before data is sent through the first; a mutating consumer's object must equal the sent bytes plus its OWN writes replayed on a private copy; plus EXHAUSTIVE "
         "capability vectors of length <= 5 (quick) / <= 8 (thorough) x input mode x undeclared-writer position; non-trivial = mixed "
         "mutating/non-mutating vector. router / xrouter: connector.New{Logs,Metrics,Traces}Router and xconnector.NewProfilesRouter: "
         "(a) which selections Consumer(ids...) accepts (empty, unknown ids, repeats) vs routerSelect, (b) the returned consumer on "
         "random pipeline sets, selections (half of them a single pipeline; every 8th with a pipeline selected twice or more), failing "
         "consumers, capability read from the returned consumer, vs the fan-out model, (c) histories on ONE router object: the route is "
         "requested, 1-2 more routes are requested from the same router, then the payload is sent on the first; the caller's consumer map is overwritten with foreign consumers right after "
         "New*Router; plus every capability vector <= 3 x every single selection. exporter / xexporter: exporters built with exporterhelper.New{Logs,Traces,Metrics} and "
         "xexporterhelper.NewProfilesExporter from random option lists (own declarations in option order, sending_queue::batch, legacy "
         "batcher on/off, disabled queue with a batch section, both, neutral options, random order): advertised MutatesData vs "
         "exporterCap and exporterCapH (defaults regenerated from the source). processor / xprocessor: processors built with "
         "processorhelper.New{Logs,Traces,Metrics} / xprocessorhelper.NewProfiles from random option lists (0-3 own declarations, "
         "start/shutdown options): advertised MutatesData vs processorCapH. graph: random DAGs built by the real graph.Build for a "
         "random signal of the four (1-6 pipelines, 1-2 receivers, pipelines with several sources, connector chains, connectors fed by "
         "several pipelines, exporters shared between pipelines, a probe processor at a varying position in every pipeline, every 16th "
         "case one pipeline with 8-17 exporters, every 3rd case failing exporters, every 4th case cross-signal connectors feeding extra "
         "pipelines of another signal, all 12 pairs): (1) advertised capability of every pipeline vs "
         "pipelineCap/aggregateCap, (2) for EVERY fan-out call the order-independent summary vs the model (C06_seen_ro, C06_origMut, "
         "C06_summary_perm) + identity oracles, (3) the WHOLE unfolded graph below every receiver vs the whole-graph model Dag.fan: "
         "capability of every top-level pipeline, number of errors returned to the receiver, and for every exporter call (sorted) "
         "exporter id : read-only flag at call : trail at call : trail at the very end (after one more asynchronous write by every "
         "declared-mutating exporter) : number of exporter calls holding the same object; the Lean oracle judges the implementation's "
         "line against the ABSTRACT private-copy semantics (checkLeaves, proved sound) + shared=>read-only + exclusivity, (4) Go-side "
         "trail oracles per exporter call. non-trivial = more than one pipeline and mixed capabilities. distinct = distinct op sequences.",
    trusted_base=[
        "Lean 4.33.0 kernel; axioms per theorem listed under axioms_per_theorem",
        "translator translators/cmd/fanoutshape (go/ast, stdlib only): statement-by-statement translation of New*/Capabilities/"
        "Consume*/clone* of each of the four internal/fanoutconsumer files into the small language of Model/C06Src.lean (interpreted "
        "and proved equal to the hand-written model for all capability vectors: C06_src_fanout); aggregateCap and the capabilities "
        "node as fold expressions; per-signal call-site facts for connectorNode.build*, the capabilities node arms, "
        "capabilityconsumer.New*; Consumer(ids...) of each signal's connector router; the default declarations of consumer/internal, "
        "processorhelper, xprocessorhelper and the exporter helper's batching declaration; exit 2 on any unknown shape. Trusted: the "
        "translator's recognisers (a wrong recogniser would have to coincide with the exact differential on the same code)",
        "hand-written models deliveries/runFan (flat fan-out), Dag.fan (whole graph; C06_dag_flat proves its fan-out step IS the flat "
        "model), pipelineCap, aggregateCap, routerSelect, applyCaps: all tied by exact differential on every run (object identity read "
        "by reflection on the pdata wrapper's pointer field)",
        "payload content is abstract in the models (one number in the flat model, the list of writers' tags in the whole-graph model): "
        "'a clone is an independent equal object' and 'a write to a read-only payload panics without effect' are property C07's "
        "theorems, used here as the definition of Heap.write / clone and OBSERVED by the fan-out harness on random payloads at 6 kinds "
        "of mutation site (not proved here)",
        "the graph hands consumers to a fan-out in graph-iteration order: only order-independent facts are compared there "
        "(C06_fanCap_perm, C06_summary_perm; the whole-graph comparison sorts the exporter calls; C06_dag_refines holds for every order)",
        "consumers are called sequentially by the fan-out (as the code does); asynchronous work happens after the fan-out returned",
    ],
    assumptions=[
        "clone = fresh equal object (C07); write to read-only object = panic, no change (C07)",
        "graph hands exporters to the fan-out in map order: the capability is order-independent (C06_fanCap_perm)",
        "whole-graph model: same-signal connectors pass the object they received on to their router (what the graph wraps with "
        "aggregateCap); a cross-signal connector is a leaf (own declared capability) of the pipeline that feeds it and the root of a new "
        "journey of a NEW payload that starts with the trail so far (generated: every 4th graph case has 1-2 extra pipelines of another "
        "signal fed by cross-signal connectors; all 12 signal pairs occur)",
    ],
)
