from ..runner import Harness, Spec
from ..translate import go_translator

# all harness files are injected together (they share helpers); each Harness runs one test of them
FILES = {
    "zz_verif_c07_ptrslice_test.go": "c07/ptrslice_test.go",
    "zz_verif_c07_tree_test.go": "c07/tree_test.go",
    "zz_verif_c07_witness_test.go": "c07/witness_test.go",
    "zz_verif_c07_metric_test.go": "c07/metric_test.go",
}


def H(name, test, driver, n):
    return Harness(name=name, module="pdata", pkg="pdata/plog", files=FILES, test=test, driver=driver, n=n)


def _gen_names(path, defname):
    """names listed in a `def <defname> : List … := [ ("a", "b", …), … ]` of a regenerated Gen file"""
    import os, re
    from ..runner import LEAN
    try:
        with open(os.path.join(LEAN, path)) as f:
            body = f.read()
    except FileNotFoundError:      # the translator failed (reported there) and removed its stale output
        return []
    m = re.search(r"def %s\b.*?:=\s*\[(.*?)\]\n" % defname, body, re.S)
    return re.findall(r"\(([^()]*)\)", m.group(1)) if m else []


def _types_run(ctx, harness):
    import os, re
    p = os.path.join(ctx.scratch, harness, "lines.txt")
    if not os.path.exists(p):
        return set()
    with open(p) as f:
        return set(re.findall(r"^case \S+ .*?type=(\S+)", f.read(), re.M))


def _restore_untracked_gen():
    """a run against a scratch tree (VERIF_REPO) leaves ITS Gen/PdataState.lean behind while that file is not yet tracked by git
    (the runner restores tracked Gen files only): regenerate it from /repo"""
    import fcntl, os, subprocess
    from ..runner import LEAN, REPO, VERIF
    if os.path.realpath(REPO) == "/repo":
        return
    rel = "lean/OtelVerif/Gen/PdataState.lean"
    if subprocess.run(["git", "-C", VERIF, "ls-files", "--error-unmatch", rel], capture_output=True).returncode == 0:
        return
    with open(os.path.join(LEAN, ".verif.lock"), "w") as lock:
        fcntl.flock(lock, fcntl.LOCK_EX)
        env = dict(os.environ, GOFLAGS="-mod=mod", GOPROXY="off", GOSUMDB="off", GOTOOLCHAIN="local")
        r = subprocess.run(["go", "run", "./cmd/pdatastate", "/repo"], cwd=os.path.join(VERIF, "translators"),
                           capture_output=True, text=True, env=env)
        if r.returncode == 0 and r.stdout:
            with open(os.path.join(VERIF, rel), "w") as f:
                f.write(r.stdout)


def post(ctx):
    """coverage tie: every generated slice / primitive slice / message struct listed by the translators was RUN by the
    reflection harnesses of this very run (fail closed)"""
    from ..runner import TieBroken
    _restore_untracked_gen()
    if ctx.replay is not None:
        return
    want = set()
    for ent in _gen_names("OtelVerif/Gen/PdataSlices.lean", "elemSlices"):
        parts = [x.strip().strip('"') for x in ent.split(",")]
        want.add(parts[0] + "." + parts[1])
    got = _types_run(ctx, "allslices") | _types_run(ctx, "allslices-pprofile")
    if not want or want - got:
        raise TieBroken("allslices-coverage", "generated slices not exercised by the allslices harnesses: %s" % sorted(want - got))
    wantp = {ent.split(",")[0].strip().strip('"') for ent in _gen_names("OtelVerif/Gen/PdataSlices.lean", "primSlices")}
    gotp = _types_run(ctx, "allprims")
    if not wantp or wantp - gotp:
        raise TieBroken("allprims-coverage", "primitive slices not exercised: %s" % sorted(wantp - gotp))
    wantm = set()
    import re as _re, os as _os
    from ..runner import LEAN as _LEAN
    try:
        with open(_os.path.join(_LEAN, "OtelVerif/Gen/PdataMsg.lean")) as f:
            for pk, nm in _re.findall(r'pkg := "([a-z]+)", name := "([A-Za-z]+)"', f.read()):
                wantm.add(pk + "." + nm)
    except FileNotFoundError:
        pass
    gotm = _types_run(ctx, "allmsgs") | _types_run(ctx, "allmsgs-pprofile")
    if not wantm or wantm - gotm:
        raise TieBroken("allmsgs-coverage", "generated message structs not exercised by the allmsgs harnesses: %s" % sorted(wantm - gotm))
    ctx.cov["stats"].setdefault("coverage", {}).update({"message_structs_run": len(gotm & wantm), "message_structs_listed": len(wantm)})
    # every generated element slice and message struct was READ (CopyTo from it into a mutable destination) under a read-only root
    st = dict(ctx.cov["stats"].get("allmsgs", {}))
    for k, v in ctx.cov["stats"].get("allmsgs-pprofile", {}).items():
        st[k] = st.get(k, 0) + v
    copied = {k[len("ro_copy_from_"):] for k, v in st.items() if k.startswith("ro_copy_from_") and v > 0}
    need = {w.split(".")[1] for w in want} | {w.split(".")[1] for w in wantm}
    if need - copied:
        raise TieBroken("readonly-reader-coverage", "types never copied FROM under a read-only root by the allmsgs sweep: %s" % sorted(need - copied))
    ctx.cov["stats"]["coverage"]["types_copied_from_under_read_only_root"] = len(need & copied)
    # copies were compared by marshalled bytes, and sources carried values planted directly in the protobuf struct
    for k in ("copies_compared_by_bytes", "structs_poked"):
        if st.get(k, 0) <= 0:
            raise TieBroken("extreme-value-coverage", "allmsgs harnesses report no %s" % k)
        ctx.cov["stats"]["coverage"][k] = st[k]
    # part F: every payload type of the regenerated method table went through the state differential
    try:
        with open(_os.path.join(_LEAN, "OtelVerif/Gen/PdataState.lean")) as f:
            body = f.read()
        tys = _re.findall(r'"([a-z]+\.[A-Za-z0-9]+)"', _re.search(r"def types : List String := \[(.*?)\]", body, _re.S).group(1))
        ids = [int(x) for x in _re.findall(r"\d+", _re.search(r"def payloads : List Nat := \[(.*?)\]", body).group(1))]
        wantp2 = {tys[i] for i in ids}
    except (FileNotFoundError, AttributeError, IndexError):
        wantp2 = set()
    gotp2 = _types_run(ctx, "rostate") | _types_run(ctx, "rostate-pprofile")
    if not wantp2 or wantp2 - gotp2:
        raise TieBroken("rostate-coverage", "payload types not run through the state differential: %s" % sorted(wantp2 - gotp2))
    calls = ctx.cov["stats"].get("rostate", {}).get("state_calls", 0) + ctx.cov["stats"].get("rostate-pprofile", {}).get("state_calls", 0)
    if calls <= 0:
        raise TieBroken("rostate-coverage", "the state differential compared no call")
    ctx.cov["stats"]["coverage"]["state_differential_calls"] = calls
    ctx.cov["stats"].setdefault("coverage", {}).update({"generated_slices_run": len(got & want), "generated_slices_listed": len(want),
                                                        "primitive_slices_run": len(gotp & wantp), "primitive_slices_listed": len(wantp)})


SPEC = Spec(
    pid="C07",
    post=post,
    lean_modules=["OtelVerif.Props.C07"],
    translators=[go_translator("pdatacensus", "OtelVerif/Gen/PdataCensus.lean"),
                 go_translator("pdatamsg", "OtelVerif/Gen/PdataMsg.lean"),
                 go_translator("pdataslices", "OtelVerif/Gen/PdataSlices.lean"),
                 go_translator("pdatastate", "OtelVerif/Gen/PdataState.lean")],
    harnesses=[
        H("witness", "TestVerifC07Witness", None, {"quick": 10, "thorough": 10}),
        H("ptrslice", "TestVerifC07PtrSlice", "drv_c07", {"quick": 12000, "thorough": 100000}),
        Harness(name="ptrslice-ptrace", module="pdata", pkg="pdata/ptrace", files={"zz_verif_c07_ptrslice_test.go": "c07/ptrslice_ptrace_test.go"},
                test="TestVerifC07PtrSliceTrace", driver="drv_c07", n={"quick": 3000, "thorough": 40000}),
        Harness(name="ptrslice-pmetric", module="pdata", pkg="pdata/pmetric", files={"zz_verif_c07_ptrslice_test.go": "c07/ptrslice_pmetric_test.go"},
                test="TestVerifC07PtrSliceMetric", driver="drv_c07", n={"quick": 3000, "thorough": 40000}),
        Harness(name="ptrslice-pprofile", module="pdata/pprofile", pkg="pdata/pprofile", files={"zz_verif_c07_ptrslice_test.go": "c07/ptrslice_pprofile_test.go"},
                test="TestVerifC07PtrSliceProfile", driver="drv_c07", n={"quick": 3000, "thorough": 40000}),
        Harness(name="allslices", module="pdata", pkg="pdata/plog", files={"zz_verif_c07_allslices_test.go": "c07/allslices_test.go"},
                test="TestVerifC07AllSlices", driver="drv_c07", n={"quick": 17 * 120, "thorough": 17 * 1500}),
        Harness(name="allslices-pprofile", module="pdata/pprofile", pkg="pdata/pprofile",
                files={"zz_verif_c07_allslices_test.go": "c07/allslices_pprofile_test.go"},
                test="TestVerifC07AllSlicesProfile", driver="drv_c07", n={"quick": 12 * 120, "thorough": 12 * 1500}),
        Harness(name="allprims", module="pdata", pkg="pdata/pcommon", files={"zz_verif_c07_allprims_test.go": "c07/allprims_test.go"},
                test="TestVerifC07AllPrims", driver="drv_c07", n={"quick": 7 * 200, "thorough": 7 * 4000}),
        Harness(name="allmsgs", module="pdata", pkg="pdata/plog",
                files={"zz_verif_c07_allslices_test.go": "c07/allslices_test.go", "zz_verif_c07_allmsgs_test.go": "c07/allmsgs_test.go"},
                test="TestVerifC07AllMsgs", driver=None, n={"quick": 30 * 24, "thorough": 30 * 400}),
        Harness(name="allmsgs-pprofile", module="pdata/pprofile", pkg="pdata/pprofile",
                files={"zz_verif_c07_allslices_test.go": "c07/allslices_pprofile_test.go", "zz_verif_c07_allmsgs_test.go": "c07/allmsgs_pprofile_test.go"},
                test="TestVerifC07AllMsgsProfile", driver=None, n={"quick": 13 * 24, "thorough": 13 * 400}),
        Harness(name="rostate", module="pdata", pkg="pdata/plog",
                files={"zz_verif_c07_allslices_test.go": "c07/allslices_test.go", "zz_verif_c07_allmsgs_test.go": "c07/allmsgs_test.go"},
                test="TestVerifC07RoState", driver="drv_c07", n={"quick": 3 * 3, "thorough": 3 * 20}),
        Harness(name="rostate-pprofile", module="pdata/pprofile", pkg="pdata/pprofile",
                files={"zz_verif_c07_allslices_test.go": "c07/allslices_pprofile_test.go", "zz_verif_c07_allmsgs_test.go": "c07/allmsgs_pprofile_test.go"},
                test="TestVerifC07RoStateProfile", driver="drv_c07", n={"quick": 3, "thorough": 20}),
        Harness(name="map", module="pdata", pkg="pdata/pcommon", files={"zz_verif_c07_map_test.go": "c07/map_test.go"},
                test="TestVerifC07Map", driver="drv_c07", n={"quick": 12000, "thorough": 150000}),
        Harness(name="nest", module="pdata", pkg="pdata/pcommon", files={"zz_verif_c07_nest_test.go": "c07/nest_test.go"},
                test="TestVerifC07Nest", driver="drv_c07", n={"quick": 6000, "thorough": 80000}),
        Harness(name="elem-plog", module="pdata", pkg="pdata/plog", files={"zz_verif_c07_elem_test.go": "c07/elem_plog_test.go"},
                test="TestVerifC07Elem", driver="drv_c07", n={"quick": 3000, "thorough": 40000}),
        Harness(name="elem-pmetric", module="pdata", pkg="pdata/pmetric", files={"zz_verif_c07_elem_test.go": "c07/elem_pmetric_test.go"},
                test="TestVerifC07ElemMetric", driver="drv_c07", n={"quick": 3000, "thorough": 40000}),
        Harness(name="prim", module="pdata", pkg="pdata/pcommon", files={"zz_verif_c07_prim_test.go": "c07/prim_test.go"},
                test="TestVerifC07Prim", driver="drv_c07", n={"quick": 5000, "thorough": 80000}),
        H("tree", "TestVerifC07Tree", None, {"quick": 5000, "thorough": 100000}),
        H("metric", "TestVerifC07Metric", None, {"quick": 8000, "thorough": 150000}),
    ],
    rule="witness: 10 scripted corpus cases (the reproduced defects and the seeded-change targets), each with a direct oracle. "
         "ptrslice (exact differential against the Lean heap model + Lean oracle on the implementation's observations): corpus of 4 "
         "scripted programs, then random programs of 1-40 ops (append, set, remove-if by index pattern, ensure-capacity, sort, copy-to, "
         "move-and-append-to, mark-read-only) over 2-4 plog.LogRecordSlice handles, content and cap of every handle observed after every "
         "op; thorough adds all 14^4 programs over a 14-op alphabet; non-trivial = contains a copy/move whose destination had cap > len "
         "or had been filtered / re-sliced shorter before. "
         "map (exact differential against the Lean heap model of pcommon.Map + Lean oracle): corpus of 4 scripted programs, then random "
         "programs of 1-40 ops (PutInt/PutStr/PutEmpty/PutEmptyBytes+FromRaw, in-place ByteSlice.Append, Remove, RemoveIf, EnsureCapacity, "
         "Clear, CopyTo, MoveTo, read-only) over 2-4 maps with keys from a pool of 6; non-trivial as for ptrslice. "
         "nest (exact differential against the Lean nested heap model): corpus of 2 scripted programs, then random programs of 5-50 ops "
         "(Set*/Put*/AppendEmpty with scalars, bytes, empty maps and slices at random positions, in-place bytes append, Remove, RemoveIf, "
         "EnsureCapacity, Clear, Value.CopyTo between disjoint positions at any depth, Map.CopyTo/Slice.CopyTo between disjoint containers, "
         "Value.MoveTo between roots, read-only; Value.FromRaw with a NESTED raw input (maps / slices / []byte / scalars up to 4 levels, map "
         "entry order read back from the result) at any position and Map.FromRaw / Slice.FromRaw directly on an existing container (one time "
         "in four with an empty input), the caller keeping the raw input and scribbling on it afterwards, with a direct oracle 'the value reads "
         "as the raw input') over 2-4 root pcommon.Values nested up to depth 10; the dump of every root including the "
         "capacity of every nested container is compared after every op; non-trivial = contains a copy or a from-raw. "
         "rostate / rostate-pprofile (exact differential against the Lean state-propagation model interpreted over the regenerated method "
         "table + Lean oracle): for Logs / Metrics / Traces / Profiles payloads, randomly filled then force-populated and marked read-only, "
         "EVERY call of the exhaustive read-only sweep (every mutator, scalar getter and CopyTo-from at every position reachable through the "
         "accessors, with the position as receiver / destination / source) is sent with its accessor path; the model follows the path through "
         "the table (whose state each child wrapper gets) and runs the leading AssertMutable statements of the method; observed panic vs "
         "predicted; non-trivial = at least one call. "
         "elem-plog / elem-pmetric (exact differential against the nested model through the record embedding): random programs of 8-48 ops "
         "over 2-3 plog.LogRecordSlice / pmetric.ExemplarSlice handles (AppendEmpty, field sets, map operations on the element's attribute "
         "map and on maps nested in it, bytes append, slice RemoveIf/EnsureCapacity/CopyTo/MoveAndAppendTo, element CopyTo, Map.CopyTo and "
         "Value.CopyTo between elements, read-only); every capacity at every level compared. ptrslice-ptrace/-pmetric/-pprofile: the ptrslice "
         "differential on SpanSlice, NumberDataPointSlice, ProfilesSlice. "
         "allslices / allslices-pprofile (reflection, model c07-ptrslice): the ptrslice programs (no read-only) over EVERY generated element "
         "slice (29 types, the case index selects the type; element scalar and capacity read by reflection). allprims (reflection, model "
         "c07-prim): every primitive slice (7 types). allmsgs / allmsgs-pprofile (reflection, Go oracles): for every generated message struct, "
         "pcommon.TraceState and the four payload types: random fill through every public mutator, CopyTo into an arbitrarily pre-filled "
         "destination (equal, source unchanged, independence both ways), MoveTo (destination = source, source = New(), independence both "
         "ways), and for payloads an EXHAUSTIVE read-only sweep: every mutator at every position reachable through the accessors must panic, "
         "the dump must not change, all readers keep working. One scalar draw in three is an extreme of its kind (min / max of the width, "
         "MaxInt64 and MaxInt64+1 as unsigned, NaN, +-Inf, -0.0, empty / very long strings) and one struct in three gets such values planted "
         "DIRECTLY in the protobuf struct behind the wrapper (what the wire can deliver and no setter produces); copies and moves are compared "
         "by every getter AND by the marshalled bytes of the protobuf struct. "
         "prim (exact differential + Lean oracle): random programs over 2-4 pcommon.UInt64Slice (Append, SetAt, EnsureCapacity, FromRaw, "
         "CopyTo, MoveTo, read-only); non-trivial = a copy into a destination with spare capacity. "
         "tree (plain-Go reference model, no Lean model): 5-45 random public ops at random positions of 2-3 randomly filled plog.Logs "
         "(copy-to / move-to / move-and-append-to between disjoint positions of the same kind at any level: resource/scope/record slices "
         "and messages, attribute maps, values, value slices; remove, remove-if, ensure-capacity, append, Set*/Put*/FromRaw, mark-read-only), "
         "whole payloads compared with reference trees after every op; non-trivial = contains a copy or move. "
         "metric: pmetric messages with optional and one-of fields: CopyTo at metric / data-point level into an arbitrarily pre-filled "
         "destination, payload encodings compared, then both sides scrambled in turn (independence). distinct = distinct op sequences.",
    trusted_base=[
        "Lean 4.33.0 kernel; axioms per theorem listed under axioms_per_theorem (subset of propext, Classical.choice, Quot.sound)",
        "hand-written heap model of the generated pointer-slice template (slice.go.tmpl, sliceOfPtrs) for elements with one scalar field, "
        "tied by exact differential (content + capacity of every handle after every op) on plog.LogRecordSlice on every run",
        "hand-written heap model of pcommon.Map (map.go + the parts of value.go it uses) for empty / scalar / bytes values: bytes one-of "
        "wrappers on the heap, scalar wrappers by value (every Set* allocates a new wrapper: watched by the differential and witness case 4); "
        "tied by exact differential (entries in Range order + capacity of every handle after every op) on every run",
        "hand-written nested heap model of pcommon.Value/Map/Slice (kvlist/array/bytes wrappers on the heap, value-slice struct copies), "
        "containers addressed by object id, paths of the harness resolved by the driver at call time; tied by exact differential incl. the "
        "capacity of every nested container; the element loop writes the destination header back at the end (equal to in-place writes "
        "under the separation hypothesis)",
        "record embedding: a generated message element owning containers (pointer-slice element or inline value-slice element) is a "
        "fixed-arity array container of its fields in the nested model; justified by reading the generated CopyTo/RemoveIf/MoveAndAppendTo "
        "and checked by exact differential (elem-plog, elem-pmetric), not proved in Lean; the driver expands AppendEmpty (appendrec)",
        "translator translators/cmd/pdataslices (go/ast + go/printer): fails unless every function of every generated_*slice.go (29 element "
        "slices, 7 primitive slices, 7 internal wrappers) is textually the template instance of the reference type the differentials run; "
        "the reflection harnesses allslices / allprims additionally RUN every one of them through the Lean models, and Spec.post fails the "
        "run if a listed slice / primitive slice / message struct was not exercised",
        "the census rule is syntactic: writes through a local alias of orig are seen only if the method name matches the mutator pattern",
        "hand-written model of primitive slices (copyX = append(dst[:0], src...)), tied by exact differential on pcommon.UInt64Slice",
        "translator translators/cmd/pdatamsg (go/ast): reads the statement shapes of every generated message CopyTo/MoveTo (four known "
        "shapes, else failure), the setters/wrapper getters of the struct, and counts the optional/one-of descriptions in the generator tables",
        "representation: a slice header owns its backing array, split at len into live pointers and an arbitrary tail; nil slice = cap 0",
        "Go's append growth policy is an input (capacity observed after the call)",
        "translator translators/cmd/pdatacensus (go/ast): classifies exported value-receiver methods of pdata wrapper types by a syntactic "
        "rule (writes through an expression containing `orig` / mutator name pattern / first statement is AssertMutable)",
        "nested message fields (opaque in the message model), nested Value.MoveTo/Map.MoveTo, element MoveTo/Sort of record slices: NOT modelled in Lean; checked by Go reference-model oracles only (tree, metric, witness harnesses); ptrace/pmetric/pprofile share the templates "
        "and are exercised separately: ptrslice-ptrace/-pmetric/-pprofile (Lean differential on one slice type each) and, by reflection, "
        "allslices / allslices-pprofile (every generated element slice) and allmsgs / allmsgs-pprofile (every generated message struct, Go oracles)",
        "the driver re-tabulates the heap function after every step (extensionally equal on allocated ids)",
        "translator translators/cmd/pdatastate (go/ast): per exported value-receiver method of every wrapper type the maximal prefix of "
        "AssertMutable statements with WHOSE state each checks (receiver / the single same-typed parameter / other), whether an assertion "
        "occurs later, whether the body writes through an expression containing `orig`, and every wrapper-constructor call in the body "
        "(incl. closures; calls of another method of the receiver hand on that method's constructions) with the wrapper type and whose "
        "state it is given; delegating mutators must have the body `recv.A().CopyTo(dest.A())` (else failure). The Lean interpretation "
        "(Model/C07State.lean: a wrapper = type + state cell, runAsserts, follow) is hand-written and tied by the rostate differential; "
        "that the ORIG pointer handed to a child wrapper belongs to the same owner as the state is not checked by the translator "
        "(observed by the sweep: a mutator that does not panic, or a panicking call that changed data)",
        "nested from-raw: Value.FromRaw at a position is decomposed by the DRIVER, as the code does, into Set*/SetEmpty* (setRoot/setSlot) "
        "followed by Map.FromRaw/Slice.FromRaw (OpR.fromRawList) on the new container; the order of a Go map's entries is an input "
        "(read back from the result at every level); the raw input is a pure value in Lean (aliasing with the CALLER's byte arrays is "
        "judged by the harness: pre-registered arrays in the separation oracle + scribbling on the kept input)",
    ],
    assumptions=[
        "single goroutine",
        "one handle = one top-level container; a second wrapper of the same container, or an element handle kept across RemoveIf / Sort / a "
        "growing AppendEmpty and used afterwards, is outside the programs considered",
        "read-only: the per-family theorems C07_readonly / _map_ / _nest_ / _prim_ are definitional (the step checks the flag of the root "
        "named by an input of the op); the non-definitional statement is part F (C07_readonly_reachable_mutators …): state cells, "
        "propagation along accessor paths and the leading assertions interpreted from the regenerated method table. Part F does not model "
        "the DATA (orig): 'panics without changing anything' there means 'panics in an assertion statement preceded by assertion statements "
        "only'; that no data changed is observed by the sweep (dump before = after)",
        "nested model: nested Value.MoveTo / Map.MoveTo (between positions that are not roots) are not in the model (Value.MoveTo between "
        "roots is; Slice.MoveAndAppendTo between slices at any depth is covered at program level by C07_nest_move_append_nested / "
        "C07_nest_separation_full / _frame_full); for nested targets the result of non-copy operations is stated per operation "
        "(C07_nest_*_result, C07_nest_fromraw_result, C07_nest_move_append_roots for root slices), there is no single pure program "
        "semantics on trees; every op the nest / elem differentials generate is checked by the driver to lie in the theorems' domain "
        "(N.WfOpX, decidable; prop nestdomain)",
        "message structs (part E): nested fields are opaque and independence is not expressible in the message model; message-level copy / "
        "move / independence for all 38 structs + TraceState rests on the reflection harnesses (allmsgs) and the regenerated statement shapes",
        "as-raw (Value/Map/Slice.AsRaw): Go oracles only (witness 7, tree); from-raw with nested raw input is modelled (part C') for "
        "pcommon.Value/Map/Slice; raw inputs of unsupported Go types (error branch of Value.FromRaw) are not generated",
        "copy-to / move-to / move-and-append-to are between distinct values (neither contains the other)",
        "programs reach sub-values from named roots at the time of the call (no handle to an element is kept across a removal of that element)",
    ],
)
