from ..runner import Harness, Spec

SPEC = Spec(
    pid="C07",
    lean_modules=["OtelVerif.Props.C07"],
    harnesses=[
        Harness(name="ptrslice", module="pdata", pkg="pdata/plog",
                files={"zz_verif_c07_ptrslice_test.go": "c07/ptrslice_test.go"},
                test="TestVerifC07PtrSlice", driver="drv_c07", n={"quick": 4000, "thorough": 40000}),
    ],
    rule="ptrslice: random programs (1-40 ops: append, set, remove-if by index pattern, ensure-capacity, sort, copy-to, "
         "move-and-append-to, mark-read-only) over 2-4 plog.LogRecordSlice handles; non-trivial = contains a copy/move whose "
         "destination had cap > len or had been filtered / re-sliced shorter before. distinct = distinct op sequences.",
    trusted_base=[
        "Lean 4.33.0 kernel; axioms per theorem listed under axioms_per_theorem (subset of propext, Classical.choice, Quot.sound)",
    ],
    assumptions=[],
)
