import os
import sys

from ..runner import Harness, Spec
from ..translate import go_translator

# the concurrent ownership block under the race detector: thorough tier only (the runner has no per-tier race flag, and a
# -race build would cost the quick tier ~40 s), so the harness list depends on the tier asked for on the command line
_THOROUGH = os.environ.get("VERIF_TIER") == "thorough" or any(
    a == "thorough" or a == "--tier=thorough" for a in sys.argv)
_FILES = {"zz_verif_c08_codec_test.go": "c08/codec_test.go", "zz_verif_c08_gen_test.go": "c08/gen_test.go"}
_RACE = [Harness(name="own-race", module="pdata/pprofile", pkg="pdata/pprofile/pprofileotlp", files=_FILES,
                 test="TestVerifC08OwnRace", driver="drv_c08", race=True, n={"quick": 1, "thorough": 1}, timeout_s=1500)] if _THOROUGH else []

SPEC = Spec(
    pid="C08",
    lean_modules=["OtelVerif.Props.C08"],
    translators=[go_translator("otlpschema", "OtelVerif/Gen/OtlpSchema.lean"),
                 # second module (round 2): default clause of every reader's key switch, id sizes + code shape of pdata/internal/data/*id.go
                 go_translator("otlpschema", "OtelVerif/Gen/OtlpSchemaX.lean", args=["--extra"])],
    harnesses=[
        Harness(name="codec", module="pdata/pprofile", pkg="pdata/pprofile/pprofileotlp",
                files={"zz_verif_c08_codec_test.go": "c08/codec_test.go", "zz_verif_c08_gen_test.go": "c08/gen_test.go"},
                test="TestVerifC08Codec", driver="drv_c08", n={"quick": 1500, "thorough": 20000}, timeout_s=1500),
    ] + _RACE,
    rule="type-directed (reflection over the gogo-generated protogen structs) random payloads of all four signals and of the "
         "export request/response wrappers, pushed through the REAL public marshalers/unmarshalers (protobuf, size, JSON) and through the "
         "Lean codec model under the regenerated schema; separate streams: JSON spelling variants (snake_case keys, 64-bit ints as "
         "numbers/strings, enum names/numbers, shuffled/unknown/duplicate members), mutated encodings (truncation, wrong wire types, "
         "overlong varints, huge lengths, groups, merges, deprecated field 1000), random bytes. Corpus cases (reproduced defects) first. "
         "Always-on blocks: response wrappers, type-directed malformed JSON, id boundary shapes, marshaler-output ownership, API-program-built payloads, "
         "deep nesting, INTEGER SPELLINGS (intspell, from 9 700 000: `+7`, `007`, `-0`, numbers whose overflow jsoniter's digit loop does not notice, "
         "underscore / space / hex prefix / exponent / empty / lone sign, at one signed and one unsigned 64-/32-bit site of a conforming document of "
         "each payload and request root; model predicts error vs value exactly) and LENGTH BOUNDARIES (sizeboundary, from 9 800 000: strings / bytes / "
         "packed lists / repeated messages of 128 and 16384 (thorough: 127, 128, 16383, 16384, 70000) in a message of every protogen package "
         "reachable from each of the 12 roots), NUMBERS IN UNKNOWN MEMBERS (skipnum, from 9 950 000: 26 number literals — exponent forms inside and "
         "beyond the float64 range, plain digit strings of any magnitude, fractions — at the top level, inside an unknown array / object and inside a "
         "known sub-message of every root; jsoniter's Skip validates exponent literals with ReadFloat64, the model predicts error vs value exactly) and TEXT LEAVES (txtleaf, from 9 900 000: ids — mixed / upper case, quoted, zero written out, "
         "2n+1 / 4n characters, newline / space inside, lone quote — and base64 — CR LF anywhere incl. inside the padding and MIME folding of the "
         "value's own encoding, url-safe alphabet, missing / misplaced / surplus padding, non-zero trailing bits — at one id / bytes site of a "
         "conforming document of each payload and request root). "
         "non-trivial = the payload sets at least one field to a non-default value; distinct = distinct op lines (sha1).",
    trusted_base=[
        "Lean 4.33.0 kernel; axioms per theorem listed under axioms_per_theorem (subset of propext, Classical.choice, Quot.sound)",
        "translator translators/cmd/otlpschema (go/ast, go/printer): struct tags, one-of wrappers, enum value maps of pdata/internal/data/protogen/**, "
        "the case labels / assigned field / helper calls / default clause of every hand-written jsoniter reader; slot order = marshal order (one-of at "
        "its largest member); --extra (Gen/OtlpSchemaX.lean): id sizes from `const <x>Size`, and SHAPE PINS (exit 2 on any other shape, after renaming "
        "type / size constant / receiver / file suffix) of the six methods of TraceID/SpanID/ProfileID, of bytesid.go and of every *.pb.go's own "
        "encodeVarint<X>/sov<X>/soz<X>/skip<X> — the straight-line code the model's Ty.id / varint / sov / skipLoop were written against",
        "the generic codec model (Model/C08.lean) stands for the gogo-GENERATED per-message code and for jsonpb/jsoniter glue; "
        "tied by byte-exact / value-exact differential on every run",
        "float64<->text (encoding/json formatting, strconv.ParseFloat) is a lawful-pair parameter (FloatLaws) of the JSON theorems: the harness "
        "gives the per-case table and checks the law per entry; decimal / hex / base64 are concrete model functions with PROVED laws "
        "(C08_txt_laws), the same functions the driver runs against the real code; ids and bytes are modelled as the code reads/writes them "
        "(idMarshalJSON / idUnmarshalJSON = traceid.go, spanid.go, profileid.go, bytesid.go; b64Read = base64.StdEncoding.DecodeString incl. its "
        "CR/LF skipping) with C08_hexid_roundtrip / C08_base64_roundtrip for every id size and every byte string — NOTHING about a non-float "
        "text leaf is assumed; encoding/hex and encoding/base64 themselves are stdlib code represented by hexEnc/hexDec/b64enc/b64dec, tied by "
        "the txtleaf block, the malformed-JSON block and every value case",
        "jsoniter's strict Skip (`default: iter.Skip()` of every reader) is a MODEL function (skipOk): digits and one dot are scanned by the "
        "skipper itself, every other number literal (exponent forms) is read with ReadFloat64 = strconv.ParseFloat, so an unknown member holding "
        "`1e400` fails the whole document; tied by the always-on skipnum block (from 9 950 000) and the tree-mutation stream",
        "jsoniter lexer, encoding/json string escaping; UTF-8 validity of strings is assumed (invalid UTF-8 is replaced by jsonpb). jsoniter's "
        "INTEGER token reader (readUint64/readUint32 digit loop incl. its incomplete overflow test, ReadInt64/ReadInt32 sign and range checks) and "
        "strconv.ParseInt/ParseUint base 10 are now MODEL functions (parseNum / parseInt), tied by the intspell block and the variant streams",
        "harness value (de)serialisation by reflection (toVal) and its canonical form: nil == empty slice, zero id == empty, "
        "-0.0 == +0.0 in plain proto3 double fields (the generated `!= 0` test drops it on both codecs)",
    ],
    assumptions=[
        "payload equality is Go's == / reflect.DeepEqual on the canonical form: nil == empty slice, all-zero id == empty id, and -0.0 == +0.0 "
        "in plain (non one-of, non packed) proto3 double fields (the sign of such a zero is not preserved by either codec: observation "
        "`negative_zero_sign_lost`, not a violation); NaNs are NOT identified: protobuf compares NaN bit patterns exactly, JSON up to both-NaN",
        "every encoded (sub)message is shorter than 2^63 bytes (Go int length)",
        "payloads are values of the generated structs reachable through the public pdata API or through a decoder; the API surface is "
        "modelled by the predicate ApiBuilt (no accessor reaches a Deprecated* field; bytes are bytes), checked per run on harness-built payloads",
        "the JSON lexer (text -> tree) is outside the model: free-form documents are given to the model only when encoding/json parses them "
        "completely (valid UTF-8, no surrogate escapes); no-panic/no-hang of the Go code is observed (recover + timeout; malformed, "
        "type-directed and 10^5-deep inputs), not proved",
        "integer spellings: the property speaks of 64-bit integers; for texts that are NOT 64-bit integers the two spellings may differ (a number "
        "above 2^64 whose wrap-around jsoniter does not notice is accepted as garbage while the string is a range error; `+7` / `007` are accepted "
        "as strings only): observation, kernel witness C08_json_int64_variants_alltext_fails, replayed by the intspell block",
        "FloatLaws + fparse_lt: strconv.ParseFloat(json.Marshal(f)) = f for finite f, ParseFloat(NaN/Infinity/-Infinity) special values, jsoniter "
        "ReadFloat64 agrees with ParseFloat (validated on every sampled double, not proved)",
    ],
)
