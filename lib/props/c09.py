from ..runner import Harness, Spec
from ..translate import go_translator

SPEC = Spec(
    pid="C09",
    lean_modules=["OtelVerif.Props.C09"],
    # per-signal(-pair) dispatch of the graph builder (connectorStability, connectorNode.build*, builders.*, node/glue switches) and the
    # error formats, regenerated from service/internal/graph/*.go + service/internal/builders/*.go; consumed by C09_stability_dispatch,
    # C09_connector_build_dispatch, C09_component_build_dispatch, graph_message_formats
    translators=[go_translator("graphdispatch", "OtelVerif/Gen/GraphDispatch.lean")],
    harnesses=[
        Harness(name="graph", module="service", pkg="service/internal/graph",
                files={"zz_verif_c09_graph_test.go": "c09/graph_test.go"},
                test="TestVerifC09Graph", driver="drv_c09", n={"quick": 2500, "thorough": 40000}, timeout_s=1500),
    ],
    rule="corpus of 17 hand-made topologies first (cases 0-16, harness/c09/graph_test.go vCorpus; 15 = no pipeline, 16 = profiles pipeline with the feature gate off), then random service configurations (1-6 pipelines over 1-4 signals, "
         "0-3 receivers/exporters/processors per pipeline from 4 ids, 0-3 connectors with random support matrices, 60% built "
         "acyclic-by-construction, 40% unconstrained incl. self/one-sided/unsupported uses, duplicated list entries, a connector "
         "id that also names a receiver) run through the real graph.Build with instrumented components of all four signals; "
         "every pipelines.Config value is first validated with xconfmap.Validate (as otelcol does; dumped before/after: validation must be "
         "read-only; ~8% of the cases with the feature gate service.profilesSupport switched off; model validateAll) and the very same value is then built; processor ids include k10/k11 and lists of up to 4 in random order so the "
         "configured order differs from the lexical one; ~6% of the cases fail validation (no receiver / no exporter / duplicated "
         "processor) and are not built; 5% have one receiver/exporter factory fail inside buildComponents (Build must return the error; model "
         "buildWith); 12% get a wide connector fan-out (one more connector into 3-4 new pipelines of one random signal, so every signal's router is built over 3-4 next pipelines); the pipeline ids of every connector instance's router are observed at creation (obs routers, diffed) and its error branches probed (Consumer() / Consumer(ids, unknown) must fail); every second case is built TWICE from the very same pipelines.Config value (all observations on the second build) and the value is dumped before/after every build (Build must not modify its input); 4% of the random cases replace one receiver/exporter/processor entry by an id that is referenced but unavailable (not configured / no factory: "
         "the error branches of builders.*Builder.Create*, class create); every second connector support matrix without a profiles pair is served by a plain connector.NewFactory "
         "(not an xconnector.Factory: the guards of connectorStability); the text of every connector error is parsed and judged by the Lean monitor connMsgOk; in 20% of the built cases one to three exporters/processors return an error from Consume (after recording/forwarding) and "
         "the route multisets must be unchanged; 30% of the plain exporters declare MutatesData (besides all processors); the CONTEXT of every injected payload is a "
         "dimension: live 40% / already cancelled 20% / deadline expired 20% / cancelled by a component at the k-th Consume call 20% - routing must not depend on "
         "it, the route multisets are diffed as they are; one tagged payload injected at every receiver instance. thorough adds the exhaustive scope <=3 pipelines x 2 signals x "
         "2 connectors (266304 configurations). non-trivial = uses a connector or shares a receiver/exporter between pipelines; "
         "distinct = distinct op sequences (sha1 of the op lines).",
    trusted_base=[
        "Lean 4.33.0 kernel; axioms per theorem listed under axioms_per_theorem (subset of propext, Classical.choice, Quot.sound)",
        "hand-written model of graph.go createNodes/createEdges/buildComponents and of the consumers' forwarding behaviour, tied by exact differential on every run (build error class, component instance keys and create counts, (exporter, trail) multiset per receiver)",
        "gonum topo.Sort: its code is not modelled; its success condition is modelled by the executable peeling check `sortable`, proved to reject every graph with a closed walk (C09_cycle_rejected, C09_accepted_acyclic) and to reject only graphs with a closed walk (C09_accepts_valid_partial); the error class is part of the differential",
        "which cycle gonum's topo.DirectedCyclesIn reports is not modelled; the printed cycle is checked by the monitor cycleMsgOk (C09_cycle_message_sound) to be a closed walk of the model's graph starting and ending at the same connector",
        "node identity: the fnv-64a hash of service/internal/attribute is assumed injective on the keys of one configuration (a collision would show as a differing instance set)",
        "instrumented test connectors either forward every payload to their whole router or select next pipelines by id through the router API (Conn.sel, modelled by flowEdges); other run-time behaviours of real connectors are not modelled",
        "gonum topo.Sort is trusted to fail iff the component graph has a directed cycle (the model's `sortable` is PROVED to have that property; gonum's code is not examined); fnv-64a node ids are assumed collision-free on the keys of one configuration",
        "run-time law 'every consumer hands the payload to each next consumer exactly once, also when a sibling fails' is a law of the fan-out consumers (property C06) and of the test components; C09 exercises it with failing exporters/processors in 20% of the built cases (route multisets must not change) but does not prove it",
        "translator graphdispatch (go/ast): the per-signal(-pair) switches of connectorStability, connectorNode.build*, builders.*Builder.Create*, the node buildComponent methods and the capabilities/fan-out glue are regenerated into Gen/GraphDispatch.lean on every run and proved to stay within their own signal (pair) (C09_stability_dispatch, C09_connector_build_dispatch, C09_component_build_dispatch); trusted: the translator itself, incl. its decoding of method names (TracesToMetricsStability) into signal codes",
        "content of the connector error: which unsupported use createNodes reports is Go map order and not modelled; the reported use is checked by the monitor connMsgOk (C09_connector_message_sound) to be a genuine unsupported use listing exactly its pipelines; a configured connector whose factory is missing is not generated",
        "the prop verdicts (routing/sharing/reject) are computed with the model functions whose meaning C09_check_sound states on the configuration alone; the independently written config-level enumerators are only a per-case cross-check of the model (prop refagree)",
    ],
    assumptions=[
        "pipeline ids are distinct (Go map keys); no pipeline lists a processor twice - this is what the modelled PipelineConfig.Validate guarantees (C09_validate_wf), and the harness only builds configurations that passed the real validation",
        "every consumer hands a payload to each of its next consumers exactly once (fan-out semantics are property C06)",
    ],
)
