import os

from ..runner import REPO, Harness, Spec


def _shared_exp():
    """shared EXPORTER stream of the lifecycle harness: on when the tree has the repaired ShutdownAll (exporters last;
    fix commit 'shut exporters down after every other pipeline component'), otherwise off; VERIF_C10_SHARED_EXP=1/0 forces it.
    Once the fix is in /repo the default below should become "1" so that losing the fix is a violation again."""
    v = os.environ.get("VERIF_C10_SHARED_EXP", "1")  # the fix is in /repo: losing it is a violation again
    if v != "auto":
        return v
    try:
        with open(os.path.join(REPO, "service/internal/graph/graph.go")) as f:
            return "1" if "isExporter := node.(*exporterNode)" in f.read() else "0"
    except OSError:
        return "0"


SHARED = ["require go.opentelemetry.io/collector/internal/sharedcomponent v0.124.0",
          "replace go.opentelemetry.io/collector/internal/sharedcomponent => $REPO/internal/sharedcomponent"]

SPEC = Spec(
    pid="C10",
    lean_modules=["OtelVerif.Props.C10"],
    harnesses=[
        Harness(name="lifecycle", module="service", pkg="service",
                files={"zz_verif_c10_components_test.go": "c10/components_test.go",
                       "zz_verif_c10_service_test.go": "c10/service_test.go"},
                test="TestVerifC10Lifecycle", driver="drv_c10", n={"quick": 3000, "thorough": 40000}, timeout_s=1500,
                mod_append=SHARED,
                env={"VERIF_C10_SHARED_EXP": _shared_exp(),
                     # shared CONNECTOR stream: recorded observation (no order the graph can choose is right), off by default
                     "VERIF_C10_SHARED_CONN": os.environ.get("VERIF_C10_SHARED_CONN", "0")}),
        # the collector's own use of Service.Start/Shutdown (initial start failure, reload, failed reload): the real
        # otelcol.Collector driven by the C20 gated harness; here it serves the exactly-once clause of C10 on those paths
        # (signatures C20/service/component-shutdown-twice, C20/return/started-component-not-shut-down)
        Harness(name="collector", module="otelcol", pkg="otelcol",
                files={"zz_verif_c20_runloop_test.go": "c20/runloop_test.go"},
                test="TestVerifC20RunLoop", driver="drv_c20", n={"quick": 2000, "thorough": 20000}, timeout_s=1500),
    ],
    rule="corpus of the 10 C09 topologies first, then random service configurations from the C09 generator (1-6 pipelines over "
         "1-4 signals, connectors with random support matrices, cyclic/unsupported variants) plus 0-4 extensions with Dependencies() "
         "(85% acyclic, 10% arbitrary, 5% missing dependency; ~25% of the non-empty service::extensions lists repeat one or two ids, adjacent or not), 30% a receiver shared across signals through the real "
         "internal/sharedcomponent, 30% 1-2 injected Start failures, 30% 1-2 injected Shutdown failures (any component, extension or "
         "shared inner). Real service.New -> Start -> Shutdown driven as otelcol/collector.go does (Shutdown once, also after a failed "
         "Start); the lifecycle log is monitored by the Lean checker C10.check. non-trivial = has a connector, an extension dependency, "
         "a shared receiver or an injected failure; distinct = distinct op sequences (sha1 of the op lines). When the tree has the repaired "
         "ShutdownAll (exporters last) 30% of the cases also build one exporter on sharedcomponent across signals "
         "(VERIF_C10_SHARED_EXP, auto-detected); a connector built on sharedcomponent (VERIF_C10_SHARED_CONN=1, corpus case 10 = the "
         "Lean witness exConnCfg) is a recorded limitation and off by default.",
    trusted_base=[
        "Lean 4.33.0 kernel; axioms per theorem listed under axioms_per_theorem (subset of propext, Classical.choice, Quot.sound)",
        "gonum topo.Sort is a PARAMETER of the model: the theorems hold for every order that is duplicate-free, complete and has every edge forward (Sys.Admissible); that gonum returns such an order is not proved - the monitor checks the consequences on every observed log",
        "graph model of C09 (Model/C09.lean: createNodes/createEdges), tied by the C09 differential; here its node set and compSucc relation are what the monitor judges the real log against",
        "hand-written model of Graph.StartAll/ShutdownAll, Extensions.Start/Shutdown, Service.Start/Shutdown, collector shutdown-after-failed-start, sharedcomponent once-only; tied by the monitor (order clauses) and by exact differential on the order-independent observations (New result class, Start result, set of stopped components, set of failed Shutdowns, Shutdown result)",
        "lifecycle harness: plays the collector's part (Start; Shutdown exactly once also after a failed Start); collector harness: the real otelcol.Collector (C20 gated harness and model) covers the collector's reload / failed-reload use of Service.Start/Shutdown",
        "NotifyConfig / PipelineWatcher hooks and status reporting are not modelled (C11/C20)",
        "service.New is modelled by newService (graph.Build first, then computeOrder: missing dependency, then sortability); an extension depending on itself (gonum SetEdge panic inside New) is not generated - no extension of the repository implements Dependencies()",
    ],
    assumptions=[
        "topo.Sort returns a topological order of the graph it is given (both for the component graph and for the extension dependency graph)",
        "component Start/Shutdown calls are sequential (they are: one goroutine runs Service.Start/Shutdown)",
    ],
)
