from ..runner import Harness, Spec
from ..translate import go_translator

SPEC = Spec(
    pid="C11",
    lean_modules=["OtelVerif.Props.C11"],
    translators=[go_translator("statustable", "OtelVerif/Gen/StatusTable.lean")],
    harnesses=[
        Harness(name="reporter", module="service", pkg="service/internal/status",
                files={"zz_verif_c11_reporter_test.go": "c11/reporter_test.go"},
                test="TestVerifC11Reporter", driver="drv_c11", n={"quick": 3000, "thorough": 30000}),
        Harness(name="shared", module="service", pkg="service/internal/status",
                files={"zz_verif_c11_shared_test.go": "c11/shared_test.go"},
                test="TestVerifC11Shared", driver="drv_c11", n={"quick": 3000, "thorough": 30000},
                mod_append=["require go.opentelemetry.io/collector/internal/sharedcomponent v0.124.0",
                            "replace go.opentelemetry.io/collector/internal/sharedcomponent => $REPO/internal/sharedcomponent"]),
        Harness(name="graph", module="service", pkg="service/internal/graph",
                files={"zz_verif_c11_graph_test.go": "c11/graph_test.go"},
                test="TestVerifC11Graph", driver="drv_c11", n={"quick": 800, "thorough": 10000}),
        Harness(name="service", module="service", pkg="service",
                files={"zz_verif_c11_service_test.go": "c11/service_test.go"},
                test="TestVerifC11Service", driver="drv_c11", n={"quick": 300, "thorough": 4000},
                mod_append=["require go.opentelemetry.io/collector/internal/sharedcomponent v0.124.0",
                            "replace go.opentelemetry.io/collector/internal/sharedcomponent => $REPO/internal/sharedcomponent"]),
        Harness(name="extensions", module="service", pkg="service/extensions",
                files={"zz_verif_c11_ext_test.go": "c11/extensions_test.go"},
                test="TestVerifC11Extensions", driver="drv_c11", n={"quick": 500, "thorough": 5000}),
    ],
    rule="service: the real service.New/Start/Shutdown with a status-watcher extension (the property's observation point), scripted "
         "components and a receiver shared across two signals through the real sharedcomponent; non-shared instances compared exactly "
         "with Life.events, all instances monitored by docPathB, shared instances must end in the same status. extensions: real extensions.New/Start/Shutdown with 1-5 extensions failing Start/Shutdown at random, per-extension events "
         "compared with Life.events; non-trivial = some failure. graph: real graph.Build/StartAll/ShutdownAll with components that report random statuses from Start, while running (one goroutine "
         "per instance) and from Shutdown and that fail Start/Shutdown at random; per-instance events compared with Life.events; "
         "non-trivial = some component reports itself. reporter: random report sequences (0-30 reports, 1-3 instances, all 8 statuses + ReportOKIfStarting) against the real "
         "status.Reporter, every 5th case concurrent goroutines (monitored); non-trivial = contains an illegal report or is concurrent. "
         "shared: real sharedcomponent.Component with 1-4 instance hosts attached at random points of a random report history; "
         "non-trivial = at least two instances attached. distinct = distinct op sequences (sha1 of the op lines).",
    trusted_base=[
        "Lean 4.33.0 kernel; axioms per theorem listed under axioms_per_theorem (subset of propext, Classical.choice, Quot.sound)",
        "translator translators/cmd/statustable (go/ast): extracts the transitions map literal of newFSM, the Status iota order, ring.New(n); checks the statement shape of fsm.transition",
        "hand-written model of reporter.ReportStatus / ReportOKIfStarting / hostWrapper.Report / addSource, tied by exact differential on every run",
        "atomicity of a report under reporter.mu is assumed (modelled as sequential composition), monitored under concurrent goroutines",
        "docs/component-status.md figure transcribed by hand as figureTable",
    ],
    assumptions=[
        "a report is atomic (one mutex); every concurrent history is therefore some sequence of reports",
        "the graph reports StatusStarting for an instance before starting it (graph.go StartAll), so a late source replays the ring from Starting",
    ],
)
