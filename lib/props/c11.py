from ..runner import Harness, Spec
from ..translate import go_translator

SPEC = Spec(
    pid="C11",
    lean_modules=["OtelVerif.Props.C11"],
    translators=[go_translator("statustable", "OtelVerif/Gen/StatusTable.lean"),
                 go_translator("statusglue", "OtelVerif/Gen/StatusGlue.lean")],
    harnesses=[
        Harness(name="reporter", module="service", pkg="service/internal/status",
                files={"zz_verif_c11_reporter_test.go": "c11/reporter_test.go"},
                test="TestVerifC11Reporter", driver="drv_c11", n={"quick": 3000, "thorough": 30000}),
        Harness(name="shared", module="service", pkg="service/internal/status",
                files={"zz_verif_c11_shared_test.go": "c11/shared_test.go"},
                test="TestVerifC11Shared", driver="drv_c11", n={"quick": 3000, "thorough": 30000},
                mod_append=["require go.opentelemetry.io/collector/internal/sharedcomponent v0.124.0",
                            "replace go.opentelemetry.io/collector/internal/sharedcomponent => $REPO/internal/sharedcomponent"]),
        Harness(name="sc", module="service", pkg="service/internal/status",
                files={"zz_verif_c11_sc_test.go": "c11/sc_test.go"},
                test="TestVerifC11SC", driver="drv_c11", n={"quick": 2000, "thorough": 40000},
                mod_append=["require go.opentelemetry.io/collector/internal/sharedcomponent v0.124.0",
                            "replace go.opentelemetry.io/collector/internal/sharedcomponent => $REPO/internal/sharedcomponent"]),
        Harness(name="graph", module="service", pkg="service/internal/graph",
                files={"zz_verif_c11_graph_test.go": "c11/graph_test.go"},
                test="TestVerifC11Graph", driver="drv_c11", n={"quick": 800, "thorough": 20000}),
        Harness(name="service", module="service", pkg="service",
                files={"zz_verif_c11_service_test.go": "c11/service_test.go"},
                test="TestVerifC11Service", driver="drv_c11", n={"quick": 800, "thorough": 16000},
                mod_append=["require go.opentelemetry.io/collector/internal/sharedcomponent v0.124.0",
                            "replace go.opentelemetry.io/collector/internal/sharedcomponent => $REPO/internal/sharedcomponent"]),
        Harness(name="sysservice", module="service", pkg="service",
                files={"zz_verif_c11_sysservice_test.go": "c11/sysservice_test.go"},
                test="TestVerifC11SysService", driver="drv_c11", n={"quick": 600, "thorough": 30000},
                mod_append=["require go.opentelemetry.io/collector/internal/sharedcomponent v0.124.0",
                            "replace go.opentelemetry.io/collector/internal/sharedcomponent => $REPO/internal/sharedcomponent"]),
        Harness(name="instance", module="component/componentstatus", pkg="component/componentstatus",
                files={"zz_verif_c11_instance_test.go": "c11/instance_test.go"},
                test="TestVerifC11Instance", driver="drv_c11", n={"quick": 2000, "thorough": 30000},
                mod_append=["require go.opentelemetry.io/collector/pipeline/xpipeline v0.124.0",
                            "replace go.opentelemetry.io/collector/pipeline/xpipeline => $REPO/pipeline/xpipeline"]),
        Harness(name="extensions", module="service", pkg="service/extensions",
                files={"zz_verif_c11_ext_test.go": "c11/extensions_test.go"},
                test="TestVerifC11Extensions", driver="drv_c11", n={"quick": 500, "thorough": 5000}),
    ],
    rule="sysservice: the real service.New/Start/Shutdown observed at a watcher extension, against the code-shaped glue model Sys "
         "(Model/C11Sys.lean: the graph/extensions/service loops INTERPRETED from the regenerated skeletons of Gen/StatusGlue.lean + "
         "sharedcomponent.Component Start/Shutdown with once-semantics): 1-5 pipelines over all four signals (logs, metrics, traces, "
         "profiles, optionally a second logs pipeline fed by a connector), plain receivers/processors/exporters/connector incl. instances "
         "listed by several pipelines, a receiver shared by 1-4 signals and an exporter shared by 1-4 signals through the real "
         "sharedcomponent, 1-4 extensions (watcher, scripted ones that try to report through the bare host, one backed by a shared "
         "component: the not-a-Reporter host branch) failing Start/Shutdown at random; inputs of the model = the scripts and the ORDER "
         "of the implementation's Start/Shutdown calls; who is reached, where start-up aborts and every instance's events are computed "
         "by the model and compared exactly, instance by instance; direct oracles: docPathB per instance, all instances of a shared "
         "component shown the same events before Stopping (ring overflow classified model-relative), automatic OK only from Starting, "
         "events only for configured instance ids (kind/name/pipelines). instance: NewInstanceID/WithPipelines/AllPipelineIDs against "
         "the model IID over a pool of 32 pipeline ids (all signals, with/without names), duplicates, empty calls, receiver not "
         "modified, early stop, equality of ids built from the same set in another order/grouping. "
         "service: the real service.New/Start/Shutdown with a status-watcher extension (the property's observation point), scripted "
         "components (receiver and exporter optionally listed by TWO pipelines: instance ids with several pipeline ids) and a receiver "
         "shared across two signals through the real sharedcomponent whose single Start may fail; non-shared instances compared exactly "
         "with Life.events, the two shared instances exactly with SharedLife.eventsX/eventsY, all instances monitored by docPathB; every "
         "6th case 'stormy' (every component keeps reporting from its own goroutine while the service shuts down: monitored only). extensions: real extensions.New/Start/Shutdown with 1-5 extensions failing Start/Shutdown at random, per-extension events "
         "compared with Life.events; non-trivial = some failure. graph: real graph.Build/StartAll/ShutdownAll with components that report random statuses from Start, while running (one goroutine "
         "per instance) and from Shutdown and that fail Start/Shutdown at random; per-instance events compared with Life.events; "
         "non-trivial = some component reports itself. reporter: random report sequences (0-30 reports, 1-3 instances, all 8 statuses + ReportOKIfStarting) against the real "
         "status.Reporter; every 5th case 2-4 goroutines run scripts fixed in advance and the driver SEARCHES, per instance, for an "
         "interleaving of the scripts whose run through the model delivers exactly the observed events (prop lin; exhaustive layered "
         "search); race mode: ReportOKIfStarting against a concurrent report; non-trivial = contains an illegal report or is concurrent. "
         "shared: real sharedcomponent.Component with 1-4 instance hosts attached at random points of a random report history: after "
         "every step the status of every instance, at the end the WHOLE event sequence of every instance's watcher, compared with the "
         "model (WrapperE, C11_shared_events_partial); race modes: concurrent reports with a slow host (same order at every instance), "
         "attach while reporting (a late instance must not miss a report); non-trivial = at least two instances attached. distinct = distinct op sequences (sha1 of the op lines).",
    trusted_base=[
        "Lean 4.33.0 kernel; axioms per theorem listed under axioms_per_theorem (subset of propext, Classical.choice, Quot.sound)",
        "translator translators/cmd/statustable (go/ast): extracts the transitions map literal of newFSM, the Status iota order, ring.New(n); checks the statement shape of fsm.transition; "
        "reporterLocked (both reporter methods begin with r.mu.Lock(); defer r.mu.Unlock(), no other (un)lock call, no go statement) and callbackSync (onTransition / onStatusChange called as plain statements)",
        "translator translators/cmd/statusglue (go/ast): status-report skeleton of graph.StartAll/ShutdownAll and extensions.Start/Shutdown (reports before the call, error branch and whether it "
        "returns or continues, reports after, whether the component gets &HostWrapper{InstanceID} or the bare host, backwards walk), layer order of service.Start/Shutdown, statement order and "
        "reported statuses of the sharedcomponent once bodies, statement shape of hostWrapper.Report/addSource (wrapperLocked as data) and graph.HostWrapper.Report; exit 2 on any other shape",
        "sub-step model of the reporter critical section (Model/C11Mutex.lean: Lock / read / write / callback / Unlock): hand-written from status.go; that the mutex is a mutex (sync.Mutex semantics: "
        "Lock blocks while held) is the trusted Go-runtime fact; which statements are inside the section is regenerated",
        "the ORDER in which StartAll/ShutdownAll/extensions visit the instances (topological sort, receivers last, exporters last, extension dependency order) is an INPUT of the Sys model, observed from the implementation",
        "hand-written model of reporter.ReportStatus / ReportOKIfStarting / hostWrapper.Report / addSource, tied by exact differential on every run",
        "atomicity of a report is no longer assumed: C11_mutex_atomic proves it for the sub-step LTS under the lock (any goroutines, programs, schedules); in addition, under real concurrent "
        "goroutines every concurrent reporter case is checked by the exhaustive interleaving search in the driver (a search, not a theorem)",
        "hostWrapper.Report/addSource atomic w.r.t. each other: no longer assumed - C11_wlock_atomic proves it for the sub-step LTS of Model/C11WLock.lean (Lock, ring update / loop start, one "
        "sub-step per delivery, append, Unlock) under h.lock, whose shape is regenerated (StatusGlue.wrapperLocked); the race modes of shared_test.go exercise it on real goroutines",
        "docs/component-status.md figure transcribed by hand as figureTable",
    ],
    assumptions=[
        "sync.Mutex excludes: while one goroutine is between Lock() and the deferred Unlock no other goroutine passes Lock - for reporter.mu (from this C11_mutex_atomic derives that every concurrent history is "
        "a sequence of atomic reports) and for hostWrapper.lock (C11_wlock_atomic)",
        "a plain component reports only through the host it was given in Start (the scripted harness components do; a component that kept another instance's host would report under that id)",
        "the graph reports StatusStarting for an instance before starting it (graph.go StartAll), so a late source replays the ring from Starting",
    ],
)
