from ..runner import Harness, Spec
from ..translate import go_translator

SPEC = Spec(
    pid="C11",
    lean_modules=["OtelVerif.Props.C11"],
    translators=[go_translator("statustable", "OtelVerif/Gen/StatusTable.lean")],
    harnesses=[
        Harness(name="reporter", module="service", pkg="service/internal/status",
                files={"zz_verif_c11_reporter_test.go": "c11/reporter_test.go"},
                test="TestVerifC11Reporter", driver="drv_c11", n={"quick": 3000, "thorough": 30000}),
        Harness(name="shared", module="service", pkg="service/internal/status",
                files={"zz_verif_c11_shared_test.go": "c11/shared_test.go"},
                test="TestVerifC11Shared", driver="drv_c11", n={"quick": 3000, "thorough": 30000},
                mod_append=["require go.opentelemetry.io/collector/internal/sharedcomponent v0.124.0",
                            "replace go.opentelemetry.io/collector/internal/sharedcomponent => $REPO/internal/sharedcomponent"]),
        Harness(name="graph", module="service", pkg="service/internal/graph",
                files={"zz_verif_c11_graph_test.go": "c11/graph_test.go"},
                test="TestVerifC11Graph", driver="drv_c11", n={"quick": 800, "thorough": 10000}),
        Harness(name="service", module="service", pkg="service",
                files={"zz_verif_c11_service_test.go": "c11/service_test.go"},
                test="TestVerifC11Service", driver="drv_c11", n={"quick": 800, "thorough": 8000},
                mod_append=["require go.opentelemetry.io/collector/internal/sharedcomponent v0.124.0",
                            "replace go.opentelemetry.io/collector/internal/sharedcomponent => $REPO/internal/sharedcomponent"]),
        Harness(name="extensions", module="service", pkg="service/extensions",
                files={"zz_verif_c11_ext_test.go": "c11/extensions_test.go"},
                test="TestVerifC11Extensions", driver="drv_c11", n={"quick": 500, "thorough": 5000}),
    ],
    rule="service: the real service.New/Start/Shutdown with a status-watcher extension (the property's observation point), scripted "
         "components (receiver and exporter optionally listed by TWO pipelines: instance ids with several pipeline ids) and a receiver "
         "shared across two signals through the real sharedcomponent whose single Start may fail; non-shared instances compared exactly "
         "with Life.events, the two shared instances exactly with SharedLife.eventsX/eventsY, all instances monitored by docPathB; every "
         "6th case 'stormy' (every component keeps reporting from its own goroutine while the service shuts down: monitored only). extensions: real extensions.New/Start/Shutdown with 1-5 extensions failing Start/Shutdown at random, per-extension events "
         "compared with Life.events; non-trivial = some failure. graph: real graph.Build/StartAll/ShutdownAll with components that report random statuses from Start, while running (one goroutine "
         "per instance) and from Shutdown and that fail Start/Shutdown at random; per-instance events compared with Life.events; "
         "non-trivial = some component reports itself. reporter: random report sequences (0-30 reports, 1-3 instances, all 8 statuses + ReportOKIfStarting) against the real "
         "status.Reporter; every 5th case 2-4 goroutines run scripts fixed in advance and the driver SEARCHES, per instance, for an "
         "interleaving of the scripts whose run through the model delivers exactly the observed events (prop lin; exhaustive layered "
         "search); race mode: ReportOKIfStarting against a concurrent report; non-trivial = contains an illegal report or is concurrent. "
         "shared: real sharedcomponent.Component with 1-4 instance hosts attached at random points of a random report history: after "
         "every step the status of every instance, at the end the WHOLE event sequence of every instance's watcher, compared with the "
         "model (WrapperE, C11_shared_events_partial); race modes: concurrent reports with a slow host (same order at every instance), "
         "attach while reporting (a late instance must not miss a report); non-trivial = at least two instances attached. distinct = distinct op sequences (sha1 of the op lines).",
    trusted_base=[
        "Lean 4.33.0 kernel; axioms per theorem listed under axioms_per_theorem (subset of propext, Classical.choice, Quot.sound)",
        "translator translators/cmd/statustable (go/ast): extracts the transitions map literal of newFSM, the Status iota order, ring.New(n); checks the statement shape of fsm.transition",
        "hand-written model of reporter.ReportStatus / ReportOKIfStarting / hostWrapper.Report / addSource, tied by exact differential on every run",
        "atomicity of a report under reporter.mu is assumed (modelled as sequential composition): no sub-step LTS of lock / read / "
        "write / callback; under concurrent goroutines the assumption is CHECKED per case by the interleaving search (a search in the "
        "driver, not a theorem: exhaustive, so it cannot raise a false alarm; a wrong 'explained' would only miss a detection)",
        "docs/component-status.md figure transcribed by hand as figureTable",
    ],
    assumptions=[
        "a report is atomic (one mutex); every concurrent history is therefore some sequence of reports",
        "the graph reports StatusStarting for an instance before starting it (graph.go StartAll), so a late source replays the ring from Starting",
    ],
)
