from ..runner import Harness, Spec
from ..translate import go_translator

SPEC = Spec(
    pid="C12",
    lean_modules=["OtelVerif.Props.C12"],
    translators=[go_translator("c12consts", "OtelVerif/Gen/C12Consts.lean")],
    harnesses=[
        Harness(name="resolve", module="confmap", pkg="confmap",
                files={"zz_verif_c12_resolve_test.go": "c12/resolve_test.go"},
                test="TestVerifC12Resolve", driver="drv_c12", n={"quick": 23000, "thorough": 300000}, timeout_s=1500),
        Harness(name="env", module="confmap/internal/e2e", pkg="confmap/internal/e2e",
                files={"zz_verif_c12_env_test.go": "c12/env_test.go"},
                test="TestVerifC12Env", driver="drv_c12", n={"quick": 4000, "thorough": 60000}, timeout_s=900,
                mod_append=["require go.opentelemetry.io/collector/confmap/provider/yamlprovider v1.30.0",
                            "replace go.opentelemetry.io/collector/confmap/provider/yamlprovider => $REPO/confmap/provider/yamlprovider"]),
        Harness(name="life", module="confmap", pkg="confmap",
                files={"zz_verif_c12_life_test.go": "c12/life_test.go", "zz_verif_c12_resolve_test.go": "c12/resolve_test.go"},
                test="TestVerifC12Life", driver="drv_c12", n={"quick": 3000, "thorough": 60000}, timeout_s=900),
    ],
    rule="cases 0-47 are the corpus (0-17: both escaping defects of the pinned tree, cycles incl. an embedded one-element cycle, $ in a name, "
         "typed whole value, nested reference, provider value with references/escapes, 999 vs 1000 references, a 5-source merge, "
         "indirect references in non-last list positions / map values / nested, a 3-deep structured chain; 18-21: repeated source "
         "locations; 22-25: embedded cycles of length 1-3; 26-28: locations that embed their YAML content; 29-35: typed whole-value "
         "references incl. YAML null (panic / expandedValue-leak witnesses); 36-40: later source overrides a key whose earlier value is a "
         "reference; 41-47: $ at the first / last position of a reference name). Then seven streams by case index mod 7 "
         "(tok, rand, merge, mixed, chain, typed, override): "
         "chain = providers env:L0->..->Lk (k<=3, each link mentions the next once or twice, whole/embedded/inside map or list YAML; "
         "last link plain or 1 in 30 self-referential) referenced from list elements (deepest chain never last), map values, nested; "
         "tok = 1-3 values rendered from random token lists (0-12 tokens: literals incl. '{' ':' , '}', runs of $$, lone $, "
         "references with/without scheme, escaped copies of a reference that also occurs for real, unterminated '${'); "
         "rand = nested config (depth<=3, lists, nils) whose strings are random concatenations of 26 pieces (nested, malformed, "
         "unknown scheme, $ in name, non-ASCII); merge = 1-4 sources of depth<=4 over 6 colliding keys (maps, empty maps, lists, "
         "nils, scalars; nil and non-map sources); mixed = 2-4 sources with references plus a token value. Providers: in-memory, "
         "3 schemes x 9 names, values through NewRetrievedFromYAML (27 plain, 23 with $/references/cycles) or NewRetrieved "
         "(maps, lists, scalars, nil); default scheme on/off. Observed: the resolved Conf with expandedValue leaves, ToStringMap, "
         "and Conf.Unmarshal of every top-level key into string / named string / *string / struct{V string} / []string / map[string]string / "
         "float64 / TextUnmarshaler struct / any / int / bool fields. typed stream (1/7): whole-value references to provider texts of every "
         "YAML kind (one third YAML null: null ~ Null NULL), also inside a []string and a map[string]string and under a nested key. env "
         "harness (external package e2etest): the real envprovider behind a recording wrapper, ${env:NAME}, ${NAME}, ${env:NAME:-default}, "
         "unset and invalid names, ToStringMap + string/any decoding. override stream (1/7): a later source replaces keys whose earlier value is a "
         "reference to a provider MAP / an unresolvable reference (exact-override, must-succeed and provider-call oracles; every reference "
         "provider reports its calls as `tr retrieved`). dname (1/5 of rand): the only reference has a $ at the first/last/middle position of "
         "its NAME (with/without scheme, whole/embedded, nested, in a list): must be the $-in-name error, provider never consulted. "
         "Second session: corpus 52 (a provider-owned map referenced three times) and 53 (included document starting with a comment that holds an "
         "unresolvable reference); every reference provider hands out ONE object per raw value and it is deep-compared with a pristine twin after Resolve; "
         "corpus 48-51 + every fourth merge case (`append`, ~820 per quick run) run Resolve with the confmap.enableMergeAppendOption gate ON: 2-4 "
         "sources over four colliding keys whose values are mostly lists from a small element pool (strings, ints, bools, floats, nil, and - "
         "VERIF_C12_APPEND_DEEP, default on - maps and lists as ELEMENTS), same key list/map/scalar in different sources, references and $$ in list "
         "elements (1 in 4), repeated locations; model resolveAppend, Go oracle vSpecMergeAppend, Lean prop leafpaths on every such case. "
         "env harness: 0-2 further top-level locations through the REAL yamlprovider (yaml:<json text>) and the REAL fileprovider (file:<path> and a bare "
         "path, i.e. NewResolver's no-scheme fall-back), what they returned is the model's source. "
         "life harness (model c12-life, 3000 cases): 14 corpus cases, then alternately ctor = NewResolver on generated settings (1-4 URIs: registered scheme, "
         "well-formed unregistered scheme, no colon, drive letters and the other members of [A-z] + ':', malformed schemes, new line / ':' / '$' in the opaque "
         "part, repeats; 0-4 provider schemes incl. one-letter, '1ab', duplicates, non-ASCII; default scheme registered or not), observed: r.uris or the error "
         "class, the strings the recording providers receive in order, and the resolved config (every provider returns a map that is a fixed function of the "
         "location text; gate on in every fourth case; model resolveSettings); life = 1-4 Resolve calls then Shutdown on sources with references into a "
         "provider table that changes between calls (missing names: Resolve fails half-way; non-map source; unretrievable location; 1 in 3 cases with failing "
         "Close functions), observed per call: the Close calls in order, len(r.closers), whether closing failed; Go oracles per call: provider-owned values unchanged "
         "(twin), result = what a fresh resolver returns for the current provider state; inputs from the implementation: number of "
         "successful Retrieve calls per call. non-trivial = a token value with a reference "
         "and an escape, or more than one source / URI / more than two life calls; distinct = distinct op sequences.",
    trusted_base=[
        "Lean 4.33.0 kernel; axioms per theorem under axioms_per_theorem",
        "hand-written model of confmap/expand.go, resolver.go NewResolver/Resolve/closeIfNeeded/escapeDollarSigns, merge.go mergeAppend/mergeSlice/"
        "isPresent, provider.go Retrieved, confmap.go sanitize/useExpandValue and koanf maps.Merge/Flatten/Keys/Unflatten, tied by exact differential on "
        "every run; translator c12consts (go/ast) regenerates Gen/C12Consts.lean: loop bound (default of Env.fuel), schemePattern classes (proved equal to the "
        "model's validScheme: C12_validScheme_is_schemePattern), uriRegexp frame, drive-letter class and the `file` scheme (used by the NewResolver model), "
        "type-switch case lists / strings.* literals / parity test / Kind switch / DeepEqual (theorem gen_source_shape: a change breaks the build)",
        "reflect.DeepEqual on config values is modelled as structural equality (valEq: maps key-wise, order-insensitive); NaN elements and Go values other "
        "than nil/bool/int/float64/string/[]any/map[string]any are not generated for the gate-on lists",
        "closers: the number of successful Retrieve calls of each Resolve is an input taken from the implementation; which Close functions fail is chosen by "
        "the harness; Watch/onChange and provider Shutdown errors are not modelled (provider Shutdown called once each: Go oracle only)",
        "YAML parsing (NewRetrievedFromYAML) is an input: the harness sends the parsed value and string representation the real "
        "constructor (or, in the env harness, the real envprovider) produced",
        "mapstructure decoding is modelled for the targets string, named string, *string, struct{V string}, []string, map[string]string, "
        "float64, a TextUnmarshaler struct, any, int, bool and only for the value kinds observed (Go struct values such as time.Time are "
        "skipped for the container/struct/float/int targets); time.Duration and other hook targets are not modelled",
        "Go map iteration order: when several children of one map fail, the reported error class is taken from the implementation "
        "if it is among the classes the model finds possible; only the error CLASS is compared",
        "termination of the real code rests on the harness watchdog (8 s deadline + provider call budget), termination of the model on "
        "structural recursion",
    ],
    assumptions=[
        "providers are pure functions of (scheme, name) during one Resolve",
        "map keys do not contain the koanf delimiter '::'",
        "the confmap.enableMergeAppendOption feature gate: the property's merge clause (lists REPLACED) is for the default, gate off; gate on is modelled "
        "and proved separately (mergeAppend theorems: lists appended without duplicates, everything else as with the gate off)",
        "converters are not part of the property and are not configured",
        "theorems about expansion with references are for the unambiguous token fragment (provider strings free of '$'; not a bare "
        "reference), for embedded references with arbitrary provider text one round at a time (C12_embedded_substituted), for nested "
        "references the innermost-first search (C12_nested_innermost_first); multi-round resolution of provider values that contain "
        "references/escapes, and references inside map/list provider values, are tied by the differential and the leftover/sem oracles",
        "C12_resolve_lookup / C12_unflatten_flatten_lookup assume unique keys in every source map (HNK; what Go maps guarantee) and speak "
        "about the leaf paths of the merged sources (koanf leaves: non-map values and empty maps)",
        "cycle theorems cover reference chains / cycles of ANY length through whole string values (C12_whole_value_chain_error) and through embedded "
        "references (C12_embedded_chain_error); cycles through map/list provider values: differential + corpus",
        "NewResolver theorems are about the URI list and the provider SCHEMES; that a provider's Scheme() equals the key it is registered under is the "
        "provider's contract",
    ],
)
