import os

from ..runner import LEAN, Harness, Spec, TieBroken, run_harness, write_if_changed
from ..translate import go_translator


def _schema_translator(ctx):
    """reflection translator: runs TestVerifC13Schema inside cmd/otelcorecol (overlay) and installs its output as Gen/ConfigSchemas.lean"""
    h = Harness(name="schema", module="cmd/otelcorecol", pkg="cmd/otelcorecol",
                files={"zz_verif_c13_schema_test.go": "c13/schema_test.go", "zz_verif_c13_load_test.go": "c13/load_test.go"},
                test="TestVerifC13Schema", timeout_s=900)
    out = run_harness(ctx, h)
    with open(out) as f:
        body = f.read()
    if "namespace OtelVerif.Gen.ConfigSchemas" not in body or ctx.cov["harness"]["schema"]["exit"] != 0:
        raise TieBroken("configschemas", "the reflection translator did not produce a schema file")
    changed = write_if_changed(os.path.join(LEAN, "OtelVerif/Gen/ConfigSchemas.lean"), body)
    ctx.log("translator configschemas -> OtelVerif/Gen/ConfigSchemas.lean (%s)" % ("changed" if changed else "unchanged"))
    ctx.cov["harness"].pop("schema", None)


_E2E = {"zz_verif_c13_common_test.go": "c14/common_e2e.go", "zz_verif_c13_gen_test.go": "c14/gen.go"}

SPEC = Spec(
    pid="C13",
    lean_modules=["OtelVerif.Props.C13"],
    translators=[_schema_translator, go_translator("unmarshalhooks", "OtelVerif/Gen/UnmarshalHooks.lean"),
                 go_translator("opaquemethods", "OtelVerif/Gen/Opaque.lean"),
                 go_translator("configvalidate", "OtelVerif/Gen/ConfigValidate.lean"),
                 go_translator("validatewalk", "OtelVerif/Gen/ValidateWalk.lean"),
                 go_translator("configsload", "OtelVerif/Gen/ConfigsLoad.lean")],
    harnesses=[
        Harness(name="walk", module="confmap/xconfmap", pkg="confmap/xconfmap",
                files={"zz_verif_c13_walk_test.go": "c13/walk_test.go"},
                test="TestVerifC13Walk", driver="drv_c13", n={"quick": 3000, "thorough": 40000}),
        Harness(name="refs", module="otelcol", pkg="otelcol",
                files={"zz_verif_c13_refs_test.go": "c13/refs_test.go"},
                test="TestVerifC13Refs", driver="drv_c13", n={"quick": 3000, "thorough": 40000}),
        Harness(name="dec", module="internal/e2e", pkg="internal/e2e", common=False,
                files=dict(_E2E, **{"zz_verif_c13_dec_test.go": "c13/dec_test.go"}),
                test="TestVerifC13Dec", driver="drv_c13", n={"quick": 2000, "thorough": 30000}, timeout_s=1200),
        Harness(name="load", module="cmd/otelcorecol", pkg="cmd/otelcorecol",
                files={"zz_verif_c13_load_test.go": "c13/load_test.go", "zz_verif_c13_schema_test.go": "c13/schema_test.go"},
                test="TestVerifC13Load", driver="drv_c13", n={"quick": 300, "thorough": 4000}, timeout_s=1200),
        # monitor only: a RUNNING otelcol.Collector hands the effective configuration to a ConfigWatcher extension
        Harness(name="watch", module="cmd/otelcorecol", pkg="cmd/otelcorecol",
                files={"zz_verif_c13_watch_test.go": "c13/watch_test.go", "zz_verif_c13_load_test.go": "c13/load_test.go",
                       "zz_verif_c13_schema_test.go": "c13/schema_test.go"},
                test="TestVerifC13Watch", driver=None, n={"quick": 12, "thorough": 150}, timeout_s=1200),
    ],
    rule="walk: generated trees over a fixed family of Go node types (structs/slices/arrays/maps/leaves with value-receiver, "
         "pointer-receiver or no Validate; children in interface, typed-pointer, exported, unexported, squash-tagged and untagged fields; "
         "map keys with their own Validate) through xconfmap.Validate; the reported (path, error) set is compared exactly, and the ORDER of the reported errors too "
         "whenever the tree has no map with two or more entries; non-trivial = errors planted below a slice or map. "
         "refs: generated otelcol.Config values (id sets 0..5, nil component configs, service extensions, 0-3 pipelines; two thirds start "
         "valid and get at most one planted defect) through xconfmap.Validate; non-trivial = rejected. "
         "dec: reflect-built struct types (pointers as optionals, slices, string-keyed maps, squash, '-', untagged and unexported fields) "
         "and configuration maps writing a random subset of keys, with an unknown key inserted at a random depth in half of the cases, "
         "through confmap.Conf.Unmarshal; non-trivial = an unknown key below the top level. Corpus cases first: every built-in factory's "
         "configuration (unknown key at every struct position, written-key/sibling/effective-config oracles, sizer and blocking witnesses). "
         "load: whole collector configurations through the real otelcol.ConfigProvider.Get with the otelcorecol factories (otlp/nop receivers, "
         "otlp/otlphttp/debug/nop exporters, batch/memory_limiter processors, zpages/memory_limiter extensions, forward connector): 0-3 instances "
         "per type, each writing its own subset of boolean/numeric settings, endpoints and secret-bearing settings (headers / response_headers "
         "maps, tls pem fields); per instance the typed config is compared (DeepEqual) with the isolated load of its own keys on a fresh factory "
         "default and the effective configuration (confmap.Marshal of the whole otelcol.Config, as collector.go does for ConfigWatcher) leaf by "
         "leaf, secrets must be exactly the marker; corpus documents (invalid nested values, rule combinations, 12 reference/shape/unknown-key mistakes) and generated documents "
         "also go through the `validate` sub-command's entry point otelcol.Collector.DryRun, which must reject whatever load + xconfmap.Validate rejects, with the same error lines; "
         "non-trivial = two or more instances of one type. "
         "watch: the same generated configurations (only nop receiver/exporter wired, the rest configured but unused) in a running "
         "otelcol.Collector with a ConfigWatcher test extension: the configuration received by NotifyConfig must equal confmap.Marshal of "
         "ConfigProvider.Get on the same document, contain every written key and no written secret. "
         "distinct = distinct op sequences (sha1 of the op lines).",
    trusted_base=[
        "Lean 4.33.0 kernel; axioms per theorem listed under axioms_per_theorem (subset of propext, Classical.choice, Quot.sound)",
        "model of xconfmap.validate (VT trees): the clause table of its `switch v.Kind()` is REGENERATED (translators/cmd/validatewalk, go/ast: kinds, own Validate() "
        "first, descent into element / exported fields / elements / map keys then values) and its interpreter is proved equal to the hand model (C13_walk_regenerated); "
        "callValidateIfPossible / fieldName / stringifyMapKey stay tied by the exact differential on the set AND (without multi-entry maps) the order of (path, error) pairs",
        "model of otelcol.Config.Validate / PipelineConfig.Validate / pipelines.Config.Validate: the statement lists are REGENERATED (translators/cmd/configvalidate, go/ast: "
        "every if / loop / accept test / returned message with its fmt.Errorf arguments, source order) and their interpreter is proved equal to the hand model "
        "(C13_root_phases_regenerated, C13_pipe_phases_regenerated); Go map iteration picks which error of a phase is reported: the model returns the admissible set, "
        "the reported one is monitored for membership; the error classes are assigned by the translator from the message texts (table in the translator)",
        "translators/cmd/unmarshalhooks (go/ast): TRANSLATION of the bodies of queuebatch.Config / otlpreceiver.Config / otlpexporter.Config Unmarshal into the Hook language "
        "(IsSet guards, alias, drop-to-nil, reset, sanitizeURLPath positions; Go field chains resolved to mapstructure key paths through the struct tags of the package; "
        "theorem C13_hooks_regenerated: equal to the reviewed table hooksOfType) + sha256 of the printed bodies of these and of telemetry.Config and the three v0.3.0 "
        "migration types (C13_hook_bodies_as_modelled)",
        "translators/cmd/configsload (go/ast): the statements of configunmarshaler.Configs.Unmarshal before the loop and in the loop body as steps; interpreter over registers + "
        "heap proved equal to loadAll (C13_load_regenerated); statements are matched by their printed text",
        "hand-written strictness model of mapstructure decoding as configured by confmap (ErrorUnused, squash, pointers, no weak typing), "
        "tied by exact differential (ok/error) on reflect-built types; mapstructure itself is library code",
        "load model (fresh default object per id, overlay of the instance's own keys): the per-type defaults fed to the model are the PRISTINE factory defaults "
        "flattened before anything is loaded (implementation-observed input); the driver computes the instances with the interpreter of the regenerated Configs.Unmarshal steps",
        "reflection translator harness/c13/schema_test.go (run by overlay inside cmd/otelcorecol, emits data only): key-space schema (squash inlined, "
        "hook kind per leaf), factory default and custom-Unmarshal positions of every otelcorecol component -> Gen/ConfigSchemas.lean; the decode/encode "
        "model (decodeV/encodeV) is tied on these schemas by exact differential in the load harness (written leaves and untouched defaults of every instance)",
    ],
    assumptions=[
        "the rules INSIDE one built-in Validate() (a conjunction; most return on the first failure) are tied by the combination differential c13RuleCombos (49 hand-listed rules of ~15 "
        "Validate methods: every rule alone, every pair, every rule with every valid co-setting of its component; ~1700 loads per run), not by a theorem: C13_validate_complete is about the walker",
        "leaf values are ids in the decode/encode model: per-kind hooks (UnmarshalText / MarshalText of text kinds, duration and ID parsing) are assumed to round-trip; the "
        "generator writes every text kind of every built-in configuration from a value table (a missing table is a violation) so the round trip is searched, not proved",
        "`omitempty`: a written zero value is left out of the effective configuration; the zero test (reflect.Value.IsZero on the typed configuration) is an "
        "implementation-observed input of the flat overlay model; flagged only when the factory default is a non-zero value",
        "explicit YAML nulls are generated for optionals but judged only by the typed comparison and the load itself (the models have no null)",
        "in the regenerated Config.Validate statements the feature gate test `!AllowNoPipelines.IsEnabled()` is taken as true (gate at its default) and the signal switch of "
        "pipelines.Config.Validate is only compared with its reviewed clause list (C13_signal_switch_as_reviewed)",
        "the four custom Unmarshal methods of service::telemetry (telemetry.Config, v0.3.0 migration types) are fingerprinted and probed (unknown keys at 24 positions incl. list "
        "elements, 12 written settings, every sibling setting of logs/traces/metrics written at once in the v0.3.0 AND the v0.2.0 spelling that takes the migration fallback) and the "
        "field mapping of the v0.2.0 -> v0.3.0 conversion is regenerated data (C13_migration_fields_correspond: same-name fields), but they are not modelled as decode functions; open finding C13/strict/unknown-key-panics-remain-interface-field (otelconf AdditionalProperties) is harness-level",
        "C13_strict (hand Schema language, tied by the dec differential) and C13_strict_ks / C13_strict_builtin (regenerated KS schemas) return no offending path: 'an error naming the "
        "offending entry' is observed by the harness (strings.Contains(err, key)) for unknown keys; for reference/shape errors it is proved (C13_refs_names_*, C13_shape_names_duplicate)",
        "C13_instances_independent is a statement about the loadAll model (fresh default per id); its differential feeds the PRISTINE factory default per type and lets the model decide "
        "what each instance shows at written leaves and at default leaves under untouched top-level keys",
        "the built-in types with their own Unmarshal (regenerated list C13_builtin_custom_positions) are inside the theorems through hand-modelled fix-ups (hooksOfType: blocking alias, unwritten OTLP receiver protocols dropped, batcher reset), tied by exact differential and by regenerated body fingerprints (C13_hook_bodies_as_modelled); named exceptions: the *_url_path normalisation of the OTLP receiver and the unwritten settings below a written deprecated `batcher`",
        "the MarshalText/UnmarshalText round trip of text kinds is assumed; slices and maps are atoms in the decode model (element-wise faithfulness is checked by the harness only)",
        "feature gates at their defaults (service.AllowNoPipelines disabled)",
        "dec harness (internal/e2e): the value generators for the built-in components toggle booleans and numeric settings (always valid at decode time) and string-valued settings with validation are "
        "exercised by fixed witnesses only; the load harness derives its writable settings from the configuration types (c13Candidates, text kinds from the value table - see above)",
    ],
)
