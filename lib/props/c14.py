from ..runner import Harness, Spec
from ..translate import go_translator

_FILES = {"zz_verif_c14_common_test.go": "c14/common_e2e.go", "zz_verif_c14_gen_test.go": "c14/gen.go"}

SPEC = Spec(
    pid="C14",
    lean_modules=["OtelVerif.Props.C14"],
    translators=[go_translator("opaquemethods", "OtelVerif/Gen/Opaque.lean"), go_translator("squashhook", "OtelVerif/Gen/SquashHook.lean"),
                 go_translator("opaquecensus", "OtelVerif/Gen/OpaqueCensus.lean")],
    harnesses=[
        Harness(name="fmt", module="internal/e2e", pkg="internal/e2e", common=False,
                files=dict(_FILES, **{"zz_verif_c14_fmt_test.go": "c14/fmt_test.go"}),
                test="TestVerifC14Fmt", driver="drv_c14", n={"quick": 60, "thorough": 600}, timeout_s=1200),
        # the same fmt / marshalling-path enumeration against the libraries of the second toolchain on the image (thorough only):
        # the dispatch model is hand-written from go1.23 sources; a library-side change (fmt, encoding/json, gob, log/slog) shows here
        Harness(name="fmt_go126", module="internal/e2e", pkg="internal/e2e", common=False, go="go1.26",
                files=dict(_FILES, **{"zz_verif_c14_fmt_test.go": "c14/fmt_test.go"}),
                test="TestVerifC14Fmt", driver="drv_c14", n={"quick": 0, "thorough": 200}, timeout_s=1800,
                env={"VERIF_C14_THOROUGH_ONLY": "1"}),
        Harness(name="enc", module="internal/e2e", pkg="internal/e2e", common=False,
                files=dict(_FILES, **{"zz_verif_c14_enc_test.go": "c14/enc_test.go"}),
                test="TestVerifC14Enc", driver="drv_c14", n={"quick": 3000, "thorough": 40000}, timeout_s=1200),
        # monitor only: the marker stays fixed after a caller modified bytes handed out by MarshalText/MarshalBinary
        Harness(name="owned", module="internal/e2e", pkg="internal/e2e", common=False,
                files=dict(_FILES, **{"zz_verif_c14_owned_test.go": "c14/owned_test.go"}),
                test="TestVerifC14Owned", driver=None, n={"quick": 50, "thorough": 500}, timeout_s=600),
        # monitor only: every otelcorecol config type with injected secrets through zap field encoders, slog, fmt, json, yaml, confmap.Marshal
        Harness(name="builtin_all", module="cmd/otelcorecol", pkg="cmd/otelcorecol",
                files={"zz_verif_c14_builtin_all_test.go": "c14/builtin_all_test.go"},
                test="TestVerifC14BuiltinAll", driver="drv_c14", n={"quick": 1, "thorough": 1}, timeout_s=600),
    ],
    rule="fmt: for the real configopaque.String and 10 twin types of string kind with other method sets, every verb (all ASCII runes "
         "that are not flag characters + non-ASCII samples) x flag sets (9 quick / all 32 thorough) x width x precision {none,0,3} "
         "over 21 hand-written container shapes and N generated ones (reflect-built struct/slice/array/map/pointer/any trees); each "
         "rendering is produced for two secret environments that differ in the first byte; non-trivial = the operand is a container. "
         "Then Print/Errorf wrappers, EXTRA/BADINDEX/BADWIDTH forms, encoding/json, yaml.v3, gob, MarshalText/Binary, zap fields. "
         "enc: generated value trees (tags, omitempty, squash, '-', unexported, opaque/int/string keys, nil pointers/maps/slices, "
         "arrays, any) through confmap.Conf.Marshal + ToStringMap for two secret environments; non-trivial = an opaque leaf sits "
         "below a map, slice, pointer, interface or nested struct. Built-in configurations holding opaque fields are marshalled, "
         "printed and logged as corpus cases. "
         "builtin_all: one case per otelcorecol factory: the REAL default configuration (secrets injected into every opaque field / headers map, nil pointers allocated) is "
         "reflected into the operand-tree notation and rendered as pointer and as value with %v %+v %#v %d %x %s %q %t for two secret environments refilled in place; "
         "`obs dep` is compared exactly with the fmt model `pa` on that tree; plus every zap/slog/fmt/json/yaml/confmap renderer (substring oracle), the type probe, "
         "use-then-render, the reflected opaque-typed fields against the regenerated census, and live use (HTTP round trip with secret request/response/Host headers, gRPC "
         "call with secret metadata, zPages extension start, PEM loaders with undecodable secret material, the collector's real logger in console and json encoding) "
         "under a recording logger: the text must arrive where it is meant to go and appear in no log entry or error. "
         "distinct = distinct op sequences (sha1 of the op lines).",
    trusted_base=[
        "Lean 4.33.0 kernel; axioms per theorem listed under axioms_per_theorem (subset of propext, Classical.choice, Quot.sound)",
        "translator translators/cmd/opaquemethods (go/ast): translates every method body of configopaque.String into MExpr (receiver | constant | Go-quote | concat); exits 2 on any other shape",
        "hand-written model of fmt's dispatch (printArg/handleMethods/printValue/badVerb/fmtPointer/fmtString of go1.23 fmt/print.go): library code, "
        "modelled and enumerated exhaustively over verbs x flags on the real library every run, not proved from the library source",
        "the final bytes are fmtS/fmtQ/fmtSx (padding, precision, quoting) applied to the leaf text the model computes: trusted to be a function of that text",
        "table of which interface encoding/json, yaml.v3, encoding/gob and zap consult for a value / map key of string kind (pathConsult), checked differentially",
        "hand-written model of confmap/internal/mapstructure/encoder.go + the hook chain of confmap.encoderConfig, tied by exact differential on generated value trees",
        "MExpr.goQuote is strconv.Quote restricted to text that needs no escaping (exact for the marker)",
        "translator translators/cmd/opaquecensus (go/ast, no type checker): census of every struct field whose type mentions configopaque.String (shape, key, exported), of every "
        "string(x)/[]byte(x) conversion of an opaque value, of every call handed a still-typed opaque value and of every log/format call handed a value NAMED cfg/config/conf; opaque "
        "expressions are found by a local analysis (census field selectors, typed parameters/variables, range/index/:= of these) in the directories that import configopaque or a package "
        "declaring a census field; the field list is tied to reflection over the built-in configuration types by exact differential (`op cfield`), the site lists are reviewed-list alarms",
    ],
    assumptions=[
        "'stored unchanged' is checked byte for byte also for secrets with leading/trailing white space (blanks, tabs, newline/PEM, CRLF, NBSP, U+3000, white space only) through confmap.Unmarshal "
        "(scalar, pointer, slice element, map value, confighttp.ClientConfig.Headers), the real Resolver, encoding/json and yaml: harness oracle C14/unmarshal/secret-altered/...",
        "the fmt / json / yaml / gob / zap / slog dispatch is a hand model written from go1.23 sources; it is enumerated against the libraries of the default toolchain (go 1.23.5) on every "
        "run and against go1.26 in the thorough tier (harness fmt_go126)",
        "clauses 'explicit conversion returns the secret' and 'unmarshalling stores it unchanged' have NO model of the decode path: they are carried by the `op unm` differential "
        "(positions x YAML-looking secrets through the real Resolver) and by two regenerated facts (no UnmarshalText/JSON on the type, the squash hook keeps fields); the definitional "
        "lemmas are named def_* and not counted",
        "maps with SEVERAL opaque keys are outside `plainIn`: fmt orders entries by the raw key (internal/fmtsort), so the ORDER of the entries depends on the secrets (not their text); "
        "multi-entry maps with plain keys (headers) are generated and printed in fmtsort order",
        "gob omits a struct field holding the zero value before it consults the type's marshalers: an EMPTY opaque field is left out (emptiness only, like omitempty)",
        "marshalling paths are tied by 8 secret pairs per run (fixed classes incl. the empty secret, the marker itself, a 1200-byte one, + 3 drawn per run) x 2-4 shapes per path",
        "configuration structs keep opaque strings in exported fields (fmt cannot call methods on unexported fields: counted in the evidence, outside the property's containers); "
        "regenerated: the only unexported opaque-typed field of the repository is confighttp.headerRoundTripper.headers (C14_census_unexported_reviewed), not a configuration struct",
        "C14_fmt_pointer_verbs_noninterference covers pointers to structs below the top level (the shape of the built-in configurations) only for the verbs fmtPointer accepts "
        "(v d x X b o, hence %v %+v %#v); under %s %q %t ... such a pointer still leaks (open finding nested-pointer-badverb-raw)",
        "the reflected operand tree of a built-in configuration renders a value whose type has its own fmt methods (component.ID, time.Duration, Level ...) as an opaque-free leaf; a "
        "type with fmt methods that HOLDS an opaque value is counted (stat tree_fmt_method_type_holding_opaque, none on /repo) and not modelled",
        "omitempty on an opaque field reveals whether the secret is empty (C14_encode_omitempty_reveals_emptiness); the non-interference theorem is stated for environments that agree on emptiness",
        "types with their own confmap.Marshaler / yaml tags without mapstructure tags are inside the encoder model as the struct-level hook nodes GV.sh marshaler|yaml "
        "(generator types C14Marsh = Marshal re-marshals a map, C14MarshMerge = Marshal merges raw values, C14Yaml = yaml tags only): what such a type's own "
        "Marshal does is taken from these generator types and tied by the exact differential, other Marshal bodies are not modelled",
    ],
)
