from ..runner import Harness, Spec
from ..translate import go_translator

import os
import sys

# the race-detector run of the concurrency cases costs a -race build of internal/e2e: thorough tier only
_THOROUGH = "thorough" in sys.argv or os.environ.get("VERIF_TIER") == "thorough"
_RACE = [Harness(name="concurrency-race", module="internal/e2e", pkg="internal/e2e",
                 files={"zz_verif_c15_test.go": "c15/hop_test.go", "zz_verif_c15_fake_test.go": "c15/fake_test.go", "zz_verif_c15_gen_test.go": "c15/gen_test.go", "zz_verif_common_test.go": "c15/common_test.go"}, common=False,
                 test="TestVerifC15Conc", driver="drv_c15", n={"quick": 4, "thorough": 5}, timeout_s=1500, race=True)] if _THOROUGH else []

SPEC = Spec(
    pid="C15",
    lean_modules=["OtelVerif.Props.C15"],
    translators=[go_translator("otlptables", "OtelVerif/Gen/OtlpTables.lean")],
    harnesses=[
        Harness(name="hop", module="internal/e2e", pkg="internal/e2e",
                files={"zz_verif_c15_test.go": "c15/hop_test.go", "zz_verif_c15_fake_test.go": "c15/fake_test.go", "zz_verif_c15_gen_test.go": "c15/gen_test.go", "zz_verif_common_test.go": "c15/common_test.go"}, common=False,
                test="TestVerifC15", driver="drv_c15", n={"quick": 1500, "thorough": 20000}, timeout_s=1500),
    ] + _RACE,
    rule="one long-lived pair of real OTLP receivers (gRPC+HTTP; one with a server-side authenticator) with a scripted consumer; per case "
         "one hop: signal (logs/traces/metrics/profiles) x transport (gRPC, HTTP/proto, HTTP/JSON) x every compression the exporter offers x "
         "consumer outcome (nil, plain, permanent, explicit gRPC status 1..16 and out-of-range codes, optionally wrapped, with/without "
         "RetryInfo of 0, 1ns, 500ms, 999999999ns, 1s, 1.5s, 2s, 90s, random) x items (0 incl. empty shells, 1, 2, 5, 17) x auth "
         "(off/good/bad); observed: wire status via a plain client, the real exporter's returned error classified "
         "(permanent/throttle delay/retryable), consumer invocations, byte equality of the payload at the sink. 20% raw malformed "
         "requests (wrong method, content types, undecodable proto/JSON, unknown path, bad Content-Encoding, combinations, gRPC "
         "garbage frames). Corpus first: Retry-After witnesses, errorHandler witnesses, all 17 codes x 2 transports x +-RetryInfo. "
         "CONCURRENCY stream (monitor; 3 corpus cases + 1 in 500): against one receiver, at once: two real OTLP/HTTP JSON exporters with very big bodies (12-20k items, slow to decode, so the handler is preempted while decoding), 2-5 small real exporters (gRPC, HTTP proto/JSON, all compressions, all 4 signals) in series, and a swarm of 6 plain HTTP clients re-posting a big well-formed protobuf request (2) and an 8-12 MiB non-protobuf body that must get 400 (4) for as long as the exporters are busy; GOMAXPROCS 1/2/4/default (schedule exploration); oracle: every well-formed request acknowledged, every junk one 400, multiset of payloads at the consumer == multiset sent; thorough repeats such cases under -race. SENDER SIDE against scripted FAKE servers (1 case in 5 + 21 corpus cases): the real otlphttp exporter (proto/JSON) against an HTTP server answering any status (2xx..999) x Retry-After {absent, delay-seconds incl. negative/zero/+n/00n/huge/overflowing, HTTP-date in RFC1123 and GMT form past and future, unusable strings, empty, two values} x body {empty, response, partial success, other content type, undecodable, >64KiB, Status, garbage}; the real gRPC exporter against a gRPC server answering every code (also >16) x RetryInfo {absent, 0, +-1ns .. 1 year} x partial success; panics recovered and reported. RECEIVER SIDE raw gRPC stream: garbage frames, unknown method/service, unknown grpc-encoding (per-connection legacy compressor), messages over max_recv_msg_size (1 MiB receiver), with and without auth, combinations. Half of the hop payloads are type-directed (reflection over the public pdata API). RECEIVER SIDE raw HTTP stream now also: both content types x every compression x {valid, truncated stream, wrong method/path/content type, undecodable body, oversized (plain and after decompression) against a receiver with max_request_body_size 4096}. non-trivial = non-nil outcome, compressed transport with items, or raw request; distinct = sha1 of op lines.",
    trusted_base=[
        "Lean 4.33.0 kernel; axioms per theorem listed under axioms_per_theorem (subset of propext, Classical.choice, Quot.sound)",
        "translator translators/cmd/otlptables (go/ast): switch tables of GetHTTPStatusCodeFromStatus, NewStatusFromMsgAndHTTPCode, "
        "shouldRetry, isRetryableStatusCode; isThrottleError / success range; GetStatusFromError codes; writeStatusResponse throttle "
        "statuses and the rounding shape of Retry-After; errorHandler fallback; handler statuses; structural identity of the four "
        "handleX; zero-items early return before the consumer call in the four Export methods; gRPC/HTTP constant names resolved "
        "through fixed tables in the translator",
        "hand-written composition recvGrpc/recvHttp/expGrpc/expHttp/httpFront/grpcFront (Model/C15.lean), tied by exact differential "
        "over loopback on every run",
        "OTLP specification tables transcribed by hand (specGrpcRetryable, specHttpRetryable, specHttp, specGrpc, specHttpOf)",
        "grpc-go and net/http (exercised, not modelled): status/details transport, request decoding before interceptors (gRPC), "
        "ServeMux 404, confighttp auth 401 / configgrpc auth Unauthenticated / decompressor 400 and the wrapping order in ToServer are now REGENERATED (C15_gen_shape); grpc-go codes and ServeMux 404 are hand constants of the model",
        "payload: marshalling (C08) and compression (C16) laws are hypotheses of C15_payload_partial; byte equality at the sink is "
        "checked on every hop",
    ],
    assumptions=[
        "PAYLOAD clause: this check contributes the byte comparison at the sink (proto-marshalled payload received == sent) over "
        "internal/testdata payloads AND type-directed payloads generated by reflection over the whole public pdata API (every setter, "
        "nested message, repeated field, one-of alternative, attribute value kind; ~360 per quick run, all 4 signals); the marshalling "
        "round trip itself is C08's theorem (C08_wrappers_otlp_api) and is composed with a lawful compression in "
        "Lemmas/C15Payload.lean (C15_payload_pb_partial / C15_payload_json_partial), built on demand and NOT counted here because it "
        "imports another property's proof files; the compression law is C16's sampled hypothesis. AnyValue holding zero bytes is not "
        "generated (C08's recorded nil-vs-empty corner)",
        "'a failure means the same thing on both sides' is proved PER TRANSPORT TABLE (C15_commutes_grpc/http); across transports it "
        "holds except for RESOURCE_EXHAUSTED without RetryInfo (permanent over gRPC, retried over HTTP 429): spec-induced - the OTLP/gRPC "
        "table makes it conditional on RetryInfo, the OTLP/HTTP table lists 429 as retryable unconditionally "
        "(C15_transports_agree_partial, C15_transports_agree_full_fails)",
        "gRPC requests answered by grpc-go itself (unknown method/service, unknown grpc-encoding, oversized message, undecodable frame) "
        "get the LIBRARY's codes (Unimplemented, ResourceExhausted, Internal): hand constants of the model, tied by the raw differential; "
        "ServeMux 404 likewise",
        "the HTTP exporter follows the trait-free spec specHttpXPure inside HttpResp.inDomain (C15_expHttpX_matches_spec_partial); outside it two "
        "kernel-checked witnesses record the deviations (C15_expHttpX_matches_spec_full_fails: Retry-After seconds beyond +-9223372036 wrap; "
        "C15_undecodable_2xx_is_retried); not flagged by the oracle because the real receiver never produces these inputs (outside the "
        "property's quantifier); the oracle there pins the recorded behaviour",
        "a 2xx response whose body is declared protobuf/JSON but does not decode makes the exporter return a plain (retryable) error - "
        "modelled as is (SuccessBody.undecodable), outside the property's quantifier (the real receiver never sends such a body)",
        "an error never carries gRPC code 0 (status.Err() of OK is nil); RetryInfo delays are non-negative",
        "queue and retry of the exporters are disabled so the push error is what ConsumeX returns",
    ],
)
