from ..runner import Harness, Spec
from ..translate import go_translator

import os
import sys

# the race-detector run of the concurrency cases costs a -race build of the package: thorough tier only
_THOROUGH = "thorough" in sys.argv or os.environ.get("VERIF_TIER") == "thorough"
_RACE = [Harness(name="concurrency-race", module="config/confighttp", pkg="config/confighttp",
                 files={"zz_verif_c16_test.go": "c16/compression_test.go", "zz_verif_c16_pool_test.go": "c16/pool_test.go"},
                 test="TestVerifC16Conc", driver="drv_c16", n={"quick": 40, "thorough": 300}, timeout_s=1500, race=True)] if _THOROUGH else []

SPEC = Spec(
    pid="C16",
    lean_modules=["OtelVerif.Props.C16", "OtelVerif.Lemmas.C16Pool"],
    translators=[go_translator("compression", "OtelVerif/Gen/Compression.lean")],
    harnesses=[
        Harness(name="compression", module="config/confighttp", pkg="config/confighttp",
                files={"zz_verif_c16_test.go": "c16/compression_test.go", "zz_verif_c16_pool_test.go": "c16/pool_test.go"},
                test="TestVerifC16", driver="drv_c16", n={"quick": 1500, "thorough": 20000}, timeout_s=1500),
    ] + _RACE,
    rule="one case = one real server (ServerConfig.ToServer: random compression_algorithms list - nil/default, random subsets in random "
         "order, lists with unknown names, empty list - and a max_request_body_size placed at body+-1, wire+-1, inside the compressed "
         "header, half the body, roomy, or <=0 = default) + one real client (ClientConfig.ToClient with every compression type and "
         "level) + 1-4 requests over loopback: mode client (body given to the configured client), pre (body compressed by the "
         "library directly at levels the client cannot select, header preset -> client skip branch), garbage (hostile/corrupted/"
         "truncated streams and odd header values). Bodies: zeros, text pattern, pseudo-random incompressible, explicit bytes; "
         "corpus first (3 reproduced defects, 1 MiB zip-bomb per algorithm, 64 KiB+-1 per algorithm, thorough: 1 MiB+-1 and all "
         "decoder-list subsets x client types). 1 case in 8 (and 3 corpus cases) builds SEVERAL servers in one process: A with WithDecoder (a new name and/or an override of a built-in) and a restricted list, then B default/random, sometimes C restricted, probing that A still rejects what it did not list and that later servers are unaffected by the registration of A; half of them also register a pass-through decoder (fn returns nil,nil) under a non-empty name with bodies at limit-1/limit/limit+1/far beyond. 1 case in 24 (and 7 corpus cases, every algorithm) is a CONCURRENCY case (monitor): handlers that Close r.Body 0-2 times, then 4-16 requests with distinct self-describing bodies (some multi-block) held at a barrier inside the handler so that they overlap for certain; oracle: every handler read exactly its own client bytes; thorough repeats 300 such cases under -race; half of the concurrency cases force the overlap inside the CLIENT compress step too (body readers block at a barrier at their first Read, after a request whose body source fails half-way; client panics recovered and reported). UNKNOWN LENGTH: 1 request in 3 (and 8 corpus cases: identity and every algorithm x body limit-1/limit/limit+1/50x) has a body source without known length (Transfer-Encoding: chunked, ContentLength -1). NAMES: the oracle judges accept/reject by the algorithm the client is CONFIGURED with and requires the Content-Encoding on the wire to be that very name; corpus: every client type against a list with exactly that name and against a list with every name but it, the deflate/zlib pair in both directions. REPLAY: 1 client request in 4 (+7 corpus cases, every algorithm) is a replay history: replayable request (Idempotency-Key / X-Idempotency-Key / GET with body, caller body with GetBody) whose first attempt on the reused keep-alive connection is killed unanswered by the server, so net/http rewinds with GetBody and resends; judged by the round-trip clause on what the handler finally reads, plus a direct check per stage that GetBody of the request handed to the inner transport yields its Body bytes. STREAMING: 1 request in 3 is consumed by the handler in chunks of 1..4096 bytes / only a prefix (k around the body length or the limit) / not at all, then Closed 0-2 times by the handler, and is followed by a full request on the same keep-alive connection (MaxConnsPerHost=1; reuse counted). GENERATIONS: every stage builds the server TWICE from the same ServerConfig value and serves with the second; a third generation takes over before the last request; ToClient is called twice from one ClientConfig and the second client is used; after every ToServer / ToClient a direct oracle checks that the configuration is still what the operator wrote (only the documented defaulting nil list -> default list, size <= 0 -> default, level 0 -> default is allowed); 9 corpus cases with unknown names in every position of the list, with and without \"\". POOL histories (6 corpus cases x 12 steps + 1 random case in 12): sequential histories over the REAL process-wide writer pools in-package - newCompressor (pointer identity for equal keys), compressor.compress and compressRoundTripper.RoundTrip over a recording inner transport; keys = every type x two levels; bodies failing at offset 0 / half / last byte, failing Close, Body == nil, http.NoBody, empty, 64 KiB+-1, 100 kB; every output compared (length + FNV-1a; lz4 modulo decoding) with a FRESH writer built by the key's own constructor and decoded by the library. non-trivial = some request was encoded, or rejected/panicked, or had a body within "
         "+-1 of the limit; distinct = distinct op sequences (sha1 of the op lines).",
    trusted_base=[
        "Lean 4.33.0 kernel; axioms per theorem listed under axioms_per_theorem (subset of propext, Classical.choice, Quot.sound)",
        "translator translators/cmd/compression (go/ast): availableDecoders keys and the NewReader package each entry calls, the "
        "alias branch and the (un)guarded map write of the enable loop in httpContentDecompressor, the errHandler status and the "
        "MaxBytesReader call of decompressor.ServeHTTP, the Content-Encoding guard of RoundTrip, the writer switch of "
        "newWriteCloserResetFunc, configcompression Type constants / IsCompressed / UnmarshalText, defaults and wrapper order in ToServer",
        "hand-written model of clientSend/serve/limitRead (Model/C16.lean), tied by exact differential over loopback on every run",
        "compression libraries (compress/gzip, compress/zlib, klauspost zstd, golang/snappy, pierrec/lz4) are a parameter: their "
        "round-trip law dec(enc b)=b is the HYPOTHESIS of the round-trip theorems, validated by the differential (the driver assumes "
        "the law and must then predict exactly what the real handler read, by length and FNV-1a hash); what a library yields from a "
        "cut or corrupt stream is taken from the implementation as a model input (dec=...)",
        "client-side writer pools (Model/C16Pool.lean): the LIBRARY LAW of a writer - Reset(buf) makes it behave as new and point at buf, "
        "Close completes the stream in its current target, a writer touches no other buffer - is a stated parameter (enc), sampled by the "
        "want= comparison of every pool step (pierrec/lz4 only modulo decoding: a Reset writer frames differently from a new one); "
        "sync.Pool (Get returns any idle item or New; items may be dropped) and the mutex around compressorPools are the model's "
        "nondeterministic / atomic labels; ownership of a writer is linear by construction = the single Get / single deferred Put pinned by "
        "the translator (compressSteps, poolSelectorUses)",
        "net/http: MaxBytesReader semantics (modelled as limitRead), header canonicalisation, request framing; FNV-1a collisions",
    ],
    assumptions=[
        "Outcome.rejected/handled are distinguished by whether the base handler ran (observed directly in the harness)",
        "compression LEVELS: which levels ClientConfig.Validate accepts is regenerated from Type.ValidateParams and predicted by the model for every configuration the harness tries (1 case in 6 sits on the boundary, both sides); that gzip/zlib accept exactly -2..9 and zstd any level is a library fact (libLevelOk, trusted); that an accepted level then ROUND-TRIPS is the codec law, sampled at every accepted boundary level",
        "the round-trip law of gzip/zlib/zstd/snappy/lz4 is SAMPLED, not proved: most random bodies are <= 4 KiB, 1 case in 12 goes up to 300 kB and 1 in 48 up to 1.2 MB (multi-block), the corpus adds 64 KiB+-1, 200-300 kB at every level, 1 MiB bombs; 4 MiB+ only in thorough",
        "C16_isolation*, C16_error_handler, C16_limit_any_read_mode, C16_decoded_request_is_relabelled are bookkeeping theorems: true by the shape of their definitions; their tie to the code is a translator flag/shape check plus harness cases, not a proof about Go code",
        "overlap of requests in time is MONITORED (conc cases, -race in thorough) on the real code; the CLIENT-side pool discipline is additionally "
        "PROVED for every interleaving of the model's statement steps (C16_pool_output, C16_pool_key), the server side is not modelled concurrently",
        "WithErrorHandler is modelled as a status function on the rejection path (serveE; the harness registers one answering status+18/22/51 in 1 case of 6); WithDecoder decoders are modelled as further lawful/hostile codecs keyed custom:<id> (the harness registers an xor decoder)",
    ],
)
