from ..runner import Harness, Spec
from ..translate import go_translator

SPEC = Spec(
    pid="C16",
    lean_modules=["OtelVerif.Props.C16"],
    translators=[go_translator("compression", "OtelVerif/Gen/Compression.lean")],
    harnesses=[
        Harness(name="compression", module="config/confighttp", pkg="config/confighttp",
                files={"zz_verif_c16_test.go": "c16/compression_test.go"},
                test="TestVerifC16", driver="drv_c16", n={"quick": 700, "thorough": 12000}, timeout_s=1500),
    ],
    rule="",
    trusted_base=[],
    assumptions=[],
)
