import os
import sys

from ..runner import Harness, Spec
from ..translate import go_translator

_FILES = {"zz_verif_c17_payload_test.go": "c17/payload_gen.go"}
# the -race build of the stress harness is only part of the thorough tier (the runner has no per-tier harness list)
_THOROUGH = "thorough" in sys.argv or os.environ.get("VERIF_TIER") == "thorough"
_CONC = dict(module="processor/batchprocessor", pkg="processor/batchprocessor",
             files={"zz_verif_c17_card_test.go": "c17/card_test.go", "zz_verif_c17_conc_test.go": "c17/conc_test.go"},
             test="TestVerifC17Concurrent", driver="drv_c17")
_CARD = dict(module="processor/batchprocessor", pkg="processor/batchprocessor",
             files={"zz_verif_c17_card_test.go": "c17/card_test.go"}, test="TestVerifC17Cardinality", driver="drv_c17")

SPEC = Spec(
    pid="C17",
    lean_modules=["OtelVerif.Props.C17"],
    translators=[go_translator("c17config", "OtelVerif/Gen/C17Config.lean")],
    harnesses=[
        Harness(name="split", module="processor/batchprocessor", pkg="processor/batchprocessor",
                files=dict(_FILES, **{"zz_verif_c17_split_test.go": "c17/split_test.go"}),
                test="TestVerifC17Split", driver="drv_c17", n={"quick": 3000, "thorough": 300000}, timeout_s=1500),
        Harness(name="proc-logs", module="processor/batchprocessor", pkg="processor/batchprocessor", go="go1.26",
                files=dict(_FILES, **{"zz_verif_c17_proc_test.go": "c17/proc_test.go"}),
                test="TestVerifC17ProcLogs", driver="drv_c17", n={"quick": 600, "thorough": 40000}, timeout_s=1500),
        Harness(name="proc-traces", module="processor/batchprocessor", pkg="processor/batchprocessor", go="go1.26",
                files=dict(_FILES, **{"zz_verif_c17_proc_test.go": "c17/proc_test.go"}),
                test="TestVerifC17ProcTraces", driver="drv_c17", n={"quick": 400, "thorough": 30000}, timeout_s=1500),
        Harness(name="proc-metrics", module="processor/batchprocessor", pkg="processor/batchprocessor", go="go1.26",
                files=dict(_FILES, **{"zz_verif_c17_proc_test.go": "c17/proc_test.go"}),
                test="TestVerifC17ProcMetrics", driver="drv_c17", n={"quick": 600, "thorough": 40000}, timeout_s=1500),
        Harness(name="producers-concurrent", n={"quick": 400, "thorough": 5000}, timeout_s=1500, **_CONC),
        Harness(name="cardinality-concurrent", n={"quick": 3000, "thorough": 30000}, timeout_s=1500, **_CARD),
    ] + ([Harness(name="cardinality-concurrent-race", race=True, n={"quick": 500, "thorough": 5000}, timeout_s=1500, **_CARD),
                  Harness(name="producers-concurrent-race", race=True, n={"quick": 100, "thorough": 1500}, timeout_s=1500, **_CONC)]
         if _THOROUGH else []),
    rule="split: corpus first (design-time witnesses: 3 records in one scope, size 2; 4-point sum with metadata, size 3), then "
         "generated payload trees (0-4 resources x 0-4 scopes x 0-6 items, metrics 0-4 metrics x 0-6 points of all five types + "
         "empty type, empty containers at every level) through the real splitLogs/splitTraces/splitMetrics with size in "
         "0..total+1; non-trivial = the cut went through a resource (same resource identity on both sides). "
         "proc: the real processor in a synctest bubble, 1-10 labels (arrive payload with RAW client metadata - the model computes the "
         "group - / advance virtual time) then Shutdown; case 0 also compares createDefaultConfig() with the regenerated literal; 40% of the configs from the RAW space (0 < max < size, negative timeout, duplicate keys ...) through the "
         "real Config.Validate(), accept/reject compared exactly with the model's validCfg, accepted ones run under all oracles; "
         "the rest from the validated space incl. send_batch_size=0, max=0, timeout=0, 0-2 metadata keys "
         "with mixed-case header names, absent/empty/single/multi values, cardinality limit 0-3; non-trivial = >= 2 metadata "
         "groups or send_batch_max_size set. cardinality-concurrent: native goroutines (GOMAXPROCS >= 4), limit 1-3, 0..limit-1 groups "
         "created first, then 8-16 producers released at once through a barrier whose first requests carry more distinct unseen "
         "values than the limit allows; monitor only (accept/refuse/emit log judged by the Lean monitor and a direct oracle); the "
         "same under -race in thorough; every trial is non-trivial. producers-concurrent: 2-6 native producers x 1-6 requests each "
         "(0-4 records), groups absent / empty / v1 / v2 / [v1,v2] with mixed-case header names (every 4th case single shard), "
         "send_batch_size in {0,1,3,8}, max = size + 0..2 or 0, real timers 0/1/3 ms, then Shutdown; monitor only (exactly-once, "
         "isolation, bound), also under -race in thorough. distinct = distinct op lines (sha1).",
    trusted_base=[
        "Lean 4.33.0 kernel; axioms per theorem listed under axioms_per_theorem (subset of propext, Classical.choice, Quot.sound)",
        "hand-written model of splitLogs/splitTraces/splitMetrics/splitMetric, batch*.add/split, shard.startLoop/processItem/"
        "sendItems/timer and multiShardBatcher.consume, tied by exact differential on every run (payload trees, virtual "
        "timestamps, export-context metadata, refusals)",
        "pdata semantics used by the model: RemoveIf calls the closure once per element in order, MoveTo/MoveAndAppendTo, CopyTo",
        "group-key computation (lower-casing/sorting of metadata_keys, NewMetadata, Metadata.Get case-insensitivity, String vs "
        "StringSlice) IS modelled (Model/C17Key.lean: groupOf; C17_group_key_injective) and tied: the harness passes the raw "
        "metadata_keys and the raw client metadata, the model computes the group; only attribute.NewSet's equality law (sets are "
        "equal iff their sorted distinctly-keyed attribute lists are) is trusted; exercised with "
        "absent / empty / single / multi / REORDERED multi ([v2,v1] vs [v1,v2]) / near-colliding (v12 vs [v1,v2], v1 vs v10) values, "
        "an adversarial pool of raw byte strings ('[]', '[\"a\",\"b\"]' vs the two-valued header, commas, quotes, backslashes, brackets, "
        "non-UTF-8 bytes, 300-byte values differing in the last byte, case variants; interned byte-exactly by generator and sink), "
        "1-3 keys, lower/Title/UPPER header names",
        "the export context is observed completely: the sink dumps client.Info (Auth, Addr, every metadata key) of every export; the "
        "model says 'values of the configured keys only'; incoming contexts carry other headers, credentials and peer addresses",
        "attribute.NewSet is injective on the value lists of the configured keys (one value -> String, otherwise StringSlice); "
        "client.Metadata.Get is case-insensitive — exercised by the generator, not proved",
        "translator translators/cmd/c17config (go/ast): straight-line checks of Config.Validate as rule data, shape of the metadata_keys "
        "loop, createDefaultConfig with constants resolved; interpreter runRules shared with C04 (Model/C04Config.lean); "
        "C17_validCfg_matches_source proves the hand-written validCfg equal to it",
        "testing/synctest (go1.26): virtual time, run to quiescence after every label; one producer",
    ],
    assumptions=[
        "SEQUENTIALISED HISTORIES: one Consume (incl. the shard goroutine's processItem) = one atomic label; 'accepted, still queued in "
        "newItem' is expressed as arrive(key, empty) now + arrive(key, payload) at the drain. Channel buffering and producer "
        "interleavings are not in the LTS: exact differential for the deterministic burst cases (k Consumes then Shutdown without "
        "waiting, all three signals), monitored (sampled schedules) by producers-concurrent / cardinality-concurrent",
        "C17_timeout / C17_proc_timeout hold for WELL-TIMED histories (WellTimed / ArrTagged: an arrival is never processed after a due "
        "deadline, a firing happens exactly at its deadline - Go's select may take newItem when the timer is also ready); "
        "C17_proc_timeout is stated for configurations with a timer (no timer: shard-level C17_timeout, items leave at arrival)",
        "multiShardBatcher.consume (lookup, limit check, shard insertion, size++) is ONE atomic label of the model (Proc.arrive): the code "
        "makes it so with mb.lock around check+insert; this atomicity is a modelling assumption, monitored by the native-goroutine "
        "stress harness cardinality-concurrent (also with -race), not proved",
        "C17_timeout_late replaces WellTimed by a latency bound delta (firings handled within [deadline, deadline+delta], arrivals no "
        "later than deadline+delta; no assumption on select order): items leave within timeout+delta; delta itself is not measured",
        "header names are ASCII; one Consume call never carries two header names that collide after lower-casing (NewMetadata "
        "iterates a Go map: the winner would be order-dependent) - not generated",
        "the shard goroutine handles an arrival before virtual time advances (goroutine scheduling and timer wake-up latency are "
        "outside the model: C17_timeout is partial)",
        "downstream accepts every batch (the property conditions on it; on an export error sendItems drops the batch)",
        "arrivals concurrent with Shutdown are not 'accepted before shutdown began'; a channel send that returned is",
    ],
)
