from ..runner import Harness, Spec
from ..translate import go_translator

SPEC = Spec(
    pid="C18",
    lean_modules=["OtelVerif.Props.C18"],
    # regenerated on every run from config.go / memorylimiter.go / total_memory_linux.go / the processor's process* functions:
    # Lean DEFINITIONS compiled statement by statement from the Go source; Props/C18.lean proves the model equal to them
    translators=[go_translator("gofunlean", "OtelVerif/Gen/MemLimiter.lean", args=["c18"])],
    harnesses=[
        Harness(name="check", module="internal/memorylimiter", pkg="internal/memorylimiter",
                files={"zz_verif_c18_limiter_test.go": "c18/limiter_test.go"},
                test="TestVerifC18Check", driver="drv_c18", go="go1.26", n={"quick": 4000, "thorough": 40000}, timeout_s=1500),
        Harness(name="refcount", module="internal/memorylimiter", pkg="internal/memorylimiter",
                files={"zz_verif_c18_limiter_test.go": "c18/limiter_test.go"},
                test="TestVerifC18RC", driver="drv_c18", go="go1.26", n={"quick": 2000, "thorough": 20000}),
        # native goroutines, real time: the atomicity of Start/Shutdown (refCounterLock) that the label model assumes; monitor only
        Harness(name="stress", module="internal/memorylimiter", pkg="internal/memorylimiter",
                files={"zz_verif_c18_stress_test.go": "c18/stress_test.go"},
                test="TestVerifC18Stress", driver=None, n={"quick": 12, "thorough": 150}),
        Harness(name="stress-race", module="internal/memorylimiter", pkg="internal/memorylimiter",
                files={"zz_verif_c18_stress_test.go": "c18/stress_test.go"},
                test="TestVerifC18Stress", driver=None, race=True, n={"quick": 2, "thorough": 60}, timeout_s=1500),
        Harness(name="processor", module="processor/memorylimiterprocessor", pkg="processor/memorylimiterprocessor",
                files={"zz_verif_c18_processor_test.go": "c18/processor_test.go"},
                test="TestVerifC18Proc", driver="drv_c18", n={"quick": 600, "thorough": 6000}),
        Harness(name="construct", module="internal/memorylimiter", pkg="internal/memorylimiter",
                files={"zz_verif_c18_limiter_test.go": "c18/limiter_test.go", "zz_verif_c18_construct_test.go": "c18/construct_test.go"},
                test="TestVerifC18New", driver="drv_c18", go="go1.26", n={"quick": 1500, "thorough": 20000}),
        Harness(name="host", module="internal/memorylimiter", pkg="internal/memorylimiter/iruntime",
                files={"zz_verif_c18_host_test.go": "c18/host_test.go"},
                test="TestVerifC18Host", driver="drv_c18", n={"quick": 1, "thorough": 1}),
        Harness(name="cgroup-v2", module="internal/memorylimiter", pkg="internal/memorylimiter/cgroups",
                files={"zz_verif_c18_cgroup_test.go": "c18/cgroup_test.go"},
                test="TestVerifC18CgroupV2", driver="drv_c18", n={"quick": 600, "thorough": 20000}),
        Harness(name="factory", module="processor/memorylimiterprocessor", pkg="processor/memorylimiterprocessor",
                files={"zz_verif_c18_factory_test.go": "c18/factory_test.go"},
                test="TestVerifC18Factory", driver="drv_c18", n={"quick": 300, "thorough": 5000}),
        Harness(name="extension", module="extension/memorylimiterextension", pkg="extension/memorylimiterextension",
                files={"zz_verif_c18_extension_test.go": "c18/extension_test.go"},
                test="TestVerifC18Ext", driver="drv_c18", n={"quick": 300, "thorough": 3000}),
    ],
    rule="check: random configs over the validated space incl. extremes (limit 1 MiB .. 2^32-1 MiB, spike = limit-1 / 0 (default 20%) / "
         "limit/5, percentages 1..100 with totals 0..2^57-1, fields of the unused mode set, GC intervals 0..1 min) plus a malformed stream "
         "(~25%: each Validate error); for accepted configs the REAL NewMemoryLimiter (GetMemoryFn scripted) and 1-14 CheckMemLimits calls "
         "under testing/synctest with scripted readMemStatsFn / runGCFn (readings at soft-1, soft, soft+1, hard-1, hard, hard+1, 0, 2^64-1, "
         "random; GC effect independent; time steps at both min intervals -1/0/+1; GC durations 0..1 s); observed: usageChecker limit/spike, "
         "MustRefuse, GC calls, lastGCDone. non-trivial = a GC ran or the mode changed at least twice. thorough adds every abstract history "
         "of length <=4 over region{below,soft,hard} x gc-helps x dt{short,between,long}. refcount: start/shutdown/tick sequences (1-16 ops, "
         "any number of sharers) on one real MemoryLimiter under synctest; after each op a window of 1, 1.5 or 2.5 check intervals passes "
         "with a scripted reading and GC effect, under a GC configuration that is never due / always due / due after 2.5 s (soft) 1.5 s (hard); "
         "observed and diffed exactly: the NUMBER of checks, reads and forced GCs the monitoring goroutine made in the window (model "
         "Timed.window: ticker instants armedAt + k*check_interval, re-armed by a restart) and MustRefuse afterwards; right after every start / shutdown - "
         "before any time passes - MustRefuse is observed again: no reading was taken, so it must still be the verdict of the most recent "
         "measurement (Go viol + Lean oracle checkMode, signature C18/shared/refusal-changed-without-a-measurement/<op>); every Start / Shutdown gets a context that is live, already cancelled or already expired (1/3 dead; corpus cases 4-5 all "
         "dead; also in the processor (components' Start/Shutdown, case 1 all dead), extension and stress harnesses): the calls ignore it - "
         "a user that left with a dead context has left (C18_context_irrelevant); panics of "
         "Start/Shutdown are recovered inside the bubble and reported with the case as replay; corpus: start,shutdown,start; two and "
         "three sharers leaving one by one. processor: the four processors created by the real factory from one config share "
         "one limiter; readings scripted via memorylimiter.ReadMemStatsFn, CheckMemLimits called directly, 4-15 consumes against a recording "
         "downstream returning nil / error / permanent error; payload shapes: 1-4 items, and ZERO-item payloads (completely empty, "
         "resource only, resource>scope only, metric without data points / profile without samples) for all four signals; cases 0-1 are a "
         "corpus of every signal x every shape x both modes x downstream ok/error/permanent (120 consumes each), random cases send a "
         "zero-item payload in 1/3 of the consumes (stat zero_item_payloads_forwarded); observed besides the result: the deltas of the "
         "processor's accepted/refused counters and processorhelper's incoming/outgoing items (componenttest.Telemetry), compared with "
         "consumeFull; the clauses of each call are judged by the Lean oracle checkConsume (tr oc lines); sharers shut down in the middle of a case (op "
         "stopsharer, no measurement) and steps that feed without a new CheckMemLimits: every LIVE processor is then fed and must answer "
         "with the verdict of the most recent measurement (the model's `refusing` input is that verdict, not the implementation's flag); "
         "corpus: sharers leave one by one while refusing (case 0) / accepting (case 1); non-trivial = both refused and accepted consumes. extension: MustRefuse after "
         "each of 8 scripted checks. distinct = sha1 of op lines. "
         "Second session: totals for the percentage path now cover the WHOLE uint64 range (0x7FFFFFFFFFFF0000, 2^63-1, 2^64-1, 2^57, "
         "2^64/100 +-1, random >= 2^57) in check and construct. construct: NewMemoryLimiter on accepted and rejected configurations (check "
         "interval forced positive) with GetMemoryFn scripted to succeed / fail (1/4); observed: error or limit, spike, the three copied "
         "durations, initial mode, lastGCDone = now; then one CheckMemLimits with usage exactly at the hard limit (must refuse); case 0 = "
         "NewDefaultConfig against the regenerated definition, case 1 = 50 % / 10 % at total 0x7FFFFFFFFFFF0000; non-trivial = percentage "
         "path with unknown total. host: iruntime.TotalMemory on this machine vs totalMemory fed with the results of the cgroup functions "
         "and readMemInfo (one case). factory: 2-4 configuration keys (keys 0 and 1 equal-valued, odd keys > 1 percentage with GetMemoryFn "
         "failing 1/3), 3-8 creations of processors of random signals through the real factory, limiter identity (order of first "
         "appearance) compared with Factory.get; then 3 rounds: one limiter measures a reading at soft-1 / soft (each limiter reads its own "
         "scripted value) and EVERY created processor is fed an empty payload; non-trivial = some limiter shared and >= 2 limiters. cgroup-v2: cgroups.memoryQuotaV2 on a scripted <mount>/memory.max: a pool of 37 "
         "contents first (max with white space / case / suffix, empty, newline only, boundary numbers incl. the two 'unlimited' values and "
         "int64 min/max +-1, signs, leading zeros, underscores, hex, embedded spaces, CRLF, several lines, exponents), then absent file / "
         "mount point that is a regular file / random digit strings of 1-21 digits with optional sign, stray character and line ending; "
         "non-trivial = a defined quota; the same file state is then read through cgroup v1's CGroups.MemoryQuota "
         "(memory.limit_in_bytes of a memory cgroup rooted at the mount; 1/12 without a memory subsystem).",
    trusted_base=[
        "Lean 4.33.0 kernel; axioms per theorem listed under axioms_per_theorem (subset of propext, Classical.choice, Quot.sound)",
        "hand-written model of getMemUsageChecker / newFixed- / newPercentageMemUsageChecker / aboveSoftLimit / aboveHardLimit / "
        "CheckMemLimits / Start / Shutdown / the ticker loop / Config.Validate / process* + obsreport under processorhelper.New* "
        "(xprocessorhelper.NewProfiles: no obsreport) / the extension, uint64 arithmetic written out with its wrap-around on Nat; tied by "
        "exact differential on every run",
        "translators/cmd/gofunlean (c18): a compiler from a whitelisted Go subset to Lean definitions (if/else, switch on a value, := / =, "
        "return, struct literals, uint64/uint32/Duration/bool expressions, recognised calls; CPS for early returns; exit 2 on anything "
        "else) - Config.Validate, NewDefaultConfig, aboveSoft/HardLimit, newFixed/newPercentageMemUsageChecker, percentOf, "
        "getMemUsageChecker, doGCandReadMemStats and CheckMemLimits are REGENERATED from /repo on every run and the model is proved equal "
        "to them (C18_src_*); the translator itself is trusted (its output is also exercised: the driver's mk / new ops run the regenerated "
        "percentage formula against the real constructor); primitives of the generated CheckMemLimits: readMemStats (shape-checked), "
        "runGCFn, time.Now / time.Since, atomic.Bool Load / Store; logger calls are dropped",
        "Start / Shutdown / MustRefuse / the extension's methods / factory.getMemoryLimiter are outside the compiled subset (mutex, "
        "goroutine, select, map): modelled by hand, pinned by statement skeletons regenerated from /repo (C18_src_skeletons)",
        "runtime.ReadMemStats and runtime.GC themselves are scripted (the property is about the decision taken on their results)",
        "Go runtime: time.Ticker, goroutines, testing/synctest virtual clock",
    ],
    assumptions=[
        "percentage mode: NO bound on the total memory any more (C18_no_underflow_repaired, C18_source_first_clause_all_totals, "
        "C18_host_first_clause hold for every uint64 total) - the theorems are about the repaired percentOf (fix 4a61708fb in /repo); the "
        "unrepaired formula keeps its theorem under total < 2^57 and the kernel-checked counterexample C18_no_underflow_pinned_full_fails",
        "iruntime.TotalMemory: the DECISION after the cgroup reads is regenerated and proved (C18_src_total_memory) and cgroup v2's "
        "memoryQuotaV2 (memory.max: absent / max / decimal int64 / anything else) is modelled by hand, pinned by its skeleton and diffed on "
        "scripted files (harness cgroup-v2; C18_cgroup_v2_total composes the two), likewise cgroup v1's CGroups.MemoryQuota / readInt "
        "(memoryQuotaV1, C18_cgroup_v1_total); cgroup v1's discovery of the memory cgroup (mountinfo / /proc/self/cgroup parsing), "
        "IsCGroupV2 and gopsutil's /proc/meminfo reader are not modelled, and TotalMemory as a whole is diffed on one host "
        "state only (this machine: cgroup v1, quota 'unlimited', fallback to /proc/meminfo)",
        "the factory's map is keyed by the *Config pointer: equal-valued configurations of different component instances do NOT share a "
        "limiter (modelled and diffed; whether that is intended is not the property's subject)",
        "CheckMemLimits calls are sequential (one monitoring goroutine; direct calls are not concurrent with it)",
        "Start / Shutdown are atomic steps of the label model (sequentialised histories) because the code holds refCounterLock; this is "
        "exercised, not proved: harnesses stress / stress-race run 2-8 native goroutines doing Start...Shutdown pairs in real time (with "
        "-race in stress-race) and require every paired Shutdown to succeed, a final count of 0, ErrShutdownNotStarted afterwards and no "
        "reads after the last Shutdown",
        "the consume / extension theorems (C18_consume_*, C18_consumeFull_*, C18_consume_forwards_empty, C18_extension_refuses_iff) restate the "
        "model's definitions (rfl/simp); they are differential-backed facts: their weight is the exact diff of consumeFull incl. four counters "
        "against the real processors",
        "the theorems are about the repaired Start (fix commit 019305aed in /repo: ticker.Reset on the 0->1 transition); the pinned Start is "
        "modelled as RC.stepPinned with the kernel-checked counterexample C18_refcount_pinned_full_fails",
    ],
)
