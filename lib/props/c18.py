from ..runner import Harness, Spec

SPEC = Spec(
    pid="C18",
    lean_modules=["OtelVerif.Props.C18"],
    harnesses=[
        Harness(name="check", module="internal/memorylimiter", pkg="internal/memorylimiter",
                files={"zz_verif_c18_limiter_test.go": "c18/limiter_test.go"},
                test="TestVerifC18Check", driver="drv_c18", go="go1.26", n={"quick": 4000, "thorough": 40000}, timeout_s=1500),
        Harness(name="refcount", module="internal/memorylimiter", pkg="internal/memorylimiter",
                files={"zz_verif_c18_limiter_test.go": "c18/limiter_test.go"},
                test="TestVerifC18RC", driver="drv_c18", go="go1.26", n={"quick": 2000, "thorough": 20000}),
        # native goroutines, real time: the atomicity of Start/Shutdown (refCounterLock) that the label model assumes; monitor only
        Harness(name="stress", module="internal/memorylimiter", pkg="internal/memorylimiter",
                files={"zz_verif_c18_stress_test.go": "c18/stress_test.go"},
                test="TestVerifC18Stress", driver=None, n={"quick": 12, "thorough": 150}),
        Harness(name="stress-race", module="internal/memorylimiter", pkg="internal/memorylimiter",
                files={"zz_verif_c18_stress_test.go": "c18/stress_test.go"},
                test="TestVerifC18Stress", driver=None, race=True, n={"quick": 2, "thorough": 60}, timeout_s=1500),
        Harness(name="processor", module="processor/memorylimiterprocessor", pkg="processor/memorylimiterprocessor",
                files={"zz_verif_c18_processor_test.go": "c18/processor_test.go"},
                test="TestVerifC18Proc", driver="drv_c18", n={"quick": 600, "thorough": 6000}),
        Harness(name="extension", module="extension/memorylimiterextension", pkg="extension/memorylimiterextension",
                files={"zz_verif_c18_extension_test.go": "c18/extension_test.go"},
                test="TestVerifC18Ext", driver="drv_c18", n={"quick": 300, "thorough": 3000}),
    ],
    rule="check: random configs over the validated space incl. extremes (limit 1 MiB .. 2^32-1 MiB, spike = limit-1 / 0 (default 20%) / "
         "limit/5, percentages 1..100 with totals 0..2^57-1, fields of the unused mode set, GC intervals 0..1 min) plus a malformed stream "
         "(~25%: each Validate error); for accepted configs the REAL NewMemoryLimiter (GetMemoryFn scripted) and 1-14 CheckMemLimits calls "
         "under testing/synctest with scripted readMemStatsFn / runGCFn (readings at soft-1, soft, soft+1, hard-1, hard, hard+1, 0, 2^64-1, "
         "random; GC effect independent; time steps at both min intervals -1/0/+1; GC durations 0..1 s); observed: usageChecker limit/spike, "
         "MustRefuse, GC calls, lastGCDone. non-trivial = a GC ran or the mode changed at least twice. thorough adds every abstract history "
         "of length <=4 over region{below,soft,hard} x gc-helps x dt{short,between,long}. refcount: start/shutdown/tick sequences (1-16 ops, "
         "any number of sharers) on one real MemoryLimiter under synctest; after each op a window of 1, 1.5 or 2.5 check intervals passes "
         "with a scripted reading and GC effect, under a GC configuration that is never due / always due / due after 2.5 s (soft) 1.5 s (hard); "
         "observed and diffed exactly: the NUMBER of checks, reads and forced GCs the monitoring goroutine made in the window (model "
         "Timed.window: ticker instants armedAt + k*check_interval, re-armed by a restart) and MustRefuse afterwards; right after every start / shutdown - "
         "before any time passes - MustRefuse is observed again: no reading was taken, so it must still be the verdict of the most recent "
         "measurement (Go viol + Lean oracle checkMode, signature C18/shared/refusal-changed-without-a-measurement/<op>); every Start / Shutdown gets a context that is live, already cancelled or already expired (1/3 dead; corpus cases 4-5 all "
         "dead; also in the processor (components' Start/Shutdown, case 1 all dead), extension and stress harnesses): the calls ignore it - "
         "a user that left with a dead context has left (C18_context_irrelevant); panics of "
         "Start/Shutdown are recovered inside the bubble and reported with the case as replay; corpus: start,shutdown,start; two and "
         "three sharers leaving one by one. processor: the four processors created by the real factory from one config share "
         "one limiter; readings scripted via memorylimiter.ReadMemStatsFn, CheckMemLimits called directly, 4-15 consumes against a recording "
         "downstream returning nil / error / permanent error; payload shapes: 1-4 items, and ZERO-item payloads (completely empty, "
         "resource only, resource>scope only, metric without data points / profile without samples) for all four signals; cases 0-1 are a "
         "corpus of every signal x every shape x both modes x downstream ok/error/permanent (120 consumes each), random cases send a "
         "zero-item payload in 1/3 of the consumes (stat zero_item_payloads_forwarded); observed besides the result: the deltas of the "
         "processor's accepted/refused counters and processorhelper's incoming/outgoing items (componenttest.Telemetry), compared with "
         "consumeFull; the clauses of each call are judged by the Lean oracle checkConsume (tr oc lines); sharers shut down in the middle of a case (op "
         "stopsharer, no measurement) and steps that feed without a new CheckMemLimits: every LIVE processor is then fed and must answer "
         "with the verdict of the most recent measurement (the model's `refusing` input is that verdict, not the implementation's flag); "
         "corpus: sharers leave one by one while refusing (case 0) / accepting (case 1); non-trivial = both refused and accepted consumes. extension: MustRefuse after "
         "each of 8 scripted checks. distinct = sha1 of op lines.",
    trusted_base=[
        "Lean 4.33.0 kernel; axioms per theorem listed under axioms_per_theorem (subset of propext, Classical.choice, Quot.sound)",
        "hand-written model of getMemUsageChecker / newFixed- / newPercentageMemUsageChecker / aboveSoftLimit / aboveHardLimit / "
        "CheckMemLimits / Start / Shutdown / the ticker loop / Config.Validate / process* + obsreport under processorhelper.New* "
        "(xprocessorhelper.NewProfiles: no obsreport) / the extension, uint64 arithmetic written out with its wrap-around on Nat; tied by "
        "exact differential on every run",
        "runtime.ReadMemStats and runtime.GC themselves are scripted (the property is about the decision taken on their results)",
        "Go runtime: time.Ticker, goroutines, testing/synctest virtual clock",
    ],
    assumptions=[
        "percentage mode: total memory < 2^57 bytes (larger totals overflow percentage*total in uint64; hypothesis of C18_no_underflow)",
        "CheckMemLimits calls are sequential (one monitoring goroutine; direct calls are not concurrent with it)",
        "Start / Shutdown are atomic steps of the label model (sequentialised histories) because the code holds refCounterLock; this is "
        "exercised, not proved: harnesses stress / stress-race run 2-8 native goroutines doing Start...Shutdown pairs in real time (with "
        "-race in stress-race) and require every paired Shutdown to succeed, a final count of 0, ErrShutdownNotStarted afterwards and no "
        "reads after the last Shutdown",
        "the consume / extension theorems (C18_consume_*, C18_consumeFull_*, C18_consume_forwards_empty, C18_extension_refuses_iff) restate the "
        "model's definitions (rfl/simp); they are differential-backed facts: their weight is the exact diff of consumeFull incl. four counters "
        "against the real processors",
        "the theorems are about the repaired Start (fix commit 019305aed in /repo: ticker.Reset on the 0->1 transition); the pinned Start is "
        "modelled as RC.stepPinned with the kernel-checked counterexample C18_refcount_pinned_full_fails",
    ],
)
