from ..runner import Harness, Spec
from ..translate import go_translator

SPEC = Spec(
    pid="C19",
    lean_modules=["OtelVerif.Props.C19"],
    translators=[go_translator("scrapesignal", "OtelVerif/Gen/ScrapeSignal.lean")],
    harnesses=[
        Harness(name="receiver", module="receiver/receiverhelper", pkg="receiver/receiverhelper",
                files={"zz_verif_c19_receiver_test.go": "c19/receiver_test.go"},
                test="TestVerifC19Receiver", driver="drv_c19", n={"quick": 6000, "thorough": 60000}),
        # the concurrent mode only (goroutines on shared ObsReports), under the race detector: a data race fails the test process
        Harness(name="receiver-race", module="receiver/receiverhelper", pkg="receiver/receiverhelper",
                files={"zz_verif_c19_receiver_test.go": "c19/receiver_test.go"},
                test="TestVerifC19Receiver", driver="drv_c19", race=True, env={"VERIF_C19_CONC_ONLY": "1"},
                n={"quick": 300, "thorough": 3000}),
        Harness(name="processor", module="processor/processorhelper", pkg="processor/processorhelper",
                files={"zz_verif_c19_processor_test.go": "c19/processor_test.go"},
                test="TestVerifC19Processor", driver="drv_c19", n={"quick": 5000, "thorough": 50000}),
        # profiles: xprocessorhelper.NewProfiles records nothing — differential against the no-op model, next to a counted NewLogs
        Harness(name="profiles", module="processor/processorhelper/xprocessorhelper", pkg="processor/processorhelper/xprocessorhelper",
                files={"zz_verif_c19_profiles_test.go": "c19/profiles_test.go"},
                test="TestVerifC19Profiles", driver="drv_c19", n={"quick": 1000, "thorough": 10000}),
        Harness(name="scraper", module="scraper/scraperhelper", pkg="scraper/scraperhelper",
                files={"zz_verif_c19_scraper_test.go": "c19/scraper_test.go"},
                test="TestVerifC19Scraper", driver="drv_c19", n={"quick": 5000, "thorough": 50000}, timeout_s=1500),
        Harness(name="obsconsumer", module="service", pkg="service/internal/obsconsumer",
                files={"zz_verif_c19_obsconsumer_test.go": "c19/obsconsumer_test.go"},
                test="TestVerifC19ObsConsumer", driver="drv_c19", n={"quick": 3000, "thorough": 30000}),
        Harness(name="exporter", module="exporter", pkg="exporter/exporterhelper",
                files={"zz_verif_c03_shutdown_test.go": "c03/shutdown_test.go", "zz_verif_c19_exporter_test.go": "c19/exporter_test.go"},
                test="TestVerifC19Exporter", driver="drv_c19", go="go1.26", n={"quick": 3000, "thorough": 40000}, timeout_s=1500),
    ],
    rule="receiver: 1-3 real receiverhelper.ObsReport (NewObsReport; random transport and LongLivedCtx, one shared manual-reader "
         "meter provider) driven by 0-25 random Start/End{Traces,Metrics,Logs}Op (n = 0, 1-40 or 1e3-1e6 items; 1/3 with a plain or "
         "wrapped error); after EACH operation all six accepted/refused counters of ALL receivers and the ended span's "
         "name/attributes are read and compared with the model; non-trivial = a successful and a failed non-empty operation and >= 2 "
         "signals; every 5th case is CONCURRENT: 1-2 rounds of 2-6 goroutines, 1-15 operations each on the shared receivers, released "
         "together, all counters (and the number of ended spans) read once per round and compared with the order-independent model "
         "total (C19_receiver_perm); receiver-race = the concurrent mode alone under `go test -race`. "
         "processor: real processorhelper.NewLogs/NewMetrics/NewTraces sharing one telemetry (random WithCapabilities), 0-20 "
         "random payloads (0-30 items; metrics = data points over mixed metric types) whose process function drops/adds items, returns "
         "a fresh payload, fails, or returns (wrapped) ErrSkipProcessingData, next consumer fails at random; incoming/outgoing of all "
         "three otel.signal values, the sink's ledger and the returned error are read after each call; non-trivial = an ok outcome with "
         "out != in, and an err or skip outcome; in ~1/3 of the calls (scraper: scrapes) the next consumer declares MutatesData and "
         "EMPTIES the payload (MoveAndAppendTo) before returning nil/error, its ledger counted at call entry (corpus: processor cases "
         "0-5, scraper cases 2-5). profiles: xprocessorhelper.NewProfiles next to processorhelper.NewLogs on the same settings, 1-16 "
         "payloads (2/3 profiles) with every outcome; the three otel.signal series, the sum over ALL series of the two instruments and "
         "the number of series are compared with the no-op model; non-trivial = profiles and logs payloads interleaved. scraper: real scraperhelper.NewMetricsController / NewLogsController (even/odd case) "
         "with 1-3 scrapers (ok / PartialScrapeError, possibly wrapped / plain error, possibly with data that must be dropped), next "
         "consumer failing at random, 1-6 scrapes driven through WithTickerChannel (first at Start); all six receiver counters, the "
         "per-scraper scraped/errored counters of both kinds and the sink ledger are read after each scrape; non-trivial = a scrape "
         "mixing kept and dropped scrapers with a non-empty payload and a refused scrape. Case 0/1 of the scraper harness = the Lean "
         "witness (one scraper, one item). thorough adds EXHAUSTIVE small scopes: receiver = every history of length <= 3 over "
         "3 signals x {0,1,2} items x {ok,error}; processor = every history of length <= 2 over 3 signals x {0,2} in x 6 outcomes x "
         "{next consumer keeps/empties the payload}; scraper = both controllers x (one scrape of two scrapers, two scrapes of one "
         "scraper) over 5 scraper results x next ok/fails x keeps/empties. "
         "obsconsumer: 1-3 real service/internal/obsconsumer wrappers per case (logs/metrics/traces/profiles, own counter each, 0-8 static "
         "data-point attributes of mixed value types; cases 0-35 = every signal x every attribute count), 2-15 calls with 0-6 items, "
         "downstream accepts/refuses, in 1/3 after emptying the payload; after every call success/failure/other of every instrument are "
         "read by exact attribute set; non-trivial = an accepted and a refused non-empty call. "
         "exporter: the C03 scenario generator/runner (harness/c03/shutdown_test.go: real logs/traces/metrics exporter, memory/persistent "
         "queue, both batchers, retry, wait_for_result, refusals, storage faults, in one synctest bubble) with component-test telemetry: the "
         "three item counters of the case's signal are read after each case and diffed with the model's prediction from the trace; the "
         "balance oracle runs in Lean on the implementation's counters; every returned replayable trace is replayed through C03.fire and "
         "sentOf/failedOf/enqFailedWfrOf of the reached LTS state must equal the meter values; the size/capacity gauges are read at a "
         "quiescent point before Shutdown and compared with a send ledger and with the qsize of the LTS state replayed up to there; "
         "1/3 of the memory-queue + sending_queue::batch cases (and 2 corpus cases) size queue and batcher in BYTES (min 0/80/300 B, max 0 or "
         "min+200..499 B: merges and splits by encoded size; a bytes split of metrics is turned into traces), the counters are diffed in items as before. "
         "For bytes-sized queues the size-gauge comparisons are skipped (the send ledger is kept in requests/items: reading counted not comparable; "
         "prop gaugelts=skipped); the capacity gauge is still compared. "
         "non-trivial = a failed call and a refused send. "
         "distinct = distinct op sequences (sha1 of the op lines).",
    trusted_base=[
        "Lean 4.33.0 kernel; axioms per theorem listed under axioms_per_theorem (subset of propext, Classical.choice, Quot.sound)",
        "translator translators/cmd/scrapesignal (go/ast): the Start*Op/End*Op that scrapeLogs and scrapeMetrics call on c.obsrecv, the "
        "pipeline.Signal each End*Op hands to endOp, the instrument pair of every case of the recordMetrics switch, the Add arguments, "
        "and the statement shape of endOp's accepted/refused split",
        "hand-written model of endOp/recordMetrics, scrapeMetrics/scrapeLogs, wrapObsMetrics/wrapObsLogs and the processorhelper consume "
        "functions (Model/C19.lean), tied by exact differential of every counter after every operation on every run",
        "OpenTelemetry SDK manual reader reports cumulative sums per attribute set (a missing data point reads as 0)",
        "item counts are what the payload's SpanCount/DataPointCount/LogRecordCount report (pdata, property C07/C04)",
    ],
    assumptions=[
        "item counts passed to End*Op are non-negative",
        "one scrape at a time per controller (the controller's single goroutine), operations of one ObsReport/processor are modelled "
        "as atomic counter additions (OTel counters are atomic; concurrent histories are some sequence of them: C19_receiver_concurrent; "
        "exercised by the concurrent receiver mode, also under the race detector)",
            "exporter counters sentOf/failedOf/keptOf/enqFailedWfrOf are DEFINITIONS over the C03 LTS state ('items read before the send, "
        "attributed by the final error' is encoded in them, not derived from a model of obsReportSender/obsQueue); their tie to the code "
        "is the differential: `obs counters` (trace-level predict, every case) and `prop lts` (counters of the replayed LTS state, skipped "
        "for queue-less exporters and non-returning shutdowns: see input_distribution lts_replayable / lts_not_replayable)",
        "refused offers are outside the C03 LTS; the three-counter theorems are over XState (LTS state + given + refused items)",
        "partial failures (Request.OnError narrowing) are generated and the counters diffed; in the LTS a flight keeps the items read "
        "before the first attempt (that IS what obsReportSender counts) and only counts attempts",
        "persistent-queue balance and wait_for_result balance are proved only in _partial form (open findings, kernel-checked "
        "counterexamples of the full statements); the memory-queue balance is proved in full for the repaired code (offers refused after stop)",
        "gauges: capacity gauge = configured capacity is compared on every reading but has no theorem (Capacity() returns a constant; the "
        "callback wiring is not extracted by a translator); size gauge theorem for the memory queue only (unique item ids, non-empty "
        "requests); readings are SAMPLED at quiescent instants (before every second send and before Shutdown; ~73% comparable with the "
        "ledger); after Shutdown the gauges are unregistered; persistent-queue Size() (reset when drained) compared only when nothing is outstanding",
        "C19_gauge_size is an arithmetic identity about the add/onDone fold, kept from round 1; the tie of the size gauge is C19_gauge_lts + prop gaugelts",
        "attribute sets of the exporter/receiver/processor counters are summed over all data points (ids/transport not compared); "
        "obsconsumer compares exact attribute sets",
    ],
)
