from ..runner import Harness, Spec
from ..translate import go_translator

SPEC = Spec(
    pid="C20",
    lean_modules=["OtelVerif.Props.C20"],
    # shape fact: every close(<x>.shutdownChan) in otelcol/ is under a deferred recover() or sync.Once (C20_close_is_recovered)
    translators=[go_translator("shutdownshape", "OtelVerif/Gen/ShutdownShape.lean"),
                 # state constants, state writers, setCollectorState sites, guard truth table, call order of the lifecycle
                 # functions, signal registrations, select branches (C20_*_match_source, C20_every_transition_in_fsm)
                 go_translator("collectorfsm", "OtelVerif/Gen/CollectorFsm.lean")],
    harnesses=[
        # deterministic, gated histories: exact differential (D) against the LTS + Lean trace monitor (M) + Go oracles
        Harness(name="runloop", module="otelcol", pkg="otelcol",
                files={"zz_verif_c20_runloop_test.go": "c20/runloop_test.go"},
                test="TestVerifC20RunLoop", driver="drv_c20", n={"quick": 4000, "thorough": 30000}, timeout_s=1500),
        # exhaustive small scope: every script over the gate alphabet up to length n (3 anchors), same protocol and model
        Harness(name="exhaustive", module="otelcol", pkg="otelcol",
                files={"zz_verif_c20_runloop_test.go": "c20/runloop_test.go", "zz_verif_c20_exhaustive_test.go": "c20/exhaustive_test.go"},
                test="TestVerifC20Exhaustive", driver="drv_c20", n={"quick": 3, "thorough": 5}, timeout_s=1500),
        # tight concurrent-Shutdown stress: min(4, GOMAXPROCS) callers through a spin barrier (monitored only)
        Harness(name="stress", module="otelcol", pkg="otelcol",
                files={"zz_verif_c20_runloop_test.go": "c20/runloop_test.go", "zz_verif_c20_concurrent_test.go": "c20/concurrent_test.go"},
                test="TestVerifC20ConcurrentShutdown", driver="drv_c20", n={"quick": 400, "thorough": 3000}, timeout_s=1500),
        # provider goroutines log through the ProviderSettings logger while start-up and reloads swap its core (monitored only)
        Harness(name="provlog", module="otelcol", pkg="otelcol",
                files={"zz_verif_c20_runloop_test.go": "c20/runloop_test.go", "zz_verif_c20_providerlog_test.go": "c20/providerlog_test.go"},
                test="TestVerifC20ProviderLogs", driver="drv_c20", n={"quick": 8, "thorough": 60}, timeout_s=1500),
        # provider goroutines notify the REAL resolver in bursts (change / error) during start-up, reloads, Running (monitored only)
        Harness(name="watchburst", module="otelcol", pkg="otelcol",
                files={"zz_verif_c20_runloop_test.go": "c20/runloop_test.go", "zz_verif_c20_watchburst_test.go": "c20/watchburst_test.go"},
                test="TestVerifC20WatchBursts", driver="drv_c20", n={"quick": 150, "thorough": 1200}, timeout_s=1500),
        # gated histories with signals delivered by the OPERATING SYSTEM (kill(getpid())): exact differential against the signal
        # layer fireS (registrations of Run, DisableGracefulShutdown, FIFO channel of capacity 3, signal.Stop) + Go oracles
        Harness(name="signals", module="otelcol", pkg="otelcol",
                files={"zz_verif_c20_runloop_test.go": "c20/runloop_test.go", "zz_verif_c20_signals_test.go": "c20/signals_test.go"},
                test="TestVerifC20Signals", driver="drv_c20", n={"quick": 600, "thorough": 4000}, timeout_s=1500),
        # native scheduling, no gates: monitored only (M)
        Harness(name="race", module="otelcol", pkg="otelcol",
                files={"zz_verif_c20_runloop_test.go": "c20/runloop_test.go"},
                test="TestVerifC20Race", driver="drv_c20", n={"quick": 700, "thorough": 5000}, timeout_s=1500),
    ],
    rule="runloop: the real otelcol.Collector (real ConfigProvider/confmap.Resolver, real service.Service) with an instrumented "
         "confmap provider and instrumented receiver/exporter/extension factories; the Run goroutine is parked at gates inside the "
         "hooks (provider Retrieve, exporter Start, exporter Shutdown, provider Shutdown) while a random walk performs external "
         "events (Shutdown() from 1-3 goroutines, SIGHUP/SIGTERM via signalsChannel, watch ok/error via the resolver's watcher func, "
         "async error via asyncErrorChannel, a component's StatusFatalError reported through the REAL host — from a goroutine of the "
         "started exporter at any gate / in the select, or synchronously from inside its Start —, ctx cancel; signals are offered "
         "with a non-blocking send like os/signal does, also beyond the channel's capacity of 3, where they are dropped and nothing "
         "must happen) before Run, at every gate, in the select and after Run returned, and picks "
         "failing outcomes (Retrieve / create / Start / component Shutdown / provider Shutdown) with probability 1/8 per step; "
         "4-27 labels per history, then finished with ok outcomes; case 0 is the corpus witness (SIGHUP, Shutdown() while Closing), "
         "cases 1-3 the fatal-report witnesses (SIGTERM taken then FatalError; SIGHUP taken then FatalError; FatalError twice). "
         "`op shutdown k` (k callers through a spin barrier) is replayed on the model as k guard reads followed by the closes, i.e. "
         "through states with several callers past the guard. "
         "Every label is an `op`, the observable state (GetState, shutdownChan closed?, generation, live generations, per-generation "
         "service shutdown count, provider shutdown count, Run's result) after it is diffed exactly with the model; the select branch "
         "taken is read from the service log and fed to the model, which checks it was enabled; a further gate sits in the log hook "
         "right after the select receive (state still Running, Run committed to the branch). non-trivial = at least one reload; "
         "distinct = distinct op sequence. exhaustive: every script over the gate alphabet {go, fail, shutdown, hup, term, watch, "
         "watcherr, async, cancel, fatal} of length <= n (quick 3, thorough 5) from three anchors (not started; Running idle in the select; "
         "select has just received SIGHUP), breadth first, only tokens applicable where the parent script ended, completed with ok "
         "outcomes; case id = the script in base-11 digits; same protocol, model and oracles. race: no gates, every hook (Factories, "
         "Retrieve, each component Start/Shutdown, provider Shutdown, the log hook right after the select receive) is a yield point "
         "sleeping 0-0.3 ms, 1-4 reload triggers and 1-3 Shutdown() calls (1/3 of "
         "the cases plus SIGTERM / async error / cancel) from goroutines with random 0-3 ms delays; the event log is checked by the "
         "Lean monitor C20.check (proved sound: C20_check_sound) and by a Go oracle (rest in select with the request dropped); "
         "non-trivial = at least one reload happened; distinct = distinct scenario descriptor. stress: min(4, GOMAXPROCS) "
         "Shutdown() callers released through a spin barrier on fresh collectors (20-59 trials each, shutdownChan re-made between "
         "trials) and, every 4th case, on a Running collector (one trial, then Run must return); a panic in a caller is "
         "C20/shutdown/concurrent-call-panicked (Go oracle and Lean-side prop callsafe); Shutdown() from k>=2 goroutines in the "
         "gated and race harnesses also goes through the spin barrier. provlog: min(8, GOMAXPROCS) goroutines log continuously "
         "through the logger NewCollector hands to providers/converters (collectorCore) from before Run through start-up and 30-69 "
         "reloads (watch notification / SIGHUP alternating, each must return to Running), then Shutdown(); watchdog 4 s per step -> "
         "C20/runloop/run-wedged-while-provider-logs; end state Closed / provider shut down once / trace monitor. watchburst: ungated, every hook a yield point; goroutines of the test provider call the REAL resolver's "
         "watcher func in 1-3 bursts of 1-3 notifications (change / watch error; patterns c, cc, cE, E, ccE, cEc, Ec, ccc) placed during "
         "start-up, while a reload is in progress and while Running; verdict on the SET sent: any error => Run returns within 4 s, "
         "Closed, provider once (C20/runloop/watch-error-notification-lost); only changes => all consumed, Running again, then "
         "Shutdown() returns. In the gated/exhaustive harnesses watch notifications are also sent by provider goroutines, up to 3 "
         "outstanding (corpus cases 4, 5). A Run goroutine "
         "that stops making progress in a gated history while a FatalError report has not come back is "
         "C20/runloop/run-wedged-while-fatal-error-report-pending. "
         "Second session: corpus case 6 = a component reports RecoverableError and then FatalError while the collector idles in the "
         "select (C20/runloop/fatal-error-report-never-received); in about half of the histories every FatalError report is preceded by "
         "a RecoverableError report of the same component. Failing set-up outcomes now also include a configuration that does not pass xconfmap.Validate (pipeline "
         "references an exporter that is not configured) and one that does not unmarshal (unknown section) besides a failing "
         "Retrieve / component create. Every harness: the sampled state word (one `tr st` per change) must be a path of the "
         "lifecycle FSM (Lean prop fsm, C20/state/transition-outside-fsm, sound by C20_fsm_check_sound). signals: the gated "
         "random walk of runloop with SIGHUP / SIGTERM / SIGINT delivered by the OPERATING SYSTEM (kill(getpid(), sig); the test "
         "keeps its own registration so that the process survives; a SIGUSR1 marker through os/signal's single dispatch goroutine "
         "tells when delivery is complete) before Run, during the initial set-up, at every gate, in the select, beyond the channel "
         "capacity and after Run returned, DisableGracefulShutdown on in half of the cases, Collector.DryRun (valid / invalid "
         "configuration) before Run in a quarter; the model is the signal layer fireS (registrations read off the regenerated "
         "signal.Notify calls, FIFO channel of the regenerated capacity, signal.Stop) around the same LTS; the observation is the "
         "core observation plus len(signalsChannel), diffed exactly after every label; Go oracles: a received SIGINT/SIGTERM must "
         "lead to the provider-shutdown gate (C20/signal/termination-signal-did-not-stop), a received SIGHUP to the retiring "
         "service's shutdown gate (C20/signal/sighup-stopped-the-collector), a registered signal that entered the channel must be "
         "acted on (C20/signal/registered-signal-not-acted-on), DryRun must leave state Starting / nothing started / channel "
         "untouched (C20/dryrun/changed-collector-state); cases 0-5 are corpus scripts; non-trivial = a signal entered the channel "
         "and another one was dropped or not registered. After the random cases the same test enumerates EVERY script over {go, fail, "
         "OS SIGHUP, OS SIGTERM, OS SIGINT, Shutdown()} of length <= 3 (thorough 5) from the anchor Running-idle-in-the-select, for "
         "DisableGracefulShutdown off and on, breadth first, only applicable tokens (case id = 1000000 + dg*400000000 + script in "
         "base-7 digits; replays alone).",
    trusted_base=[
        "Lean 4.33.0 kernel; axioms per theorem listed under axioms_per_theorem (subset of propext, Classical.choice, Quot.sound)",
        "hand-written LTS of otelcol/collector.go (Run, setupConfigurationComponents, reloadConfiguration, shutdown, Shutdown) in "
        "Model/C20.lean, one label per statement of the Run goroutine; tied by exact differential on every run at the granularity "
        "of the harness gates, finer interleavings only monitored (race harness)",
        "termination of every call the Run goroutine makes (Factories, configProvider.Get/Shutdown, service.New/Start/Shutdown) is "
        "built into the model (single always-enabled fallible steps): C20_run_never_stuck is definitional and C20_stop_returns "
        "rests on it; on the real code a watchdog observes it per step. The one collector-made hang of service.Start/Shutdown "
        "(FatalError report under the status reporter's lock) is modelled, refuted for the unrepaired host and repaired",
        "that Service.Shutdown shuts every component down exactly once ALSO when it returns an error is imported from C10 "
        "(C10_exactly_once, C10_stop_failure, for every set of failing shutdowns): svcShutdown removes the generation from `live` "
        "whatever the outcome; `expand` takes C10's component-level shape as its definition; the real component-level logs are "
        "judged by the same monitor without that assumption",
        "Go runtime: channel/select semantics (a ready branch is eventually taken; closed channel stays ready), atomic state word, "
        "recover of the double close; modelled, not verified",
        "service.Service.Start/Shutdown and confmap.Resolver are exercised for real but modelled as single fallible steps; that "
        "service.Shutdown shuts every started component down is C10's statement, observed here by the component-level trace monitor",
        "translator translators/cmd/shutdownshape (go/ast): for every close(<x>.shutdownChan) in the non-test files of otelcol/ "
        "records whether a deferred recover() precedes it in the same function or it sits inside <sync.Once field>.Do; "
        "that recover()/sync.Once make a double close harmless is Go semantics (trusted)",
        "the harness's reading of which select branch was taken comes from the collector's own log messages (zap hook)",
        "in the runloop/exhaustive/race harnesses OS signal delivery (signal.Notify) is replaced by sends on Collector.signalsChannel; "
        "the signals harness delivers real signals (kill to the own process) through os/signal and the collector's own "
        "registrations, tied exactly to the signal layer fireS (Model/C20Sig.lean). Trusted there: os/signal dispatches signals "
        "one at a time from one goroutine with non-blocking sends (the SIGUSR1 marker relies on it); real config providers are "
        "replaced by an instrumented one",
        "translator translators/cmd/collectorfsm (go/ast + go/printer for condition texts, stdlib only): State constants, state "
        "writers, setCollectorState sites, truth table of the Shutdown() guard, call order of the lifecycle functions, signal.Notify "
        "registrations / deferred signal.Stop, channel capacities (NewCollector, confmap.NewResolver), shape of Run's select branches, "
        "shape of the send in Resolver.onChange and Host.NotifyComponentStatusChange; exit 2 on any shape it does not know. The Lean "
        "side computes the same facts FROM THE MODEL (stepRun/pickEv on probe states) and proves them equal (C20_*_match_source)",
        "the mapping program point -> Go function (Pc.func) and event -> call name (TEv.callName) in Lemmas/C20Fsm.lean is hand-written "
        "(13 + 5 lines); everything else in the source tie is computed",
    ],
    assumptions=[
        "fairness is now an explicit hypothesis of the liveness theorems (RunMaximal: the history is not cut short while the Run "
        "goroutine can move; finite history = a finite label list): C20_liveness_under_fairness, "
        "C20_stop_request_under_fairness_returns, C20_run_goroutine_work_is_bounded (ranking function mu), "
        "C20_fair_completion_exists. Still assumed, not proved: that the Go scheduler and select ARE fair in that sense, and that a "
        "goroutine inside Shutdown() eventually executes its close",
        "provider notifications go through the REAL confmap.Resolver (the test provider's goroutines call the WatcherFunc handed to "
        "Retrieve): up to 3 outstanding in the gated/exhaustive harnesses, bursts of 1-3 in the watchburst harness; the model keeps every "
        "outstanding notification (lossless, C20_watch_error_never_lost). A provider never notifies once the run is committed to the "
        "provider's Shutdown; a sender still blocked when Shutdown closes the channel panics in the provider's goroutine (counted, "
        "recovered by the harness) - excluded from the statement by the provider contract",
        "Run is called at most once per Collector (documented)",
        "channels: in the core LTS a `post hup/term` is a signal that ENTERED signalsChannel; the step before it — registration "
        "window (after the initial set-up until Run returns), DisableGracefulShutdown, capacity 3 with non-blocking hand-over, FIFO "
        "order — is modelled by the signal layer (C20_sig_*) and exercised with real signals. A signal that arrives before Running "
        "is first reached, after Run returned, or behind three pending ones never reaches the collector: what the PROCESS then does "
        "(default disposition) is the embedding program's business, outside the statement; watcher channel capacity 1 with a BLOCKING send: a further "
        "notification waits in the provider's goroutine (outstanding in the model, exercised for real) and panics there if the "
        "provider is shut down meanwhile — excluded by the provider contract; asyncErrorChannel unbuffered: direct senders and component reports are "
        "pending senders (repaired host: the report's hand-over goroutine; it never holds up the component or the status reporter)",
        "wall-clock waits of the harnesses are load-tolerant: a deadline (3-5 s) is extended up to 20x while any goroutine of the test "
        "process can still make progress and expires early only when all of them are blocked (goroutine dump, 3 samples): a slow machine "
        "is not a hang; extended waits are counted (stat gate_retry)",
        "components and providers themselves terminate: a Start/Shutdown/Retrieve that blocks forever is outside model and harness",
        "interleavings below gate granularity (and two Shutdown() callers between guard read and close on the REAL code) are "
        "monitored (race / stress harness, sampled schedules), not compared exactly; the theorems cover them",
        "a failed reload returns from Run without passing through shutdown (state stays Starting/Closing, providers not shut down): "
        "modelled as is; the statement's Closed clause lists other stop reasons, so this is recorded, not flagged",
    ],
)
