from ..runner import Harness, Spec
from ..translate import go_translator

SPEC = Spec(
    pid="C20",
    lean_modules=["OtelVerif.Props.C20"],
    # shape fact: every close(<x>.shutdownChan) in otelcol/ is under a deferred recover() or sync.Once (C20_close_is_recovered)
    translators=[go_translator("shutdownshape", "OtelVerif/Gen/ShutdownShape.lean")],
    harnesses=[
        # deterministic, gated histories: exact differential (D) against the LTS + Lean trace monitor (M) + Go oracles
        Harness(name="runloop", module="otelcol", pkg="otelcol",
                files={"zz_verif_c20_runloop_test.go": "c20/runloop_test.go"},
                test="TestVerifC20RunLoop", driver="drv_c20", n={"quick": 4000, "thorough": 30000}, timeout_s=1500),
        # exhaustive small scope: every script over the gate alphabet up to length n (3 anchors), same protocol and model
        Harness(name="exhaustive", module="otelcol", pkg="otelcol",
                files={"zz_verif_c20_runloop_test.go": "c20/runloop_test.go", "zz_verif_c20_exhaustive_test.go": "c20/exhaustive_test.go"},
                test="TestVerifC20Exhaustive", driver="drv_c20", n={"quick": 3, "thorough": 5}, timeout_s=1500),
        # tight concurrent-Shutdown stress: min(4, GOMAXPROCS) callers through a spin barrier (monitored only)
        Harness(name="stress", module="otelcol", pkg="otelcol",
                files={"zz_verif_c20_runloop_test.go": "c20/runloop_test.go", "zz_verif_c20_concurrent_test.go": "c20/concurrent_test.go"},
                test="TestVerifC20ConcurrentShutdown", driver="drv_c20", n={"quick": 400, "thorough": 4000}, timeout_s=1500),
        # provider goroutines log through the ProviderSettings logger while start-up and reloads swap its core (monitored only)
        Harness(name="provlog", module="otelcol", pkg="otelcol",
                files={"zz_verif_c20_runloop_test.go": "c20/runloop_test.go", "zz_verif_c20_providerlog_test.go": "c20/providerlog_test.go"},
                test="TestVerifC20ProviderLogs", driver="drv_c20", n={"quick": 8, "thorough": 60}, timeout_s=1500),
        # provider goroutines notify the REAL resolver in bursts (change / error) during start-up, reloads, Running (monitored only)
        Harness(name="watchburst", module="otelcol", pkg="otelcol",
                files={"zz_verif_c20_runloop_test.go": "c20/runloop_test.go", "zz_verif_c20_watchburst_test.go": "c20/watchburst_test.go"},
                test="TestVerifC20WatchBursts", driver="drv_c20", n={"quick": 150, "thorough": 1200}, timeout_s=1500),
        # native scheduling, no gates: monitored only (M)
        Harness(name="race", module="otelcol", pkg="otelcol",
                files={"zz_verif_c20_runloop_test.go": "c20/runloop_test.go"},
                test="TestVerifC20Race", driver="drv_c20", n={"quick": 700, "thorough": 5000}, timeout_s=1500),
    ],
    rule="runloop: the real otelcol.Collector (real ConfigProvider/confmap.Resolver, real service.Service) with an instrumented "
         "confmap provider and instrumented receiver/exporter/extension factories; the Run goroutine is parked at gates inside the "
         "hooks (provider Retrieve, exporter Start, exporter Shutdown, provider Shutdown) while a random walk performs external "
         "events (Shutdown() from 1-3 goroutines, SIGHUP/SIGTERM via signalsChannel, watch ok/error via the resolver's watcher func, "
         "async error via asyncErrorChannel, a component's StatusFatalError reported through the REAL host — from a goroutine of the "
         "started exporter at any gate / in the select, or synchronously from inside its Start —, ctx cancel; signals are offered "
         "with a non-blocking send like os/signal does, also beyond the channel's capacity of 3, where they are dropped and nothing "
         "must happen) before Run, at every gate, in the select and after Run returned, and picks "
         "failing outcomes (Retrieve / create / Start / component Shutdown / provider Shutdown) with probability 1/8 per step; "
         "4-27 labels per history, then finished with ok outcomes; case 0 is the corpus witness (SIGHUP, Shutdown() while Closing), "
         "cases 1-3 the fatal-report witnesses (SIGTERM taken then FatalError; SIGHUP taken then FatalError; FatalError twice). "
         "`op shutdown k` (k callers through a spin barrier) is replayed on the model as k guard reads followed by the closes, i.e. "
         "through states with several callers past the guard. "
         "Every label is an `op`, the observable state (GetState, shutdownChan closed?, generation, live generations, per-generation "
         "service shutdown count, provider shutdown count, Run's result) after it is diffed exactly with the model; the select branch "
         "taken is read from the service log and fed to the model, which checks it was enabled; a further gate sits in the log hook "
         "right after the select receive (state still Running, Run committed to the branch). non-trivial = at least one reload; "
         "distinct = distinct op sequence. exhaustive: every script over the gate alphabet {go, fail, shutdown, hup, term, watch, "
         "watcherr, async, cancel, fatal} of length <= n (quick 3, thorough 5) from three anchors (not started; Running idle in the select; "
         "select has just received SIGHUP), breadth first, only tokens applicable where the parent script ended, completed with ok "
         "outcomes; case id = the script in base-11 digits; same protocol, model and oracles. race: no gates, every hook (Factories, "
         "Retrieve, each component Start/Shutdown, provider Shutdown, the log hook right after the select receive) is a yield point "
         "sleeping 0-0.3 ms, 1-4 reload triggers and 1-3 Shutdown() calls (1/3 of "
         "the cases plus SIGTERM / async error / cancel) from goroutines with random 0-3 ms delays; the event log is checked by the "
         "Lean monitor C20.check (proved sound: C20_check_sound) and by a Go oracle (rest in select with the request dropped); "
         "non-trivial = at least one reload happened; distinct = distinct scenario descriptor. stress: min(4, GOMAXPROCS) "
         "Shutdown() callers released through a spin barrier on fresh collectors (20-59 trials each, shutdownChan re-made between "
         "trials) and, every 4th case, on a Running collector (one trial, then Run must return); a panic in a caller is "
         "C20/shutdown/concurrent-call-panicked (Go oracle and Lean-side prop callsafe); Shutdown() from k>=2 goroutines in the "
         "gated and race harnesses also goes through the spin barrier. provlog: min(8, GOMAXPROCS) goroutines log continuously "
         "through the logger NewCollector hands to providers/converters (collectorCore) from before Run through start-up and 30-69 "
         "reloads (watch notification / SIGHUP alternating, each must return to Running), then Shutdown(); watchdog 4 s per step -> "
         "C20/runloop/run-wedged-while-provider-logs; end state Closed / provider shut down once / trace monitor. watchburst: ungated, every hook a yield point; goroutines of the test provider call the REAL resolver's "
         "watcher func in 1-3 bursts of 1-3 notifications (change / watch error; patterns c, cc, cE, E, ccE, cEc, Ec, ccc) placed during "
         "start-up, while a reload is in progress and while Running; verdict on the SET sent: any error => Run returns within 4 s, "
         "Closed, provider once (C20/runloop/watch-error-notification-lost); only changes => all consumed, Running again, then "
         "Shutdown() returns. In the gated/exhaustive harnesses watch notifications are also sent by provider goroutines, up to 3 "
         "outstanding (corpus cases 4, 5). A Run goroutine "
         "that stops making progress in a gated history while a FatalError report has not come back is "
         "C20/runloop/run-wedged-while-fatal-error-report-pending.",
    trusted_base=[
        "Lean 4.33.0 kernel; axioms per theorem listed under axioms_per_theorem (subset of propext, Classical.choice, Quot.sound)",
        "hand-written LTS of otelcol/collector.go (Run, setupConfigurationComponents, reloadConfiguration, shutdown, Shutdown) in "
        "Model/C20.lean, one label per statement of the Run goroutine; tied by exact differential on every run at the granularity "
        "of the harness gates, finer interleavings only monitored (race harness)",
        "termination of every call the Run goroutine makes (Factories, configProvider.Get/Shutdown, service.New/Start/Shutdown) is "
        "built into the model (single always-enabled fallible steps): C20_run_never_stuck is definitional and C20_stop_returns "
        "rests on it; on the real code a watchdog observes it per step. The one collector-made hang of service.Start/Shutdown "
        "(FatalError report under the status reporter's lock) is modelled, refuted for the unrepaired host and repaired",
        "that Service.Shutdown shuts every component down exactly once ALSO when it returns an error is imported from C10 "
        "(C10_exactly_once, C10_stop_failure, for every set of failing shutdowns): svcShutdown removes the generation from `live` "
        "whatever the outcome; `expand` takes C10's component-level shape as its definition; the real component-level logs are "
        "judged by the same monitor without that assumption",
        "Go runtime: channel/select semantics (a ready branch is eventually taken; closed channel stays ready), atomic state word, "
        "recover of the double close; modelled, not verified",
        "service.Service.Start/Shutdown and confmap.Resolver are exercised for real but modelled as single fallible steps; that "
        "service.Shutdown shuts every started component down is C10's statement, observed here by the component-level trace monitor",
        "translator translators/cmd/shutdownshape (go/ast): for every close(<x>.shutdownChan) in the non-test files of otelcol/ "
        "records whether a deferred recover() precedes it in the same function or it sits inside <sync.Once field>.Do; "
        "that recover()/sync.Once make a double close harmless is Go semantics (trusted)",
        "the harness's reading of which select branch was taken comes from the collector's own log messages (zap hook)",
        "OS signal delivery (signal.Notify) is replaced by sends on Collector.signalsChannel; real config providers by an instrumented one",
    ],
    assumptions=[
        "fairness for the liveness statements (C20_stop_returns, C20_shutdown_honoured): the Run goroutine and a goroutine inside "
        "Shutdown() are eventually scheduled; the history of external events is finite",
        "provider notifications go through the REAL confmap.Resolver (the test provider's goroutines call the WatcherFunc handed to "
        "Retrieve): up to 3 outstanding in the gated/exhaustive harnesses, bursts of 1-3 in the watchburst harness; the model keeps every "
        "outstanding notification (lossless, C20_watch_error_never_lost). A provider never notifies once the run is committed to the "
        "provider's Shutdown; a sender still blocked when Shutdown closes the channel panics in the provider's goroutine (counted, "
        "recovered by the harness) - excluded from the statement by the provider contract",
        "Run is called at most once per Collector (documented)",
        "channels are idealised as pending counters: a `post hup/term` is a signal that ENTERED signalsChannel (capacity 3; a signal "
        "arriving while three are pending is dropped by os/signal before it reaches the collector — OS signal delivery, outside the "
        "statement's reach; the harness offers such signals and checks nothing happens); watcher channel capacity 1 with a BLOCKING send: a further "
        "notification waits in the provider's goroutine (outstanding in the model, exercised for real) and panics there if the "
        "provider is shut down meanwhile — excluded by the provider contract; asyncErrorChannel unbuffered: direct senders and component reports are "
        "pending senders (repaired host: the report's hand-over goroutine; it never holds up the component or the status reporter)",
        "components and providers themselves terminate: a Start/Shutdown/Retrieve that blocks forever is outside model and harness",
        "interleavings below gate granularity (and two Shutdown() callers between guard read and close on the REAL code) are "
        "monitored (race / stress harness, sampled schedules), not compared exactly; the theorems cover them",
        "a failed reload returns from Run without passing through shutdown (state stays Starting/Closing, providers not shut down): "
        "modelled as is; the statement's Closed clause lists other stop reasons, so this is recorded, not flagged",
    ],
)
