from ..runner import Harness, Spec

SPEC = Spec(
    pid="C20",
    lean_modules=["OtelVerif.Props.C20"],
    harnesses=[
        Harness(name="runloop", module="otelcol", pkg="otelcol",
                files={"zz_verif_c20_runloop_test.go": "c20/runloop_test.go"},
                test="TestVerifC20RunLoop", driver="drv_c20", n={"quick": 1500, "thorough": 20000}, timeout_s=1500),
    ],
    rule="det",
    trusted_base=[],
    assumptions=[],
)
